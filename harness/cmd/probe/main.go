package main

import (
	"fmt"
	"os"

	NoKV "github.com/feichai0017/NoKV"
	"verif/harness/internal/dbx"
)

func dump(db *NoKV.DB, tag string) {
	txn := db.NewTransaction(false)
	defer txn.Discard()
	s := ""
	for i := 0; i < 5; i++ {
		it, err := txn.Get([]byte(fmt.Sprintf("k%d", i)))
		if err != nil {
			s += fmt.Sprintf(" k%d=<%v>", i, err)
			continue
		}
		v, _ := it.ValueCopy(nil)
		n := len(v)
		if n > 4 {
			n = 4
		}
		s += fmt.Sprintf(" k%d=%s@%d", i, v[:n], it.Entry().Version)
	}
	nx, t, r := db.VerifOracleState()
	fmt.Println(tag, "readTs", txn.ReadTs(), "next", nx, "txnDone", t, "readDone", r, "maxver", db.VerifLSM().MaxVersion(), dbx.LayoutShape(db), s)
}

func main() {
	dir, _ := os.MkdirTemp("", "probe")
	defer os.RemoveAll(dir)
	cfg := dbx.Config{Engine: "skiplist", ValueThreshold: 32, Buckets: 1, VlogFileSize: 8 << 10, Controlled: true, MemTableSize: 2 << 10, L0Tables: 2, ManifestRewrite: 512, DetectConflicts: true}
	db, err := dbx.OpenCfg(cfg, dir)
	if err != nil {
		panic(err)
	}
	for i := 0; i < 30; i++ {
		txn := db.NewTransaction(true)
		_ = txn.Set([]byte(fmt.Sprintf("k%d", i%5)), dbx.Value(fmt.Sprintf("%d|", i), 40+i*100))
		if err := txn.Commit(); err != nil {
			panic(err)
		}
	}
	dump(db, "initial")
	for _, a := range os.Args[1:] {
		if a == "reopen" {
			db.Close()
			db, err = dbx.OpenCfg(cfg, dir)
			if err != nil {
				panic(err)
			}
			dump(db, "reopen")
			continue
		}
		res := dbx.DoAction(db, a)
		dump(db, fmt.Sprintf("%s(%v,%v)", a, res.Effect, res.Err))
	}
	db.Close()
}
