// Command vcheck is the single binary of the NoKV runtime-monitoring harness.
//
//	vcheck run <Cnn> <quick|thorough>          parent: shard cases over children, write evidence
//	vcheck child <Cnn> <tier> <seed> <shard> <nshards> <scratch> <out>
//	vcheck replay <path>
//	vcheck worker <name> args...               helper processes of individual checks
//	vcheck list
package main

import (
	"fmt"
	"os"
	"strconv"

	_ "verif/harness/checks"
	"verif/harness/internal/core"
)

func seedFromEnv() int64 {
	if v := os.Getenv("VERIF_SEED"); v != "" {
		if n, err := strconv.ParseInt(v, 10, 64); err == nil {
			return n
		}
	}
	return 1
}

func main() {
	if len(os.Args) < 2 {
		fmt.Fprintln(os.Stderr, "usage: vcheck run|child|replay|worker|list ...")
		os.Exit(2)
	}
	switch os.Args[1] {
	case "list":
		for _, id := range core.IDs() {
			fmt.Println(id)
		}
	case "info":
		ch := core.Lookup(os.Args[2])
		if ch == nil {
			fmt.Println("unknown")
			os.Exit(2)
		}
		fmt.Printf("race=%v bins=%v\n", ch.Race, ch.NeedsBins)
	case "run":
		if len(os.Args) < 4 {
			fmt.Fprintln(os.Stderr, "usage: vcheck run <Cnn> <tier>")
			os.Exit(2)
		}
		childBin, _ := os.Executable()
		if ch := core.Lookup(os.Args[2]); ch != nil && ch.Race {
			if rb := os.Getenv("VCHECK_RACE_BIN"); rb != "" {
				childBin = rb
			}
		}
		os.Exit(core.ParentMain(os.Args[2], os.Args[3], seedFromEnv(), childBin))
	case "child":
		a := os.Args[2:]
		if len(a) < 7 {
			os.Exit(2)
		}
		seed, _ := strconv.ParseInt(a[2], 10, 64)
		shard, _ := strconv.Atoi(a[3])
		n, _ := strconv.Atoi(a[4])
		os.Exit(core.ChildMain(a[0], a[1], seed, shard, n, a[5], a[6]))
	case "replay":
		os.Exit(core.ReplayMain(os.Args[2]))
	case "worker":
		if len(os.Args) < 3 {
			os.Exit(2)
		}
		w := core.LookupWorker(os.Args[2])
		if w == nil {
			fmt.Fprintln(os.Stderr, "unknown worker", os.Args[2])
			os.Exit(2)
		}
		os.Exit(w(os.Args[3:]))
	default:
		fmt.Fprintln(os.Stderr, "unknown command", os.Args[1])
		os.Exit(2)
	}
}
