package c30

import (
	"encoding/json"
	"fmt"
	"net"
	"os"
	"os/exec"
	"path/filepath"
	"strconv"
	"strings"
	"syscall"
	"time"

	"verif/harness/internal/core"
	"verif/harness/internal/redisx"
)

// A real local cluster exactly as scripts/run_local_cluster.sh builds it:
// manifests seeded with nokv-config, one `nokv pd`, three `nokv serve`, and
// nokv-redis --raft-config in front. All processes are children of this case
// and are killed when it ends.

type proc struct {
	name string
	cmd  *exec.Cmd
	log  string
	done chan struct{}
}

func startProc(name, logPath, dir, bin string, args ...string) (*proc, error) {
	lf, err := os.Create(logPath)
	if err != nil {
		return nil, err
	}
	cmd := exec.Command(bin, args...)
	cmd.Dir = dir
	cmd.Stdout, cmd.Stderr = lf, lf
	cmd.SysProcAttr = &syscall.SysProcAttr{Pdeathsig: syscall.SIGKILL}
	if err := cmd.Start(); err != nil {
		lf.Close()
		return nil, err
	}
	lf.Close()
	p := &proc{name: name, cmd: cmd, log: logPath, done: make(chan struct{})}
	go func() { _ = cmd.Wait(); close(p.done) }()
	return p, nil
}

func (p *proc) alive() bool {
	select {
	case <-p.done:
		return false
	default:
		return true
	}
}

func (p *proc) stop() {
	if !p.alive() {
		return
	}
	_ = p.cmd.Process.Signal(syscall.SIGINT)
	select {
	case <-p.done:
	case <-time.After(10 * time.Second):
		_ = p.cmd.Process.Kill()
		<-p.done
	}
}

func (p *proc) tail(n int) string {
	b, _ := os.ReadFile(p.log)
	if len(b) > n {
		b = b[len(b)-n:]
	}
	return string(b)
}

func freePorts(n int) ([]int, error) {
	var ls []net.Listener
	var ports []int
	defer func() {
		for _, l := range ls {
			l.Close()
		}
	}()
	for i := 0; i < n; i++ {
		l, err := net.Listen("tcp", "127.0.0.1:0")
		if err != nil {
			return nil, err
		}
		ls = append(ls, l)
		ports = append(ports, l.Addr().(*net.TCPAddr).Port)
	}
	return ports, nil
}

func waitPort(addr string, p *proc, d time.Duration) error {
	deadline := time.Now().Add(d)
	for time.Now().Before(deadline) {
		if !p.alive() {
			return fmt.Errorf("%s exited during start-up:\n%s", p.name, p.tail(1500))
		}
		c, err := net.DialTimeout("tcp", addr, time.Second)
		if err == nil {
			c.Close()
			return nil
		}
		time.Sleep(50 * time.Millisecond)
	}
	return fmt.Errorf("%s did not listen on %s:\n%s", p.name, addr, p.tail(1500))
}

type cluster struct {
	procs []*proc
	gw    *redisx.Server
}

func (cl *cluster) stop() {
	if cl.gw != nil {
		cl.gw.Stop()
	}
	for i := len(cl.procs) - 1; i >= 0; i-- {
		cl.procs[i].stop()
	}
}

func (cl *cluster) alive() bool {
	for _, p := range cl.procs {
		if !p.alive() {
			return false
		}
	}
	return cl.gw != nil && cl.gw.Alive()
}

func startCluster(dir string) (*cluster, error) {
	bin := redisx.BinDir()
	nokv, nokvConfig := filepath.Join(bin, "nokv"), filepath.Join(bin, "nokv-config")
	for _, b := range []string{nokv, nokvConfig} {
		if _, err := os.Stat(b); err != nil {
			return nil, fmt.Errorf("binary missing: %v", err)
		}
	}
	ports, err := freePorts(4)
	if err != nil {
		return nil, err
	}
	pdAddr := "127.0.0.1:" + strconv.Itoa(ports[0])
	storeAddr := func(i int) string { return "127.0.0.1:" + strconv.Itoa(ports[i]) }
	type peer struct {
		StoreID uint64 `json:"store_id"`
		PeerID  uint64 `json:"peer_id"`
	}
	type region struct {
		ID       uint64            `json:"id"`
		StartKey string            `json:"start_key"`
		EndKey   string            `json:"end_key"`
		Epoch    map[string]uint64 `json:"epoch"`
		Peers    []peer            `json:"peers"`
		Leader   uint64            `json:"leader_store_id"`
	}
	var stores []map[string]any
	for i := 1; i <= 3; i++ {
		stores = append(stores, map[string]any{"store_id": i, "listen_addr": storeAddr(i), "addr": storeAddr(i)})
	}
	regions := []region{
		{ID: 1, StartKey: "", EndKey: "m", Epoch: map[string]uint64{"version": 1, "conf_version": 1}, Peers: []peer{{1, 101}, {2, 201}, {3, 301}}, Leader: 1},
		{ID: 2, StartKey: "m", EndKey: "", Epoch: map[string]uint64{"version": 1, "conf_version": 1}, Peers: []peer{{1, 102}, {2, 202}, {3, 302}}, Leader: 2},
	}
	cfg := map[string]any{
		"max_retries":             5,
		"pd":                      map[string]any{"addr": pdAddr, "work_dir": filepath.Join(dir, "pd")},
		"store_work_dir_template": filepath.Join(dir, "store-{id}"),
		"stores":                  stores,
		"regions":                 regions,
	}
	cfgPath := filepath.Join(dir, "raft_config.json")
	b, _ := json.MarshalIndent(cfg, "", " ")
	if err := os.WriteFile(cfgPath, b, 0o644); err != nil {
		return nil, err
	}
	// seed manifests (scripts/run_local_cluster.sh)
	for i := 1; i <= 3; i++ {
		sd := filepath.Join(dir, fmt.Sprintf("store-%d", i))
		if err := os.MkdirAll(sd, 0o755); err != nil {
			return nil, err
		}
		for _, r := range regions {
			args := []string{"manifest", "--workdir", sd, "--region-id", strconv.FormatUint(r.ID, 10), "--epoch-version", "1", "--epoch-conf-version", "1"}
			if r.StartKey != "" {
				args = append(args, "--start-key", r.StartKey)
			}
			if r.EndKey != "" {
				args = append(args, "--end-key", r.EndKey)
			}
			for _, p := range r.Peers {
				args = append(args, "--peer", fmt.Sprintf("%d:%d", p.StoreID, p.PeerID))
			}
			cmd := exec.Command(nokvConfig, args...)
			if out, err := cmd.CombinedOutput(); err != nil {
				return nil, fmt.Errorf("nokv-config manifest: %v: %s", err, out)
			}
		}
	}
	cl := &cluster{}
	if err := os.MkdirAll(filepath.Join(dir, "pd"), 0o755); err != nil {
		return nil, err
	}
	pd, err := startProc("pd", filepath.Join(dir, "pd.log"), dir, nokv, "pd", "--addr", pdAddr, "--id-start", "1", "--ts-start", "100", "--workdir", filepath.Join(dir, "pd"))
	if err != nil {
		return nil, err
	}
	cl.procs = append(cl.procs, pd)
	if err := waitPort(pdAddr, pd, 30*time.Second); err != nil {
		cl.stop()
		return nil, err
	}
	for i := 1; i <= 3; i++ {
		args := []string{"serve", "--workdir", filepath.Join(dir, fmt.Sprintf("store-%d", i)), "--store-id", strconv.Itoa(i), "--addr", storeAddr(i), "--pd-addr", pdAddr}
		seen := map[uint64]bool{}
		for _, r := range regions {
			for _, p := range r.Peers {
				if int(p.StoreID) != i && !seen[p.PeerID] {
					seen[p.PeerID] = true
					args = append(args, "--peer", fmt.Sprintf("%d=%s", p.PeerID, storeAddr(int(p.StoreID))))
				}
			}
		}
		sp, err := startProc(fmt.Sprintf("store-%d", i), filepath.Join(dir, fmt.Sprintf("store-%d.log", i)), dir, nokv, args...)
		if err != nil {
			cl.stop()
			return nil, err
		}
		cl.procs = append(cl.procs, sp)
	}
	for i := 1; i <= 3; i++ {
		if err := waitPort(storeAddr(i), cl.procs[i], 60*time.Second); err != nil {
			cl.stop()
			return nil, err
		}
	}
	gw, err := redisx.Start(filepath.Join(dir, "gw"), redisx.Opts{NoWorkdir: true, ExtraArgs: []string{"--raft-config", cfgPath}})
	if err != nil {
		cl.stop()
		return nil, err
	}
	cl.gw = gw
	return cl, nil
}

// ready waits until a write and a read go through both regions (leaders
// elected, PD knows the routes). Not reaching readiness is inconclusive.
func (cl *cluster) ready() error {
	deadline := time.Now().Add(90 * time.Second)
	var last string
	for time.Now().Before(deadline) {
		if !cl.alive() {
			return fmt.Errorf("a cluster process exited while warming up")
		}
		c, err := redisx.Dial(cl.gw.Addr, 20*time.Second)
		if err == nil {
			ok := true
			for _, k := range []string{"a-warm", "z-warm"} {
				rep, err := c.DoS("SET", k, "1")
				if err != nil || rep.Kind != '+' {
					ok = false
					last = fmt.Sprintf("SET %s: %v %s", k, err, rep.String())
					break
				}
				rep, err = c.DoS("GET", k)
				if err != nil || rep.Kind != '$' || rep.Null {
					ok = false
					last = fmt.Sprintf("GET %s: %v %s", k, err, rep.String())
					break
				}
			}
			c.Close()
			if ok {
				return nil
			}
		} else {
			last = err.Error()
		}
		time.Sleep(500 * time.Millisecond)
	}
	return fmt.Errorf("cluster not ready: %s", last)
}

func runCluster(c *core.Case) {
	var cl *cluster
	var err error
	for attempt := 0; attempt < 3; attempt++ {
		cl, err = startCluster(c.TempDir())
		if err == nil {
			break
		}
		if !strings.Contains(err.Error(), "address already in use") && !strings.Contains(err.Error(), "exited during start-up") {
			break
		}
	}
	if err != nil {
		c.Inconclusive("cluster start: " + err.Error())
		return
	}
	defer cl.stop()
	if err := cl.ready(); err != nil {
		c.Inconclusive(err.Error())
		return
	}
	drive(c, target{addr: cl.gw.Addr, backend: "raft"}, 6, cl.alive)
	c.Count("cluster_cases_completed", 1)
}
