// Package c30: concurrent Redis clients never lose updates.
//
// The real nokv-redis binary is driven by 8-16 concurrent TCP connections.
// Counter rounds: every connection fires a script of INCR/DECR/INCRBY/DECRBY
// at two fresh counters; afterwards GET must equal the initial value plus the
// deltas of exactly those commands that were answered with an integer.
// NX rounds: all connections send SET k v NX on a fresh absent key at once; at
// most one may be answered OK.
//
// quick: embedded backend. thorough: additionally a real local cluster
// (nokv pd + 3 x nokv serve + nokv-redis --raft-config), see cluster.go.
package c30

import (
	"fmt"
	"math/rand"
	"sort"
	"strconv"
	"sync"
	"time"

	"verif/harness/internal/core"
	"verif/harness/internal/redisx"
)

const watchdog = 90 * time.Second

type op struct {
	cmd   string
	key   int
	delta int64 // signed effect if acknowledged
	arg   string
}

type opResult struct {
	errText string
	acked   bool
	value   int64
	errCls  string
	unknown bool // transport failure: outcome not known
	t0, t1  time.Duration
}

func genOp(r *rand.Rand, key int) op {
	switch r.Intn(4) {
	case 0:
		return op{cmd: "INCR", key: key, delta: 1}
	case 1:
		return op{cmd: "DECR", key: key, delta: -1}
	case 2:
		d := int64(r.Intn(1000) + 1)
		if r.Intn(4) == 0 {
			d = -d
		}
		return op{cmd: "INCRBY", key: key, delta: d, arg: strconv.FormatInt(d, 10)}
	}
	d := int64(r.Intn(1000) + 1)
	return op{cmd: "DECRBY", key: key, delta: -d, arg: strconv.FormatInt(d, 10)}
}

type target struct {
	addr    string
	backend string
}

// counterRound runs one storm and judges conservation. It returns whether
// the round was conclusive.
func counterRound(c *core.Case, tg target, round int, conns []*redisx.Conn, admin *redisx.Conn) {
	r := c.Rng
	keys := []string{fmt.Sprintf("ctr:%d:%d:a", c.Idx, round), fmt.Sprintf("ctr:%d:%d:b", c.Idx, round)}
	initial := []int64{0, 0}
	for i, k := range keys {
		switch r.Intn(4) {
		case 0: // absent counter: starts at 0
		case 3: // absent because it was deleted: the engine holds a tombstone for the key
			r1, e1 := admin.DoS("SET", k, "7")
			r2, e2 := admin.DoS("DEL", k)
			if e1 != nil || e2 != nil || r1.Kind != '+' || r2.Kind != ':' {
				c.Inconclusive(fmt.Sprintf("round %d: SET+DEL of the counter failed: %v %v", round, e1, e2))
				return
			}
			c.Count("counters_starting_deleted", 1)
			continue
		case 1:
			initial[i] = int64(r.Intn(2000) - 1000)
		default:
			initial[i] = r.Int63n(1<<40) - 1<<39
		}
		if initial[i] != 0 || r.Intn(2) == 0 {
			rep, err := admin.DoS("SET", k, strconv.FormatInt(initial[i], 10))
			if err != nil || rep.Kind != '+' {
				c.Inconclusive(fmt.Sprintf("round %d: initial SET failed: %v %s", round, err, rep.String()))
				return
			}
		}
	}
	// per-key operation budget stays below the engine's default hot-key write
	// limit (128 per window) so that most commands are acknowledged; a
	// throttled command replies an error and simply contributes nothing.
	n := len(conns)
	perConn := 80 / n * 2 // ops per connection over both keys => <= 80(+initial SET) writes per key
	if perConn < 4 {
		perConn = 4
	}
	pureIncr := r.Intn(3) == 0
	scripts := make([][]op, n)
	for i := range scripts {
		for j := 0; j < perConn; j++ {
			o := genOp(r, j%2)
			if pureIncr {
				o = op{cmd: "INCR", key: j % 2, delta: 1}
			}
			scripts[i] = append(scripts[i], o)
		}
	}
	results := make([][]opResult, n)
	start := make(chan struct{})
	var wg sync.WaitGroup
	base := time.Now()
	for i := 0; i < n; i++ {
		results[i] = make([]opResult, len(scripts[i]))
		wg.Add(1)
		go func(i int) {
			defer wg.Done()
			<-start
			for j, o := range scripts[i] {
				var rep redisx.Reply
				var err error
				t0 := time.Since(base)
				if o.arg != "" {
					rep, err = conns[i].DoS(o.cmd, keys[o.key], o.arg)
				} else {
					rep, err = conns[i].DoS(o.cmd, keys[o.key])
				}
				res := opResult{t0: t0, t1: time.Since(base)}
				switch {
				case err != nil:
					res.unknown = true
					results[i][j] = res
					for k := j + 1; k < len(scripts[i]); k++ {
						results[i][k] = opResult{errCls: "not-sent"}
					}
					return
				case rep.Kind == ':':
					res.acked, res.value = true, rep.Int
				case rep.Kind == '-':
					res.errCls = redisx.ErrClass(rep.Str)
					res.errText = string(rep.Str)
				default:
					res.errCls = "unexpected-reply:" + rep.Shape()
				}
				results[i][j] = res
			}
		}(i)
	}
	close(start)
	wg.Wait()

	expected := []int64{initial[0], initial[1]}
	acked := []int{0, 0}
	errs := map[string]int{}
	errSamples := map[string]bool{}
	unknown := 0
	type iv struct {
		t0, t1 time.Duration
		conn   int
	}
	var ivs []iv
	for i := range results {
		for j, res := range results[i] {
			o := scripts[i][j]
			switch {
			case res.unknown:
				unknown++
			case res.acked:
				expected[o.key] += o.delta
				acked[o.key]++
				ivs = append(ivs, iv{res.t0, res.t1, i})
			case res.errCls != "":
				errs[res.errCls]++
				if len(errSamples) < 4 && res.errText != "" {
					errSamples[res.errText] = true
				}
			}
		}
	}
	for cls, k := range errs {
		c.Count("counter_replies.err:"+cls, k)
	}
	c.Count("counter_replies.integer", acked[0]+acked[1])
	if unknown > 0 {
		c.Inconclusive(fmt.Sprintf("round %d: %d commands without a reply (transport failure); the sum of acknowledged deltas is not known", round, unknown))
		return
	}
	// measured concurrency: acknowledged commands of different connections
	// whose [send, reply] intervals overlap (coverage only, never a verdict).
	sort.Slice(ivs, func(a, b int) bool { return ivs[a].t0 < ivs[b].t0 })
	overlaps := 0
	for a := 0; a < len(ivs); a++ {
		for b := a + 1; b < len(ivs) && ivs[b].t0 < ivs[a].t1; b++ {
			if ivs[b].conn != ivs[a].conn {
				overlaps++
			}
		}
	}
	c.Count("overlapping_acked_command_pairs", overlaps)
	for i, k := range keys {
		c.Count("evaluations", 1)
		rep, err := admin.DoS("GET", k)
		if err != nil {
			c.Inconclusive(fmt.Sprintf("round %d: final GET failed: %v", round, err))
			return
		}
		final, ok := int64(0), false
		if rep.Kind == '$' && !rep.Null {
			v, perr := strconv.ParseInt(string(rep.Str), 10, 64)
			final, ok = v, perr == nil
		} else if rep.Kind == '$' && rep.Null && acked[i] == 0 && initial[i] == 0 {
			final, ok = 0, true
		}
		if !ok || final != expected[i] {
			// diagnostic only (never part of the verdict): does the value come
			// back once pending locks have timed out?
			reread := "not-tried"
			if !c.Violated() {
				time.Sleep(4 * time.Second)
				if rr, err := admin.DoS("GET", k); err == nil {
					reread = rr.String()
				} else {
					reread = err.Error()
				}
			}
			finalClass := "integer"
			switch {
			case rep.Kind == '$' && rep.Null:
				finalClass = "absent"
			case !ok:
				finalClass = "non-integer"
			}
			c.Violation(fmt.Sprintf("C30|counter-conservation|backend=%s,final=%s", tg.backend, finalClass),
				fmt.Sprintf("final GET %s but initial %d + sum of %d acknowledged INCR-family deltas = %d (lost or phantom updates)", rep.String(), initial[i], acked[i], expected[i]),
				map[string]any{"key": k, "initial": initial[i], "acknowledged_commands": acked[i], "expected_final": expected[i], "observed_final": rep.String(),
					"connections": n, "commands_per_connection": perConn, "pure_incr": pureIncr, "overlapping_acked_pairs": overlaps, "error_replies": errs, "error_samples": keysOf(errSamples), "diagnostic_reread_after_4s": reread,
					"repro": "N connections concurrently send INCR " + k + "; then GET " + k})
		}
	}
	c.Count("counter_rounds", 1)
	if overlaps > 0 && acked[0]+acked[1] > 0 {
		c.Count("counter_rounds_with_overlap", 1)
		c.Nontrivial(fmt.Sprintf("ctr|%s|conns=%d|per=%d|pure=%v|acked=%d,%d|ov=%d|init=%d,%d", tg.backend, n, perConn, pureIncr, acked[0], acked[1], overlaps, initial[0], initial[1]))
	}
}

func keysOf(m map[string]bool) []string {
	var out []string
	for k := range m {
		if len(k) > 300 {
			k = k[:300]
		}
		out = append(out, k)
	}
	sort.Strings(out)
	return out
}

// nxRound: concurrent SET NX on a fresh absent key.
func nxRound(c *core.Case, tg target, round int, conns []*redisx.Conn, admin *redisx.Conn) {
	key := fmt.Sprintf("nx:%d:%d", c.Idx, round)
	c.Count("evaluations", 1)
	// the key has never been written - or, every other round, was written and deleted (the
	// engine then holds a tombstone), or written with a 1 ms TTL that has run out; confirm
	// absence through the gateway
	switch round % 4 {
	case 1:
		r1, e1 := admin.DoS("SET", key, "gone")
		r2, e2 := admin.DoS("DEL", key)
		if e1 != nil || e2 != nil || r1.Kind != '+' || r2.Kind != ':' {
			c.Inconclusive(fmt.Sprintf("nx round %d: SET+DEL failed: %v %v", round, e1, e2))
			return
		}
		c.Count("nx_rounds_on_deleted_key", 1)
	case 3:
		r1, e1 := admin.DoS("SET", key, "gone", "PX", "1")
		if e1 != nil || r1.Kind != '+' {
			c.Inconclusive(fmt.Sprintf("nx round %d: SET PX failed: %v", round, e1))
			return
		}
		time.Sleep(1100 * time.Millisecond) // TTLs have second granularity in the engine
		c.Count("nx_rounds_on_expired_key", 1)
	}
	rep, err := admin.DoS("EXISTS", key)
	if err != nil || rep.Kind != ':' || rep.Int != 0 {
		c.Inconclusive(fmt.Sprintf("nx round %d: key not absent beforehand: %v %s", round, err, rep.String()))
		return
	}
	n := len(conns)
	type res struct {
		shape  string
		t0, t1 time.Duration
		err    error
	}
	out := make([]res, n)
	start := make(chan struct{})
	var wg sync.WaitGroup
	base := time.Now()
	for i := 0; i < n; i++ {
		wg.Add(1)
		go func(i int) {
			defer wg.Done()
			<-start
			t0 := time.Since(base)
			rep, err := conns[i].DoS("SET", key, "winner-"+strconv.Itoa(i), "NX")
			out[i] = res{shape: rep.Shape(), t0: t0, t1: time.Since(base), err: err}
		}(i)
	}
	close(start)
	wg.Wait()
	oks, nils, others := 0, 0, 0
	var winners []int
	for i, o := range out {
		switch {
		case o.err != nil:
			// an unanswered SET NX can only lower the number of OKs seen
			others++
		case o.shape == "simple:OK":
			oks++
			winners = append(winners, i)
		case o.shape == "nil":
			nils++
		default:
			others++
			c.Count("nx_replies."+o.shape, 1)
		}
	}
	overlap := 0
	for i := range out {
		for j := i + 1; j < n; j++ {
			if out[i].t0 < out[j].t1 && out[j].t0 < out[i].t1 {
				overlap++
			}
		}
	}
	c.Count("nx_rounds", 1)
	c.Count("nx_ok_replies", oks)
	c.Count("nx_nil_replies", nils)
	c.Max("nx_ok_in_one_round", oks)
	if oks > 1 {
		c.Violation(fmt.Sprintf("C30|setnx-multiple-ok|backend=%s", tg.backend),
			fmt.Sprintf("%d of %d concurrent SET %s v NX on an absent key were answered OK", oks, n, key),
			map[string]any{"key": key, "connections": n, "ok_connections": winners, "nil_replies": nils, "other_replies": others,
				"repro": "N connections concurrently send SET " + key + " <unique> NX; count +OK replies"})
	}
	if overlap > 0 {
		c.Count("nx_rounds_with_overlap", 1)
		c.Nontrivial(fmt.Sprintf("nx|%s|conns=%d|ok=%d|nil=%d|ov=%d", tg.backend, n, oks, nils, overlap))
	}
}

func dialAll(addr string, n int) ([]*redisx.Conn, error) {
	var conns []*redisx.Conn
	for i := 0; i < n; i++ {
		cn, err := redisx.Dial(addr, watchdog)
		if err != nil {
			for _, x := range conns {
				x.Close()
			}
			return nil, err
		}
		conns = append(conns, cn)
	}
	return conns, nil
}

// drive runs the rounds of one case against a gateway address.
func drive(c *core.Case, tg target, rounds int, alive func() bool) {
	n := 8 + c.Rng.Intn(9)
	conns, err := dialAll(tg.addr, n+1)
	if err != nil {
		c.Inconclusive("dial: " + err.Error())
		return
	}
	defer func() {
		for _, x := range conns {
			x.Close()
		}
	}()
	admin, conns := conns[n], conns[:n]
	c.Distinct("connections", strconv.Itoa(n))
	for round := 0; round < rounds; round++ {
		if round%3 == 2 {
			for k := 0; k < 4; k++ {
				nxRound(c, tg, round*10+k, conns, admin)
			}
		} else {
			counterRound(c, tg, round, conns, admin)
		}
		if !alive() {
			c.Inconclusive("a server process (gateway / store / pd) exited under concurrent clients, backend=" + tg.backend)
			return
		}
	}
	c.Sample(map[string]any{"case": c.Idx, "backend": tg.backend, "connections": n, "rounds": rounds})
}

func runEmbedded(c *core.Case) {
	srv, err := redisx.Start(c.TempDir(), redisx.Opts{})
	if err != nil {
		c.Inconclusive("gateway start: " + err.Error())
		return
	}
	defer srv.Stop()
	drive(c, target{addr: srv.Addr, backend: "embedded"}, 6, srv.Alive)
}

func clusterCases(tier string) int {
	if tier == "thorough" {
		return 2
	}
	return 0
}

func embeddedCases(tier string) int {
	if tier == "thorough" {
		return 120
	}
	return 8
}

func init() {
	core.Register(&core.Check{
		ID:    "C30",
		Level: "exploration",
		Rule: "case = one fresh nokv-redis process (embedded backend; thorough: plus cases on a real local raft cluster: nokv pd + 3 x nokv serve + nokv-redis --raft-config) driven by 8-16 concurrent TCP connections for 6 rounds: " +
			"counter rounds (every connection fires a seeded script of INCR/DECR/INCRBY/DECRBY, or INCR only, at two fresh counters with absent/deleted (SET then DEL)/small/large initial values; oracle: final GET == initial + sum of deltas of commands answered with an integer, error replies contribute nothing) and " +
			"NX rounds (all connections send SET k v NX at once on a key that is absent: never written, or - alternating - written and deleted, or written with a 1 ms TTL that has run out; oracle: at most one +OK); a round is non-trivial iff acknowledged commands of different connections really overlapped in time (send..reply intervals, measured); " +
			"distinct = distinct (backend, connections, script shape, acknowledged counts, overlap count) tuples",
		Assumptions: []string{
			"per counter at most ~80 commands per round, below the engine's default hot-key write throttle; throttled or conflicting commands reply an error and contribute no delta",
			"a command whose connection failed before the reply makes the round inconclusive (its effect is unknown)",
			"interleavings are whatever the OS scheduler and the gateway produce under 8-16 clients; no schedule control inside the black-box binary",
		},
		NeedsBins: true,
		Cases:     func(tier string) int { return embeddedCases(tier) + clusterCases(tier) },
		Procs: func(tier string) int {
			if tier == "thorough" {
				return 8
			}
			return 8
		},
		CaseTimeout: 8 * time.Minute,
		Run: func(c *core.Case) {
			if c.Idx < embeddedCases(c.Tier) {
				runEmbedded(c)
				return
			}
			runCluster(c)
		},
		Finish: func(a *core.Agg) {
			a.FloorNontrivial(2)
			a.Floor("counter_rounds_with_overlap", 4)
			a.Floor("nx_rounds_with_overlap", 4)
			a.Floor("counter_replies.integer", 500)
			if a.Tier == "thorough" {
				a.Floor("cluster_cases_completed", 1)
			}
		},
	})
}
