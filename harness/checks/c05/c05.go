// Package c05: a transaction never sees another transaction partially or late.
//
// Committers write k1..k3 in one transaction (every value carries the
// committer's transaction id); readers begin, read all keys twice (point reads
// and an iterator pass) and remember their read timestamp. The H4 yield sites in
// the oracle (commit-ts issue / registration, read-ts computation, watermark
// begin / advance / window rebuild) are perturbed from the seed: at each site the
// running goroutine is delayed or descheduled with a seed-determined pattern, so
// that readers land between "commit ts issued" and "commit ts registered / done".
// Offline oracle over the recorded history + the final all-versions dump:
// R-rr (a key read twice gives the same answer), R-atomic (all keys of one
// committer transaction are seen together or not at all), R-snap (every read
// equals the newest committed version <= the reader's read timestamp).
package c05

import (
	"bytes"
	"fmt"
	"math/rand"
	"runtime"
	"sort"
	"sync"
	"sync/atomic"
	"time"

	NoKV "github.com/feichai0017/NoKV"
	"github.com/feichai0017/NoKV/kv"
	"github.com/feichai0017/NoKV/utils"
	"verif/harness/internal/core"
	"verif/harness/internal/dbx"
)

var sharedKeys = [][]byte{[]byte("k1"), []byte("k2"), []byte("k3")}

type readRec struct {
	Reader  int               `json:"reader"`
	ReadTs  uint64            `json:"read_ts"`
	First   map[string]string `json:"first"`
	Second  map[string]string `json:"second"`
	Iter    map[string]string `json:"iter"`
	Started int64             `json:"started_seq"`
}

type perturb struct {
	mu    sync.Mutex
	rng   *rand.Rand
	sites map[string]int64
	mode  int
	seq   atomic.Int64
	inWin atomic.Int64 // committers currently between "commit ts issued" and doneCommit
	hits  atomic.Int64 // readers that computed a read ts while a committer was in that window
}

func (p *perturb) yield(site string) {
	p.mu.Lock()
	p.sites[site]++
	r := p.rng.Intn(100)
	d := time.Duration(p.rng.Intn(300)) * time.Microsecond
	p.mu.Unlock()
	switch site {
	case "orc.committs.after-next":
		p.inWin.Add(1)
	case "orc.donecommit":
		p.inWin.Add(-1)
	case "orc.readts.after-next", "orc.readts.after-last":
		if p.inWin.Load() > 0 {
			p.hits.Add(1)
		}
	}
	switch p.mode {
	case 0: // delay writers inside the registration window (long enough for another commit to complete), let readers run
		if site == "orc.committs.after-next" {
			// most committers pass quickly, a few stay long enough for a later
			// committer to register, apply and finish meanwhile
			if r < 12 {
				time.Sleep(5*time.Millisecond + 60*d)
			} else {
				time.Sleep(d / 2)
			}
			return
		}
		if site == "wm.begin.after-last" || site == "wm.add.after-window" {
			time.Sleep(d)
			return
		}
	case 1: // delay watermark advancement
		if site == "wm.advance.before-cas" || site == "wm.add.after-slot" || site == "orc.donecommit" {
			time.Sleep(d)
			return
		}
	case 2: // delay readers between the two loads
		if site == "orc.readts.after-next" || site == "orc.readts.after-last" {
			time.Sleep(d)
			return
		}
	}
	if r < 30 {
		runtime.Gosched()
	} else if r < 40 {
		time.Sleep(d / 4)
	}
}

func idOf(v []byte) string {
	if i := bytes.IndexByte(v, '|'); i >= 0 {
		return string(v[:i])
	}
	return string(v)
}

func run(c *core.Case) {
	rng := c.Rng
	cfg := dbx.Config{Engine: []string{"skiplist", "art"}[rng.Intn(2)], ValueThreshold: 1024, Buckets: 1, VlogFileSize: 1 << 20, ManifestRewrite: 1 << 20,
		MemTableSize: 4 << 20, L0Tables: 1000, DetectConflicts: rng.Intn(2) == 0, Controlled: true}
	db, err := dbx.OpenCfg(cfg, c.TempDir())
	if err != nil {
		c.Violation("C05|open-failed", err.Error(), cfg)
		return
	}
	p := &perturb{rng: rand.New(rand.NewSource(rng.Int63())), sites: map[string]int64{}, mode: rng.Intn(4)}
	utils.VerifSetYield(p.yield)
	defer utils.VerifSetYield(nil)
	nCommitters, nReaders := 2+rng.Intn(2), 3+rng.Intn(3)
	// Key groups: in every other case all committers write the same three keys (any two
	// transactions overlap); otherwise every committer owns two keys of its own, so a commit
	// that becomes visible late is not shadowed by a neighbour's newer version of the same keys.
	groups := [][][]byte{sharedKeys}
	keys := sharedKeys
	disjoint := c.Idx%2 == 1
	if disjoint {
		groups, keys = nil, nil
		for w := 0; w < nCommitters; w++ {
			g := [][]byte{[]byte(fmt.Sprintf("k%d", 2*w+1)), []byte(fmt.Sprintf("k%d", 2*w+2))}
			groups = append(groups, g)
			keys = append(keys, g...)
		}
	}
	rounds := 25
	var wg sync.WaitGroup
	var recs []readRec
	var rmu sync.Mutex
	var commitErrs atomic.Int64
	var committersLeft atomic.Int64
	committersLeft.Store(int64(nCommitters))
	for w := 0; w < nCommitters; w++ {
		wg.Add(1)
		go func(w int) {
			defer wg.Done()
			defer committersLeft.Add(-1)
			for i := 0; i < rounds; i++ {
				id := fmt.Sprintf("c%d.%d", w, i)
				txn := db.NewTransaction(true)
				for _, k := range groups[w%len(groups)] {
					_ = txn.Set(k, []byte(id+"|"+string(k)))
				}
				if err := txn.Commit(); err != nil {
					commitErrs.Add(1)
				}
			}
		}(w)
	}
	for r := 0; r < nReaders; r++ {
		wg.Add(1)
		go func(r int) {
			defer wg.Done()
			// readers keep beginning transactions for as long as committers run
			// (committers are slowed down by the perturbation), at most 600 rounds
			for i := 0; i < 600 && (i < rounds || committersLeft.Load() > 0); i++ {
				if i >= rounds {
					time.Sleep(time.Duration(50+r*37) * time.Microsecond)
				}
				rec := readRec{Reader: r, First: map[string]string{}, Second: map[string]string{}, Iter: map[string]string{}, Started: p.seq.Add(1)}
				txn := db.NewTransaction(false)
				rec.ReadTs = txn.ReadTs()
				get := func(into map[string]string) {
					for _, k := range keys {
						item, err := txn.Get(k)
						if err != nil {
							into[string(k)] = ""
							continue
						}
						v, _ := item.ValueCopy(nil)
						into[string(k)] = idOf(v)
					}
				}
				get(rec.First)
				runtime.Gosched()
				it := txn.NewIterator(NoKV.IteratorOptions{})
				for it.Rewind(); it.Valid(); it.Next() {
					item := it.Item()
					v, _ := item.ValueCopy(nil)
					rec.Iter[string(item.Entry().Key)] = idOf(v)
				}
				it.Close()
				get(rec.Second)
				txn.Discard()
				rmu.Lock()
				recs = append(recs, rec)
				rmu.Unlock()
			}
		}(r)
	}
	done := make(chan struct{})
	go func() { wg.Wait(); close(done) }()
	select {
	case <-done:
	case <-time.After(4 * time.Minute):
		c.Inconclusive("workers did not finish within 4 minutes")
		return
	}
	utils.VerifSetYield(nil)
	// final all-versions dump: key -> sorted (version, id)
	type ver struct {
		v  uint64
		id string
	}
	versions := map[string][]ver{}
	it := db.NewInternalIterator(&utils.Options{IsAsc: true})
	for it.Rewind(); it.Valid(); it.Next() {
		e := it.Item().Entry()
		_, uk, ts := kv.SplitInternalKey(e.Key)
		if !bytes.HasPrefix(uk, []byte("k")) || len(uk) != 2 {
			continue
		}
		versions[string(uk)] = append(versions[string(uk)], ver{ts, idOf(e.Value)})
	}
	_ = it.Close()
	_ = db.Close()
	for k := range versions {
		sort.Slice(versions[k], func(i, j int) bool { return versions[k][i].v < versions[k][j].v })
	}
	// R-atomic on the dump: every committed id has all keys at one version
	byID := map[string]map[string]uint64{}
	for k, vs := range versions {
		for _, x := range vs {
			if byID[x.id] == nil {
				byID[x.id] = map[string]uint64{}
			}
			byID[x.id][k] = x.v
		}
	}
	snap := func(k string, ts uint64) string {
		out := ""
		for _, x := range versions[k] {
			if x.v <= ts {
				out = x.id
			}
		}
		return out
	}
	for _, rec := range recs {
		c.Count("evaluations", 1)
		detail := map[string]any{"config": cfg, "perturbation_mode": p.mode, "disjoint_key_groups": disjoint, "reader_record": rec}
		for _, k := range keys {
			ks := string(k)
			if rec.First[ks] != rec.Second[ks] {
				c.Violation("C05|non-repeatable-read|point", fmt.Sprintf("reader %d (read ts %d) read %s=%q and later %q", rec.Reader, rec.ReadTs, ks, rec.First[ks], rec.Second[ks]), detail)
				return
			}
			if rec.Iter[ks] != rec.First[ks] {
				c.Violation("C05|non-repeatable-read|iterator-vs-point", fmt.Sprintf("reader %d (read ts %d): Get(%s)=%q but the iterator yields %q", rec.Reader, rec.ReadTs, ks, rec.First[ks], rec.Iter[ks]), detail)
				return
			}
		}
		for _, g := range groups {
			ids := map[string]bool{}
			for _, k := range g {
				ids[rec.First[string(k)]] = true
			}
			if len(ids) > 1 {
				c.Violation("C05|partial-transaction-visible", fmt.Sprintf("reader %d (read ts %d) saw keys of one group from different transactions: %v (every transaction writes all keys of its group %s)", rec.Reader, rec.ReadTs, rec.First, g), detail)
				return
			}
		}
		for _, k := range keys {
			ks := string(k)
			if want := snap(ks, rec.ReadTs); want != rec.First[ks] {
				c.Violation("C05|snapshot-missed-commit-at-or-below-read-ts", fmt.Sprintf("reader %d with read ts %d read %s=%q but the newest committed version <= %d is %q", rec.Reader, rec.ReadTs, ks, rec.First[ks], rec.ReadTs, want), detail)
				return
			}
		}
	}
	for id, m := range byID {
		var v0 uint64
		first := true
		for _, v := range m {
			if first {
				v0, first = v, false
			} else if v != v0 {
				c.Violation("C05|transaction-at-two-versions", fmt.Sprintf("transaction %s has versions %v", id, m), nil)
				return
			}
		}
		if len(m) != len(groups[0]) {
			c.Violation("C05|transaction-partially-stored", fmt.Sprintf("transaction %s stored only %v", id, m), nil)
			return
		}
	}
	p.mu.Lock()
	var siteNames []string
	for s, n := range p.sites {
		c.Count("yield."+s, int(n))
		siteNames = append(siteNames, s)
	}
	p.mu.Unlock()
	sort.Strings(siteNames)
	c.Count("readers_started_inside_commit_window", int(p.hits.Load()))
	c.Count("commit_errors", int(commitErrs.Load()))
	distinctTs := map[uint64]bool{}
	for _, rec := range recs {
		distinctTs[rec.ReadTs] = true
	}
	c.Count("distinct_read_timestamps", len(distinctTs))
	if p.hits.Load() > 0 {
		c.Nontrivial(fmt.Sprintf("%d|%d|%d|%d", c.Idx, p.mode, p.hits.Load(), len(distinctTs)))
	}
	if c.Idx < 2 {
		c.Sample(map[string]any{"config": cfg, "perturbation_mode": p.mode, "committers": nCommitters, "readers": nReaders, "yield_sites_hit": siteNames, "readers_inside_commit_window": p.hits.Load(), "one_reader_record": recs[0]})
	}
}

func init() {
	core.Register(&core.Check{
		ID:    "C05",
		Level: "exploration",
		Race:  true,
		Rule: "case = 2-3 committers x 25 transactions writing their key group with the transaction id (even cases: one shared group k1..k3; odd cases: two keys of its own per committer), 3-5 readers x 25 read-only transactions (each key read twice + one iterator pass) on a real DB; the H4 yield sites (commit-ts issue/registration, read-ts loads, watermark begin/add/advance/rebuild, doneCommit) delay or deschedule goroutines in one of 4 seed-chosen perturbation modes; " +
			"offline oracle over the recorded reads + the final all-versions dump: repeatable reads (point and iterator), no mixed transaction ids, every read = newest committed version <= read ts, every transaction stored completely at one version; " +
			"non-trivial = cases in which at least one reader computed its read timestamp while a committer sat between 'commit ts issued' and 'doneCommit' (measured at the yield sites); distinct = (case, mode, hits, distinct read timestamps); runs under the race detector",
		Assumptions:      []string{"perturbation is randomised delay at real suspension points (PCT-style), not exhaustive schedule enumeration; the evidence reports how many readers landed inside the commit window and per-site yield counts"},
		CrashIsViolation: true,
		Cases: func(tier string) int {
			if tier == "thorough" {
				return 1200
			}
			return 64
		},
		Run: run,
		Finish: func(a *core.Agg) {
			a.FloorNontrivial(20)
			a.Floor("readers_started_inside_commit_window", 100)
		},
	})
}
