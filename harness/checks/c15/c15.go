// Package c15: manifest reload equals the in-memory state across rewrites and crashes.
//
// Two kinds of cases, both on the bare manifest.Manager:
//
//	(a) reload cases: a seeded well-formed edit sequence of every edit type with
//	    boundary field values is logged under a tiny rewrite threshold; after every
//	    few calls the directory is copied and opened the way DB.Open does
//	    (manifest.Verify, then manifest.Open); the reloaded Current() must equal the
//	    live manager's Current() (levels as multisets, maps by key). Sometimes the
//	    live manager itself is closed and reopened in place and the sequence goes on.
//	(b) crash cases: the same kind of sequence is run by a worker child process whose
//	    vfs.FS is vfs.NewFaultFS(<torn-write layer over OSFS>, hook). The hook counts
//	    durability-relevant operations and SIGKILLs the process before operation N
//	    ("kill-before"), or lets a file_write hand only its first k bytes to the
//	    kernel and then SIGKILLs ("torn"). The worker logs CALL i / ACK i with plain
//	    write(2) to an O_APPEND file. A dry run measures the operation list. The
//	    parent then reopens (Verify + Open) and demands that the recovered version
//	    equals the in-memory state after some edit prefix p with
//	    acked <= p <= called, where "in-memory state after a prefix" is taken from a
//	    reference manager that logged the same edits one by one without rewrites.
//	    Then two more edits are logged on the recovered manager, it is closed and
//	    reloaded once more (reload == live).
package c15

import (
	"bytes"
	"context"
	"encoding/hex"
	"encoding/json"
	"errors"
	"fmt"
	"io"
	"math"
	"math/rand"
	"os"
	"os/exec"
	"path/filepath"
	"sort"
	"strconv"
	"strings"
	"syscall"
	"time"

	"github.com/feichai0017/NoKV/manifest"
	"github.com/feichai0017/NoKV/vfs"
	"verif/harness/internal/core"
)

// ---------------------------------------------------------------- sequences

type step struct {
	Kind   string          `json:"kind"` // edits | rewrite | raft_truncate
	Edits  []manifest.Edit `json:"edits,omitempty"`
	Helper bool            `json:"helper,omitempty"` // single edit logged through its Log* convenience method
	RT     []uint64        `json:"rt,omitempty"`     // group, index, term, segment, offset
}

type sequence struct {
	Threshold int64  `json:"rewrite_threshold"`
	Sync      bool   `json:"sync_writes"`
	Steps     []step `json:"steps"`
}

var u64s = []uint64{0, 0, 1, 1, 2, 3, 127, 128, 255, 256, 16383, 16384, 1<<32 - 1, 1 << 32, 1<<63 - 1, 1 << 63, math.MaxUint64}
var u32s = []uint32{0, 0, 1, 1, 2, 3, 127, 128, 65535, math.MaxUint32}

func u64(r *rand.Rand) uint64 {
	if r.Intn(4) == 0 {
		return r.Uint64()
	}
	return u64s[r.Intn(len(u64s))]
}
func u32(r *rand.Rand) uint32 {
	if r.Intn(4) == 0 {
		return r.Uint32()
	}
	return u32s[r.Intn(len(u32s))]
}
func key(r *rand.Rand) []byte {
	switch r.Intn(9) {
	case 0:
		return nil
	case 1:
		return []byte{}
	case 2:
		return []byte("a")
	case 3:
		return []byte("a\x00")
	case 4:
		return []byte{0xFF, 0xFF}
	case 5:
		return bytes.Repeat([]byte("long-key/"), 40)
	case 6:
		return []byte{0}
	default:
		b := make([]byte, 1+r.Intn(24))
		r.Read(b)
		return b
	}
}

type gen struct {
	r       *rand.Rand
	nextFID uint64
	files   [][2]uint64 // level, id of files added and not deleted
	types   map[string]bool
}

func (g *gen) pick(s string) { g.types[s] = true }

func (g *gen) edit() manifest.Edit {
	r := g.r
	switch r.Intn(12) {
	case 0, 1, 2:
		g.pick("add-file")
		g.nextFID += 1 + uint64(r.Intn(3))
		id := g.nextFID
		if r.Intn(25) == 0 {
			id = math.MaxUint64 - g.nextFID // still unique
		}
		lvl := r.Intn(7)
		if r.Intn(20) == 0 {
			lvl = 1000
		}
		g.files = append(g.files, [2]uint64{uint64(lvl), id})
		return manifest.Edit{Type: manifest.EditAddFile, File: &manifest.FileMeta{Level: lvl, FileID: id, Size: u64(r), Smallest: key(r), Largest: key(r), CreatedAt: u64(r), ValueSize: u64(r), Ingest: r.Intn(3) == 0}}
	case 3:
		g.pick("delete-file")
		if len(g.files) == 0 || r.Intn(10) == 0 {
			return manifest.Edit{Type: manifest.EditDeleteFile, File: &manifest.FileMeta{Level: r.Intn(7), FileID: 1 << 40}} // never added
		}
		i := r.Intn(len(g.files))
		f := g.files[i]
		g.files = append(g.files[:i], g.files[i+1:]...)
		return manifest.Edit{Type: manifest.EditDeleteFile, File: &manifest.FileMeta{Level: int(f[0]), FileID: f[1]}}
	case 4:
		g.pick("log-pointer")
		return manifest.Edit{Type: manifest.EditLogPointer, LogSeg: u32(r), LogOffset: u64(r)}
	case 5:
		g.pick("vlog-head")
		return manifest.Edit{Type: manifest.EditValueLogHead, ValueLog: &manifest.ValueLogMeta{Bucket: g.bucket(), FileID: g.vfid(), Offset: u64(r), Valid: true}}
	case 6:
		g.pick("vlog-delete")
		return manifest.Edit{Type: manifest.EditDeleteValueLog, ValueLog: &manifest.ValueLogMeta{Bucket: g.bucket(), FileID: g.vfid()}}
	case 7:
		g.pick("vlog-update")
		return manifest.Edit{Type: manifest.EditUpdateValueLog, ValueLog: &manifest.ValueLogMeta{Bucket: g.bucket(), FileID: g.vfid(), Offset: u64(r), Valid: r.Intn(3) != 0}}
	case 8, 9:
		g.pick("raft-pointer")
		return manifest.Edit{Type: manifest.EditRaftPointer, Raft: &manifest.RaftLogPointer{GroupID: g.group(), Segment: u32(r), Offset: u64(r), AppliedIndex: u64(r), AppliedTerm: u64(r), Committed: u64(r),
			SnapshotIndex: u64(r), SnapshotTerm: u64(r), TruncatedIndex: u64(r), TruncatedTerm: u64(r), SegmentIndex: u64(r), TruncatedOffset: u64(r)}}
	default:
		id := []uint64{1, 2, 3, 4, math.MaxUint64, 0}[r.Intn(6)]
		if r.Intn(4) == 0 {
			g.pick("region-delete")
			return manifest.Edit{Type: manifest.EditRegion, Region: &manifest.RegionEdit{Meta: manifest.RegionMeta{ID: id}, Delete: true}}
		}
		g.pick("region-update")
		var peers []manifest.PeerMeta
		for i, n := 0, r.Intn(4); i < n; i++ {
			peers = append(peers, manifest.PeerMeta{StoreID: u64(r), PeerID: u64(r)})
		}
		st := manifest.RegionState(r.Intn(4))
		if r.Intn(20) == 0 {
			st = 255
		}
		return manifest.Edit{Type: manifest.EditRegion, Region: &manifest.RegionEdit{Meta: manifest.RegionMeta{ID: id, StartKey: key(r), EndKey: key(r), Epoch: manifest.RegionEpoch{Version: u64(r), ConfVersion: u64(r)}, Peers: peers, State: st}}}
	}
}
func (g *gen) bucket() uint32 { return []uint32{0, 0, 1, 2, math.MaxUint32}[g.r.Intn(5)] }
func (g *gen) vfid() uint32   { return []uint32{0, 1, 2, 3, math.MaxUint32}[g.r.Intn(5)] }
func (g *gen) group() uint64  { return []uint64{1, 1, 2, 3, math.MaxUint64}[g.r.Intn(5)] }

func genSequence(r *rand.Rand, nSteps int, thresholds []int64) (sequence, []string) {
	g := &gen{r: r, types: map[string]bool{}}
	seq := sequence{Threshold: thresholds[r.Intn(len(thresholds))], Sync: r.Intn(3) != 0}
	for i := 0; i < nSteps; i++ {
		switch x := r.Intn(20); {
		case x == 0:
			g.pick("explicit-rewrite")
			seq.Steps = append(seq.Steps, step{Kind: "rewrite"})
		case x <= 2:
			g.pick("raft-truncate")
			seq.Steps = append(seq.Steps, step{Kind: "raft_truncate", RT: []uint64{g.group(), u64(r), u64(r), uint64(u32(r)), u64(r)}})
		case x <= 8:
			seq.Steps = append(seq.Steps, step{Kind: "edits", Edits: []manifest.Edit{g.edit()}, Helper: true})
		default:
			n := 1
			if r.Intn(3) == 0 {
				n = 2 + r.Intn(3)
			}
			var es []manifest.Edit
			for j := 0; j < n; j++ {
				es = append(es, g.edit())
			}
			seq.Steps = append(seq.Steps, step{Kind: "edits", Edits: es})
		}
	}
	var ts []string
	for t := range g.types {
		ts = append(ts, t)
	}
	sort.Strings(ts)
	return seq, ts
}

// apply runs one step on a manager; oneByOne logs batch members separately and
// reports the state after each of them through after().
func apply(m *manifest.Manager, s step, oneByOne bool, after func()) error {
	switch s.Kind {
	case "rewrite":
		if oneByOne {
			return nil
		}
		return m.Rewrite()
	case "raft_truncate":
		err := m.LogRaftTruncate(s.RT[0], s.RT[1], s.RT[2], uint32(s.RT[3]), s.RT[4])
		if after != nil {
			after()
		}
		return err
	case "edits":
		if s.Helper && len(s.Edits) == 1 {
			e := s.Edits[0]
			var err error
			switch {
			case e.Type == manifest.EditValueLogHead:
				err = m.LogValueLogHead(e.ValueLog.Bucket, e.ValueLog.FileID, e.ValueLog.Offset)
			case e.Type == manifest.EditDeleteValueLog:
				err = m.LogValueLogDelete(e.ValueLog.Bucket, e.ValueLog.FileID)
			case e.Type == manifest.EditUpdateValueLog:
				err = m.LogValueLogUpdate(*e.ValueLog)
			case e.Type == manifest.EditRaftPointer:
				err = m.LogRaftPointer(*e.Raft)
			case e.Type == manifest.EditRegion && e.Region.Delete:
				err = m.LogRegionDelete(e.Region.Meta.ID)
			case e.Type == manifest.EditRegion:
				err = m.LogRegionUpdate(e.Region.Meta)
			default:
				err = m.LogEdit(e)
			}
			if after != nil {
				after()
			}
			return err
		}
		if oneByOne {
			for _, e := range s.Edits {
				if err := m.LogEdit(e); err != nil {
					return err
				}
				if after != nil {
					after()
				}
			}
			return nil
		}
		return m.LogEdits(s.Edits...)
	}
	return fmt.Errorf("unknown step kind %q", s.Kind)
}

// ---------------------------------------------------------------- canonical state

type canonState struct {
	Levels   []string `json:"levels"`
	LogPtr   string   `json:"log_pointer"`
	VLogs    []string `json:"value_logs"`
	VLogHead []string `json:"value_log_head"`
	Raft     []string `json:"raft_pointers"`
	Regions  []string `json:"regions"`
}

func canon(v manifest.Version) canonState {
	var cs canonState
	for lvl, files := range v.Levels {
		for _, f := range files {
			cs.Levels = append(cs.Levels, fmt.Sprintf("L%04d id=%020d size=%d small=%s large=%s created=%d vsize=%d ingest=%v", lvl, f.FileID, f.Size, hex.EncodeToString(f.Smallest), hex.EncodeToString(f.Largest), f.CreatedAt, f.ValueSize, f.Ingest))
		}
	}
	sort.Strings(cs.Levels)
	cs.LogPtr = fmt.Sprintf("seg=%d off=%d", v.LogSegment, v.LogOffset)
	for id, m := range v.ValueLogs {
		cs.VLogs = append(cs.VLogs, fmt.Sprintf("key=%010d/%010d meta={bucket=%d fid=%d off=%d valid=%v}", id.Bucket, id.FileID, m.Bucket, m.FileID, m.Offset, m.Valid))
	}
	sort.Strings(cs.VLogs)
	for b, m := range v.ValueLogHead {
		cs.VLogHead = append(cs.VLogHead, fmt.Sprintf("bucket=%010d meta={bucket=%d fid=%d off=%d valid=%v}", b, m.Bucket, m.FileID, m.Offset, m.Valid))
	}
	sort.Strings(cs.VLogHead)
	for id, p := range v.RaftPointers {
		cs.Raft = append(cs.Raft, fmt.Sprintf("group=%020d %+v", id, p))
	}
	sort.Strings(cs.Raft)
	for id, r := range v.Regions {
		cs.Regions = append(cs.Regions, fmt.Sprintf("region=%020d id=%d start=%s end=%s epoch=%d/%d state=%d peers=%v", id, r.ID, hex.EncodeToString(r.StartKey), hex.EncodeToString(r.EndKey), r.Epoch.Version, r.Epoch.ConfVersion, r.State, r.Peers))
	}
	sort.Strings(cs.Regions)
	return cs
}

func (a canonState) str() string { b, _ := json.Marshal(a); return string(b) }

func eqs(a, b []string) bool {
	if len(a) != len(b) {
		return false
	}
	for i := range a {
		if a[i] != b[i] {
			return false
		}
	}
	return true
}

func firstDiff(a, b []string) string {
	in := func(s string, l []string) bool {
		for _, x := range l {
			if x == s {
				return true
			}
		}
		return false
	}
	for _, x := range a {
		if !in(x, b) {
			return "only in first: " + x
		}
	}
	for _, x := range b {
		if !in(x, a) {
			return "only in second: " + x
		}
	}
	return ""
}

// offsetBlind returns the state with the Offset of every *invalid* value-log
// entry blanked. Two states that differ but are equal under offsetBlind differ
// only in the offset remembered for segments marked invalid; that difference
// class gets its own signature context ("value-logs:offset-of-invalid-segment").
func offsetBlind(a canonState) canonState {
	b := a
	blank := func(l []string) []string {
		out := make([]string, len(l))
		for i, s := range l {
			if strings.HasSuffix(s, "valid=false}") {
				if j := strings.Index(s, " off="); j >= 0 {
					s = s[:j] + " off=* valid=false}"
				}
			}
			out[i] = s
		}
		return out
	}
	b.VLogs = blank(a.VLogs)
	b.VLogHead = blank(a.VLogHead)
	return b
}

// diff names the first component in which two states differ.
func diff(a, b canonState) (string, string) {
	switch {
	case !eqs(a.Levels, b.Levels):
		return "levels", firstDiff(a.Levels, b.Levels)
	case a.LogPtr != b.LogPtr:
		return "log-pointer", a.LogPtr + " vs " + b.LogPtr
	case !eqs(a.VLogs, b.VLogs):
		if offsetBlind(a).str() == offsetBlind(b).str() {
			return "value-logs:offset-of-invalid-segment", firstDiff(a.VLogs, b.VLogs)
		}
		return "value-logs", firstDiff(a.VLogs, b.VLogs)
	case !eqs(a.VLogHead, b.VLogHead):
		return "value-log-head", firstDiff(a.VLogHead, b.VLogHead)
	case !eqs(a.Raft, b.Raft):
		return "raft-pointers", firstDiff(a.Raft, b.Raft)
	case !eqs(a.Regions, b.Regions):
		return "regions", firstDiff(a.Regions, b.Regions)
	}
	return "", ""
}

// ---------------------------------------------------------------- reload (what DB.Open does)

func copyDir(src, dst string) error {
	if err := os.MkdirAll(dst, 0o755); err != nil {
		return err
	}
	ents, err := os.ReadDir(src)
	if err != nil {
		return err
	}
	for _, e := range ents {
		if e.IsDir() {
			continue
		}
		b, err := os.ReadFile(filepath.Join(src, e.Name()))
		if err != nil {
			return err
		}
		if err := os.WriteFile(filepath.Join(dst, e.Name()), b, 0o644); err != nil {
			return err
		}
	}
	return nil
}

// reopen = manifest.Verify (a missing CURRENT is tolerated, as in DB.runRecoveryChecks) + manifest.Open.
func reopen(dir string) (m *manifest.Manager, phase string, err error) {
	defer func() {
		if r := recover(); r != nil {
			m, err = nil, fmt.Errorf("panic: %v", r)
			if phase == "" {
				phase = "panic"
			}
		}
	}()
	phase = "verify"
	if verr := manifest.Verify(dir, nil); verr != nil && !errors.Is(verr, os.ErrNotExist) {
		return nil, "verify", verr
	}
	phase = "open"
	m, err = manifest.Open(dir, nil)
	if err != nil {
		return nil, "open", err
	}
	return m, "", nil
}

func currentName(dir string) string {
	b, _ := os.ReadFile(filepath.Join(dir, "CURRENT"))
	return strings.TrimSpace(string(b))
}

func manifestID(name string) int {
	n, err := strconv.Atoi(strings.TrimPrefix(name, "MANIFEST-"))
	if err != nil {
		return -1
	}
	return n
}

// ---------------------------------------------------------------- (a) reload cases

// fastDir returns a scratch directory on a memory file system when one is available
// (the logs are opened, synced and closed thousands of times; only their content
// matters to the oracle), else the case's ordinary scratch directory.
func fastDir(c *core.Case, tag string) (string, func()) {
	// remove leftovers of runs that were killed before their deferred cleanup (older than 3 h)
	if old, _ := filepath.Glob("/dev/shm/verif-" + tag + "-*"); len(old) > 0 {
		for _, o := range old {
			if st, err := os.Stat(o); err == nil && time.Since(st.ModTime()) > 3*time.Hour {
				_ = os.RemoveAll(o)
			}
		}
	}
	if d, err := os.MkdirTemp("/dev/shm", "verif-"+tag+"-"); err == nil {
		return d, func() { _ = os.RemoveAll(d) }
	}
	return c.TempDir(), func() {}
}

func runReload(c *core.Case) {
	r := c.Rng
	seq, types := genSequence(r, 20+r.Intn(50), []int64{1, 64, 300, 300, 300, 1000, 4096, 0})
	root, cleanup := fastDir(c, "c15")
	defer cleanup()
	dir := filepath.Join(root, "live")
	scratch := filepath.Join(root, "scratch")
	live, err := manifest.Open(dir, nil)
	if err != nil {
		c.Violation("C15|open-error|fresh-directory", err.Error(), nil)
		return
	}
	defer func() { _ = live.Close() }()
	live.SetRewriteThreshold(seq.Threshold)
	live.SetSync(seq.Sync)
	rewrites, reloads, inPlace := 0, 0, 0
	editsSinceRewrite := 0
	detail := func(i int, extra map[string]any) map[string]any {
		d := map[string]any{"rewrite_threshold": seq.Threshold, "sync_writes": seq.Sync, "steps_executed": seq.Steps[:i+1], "rewrites_so_far": rewrites, "current": currentName(dir)}
		for k, v := range extra {
			d[k] = v
		}
		return d
	}
	nextCheck := r.Intn(4)
	blindReported := false
	for i, s := range seq.Steps {
		before := currentName(dir)
		if err := apply(live, s, false, nil); err != nil {
			c.Violation("C15|edit-error|"+s.Kind, fmt.Sprintf("step %d (%s) failed: %v", i, s.Kind, err), detail(i, nil))
			return
		}
		c.Count("edit_calls", 1)
		c.Count("edits_logged", len(s.Edits))
		editsSinceRewrite++
		if currentName(dir) != before {
			rewrites++
			editsSinceRewrite = 0
		}
		if i < len(seq.Steps)-1 && nextCheck > 0 {
			nextCheck--
			continue
		}
		nextCheck = r.Intn(5)
		ctx := "never-rewritten"
		if rewrites > 0 {
			ctx = "rewritten-then-appended"
			if editsSinceRewrite == 0 {
				ctx = "just-rewritten"
			}
		}
		liveState := canon(live.Current())
		cp := filepath.Join(scratch, fmt.Sprintf("reload-%d", i))
		if err := copyDir(dir, cp); err != nil {
			c.Inconclusive(err.Error())
			return
		}
		m2, phase, err := reopen(cp)
		c.Count("evaluations", 1)
		if err != nil {
			c.Violation("C15|reload-"+phase+"-error|"+ctx, fmt.Sprintf("after step %d the directory does not reopen: %v", i, err), detail(i, nil))
			return
		}
		got := canon(m2.Current())
		_ = m2.Close()
		_ = os.RemoveAll(cp)
		reloads++
		if comp, why := diff(liveState, got); comp != "" {
			sig := "C15|reload-mismatch|" + comp + "|" + ctx
			blind := comp == "value-logs:offset-of-invalid-segment"
			if blind {
				sig = "C15|reload-mismatch|" + comp
			}
			if !blind || !blindReported {
				c.Violation(sig, fmt.Sprintf("after step %d reloaded state differs from in-memory state in %s (first = in-memory, second = reloaded): %s", i, comp, why), detail(i, map[string]any{"in_memory": liveState, "reloaded": got}))
			}
			if !blind {
				return
			}
			blindReported = true // one witness per case; the rest of the sequence is still compared
			c.Count("reloads_differing_only_in_offset_of_invalid_vlog_segment", 1)
		}
		c.Count("reloads_equal."+ctx, 1)
		if r.Intn(4) == 0 { // reopen in place and continue on the reloaded manager
			if err := live.Close(); err != nil {
				c.Violation("C15|close-error", err.Error(), detail(i, nil))
				return
			}
			m3, phase, err := reopen(dir)
			if err != nil {
				c.Violation("C15|reload-"+phase+"-error|"+ctx, fmt.Sprintf("after step %d and Close the directory does not reopen: %v", i, err), detail(i, nil))
				return
			}
			live = m3
			live.SetRewriteThreshold(seq.Threshold)
			live.SetSync(seq.Sync)
			inPlace++
			if comp, why := diff(liveState, canon(live.Current())); comp != "" && comp != "value-logs:offset-of-invalid-segment" {
				c.Violation("C15|reload-mismatch|"+comp+"|"+ctx+"|in-place", fmt.Sprintf("after step %d, Close and reopen in place the state differs in %s: %s", i, comp, why), detail(i, nil))
				return
			}
		}
	}
	c.Count("rewrites_observed", rewrites)
	c.Count("reopens_in_place", inPlace)
	c.Max("rewrites_per_sequence", rewrites)
	for _, t := range types {
		c.Distinct("edit_kinds", t)
	}
	if rewrites > 0 && reloads > 0 {
		rb := rewrites
		if rb > 8 {
			rb = 8
		}
		c.Nontrivial(fmt.Sprintf("reload/thr=%d/rewrites=%d/kinds=%s/inplace=%v", seq.Threshold, rb, strings.Join(types, ","), inPlace > 0))
		c.Count("reload_cases_with_rewrite", 1)
	}
	if c.Idx < 2 {
		n := len(seq.Steps)
		if n > 12 {
			n = 12
		}
		c.Sample(map[string]any{"kind": "reload", "rewrite_threshold": seq.Threshold, "steps_total": len(seq.Steps), "first_steps": seq.Steps[:n], "rewrites": rewrites, "reload_comparisons": reloads})
	}
}

// ---------------------------------------------------------------- (b) crash worker

type opRec struct {
	N     int    `json:"n"`
	Op    string `json:"op"`
	Class string `json:"class"`
	Step  int    `json:"step"` // -1 = during Open
	Len   int    `json:"len,omitempty"`
}

var counted = map[vfs.Op]bool{vfs.OpFileWrite: true, vfs.OpFileSync: true, vfs.OpFileTrunc: true, vfs.OpTruncate: true, vfs.OpRename: true, vfs.OpRemove: true, vfs.OpWriteFile: true, vfs.OpOpenFile: true}

func classify(dir string, op vfs.Op, path string) string {
	if op == vfs.OpRename {
		parts := strings.SplitN(path, "->", 2)
		if len(parts) == 2 {
			return filepath.Base(parts[0]) + "->" + filepath.Base(parts[1])
		}
	}
	base := filepath.Base(path)
	if strings.HasPrefix(base, "MANIFEST-") {
		cur := manifestID(currentName(dir))
		id := manifestID(base)
		switch {
		case cur < 0 || id > cur:
			return "MANIFEST(new)"
		case id == cur:
			return "MANIFEST(live)"
		default:
			return "MANIFEST(old)"
		}
	}
	return base
}

func dieNow() {
	_ = syscall.Kill(os.Getpid(), syscall.SIGKILL)
	select {}
}

// tornFS sits between FaultFS and OSFS: FaultFS calls the hook (which counts and
// arms), then the base file's Write, which is where a torn write is produced.
type tornFS struct {
	vfs.FS
	w *workerState
}
type tornFile struct {
	vfs.File
	w *workerState
}

func (t tornFS) OpenFileHandle(name string, flag int, perm os.FileMode) (vfs.File, error) {
	f, err := t.FS.OpenFileHandle(name, flag, perm)
	if err != nil {
		return nil, err
	}
	return &tornFile{File: f, w: t.w}, nil
}
func (t *tornFile) Write(p []byte) (int, error) {
	w := t.w
	if n := len(w.ops); n > 0 && w.ops[n-1].Op == string(vfs.OpFileWrite) && w.ops[n-1].Len == 0 {
		w.ops[n-1].Len = len(p)
	}
	if w.armTorn > 0 {
		k := w.armTorn
		if k >= len(p) {
			k = len(p) - 1
		}
		if k > 0 {
			_, _ = t.File.Write(p[:k])
		}
		dieNow()
	}
	return t.File.Write(p)
}

type workerState struct {
	dir     string
	ops     []opRec
	step    int
	killAt  int
	torn    int
	armTorn int
}

func (w *workerState) hook(op vfs.Op, path string) error {
	if !counted[op] {
		return nil
	}
	n := len(w.ops) + 1
	w.ops = append(w.ops, opRec{N: n, Op: string(op), Class: classify(w.dir, op, path), Step: w.step})
	if n == w.killAt {
		if w.torn > 0 && op == vfs.OpFileWrite {
			w.armTorn = w.torn
			return nil
		}
		dieNow()
	}
	return nil
}

// worker: c15crash <steps.json> <dir> <acklog> <opsfile> <killAt> <tornBytes>
func worker(args []string) int {
	if len(args) < 6 {
		return 2
	}
	b, err := os.ReadFile(args[0])
	if err != nil {
		fmt.Fprintln(os.Stderr, err)
		return 2
	}
	var seq sequence
	if err := json.Unmarshal(b, &seq); err != nil {
		fmt.Fprintln(os.Stderr, err)
		return 2
	}
	w := &workerState{dir: args[1], step: -1}
	w.killAt, _ = strconv.Atoi(args[4])
	w.torn, _ = strconv.Atoi(args[5])
	ack, err := os.OpenFile(args[2], os.O_CREATE|os.O_WRONLY|os.O_APPEND, 0o644)
	if err != nil {
		fmt.Fprintln(os.Stderr, err)
		return 2
	}
	fs := vfs.NewFaultFS(tornFS{FS: vfs.OSFS{}, w: w}, w.hook)
	m, err := manifest.Open(w.dir, fs)
	if err != nil {
		fmt.Fprintln(os.Stderr, "open:", err)
		return 3
	}
	m.SetRewriteThreshold(seq.Threshold)
	m.SetSync(seq.Sync)
	_, _ = ack.Write([]byte("OPENED\n"))
	for i, s := range seq.Steps {
		w.step = i
		_, _ = ack.Write([]byte(fmt.Sprintf("CALL %d\n", i)))
		if err := apply(m, s, false, nil); err != nil {
			fmt.Fprintf(os.Stderr, "step %d: %v\n", i, err)
			return 4
		}
		_, _ = ack.Write([]byte(fmt.Sprintf("ACK %d\n", i)))
	}
	state := canon(m.Current())
	_ = m.Close()
	out, _ := json.Marshal(map[string]any{"ops": w.ops, "final": state})
	if err := os.WriteFile(args[3], out, 0o644); err != nil {
		return 2
	}
	return 0
}

func readAck(path string) (opened bool, called, acked int) {
	called, acked = -1, -1
	b, _ := os.ReadFile(path)
	for _, line := range strings.Split(string(b), "\n") {
		var n int
		switch {
		case line == "OPENED":
			opened = true
		case strings.HasPrefix(line, "CALL "):
			if _, err := fmt.Sscanf(line, "CALL %d", &n); err == nil {
				called = n
			}
		case strings.HasPrefix(line, "ACK "):
			if _, err := fmt.Sscanf(line, "ACK %d", &n); err == nil {
				acked = n
			}
		}
	}
	return
}

type point struct {
	N    int
	Torn int
	Op   opRec
}

func (p point) stratum() string {
	mode := "kill-before"
	if p.Torn > 0 {
		mode = "torn"
	}
	return mode + ":" + p.Op.Op + "|" + p.Op.Class
}

func spawn(stepsPath, dir, ack, ops string, killAt, torn int) (killed bool, exit int, stderr string, err error) {
	ctx, cancel := context.WithTimeout(context.Background(), 120*time.Second)
	defer cancel()
	cmd := exec.CommandContext(ctx, core.SelfExe(), "worker", "c15crash", stepsPath, dir, ack, ops, strconv.Itoa(killAt), strconv.Itoa(torn))
	var eb bytes.Buffer
	cmd.Stderr = &eb
	cmd.Stdout = io.Discard
	rerr := cmd.Run()
	if ctx.Err() != nil {
		return false, -1, eb.String(), fmt.Errorf("worker watchdog (120 s) fired")
	}
	if rerr == nil {
		return false, 0, eb.String(), nil
	}
	var ee *exec.ExitError
	if errors.As(rerr, &ee) {
		if ws, ok := ee.Sys().(syscall.WaitStatus); ok && ws.Signaled() && ws.Signal() == syscall.SIGKILL {
			return true, -1, eb.String(), nil
		}
		return false, ee.ExitCode(), eb.String(), nil
	}
	return false, -1, eb.String(), rerr
}

func runCrash(c *core.Case) {
	r := c.Rng
	seq, types := genSequence(r, 12+r.Intn(14), []int64{150, 300, 300, 600})
	root, cleanup := fastDir(c, "c15")
	defer cleanup()
	stepsPath := filepath.Join(root, "steps.json")
	sb, _ := json.Marshal(seq)
	if err := os.WriteFile(stepsPath, sb, 0o644); err != nil {
		c.Inconclusive(err.Error())
		return
	}
	// the worker reads the steps from JSON; use the same decoded form here
	var seq2 sequence
	if err := json.Unmarshal(sb, &seq2); err != nil {
		c.Inconclusive(err.Error())
		return
	}
	// reference: in-memory state after every edit prefix (no rewrites, edits one by one)
	refDir := filepath.Join(root, "ref")
	ref, err := manifest.Open(refDir, nil)
	if err != nil {
		c.Inconclusive("reference open: " + err.Error())
		return
	}
	ref.SetRewriteThreshold(0)
	ref.SetSync(false)
	states := []string{canon(ref.Current()).str()}
	canonStates := []canonState{canon(ref.Current())}
	hi := make([]int, len(seq2.Steps)) // hi[i] = index into states after step i
	for i, s := range seq2.Steps {
		if err := apply(ref, s, true, func() {
			cs := canon(ref.Current())
			states = append(states, cs.str())
			canonStates = append(canonStates, cs)
		}); err != nil {
			c.Inconclusive(fmt.Sprintf("reference step %d: %v", i, err))
			_ = ref.Close()
			return
		}
		hi[i] = len(states) - 1
	}
	_ = ref.Close()
	hiOf := func(step int) int {
		if step < 0 {
			return 0
		}
		return hi[step]
	}

	// dry run
	dry := filepath.Join(root, "dry")
	opsPath := filepath.Join(root, "ops.json")
	killed, exit, stderr, err := spawn(stepsPath, dry, filepath.Join(root, "dry.ack"), opsPath, 0, 0)
	if err != nil || killed || exit != 0 {
		c.Inconclusive(fmt.Sprintf("dry run failed: killed=%v exit=%d err=%v stderr=%s", killed, exit, err, stderr))
		return
	}
	var dryOut struct {
		Ops   []opRec    `json:"ops"`
		Final canonState `json:"final"`
	}
	ob, _ := os.ReadFile(opsPath)
	if err := json.Unmarshal(ob, &dryOut); err != nil {
		c.Inconclusive("dry run output: " + err.Error())
		return
	}
	if dryOut.Final.str() != states[len(states)-1] {
		comp, why := diff(canonStates[len(canonStates)-1], dryOut.Final)
		c.Violation("C15|rewriting-manager-diverges-from-plain|"+comp, "in-memory state of the manager that rewrites differs from the manager that logged the same edits one by one without rewrites: "+why, map[string]any{"sequence": seq})
		return
	}
	T := len(dryOut.Ops)
	c.Max("ops_per_sequence", T)
	rewrites := 0
	for _, o := range dryOut.Ops {
		if o.Op == string(vfs.OpRename) && o.Step >= 0 {
			rewrites++
		}
	}
	c.Count("crash_sequence_rewrites", rewrites)

	// choose fault points
	var pts []point
	if c.Thorough() {
		for _, o := range dryOut.Ops {
			pts = append(pts, point{N: o.N, Op: o})
			if o.Op == string(vfs.OpFileWrite) && o.Len > 1 {
				ks := map[int]bool{}
				for k := 1; k < o.Len; k++ {
					if k <= 8 || k >= o.Len-4 || o.Len <= 24 || k%23 == 0 {
						ks[k] = true
					}
				}
				if strings.HasPrefix(o.Class, "MANIFEST(new)") { // snapshot file: not yet CURRENT, a few tears suffice
					ks = map[int]bool{1: true, o.Len / 2: true, o.Len - 1: true}
				}
				var kl []int
				for k := range ks {
					if k > 0 && k < o.Len {
						kl = append(kl, k)
					}
				}
				sort.Ints(kl)
				for _, k := range kl {
					pts = append(pts, point{N: o.N, Torn: k, Op: o})
				}
			}
		}
	} else {
		by := map[string][]opRec{}
		var order []string
		for _, o := range dryOut.Ops {
			k := o.Op + "|" + o.Class
			if _, ok := by[k]; !ok {
				order = append(order, k)
			}
			by[k] = append(by[k], o)
		}
		seen := map[int]bool{}
		for _, k := range order {
			l := by[k]
			for _, i := range []int{0, len(l) / 2, len(l) - 1} {
				if !seen[l[i].N] {
					seen[l[i].N] = true
					pts = append(pts, point{N: l[i].N, Op: l[i]})
				}
			}
		}
		// torn writes: three appends to the live manifest and one snapshot write
		var live []opRec
		var snap *opRec
		for i, o := range dryOut.Ops {
			if o.Op == string(vfs.OpFileWrite) && o.Len > 1 {
				if o.Class == "MANIFEST(live)" {
					live = append(live, o)
				} else if snap == nil {
					snap = &dryOut.Ops[i]
				}
			}
		}
		for _, i := range []int{0, len(live) / 2, len(live) - 1} {
			if len(live) == 0 {
				break
			}
			o := live[i]
			for _, k := range []int{1, 3, 4, 5, o.Len / 2, o.Len - 1} {
				if k > 0 && k < o.Len {
					pts = append(pts, point{N: o.N, Torn: k, Op: o})
				}
			}
		}
		if snap != nil {
			pts = append(pts, point{N: snap.N, Torn: snap.Len / 2, Op: *snap})
		}
	}

	done := map[string]bool{}
	blindReported := false
	var samplePts []any
	for _, p := range pts {
		id := fmt.Sprintf("%d/%d", p.N, p.Torn)
		if done[id] {
			continue
		}
		done[id] = true
		dir := filepath.Join(root, "run-"+strings.ReplaceAll(id, "/", "-"))
		ackPath := dir + ".ack"
		killed, exit, stderr, err := spawn(stepsPath, dir, ackPath, dir+".ops", p.N, p.Torn)
		if err != nil || !killed {
			c.Inconclusive(fmt.Sprintf("crash worker for point %s did not die by SIGKILL: exit=%d err=%v stderr=%s", id, exit, err, stderr))
			_ = os.RemoveAll(dir)
			continue
		}
		_, called, acked := readAck(ackPath)
		st := p.stratum()
		c.Count("evaluations", 1)
		c.Count("fault_points."+st, 1)
		c.Count("crashes_executed", 1)
		lo, hiIdx := hiOf(acked), hiOf(called)
		det := map[string]any{"sequence": seq, "fault_point": map[string]any{"ordinal": p.N, "of_total": T, "op": p.Op.Op, "file_class": p.Op.Class, "during_step": p.Op.Step, "torn_bytes": p.Torn, "write_len": p.Op.Len}, "last_called_step": called, "last_acked_step": acked}
		func() {
			defer os.RemoveAll(dir)
			defer os.Remove(ackPath)
			m, phase, err := reopen(dir)
			if err != nil {
				c.Violation("C15|crash-"+phase+"-error|"+st, fmt.Sprintf("after a crash (%s, op %d of %d, during step %d) the directory does not open: %v", st, p.N, T, p.Op.Step, err), det)
				return
			}
			defer func() { _ = m.Close() }()
			gotC := canon(m.Current())
			gs := gotC.str()
			match := -1
			for j := lo; j <= hiIdx; j++ {
				if states[j] == gs {
					match = j
					break
				}
			}
			if match < 0 {
				// same state up to the offset of invalid value-log segments: its own (single) signature, then go on
				gb := offsetBlind(gotC).str()
				for j := lo; j <= hiIdx; j++ {
					if offsetBlind(canonStates[j]).str() == gb {
						match = j
						break
					}
				}
				if match >= 0 && !blindReported {
					blindReported = true
					_, why := diff(canonStates[match], gotC)
					det["recovered"] = gotC
					det["state_after_prefix"] = canonStates[match]
					c.Violation("C15|crash-state-not-an-allowed-prefix|value-logs:offset-of-invalid-segment", fmt.Sprintf("after a crash (%s, op %d of %d) the recovered state equals the state after %d edits except for the offset of an invalid value-log segment (first = in memory, second = recovered): %s", st, p.N, T, match, why), det)
				}
			}
			if match < 0 {
				cls := "unknown-state"
				for j := 0; j < len(states); j++ {
					if states[j] == gs {
						cls = "future-edit-visible"
						if j < lo {
							cls = "acknowledged-edit-lost"
						}
						break
					}
				}
				comp, why := diff(canonStates[lo], gotC)
				det["recovered"] = gotC
				det["state_after_acked_prefix"] = canonStates[lo]
				det["first_difference_vs_acked_prefix"] = comp + ": " + why
				c.Violation("C15|crash-state-not-an-allowed-prefix|"+cls+"|"+st, fmt.Sprintf("after a crash (%s, op %d of %d, during step %d; acked step %d, called step %d) the recovered state is not the state after any edit prefix in [%d,%d]", st, p.N, T, p.Op.Step, acked, called, lo, hiIdx), det)
				return
			}
			c.Count("recovered_state_is_allowed_prefix", 1)
			if match == lo && lo != hiIdx {
				c.Count("recovered_without_inflight_edit", 1)
			} else if lo != hiIdx {
				c.Count("recovered_with_inflight_edit", 1)
			}
			c.Nontrivial(fmt.Sprintf("crash/%s/inflight=%v/kept=%v", st, lo != hiIdx, match != lo))
			// the recovered manifest must keep working: append, close, reload
			extra := []manifest.Edit{
				{Type: manifest.EditLogPointer, LogSeg: 4242, LogOffset: uint64(p.N)},
				{Type: manifest.EditRegion, Region: &manifest.RegionEdit{Meta: manifest.RegionMeta{ID: 777, StartKey: []byte("post-crash"), Peers: []manifest.PeerMeta{{StoreID: 1, PeerID: 2}}}}},
			}
			for _, e := range extra {
				if err := m.LogEdit(e); err != nil {
					c.Violation("C15|post-crash-edit-error|"+st, fmt.Sprintf("LogEdit on the recovered manifest failed: %v", err), det)
					return
				}
			}
			liveState := canon(m.Current())
			_ = m.Close()
			m2, phase, err := reopen(dir)
			if err != nil {
				c.Violation("C15|post-crash-reload-"+phase+"-error|"+st, fmt.Sprintf("crash, recovery, two more edits, Close: the directory does not reopen: %v", err), det)
				return
			}
			got2 := canon(m2.Current())
			_ = m2.Close()
			if comp, why := diff(liveState, got2); comp != "" {
				det["in_memory"] = liveState
				det["reloaded"] = got2
				c.Violation("C15|post-crash-reload-mismatch|"+comp+"|"+st, fmt.Sprintf("crash, recovery, two more edits, Close, reopen: state differs in %s: %s", comp, why), det)
				return
			}
			c.Count("post_crash_append_reload_equal", 1)
			if len(samplePts) < 3 && p.Op.Step >= 0 {
				samplePts = append(samplePts, map[string]any{"stratum": st, "ordinal": p.N, "torn_bytes": p.Torn, "during_step": p.Op.Step, "acked_step": acked, "recovered_prefix_edits": match, "allowed_prefix_range": []int{lo, hiIdx}})
			}
		}()
	}
	for _, t := range types {
		c.Distinct("edit_kinds", t)
	}
	c.Count("crash_sequences", 1)
	c.Sample(map[string]any{"kind": "crash", "rewrite_threshold": seq.Threshold, "sync_writes": seq.Sync, "steps": len(seq.Steps), "edit_prefix_states": len(states), "ops_in_dry_run": T, "rewrites_in_dry_run": rewrites, "fault_points_executed": len(done), "examples": samplePts})
}

func nReload(tier string) int {
	if tier == "thorough" {
		return 3000
	}
	return 200
}
func nCrash(tier string) int {
	if tier == "thorough" {
		return 20
	}
	return 8
}

func init() {
	core.RegisterWorker("c15crash", worker)
	core.Register(&core.Check{
		ID:    "C15",
		Level: "fault_enumeration",
		Rule: "bare manifest.Manager. Sequences = seeded well-formed calls: LogEdits batches of 1-4, every Log* helper, LogRaftTruncate, explicit Rewrite; edit kinds add/delete file (unique ids, levels 0-6 and 1000), log pointer, " +
			"value-log head/delete/update, raft pointer, region update/delete; field values from {0,1,2,127,128,..,2^32,2^63,MaxUint64,random}, keys nil/empty/0x00/0xFF/360-byte/random. " +
			"(a) reload cases: rewrite threshold from {1,64,300,1000,4096,disabled}; every 1-5 calls the directory is copied and opened with manifest.Verify+manifest.Open and compared with the live Current() (levels as multisets, maps by key); " +
			"1 in 4 checkpoints also closes and reopens the live manager in place. (b) crash cases: worker child with vfs.NewFaultFS, real SIGKILL before file operation N (kill-before) or after only k bytes of a file_write reached the kernel (torn); " +
			"dry run lists the operations; thorough = every operation and (for live-manifest appends) tear lengths 1-8, len-4..len-1, every 23rd (all when len<=24); quick = first/middle/last of every (op kind x file class) stratum + tears {1,3,4,5,len/2,len-1} of three appends; " +
			"oracle: recovered state equals the in-memory state after an edit prefix p with acked <= p <= called (states from a reference manager without rewrites), then two more edits, Close, reload == live. " +
			"evaluations = reload comparisons + crash points; non-trivial/distinct = reload cases with >=1 automatic rewrite (by threshold, rewrite count, edit-kind set) and crash points by (stratum, edit in flight or not, in-flight edit kept or not)",
		Assumptions: []string{
			"'in-memory state after an edit prefix' is defined by the manager's own Current() after logging that prefix one edit at a time with rewrites disabled",
			"a batch passed to LogEdits counts as several edits: a recovered state inside the batch is accepted (the statement only asks for a prefix of the edits)",
			"torn writes model a SIGKILL that arrives while write(2) has copied only part of the buffer; kill-before points model every other crash instant visible to the file system",
		},
		Cases:       func(tier string) int { return nReload(tier) + nCrash(tier) },
		CaseTimeout: 45 * time.Minute,
		Run: func(c *core.Case) {
			if c.Idx < nReload(c.Tier) {
				runReload(c)
			} else {
				runCrash(c)
			}
		},
		Finish: func(a *core.Agg) {
			a.FloorNontrivial(20)
			a.Floor("rewrites_observed", 50)
			a.Floor("reload_cases_with_rewrite", 20)
			a.Floor("edit_kinds", 11)
			a.Floor("crashes_executed", 100)
			strata := map[string]int64{}
			var total int64
			for k, v := range a.Counts {
				if strings.HasPrefix(k, "fault_points.") {
					strata[strings.TrimPrefix(k, "fault_points.")] = v
					total += v
				}
			}
			a.Extra["fault_points_per_stratum"] = strata
			a.Extra["fault_points_total"] = total
			for _, must := range []string{"kill-before:file_write|MANIFEST(live)", "kill-before:file_write|MANIFEST(new)", "kill-before:write_file|CURRENT.tmp", "kill-before:rename|CURRENT.tmp->CURRENT", "kill-before:remove|MANIFEST(old)", "torn:file_write|MANIFEST(live)"} {
				a.Floor("fault_points."+must, 3)
			}
		},
	})
}
