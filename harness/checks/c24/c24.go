// Package c24: splits and merges keep regions a partition with increasing epochs.
//
// Monitor: one real raftstore store.Store over a real manifest.Manager. The
// harness PeerFactory captures the AdminApply function the store installs into
// every peer, so SPLIT / MERGE admin commands run through the store's own
// handler; SplitRegion, RemoveRegion, UpdateRegionState and StopPeer are also
// called directly. After every operation the catalog (Store.RegionMetas) is
// compared with the catalog observed before it using interval arithmetic with
// +-infinity bounds (package ivl): live ranges pairwise disjoint, union equal
// to the union expected for that operation, epoch of every region whose range
// or epoch changed strictly larger, states only forward. The manifest is closed
// and reopened (mid-sequence and at the end) and both the reloaded manifest
// snapshot and a fresh Store built from it must equal the catalog before.
package c24

import (
	"bytes"
	"fmt"
	"math/rand"
	"sort"
	"strings"

	"github.com/feichai0017/NoKV/manifest"
	"github.com/feichai0017/NoKV/pb"
	myraft "github.com/feichai0017/NoKV/raft"
	"github.com/feichai0017/NoKV/raftstore/peer"
	"github.com/feichai0017/NoKV/raftstore/store"
	"verif/harness/internal/core"
	"verif/harness/internal/ivl"
)

const storeID = 1

type noopTransport struct{}

func (noopTransport) Send(myraft.Message) {}

// keyPool is the alphabet region bounds and split keys are drawn from.
var keyPool = []string{"\x00", "a", "a\x00", "b", "b\x00", "c", "d", "f", "g", "m", "m\x00", "s", "z", "z\xff", "\xff", "\xff\xff"}

type hookEvent struct {
	ID    uint64
	State manifest.RegionState
	Del   bool
}

type fixture struct {
	c       *core.Case
	dir     string
	mgr     *manifest.Manager
	st      *store.Store
	admin   peer.AdminApplyFunc
	peers   []*peer.Peer
	events  []hookEvent
	rewrite int64

	nextRegion uint64
	nextPeer   uint64
}

func (f *fixture) builder(meta manifest.RegionMeta) (*peer.Config, error) {
	var peerID uint64
	for _, pm := range meta.Peers {
		if pm.StoreID == storeID {
			peerID = pm.PeerID
			break
		}
	}
	if peerID == 0 {
		return nil, fmt.Errorf("harness: store %d has no peer in region %d", storeID, meta.ID)
	}
	return &peer.Config{
		RaftConfig: myraft.Config{ID: peerID, ElectionTick: 5, HeartbeatTick: 1, MaxSizePerMsg: 1 << 20, MaxInflightMsgs: 256, PreVote: true},
		Transport:  noopTransport{},
		Apply:      func([]myraft.Entry) error { return nil },
		GroupID:    meta.ID,
		Region:     manifest.CloneRegionMetaPtr(&meta),
	}, nil
}

func (f *fixture) open() error {
	mgr, err := manifest.Open(f.dir, nil)
	if err != nil {
		return err
	}
	if f.rewrite > 0 {
		mgr.SetRewriteThreshold(f.rewrite)
	}
	f.mgr = mgr
	f.admin = nil
	f.peers = nil
	f.st = store.NewStoreWithConfig(store.Config{
		StoreID:     storeID,
		Manifest:    mgr,
		PeerBuilder: f.builder,
		PeerFactory: func(cfg *peer.Config) (*peer.Peer, error) {
			if cfg.AdminApply != nil {
				f.admin = cfg.AdminApply
			}
			p, err := peer.NewPeer(cfg)
			if err == nil {
				f.peers = append(f.peers, p)
			}
			return p, err
		},
		RegionHooks: store.RegionHooks{
			OnRegionUpdate: func(m manifest.RegionMeta) { f.events = append(f.events, hookEvent{ID: m.ID, State: m.State}) },
			OnRegionRemove: func(id uint64) { f.events = append(f.events, hookEvent{ID: id, Del: true}) },
		},
	})
	return nil
}

// shutdown simulates a process stop: peers are closed without going through
// StopPeer (which would move regions to Removing), then the manifest is closed.
func (f *fixture) shutdown() {
	for _, p := range f.peers {
		_ = p.Close()
	}
	f.peers = nil
	if f.st != nil {
		f.st.Close()
	}
	if f.mgr != nil {
		_ = f.mgr.Close()
	}
	f.st, f.mgr = nil, nil
}

func (f *fixture) startRegion(meta manifest.RegionMeta) error {
	cfg, err := f.builder(meta)
	if err != nil {
		return err
	}
	var bs []myraft.Peer
	for _, pm := range meta.Peers {
		bs = append(bs, myraft.Peer{ID: pm.PeerID})
	}
	_, err = f.st.StartPeer(cfg, bs)
	return err
}

func (f *fixture) catalog() map[uint64]manifest.RegionMeta {
	out := map[uint64]manifest.RegionMeta{}
	for _, m := range f.st.RegionMetas() {
		out[m.ID] = m
	}
	return out
}

type regView struct {
	ID    uint64 `json:"id"`
	Range string `json:"range"`
	Epoch string `json:"epoch"`
	State string `json:"state"`
	Peers string `json:"peers,omitempty"`
}

var stateNames = map[manifest.RegionState]string{manifest.RegionStateNew: "new", manifest.RegionStateRunning: "running", manifest.RegionStateRemoving: "removing", manifest.RegionStateTombstone: "tombstone"}

func stateName(s manifest.RegionState) string {
	if n, ok := stateNames[s]; ok {
		return n
	}
	return fmt.Sprintf("state%d", s)
}

func rng(m manifest.RegionMeta) ivl.Range { return ivl.Range{Start: m.StartKey, End: m.EndKey} }

func view(cat map[uint64]manifest.RegionMeta) []regView {
	var ids []uint64
	for id := range cat {
		ids = append(ids, id)
	}
	sort.Slice(ids, func(i, j int) bool { return ids[i] < ids[j] })
	var out []regView
	for _, id := range ids {
		m := cat[id]
		out = append(out, regView{ID: id, Range: rng(m).String(), Epoch: fmt.Sprintf("v%d/c%d", m.Epoch.Version, m.Epoch.ConfVersion), State: stateName(m.State), Peers: fmt.Sprint(m.Peers)})
	}
	return out
}

func isLive(m manifest.RegionMeta) bool { return m.State != manifest.RegionStateTombstone }

func liveSet(cat map[uint64]manifest.RegionMeta) ivl.Set {
	var rs []ivl.Range
	for _, m := range cat {
		if isLive(m) {
			rs = append(rs, rng(m))
		}
	}
	return ivl.Normalize(rs)
}

func sortedLive(cat map[uint64]manifest.RegionMeta) []manifest.RegionMeta {
	var out []manifest.RegionMeta
	for _, m := range cat {
		if isLive(m) {
			out = append(out, m)
		}
	}
	sort.Slice(out, func(i, j int) bool {
		if c := bytes.Compare(out[i].StartKey, out[j].StartKey); c != 0 {
			return c < 0
		}
		return out[i].ID < out[j].ID
	})
	return out
}

func metaEqual(a, b manifest.RegionMeta) bool {
	if a.ID != b.ID || !bytes.Equal(a.StartKey, b.StartKey) || !bytes.Equal(a.EndKey, b.EndKey) || a.Epoch != b.Epoch || a.State != b.State || len(a.Peers) != len(b.Peers) {
		return false
	}
	for i := range a.Peers {
		if a.Peers[i] != b.Peers[i] {
			return false
		}
	}
	return true
}

// epochGreater: strictly larger in the product order of (version, conf version).
func epochGreater(post, pre manifest.RegionEpoch) bool {
	return post.Version >= pre.Version && post.ConfVersion >= pre.ConfVersion && post != pre
}

// opInfo describes one driven operation for the oracle.
type opInfo struct {
	Desc string `json:"op"`
	Ctx  string `json:"ctx"` // structural context used in signatures
	// expected union of live ranges after the operation, derived from the
	// catalog observed before it and the meaning of the operation.
	removes   []ivl.Range
	skipCover bool   // unused: every generated operation is judged on all clauses
	Err       string `json:"err,omitempty"`
}

type finding struct {
	rule, what string
}

// judge applies the statement to (pre, op, post).
func judge(pre, post map[uint64]manifest.RegionMeta, op *opInfo) *finding {
	// 1. pairwise disjoint live ranges
	live := sortedLive(post)
	for i := 0; i < len(live); i++ {
		for j := i + 1; j < len(live); j++ {
			if ivl.Overlap(rng(live[i]), rng(live[j])) {
				return &finding{"overlap", fmt.Sprintf("live regions %d %s and %d %s overlap", live[i].ID, rng(live[i]), live[j].ID, rng(live[j]))}
			}
		}
	}
	// 2. states only move forward
	for id, a := range pre {
		if b, ok := post[id]; ok && b.State < a.State {
			return &finding{"state-regressed", fmt.Sprintf("region %d state %s -> %s", id, stateName(a.State), stateName(b.State))}
		}
	}
	// 3. coverage
	if !op.skipCover {
		want := liveSet(pre)
		for _, r := range op.removes {
			want = want.Minus(r)
		}
		got := liveSet(post)
		if lost := want.MinusSet(got); len(lost) > 0 {
			return &finding{"coverage-lost", fmt.Sprintf("keys %s were covered by live regions before and must still be, but are not (covered now: %s)", lost, got)}
		}
		if gained := got.MinusSet(want); len(gained) > 0 {
			return &finding{"coverage-gained", fmt.Sprintf("keys %s are covered now but were not covered before (expected %s)", gained, want)}
		}
	}
	// 4. epochs
	for id, a := range pre {
		b, ok := post[id]
		if !ok {
			continue
		}
		changed := !bytes.Equal(a.StartKey, b.StartKey) || !bytes.Equal(a.EndKey, b.EndKey) || a.Epoch != b.Epoch
		if changed && !epochGreater(b.Epoch, a.Epoch) {
			return &finding{"epoch-not-increased", fmt.Sprintf("region %d changed %s v%d/c%d -> %s v%d/c%d", id, rng(a), a.Epoch.Version, a.Epoch.ConfVersion, rng(b), b.Epoch.Version, b.Epoch.ConfVersion)}
		}
	}
	return nil
}

func shapeOf(m manifest.RegionMeta) string { return rng(m).Shape() }

// relation classifies a merge pair from the catalog observed before the merge.
func relation(pre map[uint64]manifest.RegionMeta, target, source uint64) string {
	t, tok := pre[target]
	s, sok := pre[source]
	switch {
	case !tok || !sok:
		return "unknown-region"
	case target == source:
		return "self"
	case len(t.EndKey) > 0 && bytes.Equal(t.EndKey, s.StartKey):
		return "right-neighbour"
	case len(s.EndKey) > 0 && bytes.Equal(s.EndKey, t.StartKey):
		return "left-neighbour"
	case bytes.Compare(s.StartKey, t.StartKey) > 0:
		return "non-adjacent-right"
	default:
		return "non-adjacent-left"
	}
}

func splitPos(parent manifest.RegionMeta, key []byte) string {
	switch {
	case len(key) == 0:
		return "empty"
	case bytes.Equal(key, parent.StartKey):
		return "at-start"
	case len(parent.EndKey) > 0 && bytes.Equal(key, parent.EndKey):
		return "at-end"
	case len(parent.StartKey) > 0 && bytes.Compare(key, parent.StartKey) < 0:
		return "below"
	case len(parent.EndKey) > 0 && bytes.Compare(key, parent.EndKey) > 0:
		return "above"
	}
	return "inside"
}

func pickKey(r *rand.Rand) []byte {
	if r.Intn(8) == 0 {
		b := make([]byte, 1+r.Intn(2))
		for i := range b {
			b[i] = byte(r.Intn(256))
		}
		return b
	}
	return []byte(keyPool[r.Intn(len(keyPool))])
}

// pickSplitKey draws a split key in a chosen position relative to the parent.
func pickSplitKey(r *rand.Rand, parent manifest.RegionMeta) []byte {
	switch x := r.Intn(20); {
	case x < 12: // inside, if the pool has one
		var in [][]byte
		for _, k := range keyPool {
			kb := []byte(k)
			if rng(parent).Contains(kb) && !bytes.Equal(kb, parent.StartKey) {
				in = append(in, kb)
			}
		}
		if len(in) > 0 {
			return in[r.Intn(len(in))]
		}
		if len(parent.StartKey) > 0 {
			return append(append([]byte(nil), parent.StartKey...), byte(r.Intn(256)))
		}
		return pickKey(r)
	case x < 14:
		return append([]byte(nil), parent.StartKey...)
	case x < 16:
		return append([]byte(nil), parent.EndKey...)
	case x < 17:
		return nil
	default:
		return pickKey(r)
	}
}

func initialPartition(r *rand.Rand) []ivl.Range {
	n := 1 + r.Intn(5)
	seen := map[string]bool{}
	var bounds []string
	for len(bounds) < n+1 {
		k := keyPool[r.Intn(len(keyPool))]
		if !seen[k] {
			seen[k] = true
			bounds = append(bounds, k)
		}
	}
	sort.Strings(bounds)
	if r.Intn(2) == 0 {
		bounds[0] = "" // -inf
	}
	last := bounds[len(bounds)-1]
	if r.Intn(2) == 0 {
		last = "" // +inf
	}
	var out []ivl.Range
	for i := 0; i < n; i++ {
		end := bounds[i+1]
		if i == n-1 {
			end = last
		}
		out = append(out, ivl.R(bounds[i], end))
	}
	// sometimes leave a hole: the property speaks of "the key space they covered"
	if len(out) >= 3 && r.Intn(4) == 0 {
		h := 1 + r.Intn(len(out)-2)
		out = append(out[:h], out[h+1:]...)
	}
	return out
}

func adminSplit(parent uint64, splitKey []byte, child manifest.RegionMeta, startInChild bool) *pb.AdminCommand {
	pc := &pb.RegionMeta{Id: child.ID, EndKey: child.EndKey, EpochVersion: child.Epoch.Version, EpochConfVersion: child.Epoch.ConfVersion}
	if startInChild {
		pc.StartKey = child.StartKey
	}
	for _, p := range child.Peers {
		pc.Peers = append(pc.Peers, &pb.RegionPeer{StoreId: p.StoreID, PeerId: p.PeerID})
	}
	return &pb.AdminCommand{Type: pb.AdminCommand_SPLIT, Split: &pb.SplitCommand{ParentRegionId: parent, SplitKey: splitKey, Child: pc}}
}

// run drives 12 operations per case. A violation ends the current segment
// (its catalog is no longer a partition, so later operations could not be
// judged on their own); the remaining operation budget continues on a fresh
// store with a fresh starting partition, so that a recorded (known) defect
// does not starve the rest of the exploration.
func run(c *core.Case) {
	budget := 12
	for seg := 0; budget > 0 && seg < 12; seg++ {
		if !segment(c, seg, &budget) {
			return
		}
	}
}

// segment returns false when the case cannot continue (infrastructure problem).
func segment(c *core.Case, seg int, budget *int) bool {
	r := c.Rng
	f := &fixture{c: c, dir: c.TempDir(), nextRegion: 100, nextPeer: 1000}
	if r.Intn(3) == 0 {
		f.rewrite = 256 // manifest rewrites (snapshot path) happen during the sequence
	}
	if err := f.open(); err != nil {
		c.Inconclusive("manifest open: " + err.Error())
		return false
	}
	defer func() {
		if f.st != nil {
			f.shutdown()
		}
	}()
	var trace []any
	fail := func(rule, ctx, what string, pre, post map[uint64]manifest.RegionMeta) {
		c.Violation("C24|"+rule+"|"+ctx, what, map[string]any{"ops": trace, "before": view(pre), "after": view(post)})
	}

	// starting partition
	parts := initialPartition(r)
	for _, p := range parts {
		f.nextRegion++
		f.nextPeer++
		meta := manifest.RegionMeta{ID: f.nextRegion, StartKey: p.Start, EndKey: p.End,
			Epoch: manifest.RegionEpoch{Version: uint64(1 + r.Intn(3)), ConfVersion: uint64(1 + r.Intn(2))},
			Peers: []manifest.PeerMeta{{StoreID: storeID, PeerID: f.nextPeer}}}
		if r.Intn(4) == 0 {
			meta.Peers = append(meta.Peers, manifest.PeerMeta{StoreID: 2, PeerID: f.nextPeer + 500000})
		}
		if err := f.startRegion(meta); err != nil {
			c.Inconclusive("start region: " + err.Error())
			return false
		}
	}
	start := f.catalog()
	trace = append(trace, map[string]any{"start": view(start)})
	c.Distinct("start_shapes", fmt.Sprintf("%d regions, %s", len(parts), liveSet(start)))
	if f.admin == nil {
		c.Inconclusive("AdminApply was not installed by the store")
		return false
	}

	lastState := map[uint64]manifest.RegionState{}
	deleted := map[uint64]bool{}
	evPos := 0
	checkEvents := func() *finding {
		for ; evPos < len(f.events); evPos++ {
			e := f.events[evPos]
			if e.Del {
				deleted[e.ID] = true
				continue
			}
			if prev, ok := lastState[e.ID]; ok && e.State < prev {
				return &finding{"state-regressed", fmt.Sprintf("catalog update event moved region %d from %s to %s", e.ID, stateName(prev), stateName(e.State))}
			}
			lastState[e.ID] = e.State
		}
		return nil
	}
	_ = checkEvents()

	// reload compares the catalog with what a restart reads back.
	reload := func(final bool) bool {
		pre := f.catalog()
		f.shutdown()
		mgr, err := manifest.Open(f.dir, nil)
		if err != nil {
			c.Violation("C24|reload-mismatch|manifest-open-failed", err.Error(), map[string]any{"ops": trace, "before": view(pre)})
			return false
		}
		snap := mgr.RegionSnapshot()
		_ = mgr.Close()
		c.Count("reloads", 1)
		c.Count("evaluations", 1)
		diff := func(post map[uint64]manifest.RegionMeta, via string) bool {
			for id, a := range pre {
				b, ok := post[id]
				if !ok {
					fail("reload-mismatch", "missing-after-restart", fmt.Sprintf("region %d is in the catalog but not in %s", id, via), pre, post)
					return false
				}
				if !metaEqual(a, b) {
					fail("reload-mismatch", "differs-after-restart", fmt.Sprintf("region %d differs in %s", id, via), pre, post)
					return false
				}
			}
			for id := range post {
				if _, ok := pre[id]; !ok {
					fail("reload-mismatch", "extra-after-restart", fmt.Sprintf("region %d appears in %s but was not in the catalog", id, via), pre, post)
					return false
				}
			}
			return true
		}
		if !diff(snap, "the reopened manifest") {
			return false
		}
		if err := f.open(); err != nil {
			c.Inconclusive("manifest reopen: " + err.Error())
			return false
		}
		if !diff(f.catalog(), "a store rebuilt from the manifest") {
			return false
		}
		if final {
			return true
		}
		// restart peers of running regions, as a store boot does
		var ids []uint64
		for id := range pre {
			ids = append(ids, id)
		}
		sort.Slice(ids, func(i, j int) bool { return ids[i] < ids[j] })
		for _, id := range ids {
			m := pre[id]
			if m.State != manifest.RegionStateRunning {
				continue
			}
			if err := f.startRegion(m); err != nil {
				c.Inconclusive("restart region: " + err.Error())
				return false
			}
		}
		if !diff(f.catalog(), "the store after its peers were restarted") {
			return false
		}
		return true
	}

	var accepted []string
	for *budget > 0 {
		*budget--
		pre := f.catalog()
		live := sortedLive(pre)
		var all []manifest.RegionMeta
		for _, m := range pre {
			all = append(all, m)
		}
		sort.Slice(all, func(a, b int) bool { return all[a].ID < all[b].ID })
		if len(all) == 0 {
			break
		}
		// removals and state changes mostly pick live regions, rarely tombstoned ones;
		// splits and merges only ever involve live regions (pickLive)
		pickRegion := func() manifest.RegionMeta {
			if len(live) > 0 && r.Intn(20) != 0 {
				return live[r.Intn(len(live))]
			}
			return all[r.Intn(len(all))]
		}
		op := &opInfo{}
		var err error
		class := ""
		x := r.Intn(100)
		if len(live) == 0 && x < 72 {
			x = 72 + r.Intn(20) // nothing live to split or merge: removal or state change
		}
		// the catalog before the operation must itself be a partition: every
		// earlier operation was judged, so anything else is a hole in this monitor
		for a := 0; a < len(live); a++ {
			if rng(live[a]).IsEmpty() {
				c.Inconclusive(fmt.Sprintf("live region %d has an empty range %s before an operation", live[a].ID, rng(live[a])))
				return true
			}
			for b := a + 1; b < len(live); b++ {
				if ivl.Overlap(rng(live[a]), rng(live[b])) {
					c.Inconclusive("live regions overlap before an operation")
					return true
				}
			}
		}
		pickLive := func() manifest.RegionMeta { return live[r.Intn(len(live))] }
		if len(live) == 1 && x >= 36 && x < 72 && r.Intn(5) != 0 {
			x = 0 // a lone region can only be merged with itself: mostly split it instead
		}
		switch {
		case x < 36: // split
			parent := pickLive()
			key := pickSplitKey(r, parent)
			f.nextRegion++
			f.nextPeer++
			child := manifest.RegionMeta{ID: f.nextRegion, StartKey: key, EndKey: append([]byte(nil), parent.EndKey...),
				Epoch: manifest.RegionEpoch{Version: parent.Epoch.Version + 1, ConfVersion: parent.Epoch.ConfVersion},
				Peers: []manifest.PeerMeta{{StoreID: storeID, PeerID: f.nextPeer}}}
			variant := r.Intn(10)
			if variant == 0 {
				// a child this store cannot host: the split must fail as a whole
				child.Peers = []manifest.PeerMeta{{StoreID: 9, PeerID: f.nextPeer}}
			}
			pos := splitPos(parent, key)
			op.Ctx = "split:key=" + pos
			class = "split-" + pos
			if f.admin == nil {
				variant = 5
			}
			switch {
			case variant >= 5 || len(key) == 0:
				op.Desc = fmt.Sprintf("SplitRegion(parent=%d %s, key=%q, child=%d)", parent.ID, rng(parent), key, child.ID)
				_, err = f.st.SplitRegion(parent.ID, child)
			default:
				inChild := variant%2 == 0
				op.Desc = fmt.Sprintf("AdminApply SPLIT(parent=%d %s, key=%q, child=%d, startInChild=%v)", parent.ID, rng(parent), key, child.ID, inChild)
				err = f.admin(adminSplit(parent.ID, key, child, inChild))
			}
		case x < 72: // merge
			if f.admin == nil {
				continue
			}
			target := pickLive()
			var source uint64
			idx := -1
			for k, m := range live {
				if m.ID == target.ID {
					idx = k
				}
			}
			source = pickLive().ID // any live region: mostly non-adjacent, sometimes self
			if source == target.ID {
				source = pickLive().ID
			}
			switch y := r.Intn(20); {
			case y < 7:
				if idx >= 0 && idx+1 < len(live) {
					source = live[idx+1].ID
				}
			case y < 14:
				if idx > 0 {
					source = live[idx-1].ID
				}
			case y < 15:
				source = target.ID
			case y < 16:
				source = 9999
			}
			rel := relation(pre, target.ID, source)
			op.Ctx = "merge:" + rel
			class = "merge-" + rel + "/" + shapeOf(target)
			op.Desc = fmt.Sprintf("AdminApply MERGE(target=%d %s, source=%d %s)", target.ID, rng(target), source, rng(pre[source]))
			err = f.admin(&pb.AdminCommand{Type: pb.AdminCommand_MERGE, Merge: &pb.MergeCommand{TargetRegionId: target.ID, SourceRegionId: source}})
		case x < 82: // removal
			m := pickRegion()
			op.Ctx = "remove"
			class = "remove"
			if r.Intn(2) == 0 {
				for _, pm := range m.Peers {
					if pm.StoreID == storeID {
						f.st.StopPeer(pm.PeerID)
					}
				}
				op.Desc = fmt.Sprintf("StopPeer+RemoveRegion(%d %s)", m.ID, rng(m))
			} else {
				op.Desc = fmt.Sprintf("RemoveRegion(%d %s)", m.ID, rng(m))
			}
			if isLive(m) {
				op.removes = append(op.removes, rng(m))
			}
			err = f.st.RemoveRegion(m.ID)
		case x < 92: // state change
			m := pickRegion()
			to := manifest.RegionState(r.Intn(4))
			if r.Intn(12) == 0 {
				to = manifest.RegionState(4 + r.Intn(3))
			}
			op.Ctx = "state:" + stateName(m.State) + "->" + stateName(to)
			class = "state-" + stateName(m.State) + "-" + stateName(to)
			op.Desc = fmt.Sprintf("UpdateRegionState(%d %s, %s)", m.ID, rng(m), stateName(to))
			err = f.st.UpdateRegionState(m.ID, to)
			// a region that became a tombstone is no longer live
			if isLive(m) {
				if after, ok := f.st.RegionMetaByID(m.ID); ok && after.State == manifest.RegionStateTombstone {
					op.removes = append(op.removes, rng(m))
				}
			}
		case x < 96: // stop a peer (region goes to removing, stays in the catalog)
			m := pickRegion()
			op.Ctx = "stop-peer"
			class = "stop-peer"
			op.Desc = fmt.Sprintf("StopPeer(region %d %s)", m.ID, rng(m))
			for _, pm := range m.Peers {
				if pm.StoreID == storeID {
					f.st.StopPeer(pm.PeerID)
				}
			}
		default: // restart
			trace = append(trace, map[string]any{"op": "restart"})
			if !reload(false) {
				return true
			}
			accepted = append(accepted, "restart")
			continue
		}
		if err != nil {
			op.Err = err.Error()
			c.Count("ops_rejected", 1)
		} else {
			c.Count("ops_accepted", 1)
			accepted = append(accepted, class)
			c.Distinct("accepted_classes", class)
		}
		c.Distinct("op_outcomes", fmt.Sprintf("%s:%v", op.Ctx, err == nil))
		trace = append(trace, op)
		post := f.catalog()
		c.Count("evaluations", 1)
		fd := judge(pre, post, op)
		if fd == nil {
			fd = checkEvents()
		}
		if fd != nil {
			fail(fd.rule, op.Ctx, fmt.Sprintf("after %s (err=%v): %s", op.Desc, err, fd.what), pre, post)
			c.Count("segments_ended_by_violation", 1)
			_ = reload(true)
			if c.Idx < 32 {
				c.Sample(map[string]any{"ops": trace, "ended_by": fd.rule + "|" + op.Ctx})
			}
			return true
		}
		c.Max("live_regions", len(sortedLive(post)))
	}
	if !reload(true) {
		return true
	}
	c.Nontrivial(strings.Join(accepted, ","))
	if c.Idx < 32 {
		c.Sample(map[string]any{"ops": trace, "final": view(f.catalog())})
	}
	return true
}

func init() {
	core.Register(&core.Check{
		ID:    "C24",
		Level: "exploration",
		Rule: "one case = a random starting partition (1-5 regions over a 16-key alphabet, bounded or unbounded ends, sometimes with a hole) on a real Store+manifest, then 12 seeded operations: " +
			"SPLIT/MERGE admin commands through the store's own AdminApply handler captured by a harness PeerFactory, SplitRegion, RemoveRegion (with/without StopPeer), UpdateRegionState, StopPeer, restart; " +
			"split keys inside/at-start/at-end/below/above/empty, merge sources right neighbour/left neighbour/non-adjacent/self/unknown; after every operation the catalog is judged against the catalog before it " +
			"(disjoint, same union by interval arithmetic with +-inf, epoch strictly larger on change, state forward) and after each restart against the reopened manifest; " +
			"non-trivial/distinct = distinct sequences of accepted operation classes (class = kind + key position / neighbour relation + target shape)",
		Assumptions: []string{
			"a live region is one present in the catalog whose state is not tombstone; RemoveRegion and a transition to tombstone remove exactly that region's range from the covered key space",
			"split commands describe a well-formed child (fresh region id, child range = [split key, parent end)); malformed children are not generated",
			"splits and merges are only issued for live (non-tombstone) regions; tombstoned regions are only targets of RemoveRegion / UpdateRegionState",
			"the epoch clause is applied to regions whose range or epoch changed, not to pure state transitions",
			"restart = clean close and reopen of the manifest (crash durability of manifest edits belongs to C15)",
		},
		Cases: func(tier string) int {
			if tier == "thorough" {
				return 20000
			}
			return 500
		},
		Run: run,
		Finish: func(a *core.Agg) {
			a.Floor("ops_accepted", 500)
			a.Floor("reloads", 400)
			a.Floor("accepted_classes", 8)
			a.FloorNontrivial(100)
		},
	})
}
