// Package c18: a distributed transaction's outcome is unique, final and
// conflict-free (Percolator commit/rollback/resolve/check-status through
// raftstore/kv.Apply).
//
// Engine: harness/internal/perco (shared with C17, C19). This check reports the
// C18 rule set.
package c18

import (
	"verif/harness/internal/core"
	"verif/harness/internal/perco"
)

func init() {
	core.Register(&core.Check{
		ID:    "C18",
		Level: "exploration",
		Rule: perco.RuleCommon + " C18 oracle (on responses, subsequent reads and a final model-independent dump of the write column): an acknowledged COMMIT needs, on every key, the txn's lock or its commit record " +
			"(never a rollback record, never nothing); a COMMIT naming a rolled-back key commits no key; a refused COMMIT commits no key; data of a rolled-back txn is never returned by a read; a committed value stays readable after any rollback/replay; " +
			"CHECK_TXN_STATUS never reports a committed txn rolled back or vice versa; a repeated request never changes decided state; no key holds both a commit and a rollback record of one txn; " +
			"[start,commit] intervals of committed puts/deletes of one key are disjoint. Non-trivial case = at least one commit-after-rollback attempt, rollback-after-commit attempt or repeated/replayed state-changing request was applied; distinct = distinct request-kind traces",
		Assumptions:      perco.Assumptions,
		CrashIsViolation: true,
		Cases:            perco.Cases,
		Run:              func(c *core.Case) { perco.RunCase(c, "C18") },
		Finish: func(a *core.Agg) {
			a.FloorNontrivial(60)
			a.Floor("commit_after_rollback_attempts", 100)
			a.Floor("rollback_after_commit_attempts", 20)
			a.Floor("repeated_requests_applied", 400)
			a.Floor("whole_log_replays", 15)
			a.Floor("committed_writer_pairs_checked", 5)
			perco.ActionFloors(a)
		},
	})
}
