// Package c27: PD timestamps and IDs are unique and increasing across restarts.
//
// Engine: E-sched. 2-4 callers issue Tso/AllocID requests against a real
// pd/server.Service whose storage is the real pd/storage.LocalStore behind a
// harness wrapper: SaveAllocatorState parks the caller before the checkpoint is
// written (the counters have been read by then) and after it.
//
// Oracle on one logical clock (atomic tickets; "returned" tickets are taken
// after the call returned, probe tickets before the state is read):
//
//	R-inc    per caller and counter, every response starts above the previous response's last value
//	R-uniq   all returned ranges of a counter are pairwise disjoint
//	R-restart at every probe (every scheduling step, every checkpoint completion, the end) the
//	         persisted state is copied and a PD is restarted from it exactly as cmd/nokv/pd.go
//	         does (Load, ResolveAllocatorStarts, new allocators, new Service); its first Tso and
//	         AllocID must lie above every value whose response had been returned before the probe
//	         started - otherwise that restart hands the value out twice.
package c27

import (
	"bufio"
	"context"
	"errors"
	"fmt"
	"math/rand"
	"os"
	"os/exec"
	"path/filepath"
	"sort"
	"strings"
	"sync"
	"sync/atomic"
	"syscall"
	"time"

	"google.golang.org/grpc"
	"google.golang.org/grpc/credentials/insecure"

	"github.com/feichai0017/NoKV/manifest"
	"github.com/feichai0017/NoKV/pb"
	pdcore "github.com/feichai0017/NoKV/pd/core"
	pdserver "github.com/feichai0017/NoKV/pd/server"
	pdstorage "github.com/feichai0017/NoKV/pd/storage"
	"github.com/feichai0017/NoKV/pd/tso"
	"verif/harness/internal/core"
	"verif/harness/internal/sched"
)

type call struct {
	Kind  string `json:"kind"` // ts | id
	Count uint64 `json:"count"`
}

type scenario struct {
	Workers int      `json:"workers"`
	Calls   [][]call `json:"calls"`
	// Warm: requests served (and checkpointed) before the concurrent phase, so that restarts do
	// not start from an empty state file.
	Warm int `json:"warm"`
	// FailSaves: ordinals (0-based, concurrent phase only) of checkpoint writes that fail
	// with an injected storage error without writing anything; that caller gets the error.
	FailSaves []int `json:"fail_saves,omitempty"`
}

func genScenario(rng *rand.Rand, small bool) scenario {
	sc := scenario{Workers: 2 + rng.Intn(3), Warm: rng.Intn(3)}
	if small {
		sc.Workers = 2
	}
	for w := 0; w < sc.Workers; w++ {
		n := 1 + rng.Intn(3)
		if small {
			n = 1 + rng.Intn(2)
		}
		var l []call
		for i := 0; i < n; i++ {
			k := "ts"
			if rng.Intn(3) == 0 {
				k = "id"
			}
			l = append(l, call{Kind: k, Count: uint64(rng.Intn(4))}) // 0 means "one"
		}
		sc.Calls = append(sc.Calls, l)
	}
	if rng.Intn(3) == 0 {
		sc.FailSaves = append(sc.FailSaves, rng.Intn(3))
		if rng.Intn(2) == 0 {
			sc.FailSaves = append(sc.FailSaves, 1+rng.Intn(4))
		}
	}
	return sc
}

type event struct {
	Seq   int64  `json:"seq"`
	W     int    `json:"w"`
	Kind  string `json:"k"` // call | ret | save-start | save-end | probe
	C     string `json:"counter,omitempty"`
	First uint64 `json:"first,omitempty"`
	Last  uint64 `json:"last,omitempty"`
	ID    uint64 `json:"id_current,omitempty"`
	TS    uint64 `json:"ts_current,omitempty"`
	End   int64  `json:"end,omitempty"`
	NextT uint64 `json:"restart_first_ts,omitempty"`
	NextI uint64 `json:"restart_first_id,omitempty"`
	Err   string `json:"err,omitempty"`
}

// yieldStore is the harness pdstorage.Store: the yield point between "counters read" and
// "checkpoint written".
type yieldStore struct {
	inner pdstorage.Store
	rs    *runState
	fail  map[int]bool
	n     int // checkpoint writes by workers so far (token scheduling: one caller at a time)
}

var errInjectedSave = errors.New("injected: checkpoint write failed")

func (s *yieldStore) Load() (pdstorage.Snapshot, error)      { return s.inner.Load() }
func (s *yieldStore) SaveRegion(m manifest.RegionMeta) error { return s.inner.SaveRegion(m) }
func (s *yieldStore) DeleteRegion(id uint64) error           { return s.inner.DeleteRegion(id) }
func (s *yieldStore) Close() error                           { return s.inner.Close() }
func (s *yieldStore) SaveAllocatorState(id, ts uint64) error {
	rs := s.rs
	w := rs.run.Current()
	me := -1
	if w != nil {
		me = w.ID
	}
	rs.log(me, event{Kind: "save-start", ID: id, TS: ts}) // the counters have been read
	if w != nil {
		w.Yield("pd.save.before-write")
	}
	var err error
	if w != nil {
		k := s.n
		s.n++
		if s.fail[k] {
			err = errInjectedSave
			rs.failed.Add(1)
		}
	}
	if err == nil {
		err = s.inner.SaveAllocatorState(id, ts)
	}
	e := event{Kind: "save-end", ID: id, TS: ts}
	if err != nil {
		e.Err = err.Error()
	}
	rs.log(me, e)
	rs.probe(me)
	if w != nil {
		w.Yield("pd.save.after-write")
	}
	return err
}

type runState struct {
	run    *sched.Run
	ctr    atomic.Int64
	mu     sync.Mutex
	evs    []event
	dir    string // live PD work dir
	rdir   string // restart dir
	rmu    sync.Mutex
	rst    *pdstorage.LocalStore
	lastP  string
	lastT  uint64
	lastI  uint64
	perr   []string
	failed atomic.Int64 // injected checkpoint-write failures
}

func (rs *runState) log(w int, e event) int64 {
	e.W = w
	e.Seq = rs.ctr.Add(1)
	rs.mu.Lock()
	rs.evs = append(rs.evs, e)
	rs.mu.Unlock()
	return e.Seq
}

// probe copies the persisted checkpoint and restarts a PD from the copy.
func (rs *runState) probe(w int) {
	rs.rmu.Lock()
	defer rs.rmu.Unlock()
	a := rs.ctr.Add(1)
	b, err := os.ReadFile(filepath.Join(rs.dir, pdstorage.StateFileName))
	if err != nil && !os.IsNotExist(err) {
		rs.perr = append(rs.perr, err.Error())
		return
	}
	key := string(b)
	if err != nil {
		key = "<absent>"
	}
	if key != rs.lastP {
		target := filepath.Join(rs.rdir, pdstorage.StateFileName)
		if err != nil {
			_ = os.Remove(target)
		} else if werr := os.WriteFile(target, b, 0o644); werr != nil {
			rs.perr = append(rs.perr, werr.Error())
			return
		}
		snap, lerr := rs.rst.Load()
		if lerr != nil {
			rs.perr = append(rs.perr, "restart Load: "+lerr.Error())
			return
		}
		idStart, tsStart := pdstorage.ResolveAllocatorStarts(1, 1, snap.Allocator)
		svc := pdserver.NewService(pdcore.NewCluster(), pdcore.NewIDAllocator(idStart), tso.NewAllocator(tsStart))
		tr, terr := svc.Tso(context.Background(), &pb.TsoRequest{Count: 1})
		ir, ierr := svc.AllocID(context.Background(), &pb.AllocIDRequest{Count: 1})
		if terr != nil || ierr != nil {
			rs.perr = append(rs.perr, fmt.Sprintf("restarted service: %v %v", terr, ierr))
			return
		}
		rs.lastP, rs.lastT, rs.lastI = key, tr.GetTimestamp(), ir.GetFirstId()
	}
	e := event{Kind: "probe", W: w, Seq: a, NextT: rs.lastT, NextI: rs.lastI}
	e.End = rs.ctr.Add(1)
	rs.mu.Lock()
	rs.evs = append(rs.evs, e)
	rs.mu.Unlock()
}

type violation struct{ Rule, Ctx, What string }

type runOut struct {
	res         sched.Result
	evs         []event
	viol        []violation
	responses   int
	saves       int
	overtakes   int
	probes      int
	interleaved int
	states      int
	injected    int
	errs        []string
}

func judge(evs []event) (viol []violation, responses, saves, overtakes, probes, interleaved int) {
	type resp struct {
		w           int
		c           string
		first, last uint64
		ret         int64
	}
	var rs []resp
	var ps []event
	type sv struct {
		w          int
		start, end int64
	}
	open := map[int]int64{}
	var svs []sv
	for _, e := range evs {
		switch e.Kind {
		case "ret":
			if e.Err == "" {
				rs = append(rs, resp{e.W, e.C, e.First, e.Last, e.Seq})
			}
		case "probe":
			ps = append(ps, e)
		case "save-start":
			open[e.W] = e.Seq
		case "save-end":
			svs = append(svs, sv{e.W, open[e.W], e.Seq})
		}
	}
	responses, saves, probes = len(rs), len(svs), len(ps)
	// interleaved: a checkpoint write of one caller completed while another caller's request was in flight
	callAt := map[int]int64{}
	type span struct {
		w        int
		from, to int64
	}
	var reqs []span
	for _, e := range evs {
		if e.Kind == "call" {
			callAt[e.W] = e.Seq
		} else if e.Kind == "ret" {
			reqs = append(reqs, span{e.W, callAt[e.W], e.Seq})
		}
	}
	for _, s := range svs {
		for _, q := range reqs {
			if q.w != s.w && s.end > q.from && s.end < q.to {
				interleaved++
			}
		}
	}
	for i := range svs {
		for j := range svs {
			if svs[i].start < svs[j].start && svs[i].end > svs[j].end {
				overtakes++
			}
		}
	}
	seen := map[string]bool{}
	add := func(v violation) {
		k := v.Rule + "|" + v.Ctx
		if !seen[k] {
			seen[k] = true
			viol = append(viol, v)
		}
	}
	// R-inc
	lastOf := map[string]resp{}
	for _, r := range rs { // evs are in ticket order; a caller's calls are sequential
		k := fmt.Sprintf("%d/%s", r.w, r.c)
		if p, ok := lastOf[k]; ok && r.first <= p.last {
			add(violation{"not-increasing", "counter=" + r.c, fmt.Sprintf("caller %d got %s range [%d,%d] after [%d,%d]", r.w, r.c, r.first, r.last, p.first, p.last)})
		}
		lastOf[k] = r
	}
	// R-uniq
	for i := range rs {
		for j := i + 1; j < len(rs); j++ {
			a, b := rs[i], rs[j]
			if a.c == b.c && a.first <= b.last && b.first <= a.last {
				add(violation{"overlapping-ranges", "counter=" + a.c, fmt.Sprintf("%s ranges [%d,%d] (caller %d) and [%d,%d] (caller %d) overlap", a.c, a.first, a.last, a.w, b.first, b.last, b.w)})
			}
		}
	}
	// R-restart
	for _, p := range ps {
		for _, r := range rs {
			if r.ret >= p.Seq {
				continue
			}
			next := p.NextT
			if r.c == "id" {
				next = p.NextI
			}
			if next <= r.last {
				add(violation{"reissued-after-restart", "counter=" + r.c, fmt.Sprintf("%s range [%d,%d] was returned to caller %d at ticket %d; a PD restarted from the state persisted at tickets [%d,%d] hands out %s %d again",
					r.c, r.first, r.last, r.w, r.ret, p.Seq, p.End, r.c, next)})
			}
		}
	}
	return
}

// stores are opened once per case: the live LocalStore (its checkpoint file is removed between
// schedules; LocalStore keeps no allocator state in memory) and the store a restarted PD loads from.
type stores struct {
	dir, rdir string
	live, rst *pdstorage.LocalStore
}

func openStores(base string) (*stores, error) {
	st := &stores{dir: filepath.Join(base, "pd"), rdir: filepath.Join(base, "restart")}
	var err error
	if st.live, err = pdstorage.OpenLocalStore(st.dir, nil); err != nil {
		return nil, err
	}
	if st.rst, err = pdstorage.OpenLocalStore(st.rdir, nil); err != nil {
		return nil, err
	}
	return st, nil
}

func (st *stores) close() {
	_ = st.live.Close()
	_ = st.rst.Close()
}

func runOne(st *stores, sc scenario, ch sched.Chooser) runOut {
	var out runOut
	dir, rdir, live, rst := st.dir, st.rdir, st.live, st.rst
	_ = os.Remove(filepath.Join(dir, pdstorage.StateFileName))
	_ = os.Remove(filepath.Join(dir, pdstorage.StateFileName+".tmp"))
	_ = os.Remove(filepath.Join(rdir, pdstorage.StateFileName))
	rs := &runState{dir: dir, rdir: rdir, rst: rst, lastP: "<none>"}
	snap, err := live.Load()
	if err != nil {
		out.errs = append(out.errs, "load: "+err.Error())
		return out
	}
	idStart, tsStart := pdstorage.ResolveAllocatorStarts(1, 1, snap.Allocator)
	svc := pdserver.NewService(pdcore.NewCluster(), pdcore.NewIDAllocator(idStart), tso.NewAllocator(tsStart))
	ys := &yieldStore{inner: live, rs: rs, fail: map[int]bool{}}
	for _, k := range sc.FailSaves {
		ys.fail[k] = true
	}
	svc.SetStorage(ys)
	r := sched.New(sched.Options{Chooser: ch, MaxSteps: 2000, OnStep: func() { rs.probe(-1) }})
	rs.run = r
	do := func(w int, c call) {
		rs.log(w, event{Kind: "call", C: c.Kind})
		e := event{Kind: "ret", C: c.Kind}
		if c.Kind == "ts" {
			resp, err := svc.Tso(context.Background(), &pb.TsoRequest{Count: c.Count})
			if err != nil {
				e.Err = err.Error()
			} else {
				e.First, e.Last = resp.GetTimestamp(), resp.GetTimestamp()+resp.GetCount()-1
			}
		} else {
			resp, err := svc.AllocID(context.Background(), &pb.AllocIDRequest{Count: c.Count})
			if err != nil {
				e.Err = err.Error()
			} else {
				e.First, e.Last = resp.GetFirstId(), resp.GetFirstId()+resp.GetCount()-1
			}
		}
		rs.log(w, e)
	}
	for i := 0; i < sc.Warm; i++ {
		do(-2, call{Kind: []string{"ts", "id"}[i%2], Count: 2})
	}
	for k := 0; k < sc.Workers; k++ {
		k := k
		r.Go(fmt.Sprintf("c%d", k), func(w *sched.Worker) {
			for _, c := range sc.Calls[k] {
				w.Yield("h.call")
				do(k, c)
			}
		})
	}
	out.res = r.Execute()
	if out.res.Stuck {
		return out
	}
	rs.probe(-1)
	rs.mu.Lock()
	out.evs = append(out.evs, rs.evs...)
	rs.mu.Unlock()
	sort.Slice(out.evs, func(a, b int) bool { return out.evs[a].Seq < out.evs[b].Seq })
	out.viol, out.responses, out.saves, out.overtakes, out.probes, out.interleaved = judge(out.evs)
	out.errs = append(out.errs, rs.perr...)
	out.injected = int(rs.failed.Load())
	return out
}

func traceString(tr []sched.Step) string {
	var sb strings.Builder
	for _, s := range tr {
		fmt.Fprintf(&sb, "c%d@%s ", s.Worker, s.Site)
	}
	return sb.String()
}

func account(c *core.Case, sc scenario, o runOut, local map[uint64]bool, mode string, reported map[string]bool) {
	c.Count("schedules_run", 1)
	for _, e := range o.errs {
		c.Distinct("harness_errors", e)
	}
	if o.res.Stuck {
		c.Inconclusive("schedule stuck (watchdog)")
		return
	}
	if len(o.errs) > 0 {
		c.Inconclusive("probe/storage error: " + o.errs[0])
		return
	}
	c.Count("evaluations", 1)
	c.Count("responses", o.responses)
	c.Count("checkpoint_writes", o.saves)
	c.Count("checkpoint_overtakes", o.overtakes)
	c.Count("checkpoints_interleaved_with_requests", o.interleaved)
	c.Count("restart_probes", o.probes)
	c.Count("injected_checkpoint_write_failures", o.injected)
	c.Count("blocked_classifications", o.res.Blocked)
	c.Max("steps_per_schedule", len(o.res.Trace))
	c.Max("preemptions_per_schedule", o.res.Preemptions)
	for _, st := range o.res.Trace {
		c.Distinct("sites", st.Site)
	}
	if !local[o.res.Hash] {
		local[o.res.Hash] = true
		c.Distinct("interleavings", fmt.Sprintf("%x", o.res.Hash))
		if o.interleaved > 0 {
			// a checkpoint write of one caller completed while another caller's request was in flight
			c.Nontrivial(fmt.Sprintf("%x", o.res.Hash))
		}
	}
	for _, v := range o.viol {
		sig := "C27|" + v.Rule + "|" + v.Ctx
		if reported[sig] {
			continue
		}
		reported[sig] = true
		c.Violation(sig, v.What, map[string]any{"mode": mode, "scenario": sc, "executed_schedule": traceString(o.res.Trace), "events": o.evs})
	}
	if len(o.viol) > 0 {
		c.Count("schedules_with_violation", 1)
	}
}

func tiers(tier string) (random, perCase, dfs, bin int) {
	if tier == "thorough" {
		return 160, 150, 16, 16
	}
	return 64, 40, 0, 0
}

func run(c *core.Case) {
	nRand, perCase, nDFS, _ := tiers(c.Tier)
	if c.Idx >= nRand+nDFS {
		runBinary(c)
		return
	}
	st, err := openStores(c.TempDir())
	if err != nil {
		c.Inconclusive("cannot open PD stores: " + err.Error())
		return
	}
	defer st.close()
	reported := map[string]bool{}
	local := map[uint64]bool{}
	if c.Idx < nRand {
		sc := genScenario(c.Rng, false)
		for k := 0; k < perCase; k++ {
			var ch sched.Chooser
			switch k % 3 {
			case 0:
				ch = sched.NewPCT(c.Rng, sc.Workers, 1+c.Rng.Intn(3), 30)
			case 1:
				ch = &sched.Random{Rng: c.Rng, Stay: 0.6}
			default:
				ch = &sched.Random{Rng: c.Rng, Stay: 0.25}
			}
			account(c, sc, runOne(st, sc, ch), local, "pct/random", reported)
		}
		if c.Idx < 2 {
			c.Sample(map[string]any{"scenario": sc, "schedules": perCase})
		}
	} else {
		sc := genScenario(c.Rng, true)
		runs, exhausted := sched.Explore(3, 2500, func(ch *sched.Prefix) (sched.Result, bool) {
			o := runOne(st, sc, ch)
			account(c, sc, o, local, "dfs", reported)
			return o.res, true
		})
		c.Count("dfs_runs", runs)
		if exhausted {
			c.Count("dfs_scripts_exhausted_at_3_preemptions", 1)
		}
	}
	c.Count("distinct_interleavings", len(local))
}

func init() {
	core.Register(&core.Check{
		ID:    "C27",
		Level: "exploration",
		Rule: "one case = 2-4 concurrent callers with 1-3 Tso/AllocID requests each (batch 1-3, 0-2 warm-up requests) against pd/server.Service over the real LocalStore behind a yielding Store wrapper " +
			"(park before and after every checkpoint write; in a third of the scripts 1-2 chosen checkpoint writes fail with an injected storage error, nothing written, that caller gets the error); quick 64 cases x 40 PCT(depth 1-3)/random schedules; thorough 160 x 150 plus bounded-preemption DFS (<=3 preemptions, <=2500 runs) on 16 two-caller scripts, plus 16 runs of the real `nokv pd` binary (6 concurrent gRPC callers, SIGKILL after a seeded number of responses, 6 incarnations on one workdir; all ranges returned over all incarnations must be disjoint and per-caller increasing); " +
			"at every scheduling step, every checkpoint completion and the end the persisted state is copied and a PD restarted from it allocates once; evaluations = executed schedules; " +
			"distinct/non-trivial = distinct executed (caller,site) sequences in which a checkpoint write of one caller completed while another caller's request was in flight (checkpoint_overtakes = a write that read its counters earlier completed later)",
		Assumptions: []string{
			"a restart is modelled exactly as cmd/nokv/pd.go does it: LocalStore.Load, ResolveAllocatorStarts(1,1,state), new allocators, new Service",
			"only responses that were returned without error count as handed out",
			"a process crash keeps whatever rename(2) made visible: the persisted state at a moment is the content of PD_STATE.json at that moment",
		},
		Cases: func(tier string) int {
			a, _, d, b := tiers(tier)
			return a + d + b
		},
		Run:       run,
		NeedsBins: true,
		Finish: func(a *core.Agg) {
			a.Floor("evaluations", 1500)
			a.Floor("checkpoints_interleaved_with_requests", 1000)
			a.Floor("restart_probes", 10000)
			a.Floor("interleavings", 500)
			a.FloorNontrivial(200)
		},
	})
}

// ---------------------------------------------------------------------------
// thorough: the real binary, killed and restarted

type binResp struct {
	caller, inc int
	c           string
	first, last uint64
}

func startPD(bin, dir string) (*exec.Cmd, string, error) {
	cmd := exec.Command(bin, "pd", "-addr", "127.0.0.1:0", "-workdir", dir)
	out, err := cmd.StdoutPipe()
	if err != nil {
		return nil, "", err
	}
	cmd.Stderr = os.Stderr
	if err := cmd.Start(); err != nil {
		return nil, "", err
	}
	addrCh := make(chan string, 1)
	go func() {
		sc := bufio.NewScanner(out)
		sent := false
		for sc.Scan() {
			l := sc.Text()
			if i := strings.Index(l, "listening on "); i >= 0 && !sent {
				sent = true
				addrCh <- strings.TrimSpace(l[i+len("listening on "):])
			}
		}
		if !sent {
			addrCh <- ""
		}
	}()
	select {
	case a := <-addrCh:
		if a == "" {
			_ = cmd.Process.Kill()
			_ = cmd.Wait()
			return nil, "", fmt.Errorf("pd exited before listening")
		}
		return cmd, a, nil
	case <-time.After(60 * time.Second):
		_ = cmd.Process.Kill()
		_ = cmd.Wait()
		return nil, "", fmt.Errorf("pd did not start listening within 60 s")
	}
}

func runBinary(c *core.Case) {
	bin := filepath.Join(os.Getenv("VERIF_BIN_DIR"), "nokv")
	if _, err := os.Stat(bin); err != nil {
		c.Inconclusive("nokv binary not available: " + err.Error())
		return
	}
	dir := filepath.Join(c.TempDir(), "pd")
	const callers = 6
	const incarnations = 6
	var mu sync.Mutex
	var all []binResp
	for inc := 0; inc < incarnations; inc++ {
		cmd, addr, err := startPD(bin, dir)
		if err != nil {
			c.Inconclusive("start pd: " + err.Error())
			return
		}
		conn, err := grpc.NewClient(addr, grpc.WithTransportCredentials(insecure.NewCredentials()))
		if err != nil {
			_ = cmd.Process.Kill()
			_ = cmd.Wait()
			c.Inconclusive("dial pd: " + err.Error())
			return
		}
		cli := pb.NewPDClient(conn)
		killAfter := int64(20 + c.Rng.Intn(400)) // responses, not time
		var got atomic.Int64
		var killed atomic.Bool
		ctx, cancel := context.WithCancel(context.Background())
		var wg sync.WaitGroup
		seeds := make([]int64, callers)
		for i := range seeds {
			seeds[i] = c.Rng.Int63()
		}
		for k := 0; k < callers; k++ {
			wg.Add(1)
			go func(k int) {
				defer wg.Done()
				rng := rand.New(rand.NewSource(seeds[k]))
				for ctx.Err() == nil {
					cnt := uint64(rng.Intn(4))
					r := binResp{caller: k, inc: inc}
					if rng.Intn(3) == 0 {
						resp, err := cli.AllocID(ctx, &pb.AllocIDRequest{Count: cnt})
						if err != nil {
							return
						}
						r.c, r.first, r.last = "id", resp.GetFirstId(), resp.GetFirstId()+resp.GetCount()-1
					} else {
						resp, err := cli.Tso(ctx, &pb.TsoRequest{Count: cnt})
						if err != nil {
							return
						}
						r.c, r.first, r.last = "ts", resp.GetTimestamp(), resp.GetTimestamp()+resp.GetCount()-1
					}
					mu.Lock()
					all = append(all, r)
					mu.Unlock()
					if got.Add(1) >= killAfter && killed.CompareAndSwap(false, true) {
						_ = cmd.Process.Signal(syscall.SIGKILL)
					}
				}
			}(k)
		}
		waitDone := make(chan struct{})
		go func() { _ = cmd.Wait(); close(waitDone) }()
		select {
		case <-waitDone:
		case <-time.After(3 * time.Minute):
			_ = cmd.Process.Kill()
			<-waitDone
			cancel()
			wg.Wait()
			_ = conn.Close()
			c.Inconclusive("pd incarnation watchdog")
			return
		}
		cancel()
		wg.Wait()
		_ = conn.Close()
		c.Count("binary_incarnations_killed", 1)
	}
	c.Count("evaluations", 1)
	c.Count("binary_responses", len(all))
	// per caller and incarnation increasing; across everything disjoint
	lastOf := map[string]binResp{}
	for _, r := range all {
		k := fmt.Sprintf("%d/%d/%s", r.inc, r.caller, r.c)
		if p, ok := lastOf[k]; ok && r.first <= p.last {
			c.Violation("C27|not-increasing|counter="+r.c, fmt.Sprintf("binary: caller %d got %s [%d,%d] after [%d,%d] in incarnation %d", r.caller, r.c, r.first, r.last, p.first, p.last, r.inc), nil)
			break
		}
		lastOf[k] = r
	}
	for _, kind := range []string{"ts", "id"} {
		var l []binResp
		for _, r := range all {
			if r.c == kind {
				l = append(l, r)
			}
		}
		sort.Slice(l, func(a, b int) bool { return l[a].first < l[b].first })
		for i := 1; i < len(l); i++ {
			if l[i].first <= l[i-1].last {
				rule := "overlapping-ranges"
				if l[i].inc != l[i-1].inc {
					rule = "reissued-after-restart"
				}
				c.Violation("C27|"+rule+"|counter="+kind, fmt.Sprintf("binary: %s range [%d,%d] (incarnation %d, caller %d) overlaps [%d,%d] (incarnation %d, caller %d)",
					kind, l[i].first, l[i].last, l[i].inc, l[i].caller, l[i-1].first, l[i-1].last, l[i-1].inc, l[i-1].caller), map[string]any{"mode": "binary"})
				break
			}
		}
	}
	if len(all) > 100 {
		c.Nontrivial(fmt.Sprintf("binary/%d", len(all)/50))
	}
}
