// Package c12: clean close and reopen preserve contents and commit-timestamp
// monotonicity.
//
// Monitor: a real DB is driven through a history (plain API, versioned API or
// transactional API, never mixed) interleaved with maintenance actions; at
// every close/reopen the complete multi-version contents are dumped through
// db.NewInternalIterator right before Close and right after Open (key, version,
// delete bit, expiry, resolved value; the engine's own "!NoKV!discard" record is
// filtered) and the two dumps must be identical. For transactional DBs every
// commit must carry a version greater than every version stored before it, in
// particular the first commits after a reopen.
package c12

import (
	"bytes"
	"crypto/sha1"
	"encoding/hex"
	"fmt"
	"math"
	"strings"
	"time"

	NoKV "github.com/feichai0017/NoKV"
	"github.com/feichai0017/NoKV/kv"
	"github.com/feichai0017/NoKV/lsm"
	"github.com/feichai0017/NoKV/utils"
	"verif/harness/internal/core"
	"verif/harness/internal/dbx"
)

const (
	farFuture = uint64(4102444800) // 2100-01-01
	farPast   = uint64(1000000000) // 2001-09-09
)

var discardKey = []byte("!NoKV!discard")

// unresolved marks a value pointer that the harness could not map to its value
// (the layout kept changing); it makes the case inconclusive, never a violation.
const unresolved = "harness: pointer not resolvable through VerifKeySources"

// rec is one stored (cf, key, version) as the internal iterator shows it first.
type rec struct {
	CF      byte   `json:"cf"`
	Key     string `json:"key"`
	Ver     uint64 `json:"ver"`
	Del     bool   `json:"del"`
	Exp     uint64 `json:"exp,omitempty"`
	ValLen  int    `json:"len"`
	ValHead string `json:"head"` // first 48 bytes of the resolved value
	Full    string `json:"-"`    // hash of the full value when stored inline
	Pointer bool   `json:"ptr,omitempty"`
	Err     string `json:"err,omitempty"`
	Dups    int    `json:"dups,omitempty"` // further entries with the same internal key
}

func (r rec) id() string { return fmt.Sprintf("%d|%s|%d", r.CF, r.Key, r.Ver) }

func (r rec) content() string {
	return fmt.Sprintf("del=%v exp=%d len=%d head=%q err=%v", r.Del, r.Exp, r.ValLen, r.ValHead, r.Err != "")
}

func (r rec) String() string {
	return fmt.Sprintf("cf=%d key=%q ver=%d %s", r.CF, r.Key, r.Ver, r.content())
}

type dumpStats struct {
	entries, pointers, dups, multiVersionKeys, tombstones, withExpiry int
	maxVer                                                            uint64
}

// dump lists the complete contents through the internal iterator.
func dump(db *NoKV.DB) ([]rec, dumpStats, error) {
	var out []rec
	var st dumpStats
	it := db.NewInternalIterator(&utils.Options{IsAsc: true})
	if it == nil {
		return nil, st, fmt.Errorf("NewInternalIterator returned nil")
	}
	type rawPtr struct {
		idx int
		raw []byte
	}
	var ptrs []rawPtr
	seen := map[string]int{}
	for it.Rewind(); it.Valid(); it.Next() {
		item := it.Item()
		if item == nil || item.Entry() == nil {
			continue
		}
		e := item.Entry()
		cf, uk, ts := kv.SplitInternalKey(e.Key)
		if bytes.Equal(uk, discardKey) {
			continue
		}
		r := rec{CF: byte(cf), Key: string(uk), Ver: ts, Del: e.Meta&kv.BitDelete != 0, Exp: e.ExpiresAt}
		if i, ok := seen[r.id()]; ok {
			out[i].Dups++
			st.dups++
			continue
		}
		if e.Meta&kv.BitValuePointer != 0 {
			r.Pointer = true
			ptrs = append(ptrs, rawPtr{len(out), append([]byte(nil), e.Value...)})
		} else {
			r.ValLen = len(e.Value)
			h := e.Value
			if len(h) > 48 {
				h = h[:48]
			}
			r.ValHead = string(h)
			sum := sha1.Sum(e.Value)
			r.Full = hex.EncodeToString(sum[:8])
		}
		seen[r.id()] = len(out)
		out = append(out, r)
	}
	if err := it.Close(); err != nil {
		return out, st, fmt.Errorf("iterator close: %w", err)
	}
	// resolve value pointers: the raw listing (encoded pointers) and the
	// resolved listing of VerifKeySources are parallel.
	type res struct {
		n    int
		head []byte
		err  string
	}
	cache := map[string]map[string]res{}
	for _, p := range ptrs {
		r := &out[p.idx]
		ck := fmt.Sprintf("%d|%s", r.CF, r.Key)
		m, ok := cache[ck]
		if !ok {
			m = map[string]res{}
			// the two listings are only parallel if the layout did not change in
			// between (background flush/compaction in natural mode): retry until
			// a raw listing taken before and after the resolved one agree.
			shape := func(raw []lsm.VerifSource) string {
				var sb strings.Builder
				for _, s := range raw {
					fmt.Fprintf(&sb, "%s:%d:%d:%d,", s.Kind, s.Level, s.Fid, len(s.Entries))
				}
				return sb.String()
			}
			ikey := kv.InternalKey(kv.ColumnFamily(r.CF), []byte(r.Key), 0)
			for try := 0; try < 200; try++ {
				raw := db.VerifLSM().VerifKeySources(ikey)
				rs := db.VerifKeySources(kv.ColumnFamily(r.CF), []byte(r.Key))
				raw2 := db.VerifLSM().VerifKeySources(ikey)
				okShape := len(raw) == len(rs) && shape(raw) == shape(raw2)
				if okShape {
					for i := range raw {
						if raw[i].Kind != rs[i].Kind || raw[i].Fid != rs[i].Fid || len(raw[i].Entries) != len(rs[i].Entries) {
							okShape = false
						}
					}
				}
				if !okShape {
					time.Sleep(2 * time.Millisecond)
					continue
				}
				for i := range raw {
					for j, en := range raw[i].Entries {
						if en.Meta&kv.BitValuePointer != 0 {
							m[string(en.Value)] = res{rs[i].Entries[j].ValueLen, rs[i].Entries[j].Value, rs[i].Entries[j].Err}
						}
					}
				}
				break
			}
			cache[ck] = m
		}
		if x, ok := m[string(p.raw)]; ok {
			r.ValLen, r.ValHead, r.Err = x.n, string(x.head), x.err
		} else {
			r.Err = unresolved
		}
	}
	perKey := map[string]int{}
	for _, r := range out {
		st.entries++
		if r.Pointer {
			st.pointers++
		}
		if r.Del {
			st.tombstones++
		}
		if r.Exp != 0 {
			st.withExpiry++
		}
		if r.Ver > st.maxVer {
			st.maxVer = r.Ver
		}
		perKey[fmt.Sprintf("%d|%s", r.CF, r.Key)]++
	}
	for _, n := range perKey {
		if n > 1 {
			st.multiVersionKeys++
		}
	}
	return out, st, nil
}

type diff struct {
	kind   string // "lost", "appeared", "changed", "order"
	before *rec
	after  *rec
}

func compare(before, after []rec) []diff {
	var out []diff
	bi := map[string]int{}
	for i, r := range before {
		bi[r.id()] = i
	}
	ai := map[string]int{}
	for i, r := range after {
		ai[r.id()] = i
	}
	for i := range before {
		b := &before[i]
		j, ok := ai[b.id()]
		if !ok {
			out = append(out, diff{"lost", b, nil})
			continue
		}
		a := &after[j]
		same := b.content() == a.content()
		if same && b.Full != "" && a.Full != "" && b.Full != a.Full {
			same = false
		}
		if !same {
			out = append(out, diff{"changed", b, a})
		}
	}
	for i := range after {
		if _, ok := bi[after[i].id()]; !ok {
			out = append(out, diff{"appeared", nil, &after[i]})
		}
	}
	if len(out) == 0 {
		for i := range before {
			if before[i].id() != after[i].id() {
				out = append(out, diff{"order", &before[i], &after[i]})
				break
			}
		}
	}
	return out
}

type ck struct {
	cf  kv.ColumnFamily
	key []byte
}

func srcKinds(env *dbx.Env, src []NoKV.VerifKeySource, ver uint64) (string, bool) {
	var kinds []string
	n := 0
	for _, s := range src {
		for _, en := range s.Entries {
			if en.Version == ver {
				kinds = append(kinds, env.SourceClass(s))
				n++
				break
			}
		}
	}
	if len(kinds) == 0 {
		return "none", false
	}
	return strings.Join(kinds, "+"), n > 1
}

func run(c *core.Case) {
	rng := c.Rng
	cfg := dbx.RandomConfig(rng)
	mode := []string{"plain", "versioned", "txn"}[c.Idx%3]
	if mode == "txn" {
		cfg.DetectConflicts = rng.Intn(2) == 0
	}
	cfg.SyncWrites = rng.Intn(4) == 0
	env, err := dbx.NewEnv(cfg, c.TempDir(), c.Count)
	if err != nil {
		c.Violation("C12|open-failed|fresh", err.Error(), cfg)
		return
	}
	defer env.Close()

	keys := dbx.KeyPool(rng, 5+rng.Intn(8))
	artSiblings := false
	if cfg.Engine == "art" {
		// The ART index mis-orders byte-prefix related user keys (finding of
		// C01/C02/C07): seeks for such keys miss entries, so neither the engine
		// nor the accessors used here can observe them reliably. ART cases use
		// prefix-free key sets; the defect is reported by those properties.
		var kept [][]byte
		for _, k := range keys {
			if !dbx.HasPrefixSibling(k, kept) {
				kept = append(kept, k)
			}
		}
		keys = kept
		for _, k := range keys {
			if dbx.HasPrefixSibling(k, keys) {
				artSiblings = true
			}
		}
	}
	var cks []ck
	for _, k := range keys {
		cks = append(cks, ck{kv.CFDefault, k})
		if mode != "txn" && rng.Intn(3) == 0 {
			cks = append(cks, ck{dbx.CFs[1+rng.Intn(2)], k})
		}
	}
	thr := int(cfg.ValueThreshold)
	sizes := []int{10, 12, 20, thr - 1, thr, thr + 1, 4 << 10, 40 << 10}
	nextVer := map[string]uint64{} // versioned mode: per key strictly increasing versions
	verSteps := []uint64{1, 1, 2, 5, 1 << 32}
	opn := 0
	var maxStored uint64 // txn mode: greatest version known to be stored
	var lastCommit uint64
	commits := 0
	nontrivial := false

	fail := func(sig, what string, detail map[string]any) {
		detail["config"], detail["mode"], detail["trace"] = cfg, mode, env.Trace
		if cfg.Engine == "art" && artSiblings && !strings.HasPrefix(sig, "C12|write-error") {
			// the ART index mis-orders byte-prefix related user keys (C07): every
			// symptom in such a case is recorded under one signature.
			detail["symptom"] = sig
			sig = "C12|wrong-contents|art-prefix-sibling"
		}
		c.Violation(sig, what, detail)
	}

	// versionOf finds the version under which a unique value is stored.
	versionOf := func(k ck, val []byte) (uint64, bool) {
		for _, s := range env.DB.VerifKeySources(k.cf, k.key) {
			for _, en := range s.Entries {
				n := len(val)
				if n > len(en.Value) {
					n = len(en.Value)
				}
				if en.Meta&kv.BitDelete == 0 && en.ValueLen == len(val) && bytes.Equal(en.Value[:n], val[:n]) {
					return en.Version, true
				}
			}
		}
		return 0, false
	}

	writeOne := func() bool {
		opn++
		k := cks[rng.Intn(len(cks))]
		sz := sizes[rng.Intn(len(sizes))]
		val := dbx.Value(fmt.Sprintf("%d.%d|", c.Idx, opn), sz)
		del := rng.Intn(5) == 0
		tr := dbx.OpRec{Op: mode + "-set", CF: k.cf.String(), Key: fmt.Sprintf("%q", k.key), Size: sz}
		if del {
			tr.Op, tr.Size = mode+"-del", 0
		}
		var werr error
		switch mode {
		case "plain":
			switch {
			case del && k.cf == kv.CFDefault && rng.Intn(2) == 0:
				werr = env.DB.Del(k.key)
			case del:
				werr = env.DB.DelCF(k.cf, k.key)
			case k.cf == kv.CFDefault && rng.Intn(2) == 0:
				werr = env.DB.Set(k.key, val)
			default:
				werr = env.DB.SetCF(k.cf, k.key, val)
			}
		case "versioned":
			id := string([]byte{byte(k.cf)}) + string(k.key)
			v := nextVer[id] + verSteps[rng.Intn(len(verSteps))]
			if rng.Intn(25) == 0 {
				v = math.MaxUint64 - 1
			}
			if v <= nextVer[id] || nextVer[id] >= math.MaxUint64-1 {
				env.Trace = append(env.Trace, dbx.OpRec{Op: "skip"})
				return true
			}
			nextVer[id] = v
			tr.Ver = v
			if del {
				werr = env.DB.DeleteVersionedEntry(k.cf, k.key, v)
			} else {
				werr = env.DB.SetVersionedEntry(k.cf, k.key, v, val, 0)
			}
		case "txn":
			// one transaction writing 1-3 keys; the first write is always a put
			// with a unique value so that the commit version can be read back.
			n := 1 + rng.Intn(3)
			first := k
			werr = env.DB.Update(func(txn *NoKV.Txn) error {
				for j := 0; j < n; j++ {
					kk := k
					if j > 0 {
						kk = cks[rng.Intn(len(cks))]
						if bytes.Equal(kk.key, first.key) {
							continue
						}
					}
					if j > 0 && rng.Intn(4) == 0 {
						if err := txn.Delete(kk.key); err != nil {
							return err
						}
						continue
					}
					v := val
					if j > 0 {
						v = dbx.Value(fmt.Sprintf("%d.%d.%d|", c.Idx, opn, j), sizes[rng.Intn(len(sizes))])
					}
					e := kv.NewEntry(kk.key, v)
					switch rng.Intn(6) {
					case 0:
						e.ExpiresAt = farFuture
					case 1:
						e.ExpiresAt = farPast
					}
					if err := txn.SetEntry(e); err != nil {
						return err
					}
				}
				return nil
			})
			tr.Op = "txn-commit"
		}
		if werr != nil {
			tr.Result = werr.Error()
			env.Trace = append(env.Trace, tr)
			fail("C12|write-error|"+mode, fmt.Sprintf("write failed: %v", werr), map[string]any{})
			return false
		}
		c.Count("writes", 1)
		if mode == "txn" {
			commits++
			ver, ok := versionOf(k, val)
			if !ok {
				env.Trace = append(env.Trace, tr)
				fail("C12|commit-not-stored|txn", fmt.Sprintf("the value committed by transaction %d is not stored under any version of key %q", opn, k.key), map[string]any{})
				return false
			}
			tr.Ver = ver
			env.Trace = append(env.Trace, tr)
			c.Count("commit_versions_checked", 1)
			c.Count("evaluations", 1)
			if ver <= maxStored {
				ctx := "same-session"
				if lastCommit == 0 {
					ctx = "first-commit-after-reopen"
				}
				fail("C12|commit-version-not-above-stored|"+ctx, fmt.Sprintf("transaction %d committed at version %d although version %d was already stored", opn, ver, maxStored),
					map[string]any{"commit_version": ver, "max_stored_version": maxStored})
				return false
			}
			maxStored, lastCommit = ver, ver
			return true
		}
		env.Trace = append(env.Trace, tr)
		return true
	}

	reopen := func(round int) bool {
		db := env.DB
		unflushed := 0
		srcBefore := map[string][]NoKV.VerifKeySource{}
		for _, k := range cks {
			src := db.VerifKeySources(k.cf, k.key)
			srcBefore[string([]byte{byte(k.cf)})+string(k.key)] = src
			for _, s := range src {
				if s.Kind == "mem" || s.Kind == "imm" {
					unflushed += len(s.Entries)
				}
			}
		}
		before, st, derr := dump(db)
		if derr != nil {
			fail("C12|dump-error|before-close", derr.Error(), map[string]any{})
			return false
		}
		shapeBefore := dbx.LayoutShape(db)
		tr := dbx.OpRec{Op: "close+open"}
		if cerr := db.Close(); cerr != nil {
			env.DB = nil
			tr.Result = "close error: " + cerr.Error()
			env.Trace = append(env.Trace, tr)
			fail("C12|close-error", cerr.Error(), map[string]any{"layout_before": shapeBefore})
			return false
		}
		ndb, oerr := dbx.OpenCfg(cfg, env.Dir)
		if oerr != nil {
			env.DB = nil
			tr.Result = "open error: " + oerr.Error()
			env.Trace = append(env.Trace, tr)
			fail("C12|reopen-failed", oerr.Error(), map[string]any{"layout_before": shapeBefore})
			return false
		}
		env.DB = ndb
		env.NoteLayout("flush")
		tr.Result = fmt.Sprintf("%d entries, %d unflushed", st.entries, unflushed)
		env.Trace = append(env.Trace, tr)
		c.Count("action.reopen", 1)
		c.Count("evaluations", 1)
		after, _, derr := dump(ndb)
		if derr != nil {
			fail("C12|dump-error|after-open", derr.Error(), map[string]any{})
			return false
		}
		c.Count("dump_entries_compared", st.entries)
		c.Count("dump_value_pointer_entries", st.pointers)
		c.Count("dump_tombstones", st.tombstones)
		c.Count("dump_entries_with_expiry", st.withExpiry)
		c.Count("dump_same_internal_key_duplicates", st.dups)
		c.Count("unflushed_entries_at_close", unflushed)
		c.Max("max_dump_entries", st.entries)
		c.Distinct("layout_shapes_at_close", shapeBefore)
		if unflushed > 0 {
			c.Count("reopens_with_unflushed_memtable", 1)
		}
		if st.multiVersionKeys > 0 {
			c.Count("reopens_with_multi_version_keys", 1)
		}
		if unflushed > 0 && st.entries >= 5 {
			nontrivial = true
		}
		if mode == "txn" {
			if st.maxVer > maxStored {
				maxStored = st.maxVer
			}
			lastCommit = 0
		}
		for _, l := range [][]rec{before, after} {
			for _, r := range l {
				if r.Err == unresolved {
					if cfg.Engine == "art" && artSiblings {
						fail("C12|entry-unreadable|"+mode, fmt.Sprintf("the iterator shows %s but no source lists that entry for its key", r.String()), map[string]any{})
						return false
					}
					c.Inconclusive(fmt.Sprintf("a value pointer could not be resolved (engine=%s controlled=%v mode=%s key=%q ver=%d)", cfg.Engine, cfg.Controlled, mode, r.Key, r.Ver))
					return false
				}
			}
		}
		ds := compare(before, after)
		if len(ds) == 0 {
			return true
		}
		d := ds[0]
		var r *rec
		if d.before != nil {
			r = d.before
		} else {
			r = d.after
		}
		sb := srcBefore[string([]byte{r.CF})+r.Key]
		held, multi := srcKinds(env, sb, r.Ver)
		ctx := "held-by=" + held
		if multi {
			ctx = "same-version-duplicates:" + held
		}
		var srcLines []string
		for _, s := range sb {
			for _, en := range s.Entries {
				what := fmt.Sprintf("%d bytes %q", en.ValueLen, en.Value)
				if en.Meta&kv.BitDelete != 0 {
					what = "tombstone"
				}
				srcLines = append(srcLines, fmt.Sprintf("%s fid=%d ver=%d: %s", env.Tag(s), s.Fid, en.Version, what))
			}
		}
		var lines []string
		for i, x := range ds {
			if i >= 12 {
				break
			}
			l := x.kind + ": "
			if x.before != nil {
				l += "before{" + x.before.String() + "} "
			}
			if x.after != nil {
				l += "after{" + x.after.String() + "}"
			}
			lines = append(lines, l)
		}
		sig := fmt.Sprintf("C12|entry-%s|%s|%s", d.kind, mode, ctx)
		switch {
		case d.kind == "changed" && strings.Count(held, "imm") >= 2:
			// the same (key, version) was held by two immutable memtables at Close:
			// one canonical signature whatever else held it.
			sig = "C12|entry-changed|same-version-in-two-immutables"
		case d.kind == "changed" && strings.Count(held, "deep") >= 2:
			// ... by two tables of the ingest buffer / a level >= 1 (C01's finding
			// ingest-buffer-tie: their relative order is not recency order and,
			// as seen here, not even stable across a reopen).
			sig = "C12|entry-changed|same-version-duplicates:ingest-buffer-tie"
		case d.kind == "changed" && ingestCopiesAfter(ndb, r) >= 2:
			// the reopened tree holds the (key, version) in two ingest-buffer tables
			// (background compaction moved the L0 tables there during Open): the same
			// recorded tie, observed on the layout the read was served from.
			sig = "C12|entry-changed|same-version-duplicates:ingest-buffer-tie"
		case d.kind == "changed" && strings.Contains(held, "l0c") && multi:
			sig = "C12|entry-changed|same-version-duplicates:l0-compaction-output-tie"
		case d.kind == "changed" && !cfg.Controlled && multi && strings.Count(held, "l0") >= 2:
			// natural background compaction: where the L0 tables came from cannot be observed, and
			// an L0->L0 compaction output (file id above a memtable flushed later) is the one
			// recorded way for two L0 tables to hold a (key, version) in an order that the
			// file-id sort on Open reverses. Controlled cases tell the table kinds apart.
			sig = "C12|entry-changed|same-version-duplicates:l0-compaction-output-tie"
		}
		fail(sig,
			fmt.Sprintf("close/reopen #%d changed the contents seen through NewInternalIterator: %d difference(s), first: %s", round, len(ds), lines[0]),
			map[string]any{"differences": lines, "sources_of_first_difference_before_close_in_lookup_order": srcLines, "entries_before": len(before), "entries_after": len(after), "layout_before": shapeBefore, "layout_after": dbx.LayoutShape(ndb)})
		return false
	}

	rounds := 1 + rng.Intn(5)
	for round := 1; round <= rounds; round++ {
		nw := 4 + rng.Intn(12)
		if round > 1 && rng.Intn(6) == 0 {
			nw = 0 // reopen twice in a row
		}
		for i := 0; i < nw; i++ {
			if rng.Intn(100) < 22 {
				action := dbx.Actions[rng.Intn(len(dbx.Actions)-1)] // every action but "reopen"
				if !cfg.Controlled && action != "rotate-wait" {
					action = "rotate"
					if rng.Intn(2) == 0 {
						continue
					}
				}
				if mode == "versioned" && (action == "gc" || action == "gc-public") {
					// value-log GC re-inserts old versions into the memtable; that
					// is an ingredient of C02's findings, not of this property.
					action = "rotate-wait"
				}
				res := env.Action(action)
				if res.Err != nil {
					c.Count("maintenance_errors."+action, 1)
					c.Distinct("maintenance_error_texts", action+": "+res.Err.Error())
				}
				continue
			}
			if !writeOne() {
				return
			}
		}
		switch {
		case cfg.Controlled && rng.Intn(3) == 0:
			// park everything that was written in the ingest buffer (and
			// sometimes merge it there) so that at Close the newest versions are
			// held by ingest tables only.
			for _, a := range []string{"rotate-wait", "compact:l0"} {
				env.Action(a)
			}
			if rng.Intn(2) == 0 {
				env.Action("compact:ingest-merge")
			}
			c.Count("closes_right_after_move_to_ingest_buffer", 1)
		case rng.Intn(3) == 0:
			env.DB.VerifLSM().VerifWaitFlush(30 * time.Second)
		}
		{
			// where is the greatest stored version held at Close?
			var best uint64
			where := "none"
			for _, k := range cks {
				for _, s := range env.DB.VerifKeySources(k.cf, k.key) {
					for _, en := range s.Entries {
						if en.Version >= best {
							if en.Version > best {
								where = ""
							}
							best = en.Version
							if !strings.Contains(where, s.Kind) {
								where += s.Kind + " "
							}
						}
					}
				}
			}
			c.Distinct("greatest_version_held_by_at_close", strings.TrimSpace(where))
			if strings.TrimSpace(where) == "ingest" {
				c.Count("closes_with_greatest_version_only_in_ingest_buffer."+mode, 1)
			}
		}
		if !reopen(round) {
			return
		}
		if mode == "txn" {
			// the first commits after the reopen must be above everything stored
			for i := 0; i < 1+rng.Intn(2); i++ {
				if !writeOne() {
					return
				}
			}
			c.Count("reopens_followed_by_commit_check", 1)
		}
	}
	c.Count("cases_mode_"+mode, 1)
	c.Count("cases_engine_"+cfg.Engine, 1)
	c.Max("reopens_in_one_case", rounds)
	if nontrivial {
		var sb strings.Builder
		for _, t := range env.Trace {
			sb.WriteString(t.Op + t.Key + fmt.Sprint(t.Ver) + ";")
		}
		c.Nontrivial(sb.String())
	}
	if c.Idx < 3 {
		ops := env.Trace
		if len(ops) > 40 {
			ops = ops[:40]
		}
		c.Sample(map[string]any{"mode": mode, "config": cfg, "reopens": rounds, "first_ops": ops})
	}
}

func init() {
	core.Register(&core.Check{
		ID:    "C12",
		Level: "exploration",
		Rule: "case = one database used through exactly one API family (case index mod 3: plain Set/Del/SetCF/DelCF; SetVersionedEntry/DeleteVersionedEntry with per-key increasing versions; transactions of 1-3 writes incl. deletes and entries with far-past / far-future expiry) " +
			"over 5-12 keys (prefix-related, 0x00/0xFF, long; value sizes {10,12,20,thr-1,thr,thr+1,4K,40K}) under a drawn option set (skiplist/ART, threshold 32/1024, 1/3 vlog buckets, sync writes on/off, paused or natural background compaction), " +
			"1-5 rounds of {4-15 writes interleaved with maintenance actions (rotate, flush, every compaction kind, value-log GC), then Close + Open}; the full multi-version dump through NewInternalIterator (cf, key, version, delete bit, expiry, resolved value) " +
			"taken right before Close must equal the dump right after Open; in transactional mode the version of every commit is read back and must exceed every version stored before it; " +
			"a case is non-trivial iff at some reopen the memtables held unflushed entries and the dump had >=5 entries; distinct = distinct op traces",
		Assumptions: []string{
			"the engine's own '!NoKV!discard' record is filtered from dumps",
			"of several entries with one internal key the first one the iterator yields is taken as the stored entry (duplicates are counted)",
			"only far-past (2001) and far-future (2100) expiry timestamps are used; nothing sleeps across an expiry",
			"value pointers are resolved through the verif accessor VerifKeySources (the internal iterator yields encoded pointers)",
			"value-log GC is not run in versioned-API cases (its re-inserts trigger C02's lookup findings)",
			"cases with the ART memtable use prefix-free key sets (the ART ordering defect for byte-prefix related keys is a finding of C01/C02/C07 and makes such keys unobservable)",
		},
		CrashIsViolation: true,
		Cases: func(tier string) int {
			if tier == "thorough" {
				return 1500
			}
			return 96
		},
		Run: run,
		Finish: func(a *core.Agg) {
			a.FloorNontrivial(30)
			a.Floor("action.reopen", 150)
			a.Floor("reopens_with_unflushed_memtable", 80)
			a.Floor("reopens_with_multi_version_keys", 40)
			a.Floor("dump_value_pointer_entries", 100)
			a.Floor("dump_entries_with_expiry", 20)
			a.Floor("commit_versions_checked", 100)
			a.Floor("reopens_followed_by_commit_check", 30)
			a.Floor("closes_with_greatest_version_only_in_ingest_buffer.txn", 5)
		},
	})
}

// ingestCopiesAfter counts the ingest-buffer tables of the reopened tree that
// hold the record's (key, version).
func ingestCopiesAfter(db *NoKV.DB, r *rec) int {
	n := 0
	for _, s := range db.VerifKeySources(kv.ColumnFamily(r.CF), []byte(r.Key)) {
		if s.Kind != "ingest" {
			continue
		}
		for _, en := range s.Entries {
			if en.Version == r.Ver {
				n++
				break
			}
		}
	}
	return n
}
