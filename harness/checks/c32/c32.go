// Package c32: the watermark never passes an unfinished index.
//
// Engine: E-sched (internal/sched) over a bare utils.WaterMark. Workers run
// short scripts of Begin/BeginMany/Done/DoneMany/WaitForMark; every
// utils.VerifYield site inside watermarker.go is a scheduling point; a sampler
// reads DoneUntil() at every scheduling step. A second case family runs the
// same scripts free (no control) so that the race detector can see
// unsynchronised accesses (token passing would order everything).
//
// Oracle (conservative real-time rules written from the statement; every event
// gets a ticket from one atomic counter, "call" tickets are taken before the
// call, "return" tickets after it):
//
//	R-mono  successive samples never decrease.
//	R-pend  index i is *surely pending* while (#Begin(i) returned) - (#Done(i)
//	        called) > 0. A judged epoch of i starts either when a Begin(i)
//	        returns and no other Begin of an index >= i had been called before
//	        that return (nothing else can have allowed the mark to reach i), or
//	        at the end of a sample that saw mark < i while i was surely pending;
//	        it ends with the first Done(i) call that makes the difference 0.
//	        A sample taken entirely inside a judged epoch must be < i.
//	R-wait  WaitForMark(x) that returned nil entirely inside a judged epoch of
//	        some i <= x returned before i finished (same rule, observed through
//	        the wait instead of a sample: same signature).
//
// Begins of an index that the mark may legitimately have passed already (a
// higher index was begun first/concurrently) are not judged until the mark is
// observed below them.
package c32

import (
	"context"
	"encoding/json"
	"fmt"
	"math/rand"
	"os"
	"os/exec"
	"path/filepath"
	"sort"
	"strconv"
	"strings"
	"sync"
	"sync/atomic"
	"time"

	"github.com/feichai0017/NoKV/utils"
	"verif/harness/internal/core"
	"verif/harness/internal/sched"
)

const window = 1 << 16

type op struct {
	ID     int      `json:"id"`
	Kind   string   `json:"kind"` // begin | beginmany | done | donemany | wait
	Idx    []uint64 `json:"idx"`
	Worker int      `json:"worker"`
	Rank   int      `json:"rank"`
	// Need[k]: Idx[k]'s Begin must have returned this many times before the op starts (done ops, ordered begins)
	DepIdx []uint64 `json:"dep_idx,omitempty"`
	DepCnt []int32  `json:"dep_cnt,omitempty"`
}

type scenario struct {
	Template  string   `json:"template"`
	Workers   int      `json:"workers"`
	Base      uint64   `json:"base"`
	SetLast   bool     `json:"set_last"`
	Indices   []uint64 `json:"indices"`
	Gap       string   `json:"gap"`
	NeverDone []uint64 `json:"never_done,omitempty"`
	Ops       [][]op   `json:"ops"` // per worker, in program order
}

func genScenario(rng *rand.Rand, small bool) *scenario {
	sc := &scenario{}
	sc.Workers = 2 + rng.Intn(3)
	if small {
		sc.Workers = 2
	}
	sc.Template = []string{"ordered", "free", "blocker", "ordered", "blocker"}[rng.Intn(5)]
	sc.Base = []uint64{0, 0, 0, 100, window, 1 << 20}[rng.Intn(6)]
	sc.SetLast = rng.Intn(2) == 0
	// index set
	n := 2 + rng.Intn(5)
	if small {
		n = 2 + rng.Intn(2)
	}
	// gap modes: none | stopper (the index just below every jump is never finished, so the mark
	// never has to walk the > 65536 unused indices of the jump) | walk (everything finishes and
	// the mark walks across the jump, rebuilding the window on its way)
	gapMode := []string{"none", "none", "stopper", "stopper", "stopper", "walk"}[rng.Intn(6)]
	if small && gapMode == "walk" {
		gapMode = "none"
	}
	sc.Gap = gapMode
	gap := gapMode != "none"
	var idx []uint64
	cur := sc.Base
	jumped := false
	for i := 0; i < n; i++ {
		step := uint64(1 + rng.Intn(2))
		if gap && i > 0 && (rng.Intn(3) == 0 || (i == n-1 && !jumped)) {
			jumped = true
			step = uint64(window) + uint64(rng.Intn(5))
			if rng.Intn(4) == 0 {
				step = 2*uint64(window) + uint64(rng.Intn(3))
			}
			if gapMode == "stopper" {
				sc.NeverDone = append(sc.NeverDone, cur)
			}
		}
		cur += step
		idx = append(idx, cur)
	}
	sc.Indices = idx
	// begin / done ops with ranks
	var ops []*op
	id := 0
	newOp := func(kind string, ix []uint64, w, rank int) *op {
		o := &op{ID: id, Kind: kind, Idx: ix, Worker: w, Rank: rank}
		id++
		ops = append(ops, o)
		return o
	}
	nb := map[uint64]int32{}
	maxRank := 0
	never := map[uint64]bool{}
	for _, i := range sc.NeverDone {
		never[i] = true
	}
	for pos, i := range idx {
		times := 1
		if sc.Template == "free" && rng.Intn(5) == 0 {
			times = 2
		}
		for t := 0; t < times; t++ {
			br := 4 * pos
			b := newOp("begin", []uint64{i}, rng.Intn(sc.Workers), br)
			nb[i]++
			switch sc.Template {
			case "ordered":
				if pos > 0 {
					b.DepIdx, b.DepCnt = []uint64{idx[pos-1]}, []int32{1}
				}
			case "blocker":
				if pos > 0 {
					b.DepIdx, b.DepCnt = []uint64{idx[0]}, []int32{1}
				}
			}
			dr := br + 1 + 4*rng.Intn(4) + rng.Intn(3)
			if sc.Template == "blocker" && pos == 0 {
				dr = 4*len(idx) + 2 + rng.Intn(6)
			}
			if never[i] {
				continue
			}
			d := newOp("done", []uint64{i}, rng.Intn(sc.Workers), dr)
			if small { // keep both workers busy: an index is finished by the other worker
				d.Worker = 1 - b.Worker
			}
			d.DepIdx, d.DepCnt = []uint64{i}, []int32{nb[i]}
			if dr > maxRank {
				maxRank = dr
			}
		}
	}
	// merges
	byWorker := func() [][]*op {
		out := make([][]*op, sc.Workers)
		for _, o := range ops {
			out[o.Worker] = append(out[o.Worker], o)
		}
		for _, l := range out {
			sort.SliceStable(l, func(a, b int) bool {
				if l[a].Rank != l[b].Rank {
					return l[a].Rank < l[b].Rank
				}
				return l[a].ID < l[b].ID
			})
		}
		return out
	}
	pos := map[uint64]int{}
	for p, i := range idx {
		pos[i] = p
	}
	dead := map[int]bool{}
	for _, l := range byWorker() {
		for k := 0; k+1 < len(l); k++ {
			a, b := l[k], l[k+1]
			if dead[a.ID] || dead[b.ID] {
				continue
			}
			if a.Kind == "begin" && b.Kind == "begin" && rng.Intn(3) == 0 {
				ai, bi := a.Idx[len(a.Idx)-1], b.Idx[0]
				ok := bi > ai
				if sc.Template != "free" {
					ok = ok && pos[bi] == pos[ai]+1 // globally adjacent: no dependency cycle
				}
				if ok {
					a.Kind = "beginmany"
					a.Idx = append(a.Idx, bi)
					dead[b.ID] = true
					l[k+1] = a
				}
			} else if (a.Kind == "done" || a.Kind == "donemany") && b.Kind == "done" && rng.Intn(3) == 0 {
				b.Kind = "donemany"
				b.Idx = append(append([]uint64{}, a.Idx...), b.Idx...)
				b.DepIdx = append(append([]uint64{}, a.DepIdx...), b.DepIdx...)
				b.DepCnt = append(append([]int32{}, a.DepCnt...), b.DepCnt...)
				dead[a.ID] = true
			}
		}
	}
	var live []*op
	for _, o := range ops {
		if !dead[o.ID] {
			live = append(live, o)
		}
	}
	ops = live
	// waits: ranked after every Done of an index <= x
	nw := rng.Intn(3)
	if small {
		nw = rng.Intn(2)
	}
	for k := 0; k < nw; k++ {
		x := idx[rng.Intn(len(idx))]
		if len(sc.NeverDone) > 0 && x >= sc.NeverDone[0] {
			continue // could never be satisfied
		}
		r := 0
		for _, o := range ops {
			if o.Kind == "done" || o.Kind == "donemany" {
				for _, i := range o.Idx {
					if i <= x && o.Rank >= r {
						r = o.Rank + 1
					}
				}
			}
		}
		w := newOp("wait", []uint64{x}, rng.Intn(sc.Workers), r)
		_ = w
	}
	for _, l := range byWorker() {
		var pl []op
		for _, o := range l {
			pl = append(pl, *o)
		}
		sc.Ops = append(sc.Ops, pl)
	}
	return sc
}

type event struct {
	Seq  int64  `json:"seq"`
	W    int    `json:"w"` // worker, -1 = sampler
	Kind string `json:"k"` // call | ret | site | sample
	Op   int    `json:"op,omitempty"`
	Err  bool   `json:"err,omitempty"`
	V    uint64 `json:"v,omitempty"`
	End  int64  `json:"end,omitempty"` // samples: ticket after the read
	Site string `json:"site,omitempty"`
}

type runState struct {
	sc     *scenario
	wm     *utils.WaterMark
	ctr    atomic.Int64
	logs   [][]event // per worker
	slog   []event   // sampler
	smu    sync.Mutex
	begun  map[uint64]*atomic.Int32
	ctx    context.Context
	cancel context.CancelFunc
}

func (rs *runState) sample() {
	a := rs.ctr.Add(1)
	v := rs.wm.DoneUntil()
	b := rs.ctr.Add(1)
	rs.smu.Lock()
	rs.slog = append(rs.slog, event{Seq: a, W: -1, Kind: "sample", V: v, End: b})
	rs.smu.Unlock()
}

func (rs *runState) script(w *sched.Worker) {
	me := w.ID
	log := func(e event) {
		e.W = me
		rs.logs[me] = append(rs.logs[me], e)
	}
	for _, o := range rs.sc.Ops[me] {
		o := o
		if len(o.DepIdx) > 0 {
			ok := w.WaitUntil("h.dep", func() bool {
				for k, i := range o.DepIdx {
					if rs.begun[i].Load() < o.DepCnt[k] {
						return false
					}
				}
				return true
			})
			if !ok {
				return
			}
		} else {
			w.Yield("h.next-op")
		}
		log(event{Seq: rs.ctr.Add(1), Kind: "call", Op: o.ID})
		var err error
		switch o.Kind {
		case "begin":
			rs.wm.Begin(o.Idx[0])
		case "beginmany":
			rs.wm.BeginMany(o.Idx)
		case "done":
			rs.wm.Done(o.Idx[0])
		case "donemany":
			rs.wm.DoneMany(o.Idx)
		case "wait":
			err = rs.wm.WaitForMark(rs.ctx, o.Idx[0])
		}
		log(event{Seq: rs.ctr.Add(1), Kind: "ret", Op: o.ID, Err: err != nil})
		if o.Kind == "begin" || o.Kind == "beginmany" {
			for _, i := range o.Idx {
				rs.begun[i].Add(1)
			}
		}
	}
	w.Yield("h.end")
}

type violation struct {
	Rule  string
	Ctx   string
	What  string
	Index uint64
	AtSeq int64
}

// judge applies R-mono / R-pend / R-wait to the merged event log.
func judge(sc *scenario, evs []event) (viol []violation, judgedEpochs, unjudged int, stats map[string]int) {
	stats = map[string]int{}
	ops := map[int]op{}
	for _, l := range sc.Ops {
		for _, o := range l {
			ops[o.ID] = o
		}
	}
	call := map[int]int64{}
	ret := map[int]int64{}
	retErr := map[int]bool{}
	opW := map[int]int{}
	var samples []event
	type siteEv struct {
		seq int64
		w   int
	}
	var rebuilds []siteEv
	for _, e := range evs {
		switch e.Kind {
		case "call":
			call[e.Op] = e.Seq
			opW[e.Op] = e.W
		case "ret":
			ret[e.Op] = e.Seq
			retErr[e.Op] = e.Err
		case "sample":
			samples = append(samples, e)
		case "site":
			if e.Site == "wm.rebuild.before-store" {
				rebuilds = append(rebuilds, siteEv{e.Seq, e.W})
			}
		}
	}
	sort.Slice(samples, func(a, b int) bool { return samples[a].Seq < samples[b].Seq })
	stats["samples"] = len(samples)
	// R-mono: samples are taken by one goroutine, sequentially
	for k := 1; k < len(samples); k++ {
		if samples[k].V < samples[k-1].V {
			viol = append(viol, violation{Rule: "mark-decreased", What: fmt.Sprintf("DoneUntil() returned %d and later %d", samples[k-1].V, samples[k].V), AtSeq: samples[k].Seq})
			break
		}
	}
	const inf = int64(1) << 62
	isBegin := func(o op) bool { return o.Kind == "begin" || o.Kind == "beginmany" }
	isDone := func(o op) bool { return o.Kind == "done" || o.Kind == "donemany" }
	for _, i := range sc.Indices {
		// timeline of L = begins returned - dones called
		type tl struct {
			seq   int64
			delta int
			op    int
		}
		var line []tl
		var begins []int
		for id, o := range ops {
			for _, x := range o.Idx {
				if x != i {
					continue
				}
				if isBegin(o) {
					if r, ok := ret[id]; ok {
						line = append(line, tl{r, +1, id})
					}
					if _, ok := call[id]; ok {
						begins = append(begins, id)
					}
				} else if isDone(o) {
					if c, ok := call[id]; ok {
						line = append(line, tl{c, -1, id})
					}
				}
			}
		}
		if len(begins) == 0 {
			continue
		}
		sort.Slice(line, func(a, b int) bool { return line[a].seq < line[b].seq })
		// maximal intervals with L > 0
		type span struct{ from, to int64 }
		var pend []span
		L := 0
		var from int64
		for _, t := range line {
			was := L
			L += t.delta
			if was <= 0 && L > 0 {
				from = t.seq
			}
			if was > 0 && L <= 0 {
				pend = append(pend, span{from, t.seq})
			}
		}
		if L > 0 {
			pend = append(pend, span{from, inf})
		}
		for _, sp := range pend {
			// (a) in-order start: the begin op whose return opened the span
			start := inf
			startKind := ""
			var opener int = -1
			for _, t := range line {
				if t.seq == sp.from && t.delta > 0 {
					opener = t.op
				}
			}
			if opener >= 0 {
				inOrder := true
				for id, o := range ops {
					if id == opener || !isBegin(o) {
						continue
					}
					c, ok := call[id]
					if !ok || c > sp.from {
						continue
					}
					for _, x := range o.Idx {
						if x >= i {
							inOrder = false
						}
					}
				}
				if inOrder {
					start, startKind = sp.from, "in-order"
				}
			}
			// (b) observational start
			var firstBelow int64 = inf
			for _, s := range samples {
				if s.Seq > sp.from && s.End < sp.to && s.V < i {
					firstBelow = s.End
					break
				}
			}
			if firstBelow < start {
				start, startKind = firstBelow, "observed-below"
			}
			if start == inf {
				unjudged++
				continue
			}
			judgedEpochs++
			stats["epoch."+startKind]++
			// Context of a violation, from what was observed only. An epoch opened by an in-order
			// Begin means nothing but that Begin's own publication of the last index can have
			// let the mark reach i. Otherwise the mark was seen below i after Begin(i) returned
			// and reached it later: either the registration was lost (window rebuilt while the
			// Begin was in flight) or an advance decided on a stale pending count.
			classify := func(at int64) string {
				if startKind == "in-order" {
					return "in-order-begin"
				}
				over := false
				for _, b := range begins {
					r, ok := ret[b]
					if !ok {
						r = inf
					}
					for _, rb := range rebuilds {
						if rb.w != opW[b] && rb.seq > call[b] && rb.seq < r {
							over = true
						}
					}
				}
				return fmt.Sprintf("out-of-order-begin,rebuild-during-begin=%v", over)
			}
			found := false
			for _, s := range samples {
				if s.Seq > start && s.End < sp.to && s.V >= i {
					viol = append(viol, violation{Rule: "mark-reached-pending-index", Ctx: classify(s.Seq), Index: i, AtSeq: s.Seq,
						What: fmt.Sprintf("DoneUntil()=%d sampled at tickets [%d,%d] while index %d was begun (Begin returned at ticket %d, epoch start %d/%s) and its Done had not been called (epoch end %d)", s.V, s.Seq, s.End, i, sp.from, start, startKind, sp.to)})
					found = true
					break
				}
			}
			for id, o := range ops {
				if o.Kind != "wait" || o.Idx[0] < i {
					continue
				}
				c, okc := call[id]
				r, okr := ret[id]
				if !okc || !okr || retErr[id] {
					continue
				}
				stats["waits_returned_nil"]++
				if c > start && r < sp.to {
					viol = append(viol, violation{Rule: "mark-reached-pending-index", Ctx: classify(c), Index: i, AtSeq: r,
						What: fmt.Sprintf("WaitForMark(%d) called at ticket %d returned nil at ticket %d while index %d (Begin returned at %d) had not been finished (Done called at %d)", o.Idx[0], c, r, i, sp.from, sp.to)})
					found = true
				}
			}
			_ = found
		}
	}
	return viol, judgedEpochs, unjudged, stats
}

type runOut struct {
	res              sched.Result
	evs              []event
	viol             []violation
	final            uint64
	wantFinal        uint64
	judged, unjudged int
	stats            map[string]int
	sites            map[string]bool
}

var yieldMu sync.Mutex // the yield callback is process-global: one run at a time

func runOne(sc *scenario, ch sched.Chooser, free bool) runOut {
	yieldMu.Lock()
	defer yieldMu.Unlock()
	rs := &runState{sc: sc, wm: &utils.WaterMark{Name: "c32"}, begun: map[uint64]*atomic.Int32{}}
	rs.wm.Init(nil)
	if sc.Base > 0 {
		rs.wm.SetDoneUntil(sc.Base)
		if sc.SetLast {
			rs.wm.SetLastIndex(sc.Base)
		}
	}
	for _, i := range sc.Indices {
		rs.begun[i] = &atomic.Int32{}
	}
	rs.logs = make([][]event, sc.Workers)
	rs.ctx, rs.cancel = context.WithCancel(context.Background())
	defer rs.cancel()
	opts := sched.Options{Chooser: ch, OnStep: rs.sample, OnStall: func() { rs.cancel() }, MaxSteps: 3000, Free: free}
	r := sched.New(opts)
	for k := 0; k < sc.Workers; k++ {
		r.Go(fmt.Sprintf("w%d", k), rs.script)
	}
	sites := map[string]bool{}
	var sitesMu sync.Mutex
	// A mark advancing over a gap of n unused indices passes "wm.advance.before-cas" n times
	// (n > 65536 in the window-rebuild scenarios): only the first few consecutive passes are
	// scheduling points, the rest of the walk runs through.
	var casRun atomic.Int32
	utils.VerifSetYield(func(site string) {
		if site == "wm.advance.before-cas" {
			if casRun.Add(1) > 6 {
				r.Touch()
				return
			}
		} else {
			casRun.Store(0)
		}
		w := r.Current()
		if w == nil {
			return
		}
		rs.logs[w.ID] = append(rs.logs[w.ID], event{Seq: rs.ctr.Add(1), W: w.ID, Kind: "site", Site: site})
		if free {
			sitesMu.Lock()
			sites[site] = true
			sitesMu.Unlock()
		}
		w.Yield(site)
	})
	stopSampler := make(chan struct{})
	var swg sync.WaitGroup
	if free {
		swg.Add(1)
		go func() {
			defer swg.Done()
			n := 0
			for {
				select {
				case <-stopSampler:
					return
				default:
					if n < 20000 {
						rs.sample()
						n++
					}
					time.Sleep(20 * time.Microsecond)
				}
			}
		}()
	}
	res := r.Execute()
	close(stopSampler)
	swg.Wait()
	utils.VerifSetYield(nil)
	out := runOut{res: res, sites: sites}
	if res.Stuck {
		return out
	}
	rs.sample()
	for _, l := range rs.logs {
		out.evs = append(out.evs, l...)
	}
	out.evs = append(out.evs, rs.slog...)
	sort.Slice(out.evs, func(a, b int) bool { return out.evs[a].Seq < out.evs[b].Seq })
	for _, st := range res.Trace {
		sites[st.Site] = true
	}
	out.viol, out.judged, out.unjudged, out.stats = judge(sc, out.evs)
	out.final = rs.wm.DoneUntil()
	if len(sc.NeverDone) == 0 {
		out.wantFinal = sc.Indices[len(sc.Indices)-1]
	}
	return out
}

func traceString(tr []sched.Step) string {
	var sb strings.Builder
	for _, s := range tr {
		fmt.Fprintf(&sb, "w%d@%s ", s.Worker, s.Site)
	}
	return sb.String()
}

// reported: one witness per signature and case is enough
var reported = map[string]bool{}

func report(c sink, sc *scenario, o runOut, mode string) {
	seen := reported
	for _, v := range o.viol {
		sig := "C32|" + v.Rule
		if v.Ctx != "" {
			sig += "|" + v.Ctx
		}
		key := fmt.Sprintf("%p|%s", sc, sig)
		if seen[key] {
			continue
		}
		seen[key] = true
		evs := o.evs
		if len(evs) > 400 {
			evs = evs[:400]
		}
		c.Violation(sig, v.What, map[string]any{"mode": mode, "scenario": sc, "executed_schedule": traceString(o.res.Trace), "events": evs, "index": v.Index})
	}
}

func quickSchedules(tier string) (cases, perCase, stress, dfs int) {
	if tier == "thorough" {
		return 200, 250, 48, 16
	}
	return 100, 50, 16, 0
}

// sink is the part of *core.Case the case bodies use; the controlled-scheduling cases are
// executed by a helper process running the plain (non -race) build, because token passing
// orders all accesses anyway (the race detector cannot see anything there) and the race
// runtime makes every window rebuild cost ~0.3 s. The helper records its observations and the
// case replays them onto the real *core.Case.
type sink interface {
	Count(name string, n int)
	Max(name string, v int)
	Distinct(name, member string)
	Nontrivial(fp string)
	Sample(v any)
	Violation(sig, what string, detail any)
	Inconclusive(why string)
	Violated() bool
}

type call struct {
	F string `json:"f"`
	A string `json:"a,omitempty"`
	B string `json:"b,omitempty"`
	N int    `json:"n,omitempty"`
	V any    `json:"v,omitempty"`
}

type recorder struct {
	calls    []call
	violated bool
}

func (r *recorder) Count(name string, n int) {
	r.calls = append(r.calls, call{F: "count", A: name, N: n})
}
func (r *recorder) Max(name string, v int) { r.calls = append(r.calls, call{F: "max", A: name, N: v}) }
func (r *recorder) Distinct(name, member string) {
	r.calls = append(r.calls, call{F: "distinct", A: name, B: member})
}
func (r *recorder) Nontrivial(fp string) { r.calls = append(r.calls, call{F: "nontrivial", A: fp}) }
func (r *recorder) Sample(v any)         { r.calls = append(r.calls, call{F: "sample", V: v}) }
func (r *recorder) Inconclusive(why string) {
	r.calls = append(r.calls, call{F: "inconclusive", A: why})
}
func (r *recorder) Violated() bool { return r.violated }
func (r *recorder) Violation(sig, what string, detail any) {
	r.violated = true
	r.calls = append(r.calls, call{F: "violation", A: sig, B: what, V: detail})
}

func apply(c *core.Case, calls []call) {
	for _, k := range calls {
		switch k.F {
		case "count":
			c.Count(k.A, k.N)
		case "max":
			c.Max(k.A, k.N)
		case "distinct":
			c.Distinct(k.A, k.B)
		case "nontrivial":
			c.Nontrivial(k.A)
		case "sample":
			c.Sample(k.V)
		case "inconclusive":
			c.Inconclusive(k.A)
		case "violation":
			c.Violation(k.A, k.B, k.V)
		}
	}
}

func workerMain(args []string) int {
	if len(args) < 4 {
		return 2
	}
	seed, _ := strconv.ParseInt(args[0], 10, 64)
	idx, _ := strconv.Atoi(args[2])
	rec := &recorder{}
	runCase(rec, rand.New(rand.NewSource(core.CaseSeed(seed, "C32", idx))), args[1], idx)
	b, err := json.Marshal(rec.calls)
	if err != nil {
		fmt.Fprintln(os.Stderr, err)
		return 2
	}
	if err := os.WriteFile(args[3], b, 0o644); err != nil {
		return 2
	}
	return 0
}

func run(c *core.Case) {
	nRand, _, nStress, _ := quickSchedules(c.Tier)
	isStress := c.Idx >= nRand && c.Idx < nRand+nStress
	self := core.SelfExe()
	plain := filepath.Join(filepath.Dir(self), "vcheck")
	if !isStress && !c.Replay && filepath.Base(self) == "vcheck-race" {
		if _, err := os.Stat(plain); err == nil {
			out := filepath.Join(c.TempDir(), "calls.json")
			cmd := exec.Command(plain, "worker", "c32case", strconv.FormatInt(c.Seed, 10), c.Tier, strconv.Itoa(c.Idx), out)
			cmd.Stderr = os.Stderr
			if err := cmd.Run(); err != nil {
				c.Inconclusive("plain-build helper failed: " + err.Error())
				return
			}
			b, err := os.ReadFile(out)
			var calls []call
			if err == nil {
				err = json.Unmarshal(b, &calls)
			}
			if err != nil {
				c.Inconclusive("plain-build helper output unreadable: " + err.Error())
				return
			}
			c.Count("cases_run_by_plain_build_helper", 1)
			apply(c, calls)
			return
		}
	}
	runCase(c, c.Rng, c.Tier, c.Idx)
}

func runCase(c sink, rng *rand.Rand, tier string, idx int) {
	nRand, perCase, nStress, _ := quickSchedules(tier)
	cRng, cIdx := rng, idx
	switch {
	case cIdx < nRand:
		sc := genScenario(cRng, false)
		local := map[uint64]bool{}
		for k := 0; k < perCase; k++ {
			var ch sched.Chooser
			switch k % 4 {
			case 0, 1:
				ch = sched.NewPCT(cRng, sc.Workers, 1+cRng.Intn(3), 60)
			case 2:
				ch = &sched.Random{Rng: cRng, Stay: 0.6}
			default:
				ch = &sched.Random{Rng: cRng, Stay: 0.2}
			}
			o := runOne(sc, ch, false)
			account(c, sc, o, local, "pct/random")
		}
		c.Count("distinct_interleavings", len(local))
		if cIdx < 2 {
			c.Sample(map[string]any{"scenario": sc})
		}
	case cIdx < nRand+nStress:
		// free-running stress for the race detector; same oracle
		sc := genScenario(cRng, false)
		reps := 25
		for k := 0; k < reps; k++ {
			o := runOne(sc, nil, true)
			c.Count("stress_runs", 1)
			if o.res.Stuck {
				c.Inconclusive("stress run stuck")
				return
			}
			c.Count("evaluations", 1)
			c.Count("judged_epochs", o.judged)
			for s := range o.sites {
				c.Distinct("sites_stress", s)
			}
			report(c, sc, o, "stress")
			if c.Violated() {
				break
			}
		}
	default:
		// bounded-preemption DFS on a small script (thorough)
		sc := genScenario(cRng, true)
		local := map[uint64]bool{}
		runs, exhausted := sched.Explore(3, 8000, func(ch *sched.Prefix) (sched.Result, bool) {
			o := runOne(sc, ch, false)
			account(c, sc, o, local, "dfs")
			return o.res, true
		})
		c.Count("dfs_runs", runs)
		if exhausted {
			c.Count("dfs_scripts_exhausted_at_3_preemptions", 1)
		}
		c.Count("distinct_interleavings", len(local))
	}
}

func account(c sink, sc *scenario, o runOut, local map[uint64]bool, mode string) {
	c.Count("schedules_run", 1)
	if o.res.Stuck {
		c.Inconclusive("schedule stuck (watchdog)")
		return
	}
	c.Count("evaluations", 1)
	c.Count("blocked_classifications", o.res.Blocked)
	c.Count("stalls", o.res.Stalls)
	c.Count("judged_epochs", o.judged)
	c.Count("unjudged_epochs", o.unjudged)
	for k, v := range o.stats {
		c.Count(k, v)
	}
	c.Max("steps_per_schedule", len(o.res.Trace))
	c.Max("preemptions_per_schedule", o.res.Preemptions)
	if !local[o.res.Hash] {
		local[o.res.Hash] = true
		c.Distinct("interleavings", fmt.Sprintf("%x", o.res.Hash))
		if o.judged > 0 {
			c.Nontrivial(fmt.Sprintf("%s/%x", sc.Template, o.res.Hash))
		}
	}
	for _, st := range o.res.Trace {
		c.Distinct("sites", st.Site)
	}
	if o.sites["wm.rebuild.before-store"] {
		c.Count("schedules_with_window_rebuild", 1)
	}
	if o.final < o.wantFinal {
		// not part of the statement (safety only): recorded, never a violation
		c.Count("obs.final_mark_below_last_index", 1)
	}
	report(c, sc, o, mode)
}

func init() {
	core.RegisterWorker("c32case", workerMain)
	core.Register(&core.Check{
		ID:    "C32",
		Level: "exploration",
		Rule: "one case = one generated script set (2-4 workers; templates ordered / free / blocker; index sets of 2-6 indices above a base in {0,100,65536,2^20}, two thirds with a gap > 65536 forcing a window rebuild; Begin/BeginMany/Done/DoneMany/WaitForMark) " +
			"run under many schedules of the token-passing scheduler at the VerifYield sites of utils/watermarker.go (quick: 100 scripts x 50 PCT(depth 1-3)/random schedules; thorough: 200 x 250 plus bounded-preemption DFS (<=3 preemptions, <=8000 runs) on 16 two-worker scripts), " +
			"plus free-running stress cases of the same scripts under the race detector; evaluations = executed schedules judged; distinct/non-trivial = distinct executed (worker,site) sequences (hash) in which at least one index had a judged pending epoch",
		Assumptions: []string{
			"SetDoneUntil/SetLastIndex are only used before the concurrent phase (the statement quantifies over begin/done/wait)",
			"Done(i) is only called after the matching Begin(i) returned; an index whose Begin raced with or followed the Begin of a higher-or-equal index is judged only from the moment the mark is observed below it",
			"a mark that stays below a finished index forever (lost decrement) is recorded as an observation, the statement is safety-only",
		},
		Race:      true,
		RaceFiles: []string{"utils/watermarker.go"},
		Cases: func(tier string) int {
			a, _, s, d := quickSchedules(tier)
			return a + s + d
		},
		Run: run,
		Finish: func(a *core.Agg) {
			a.Floor("evaluations", 1000)
			a.Floor("judged_epochs", 1000)
			a.Floor("schedules_with_window_rebuild", 100)
			a.Floor("interleavings", 500)
			a.FloorNontrivial(200)
		},
	})
}
