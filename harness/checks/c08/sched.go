package c08

import "runtime"

func runtimeGosched() { runtime.Gosched() }
