// Package c08: value-log separation and GC never change or lose a live value.
//
// Three kinds of cases: (0) the plain-API engine of C01 with a GC-heavy action
// mix and threshold 32 (signatures prefixed C08), (1) a transactional engine
// that reads every key back through Txn.Get, the transaction iterator and
// GetVersionedEntry after every maintenance action, (2) a concurrent variant in
// which single-writer-per-key goroutines keep overwriting while value-log GC
// runs on sealed segments; after quiescing every key must hold its writer's
// last acknowledged value.
package c08

import (
	"bytes"
	"errors"
	"fmt"
	"sort"
	"strings"
	"sync"
	"sync/atomic"

	NoKV "github.com/feichai0017/NoKV"
	"github.com/feichai0017/NoKV/kv"
	"github.com/feichai0017/NoKV/utils"
	"verif/harness/checks/c01"
	"verif/harness/internal/core"
	"verif/harness/internal/dbx"
)

type tval struct {
	val     []byte
	deleted bool
	written bool
	op      int
	ops     map[string]bool // every value id ever written
}

func head(b []byte) []byte {
	if len(b) > 16 {
		return b[:16]
	}
	return b
}

func idOf(v []byte) string {
	if i := bytes.IndexByte(v, '|'); i >= 0 && i < 24 {
		return string(v[:i+1])
	}
	return ""
}

func runTxn(c *core.Case) {
	rng := c.Rng
	cfg := dbx.RandomConfig(rng)
	cfg.ValueThreshold = 32
	cfg.VlogFileSize = 16 << 10
	cfg.Controlled = true
	cfg.MemTableSize = 1 << 20
	cfg.L0Tables = 1000
	cfg.DetectConflicts = true
	env, err := dbx.NewEnv(cfg, c.TempDir(), c.Count)
	if err != nil {
		c.Violation("C08|open-failed", err.Error(), cfg)
		return
	}
	defer env.Close()
	keys := dbx.KeyPool(rng, 5+rng.Intn(5))
	if cfg.Engine == "art" {
		// ART orders prefix-related keys differently (recorded under C07); keep
		// this check about the value log.
		var kept [][]byte
		for _, k := range keys {
			if !dbx.HasPrefixSibling(k, kept) {
				kept = append(kept, k)
			}
		}
		keys = kept
	}
	model := map[string]*tval{}
	for _, k := range keys {
		model[string(k)] = &tval{ops: map[string]bool{}}
	}
	sizes := []int{10, 12, 31, 32, 33, 200, 4 << 10, 20 << 10}
	nOps := 30 + rng.Intn(30)
	if c.Thorough() {
		nOps = 40 + rng.Intn(80)
	}
	gcRuns, rewrites := 0, 0
	nontrivial := false
	lastIterSnapshot := ""

	sweep := func(after string) bool {
		db := env.DB
		txn := db.NewTransaction(false)
		defer txn.Discard()
		fail := func(rule, api string, k []byte, got string, m *tval) {
			want := "absent"
			if m.written && !m.deleted {
				want = fmt.Sprintf("%d bytes %q", len(m.val), head(m.val))
			}
			ctx := "no-gc-yet"
			if gcRuns > 0 {
				ctx = "after-vlog-gc"
			}
			// Same-version duplicates (created by GC rewrites) held by two tables
			// of the ingest buffer / deep level resolve by key range, not recency:
			// recorded finding, classified from the observed sources.
			env.NoteLayout("flush")
			src := db.VerifKeySources(kv.CFDefault, k)
			deepByVersion := map[uint64]int{}
			for _, s := range src {
				if env.SourceClass(s) != "deep" {
					continue
				}
				for _, en := range s.Entries {
					deepByVersion[en.Version]++
				}
			}
			for _, n := range deepByVersion {
				if n >= 2 {
					c.Violation("C08|older-write-wins-or-lost|tainted:ingest-buffer-tie", fmt.Sprintf("%s(%q) after %s returned %s, expected %s (two ingest/level tables hold the same version of the key)", api, k, after, got, want),
						map[string]any{"config": cfg, "after": after, "key": fmt.Sprintf("%q", k), "layout": dbx.LayoutShape(db), "sources": env.Summary(src), "trace": env.Trace})
					return
				}
			}
			c.Violation(fmt.Sprintf("C08|%s|api=%s|%s", rule, api, ctx), fmt.Sprintf("%s(%q) after %s returned %s, expected %s", api, k, after, got, want),
				map[string]any{"config": cfg, "after": after, "key": fmt.Sprintf("%q", k), "layout": dbx.LayoutShape(db), "trace": env.Trace, "read_ts": txn.ReadTs()})
		}
		classify := func(m *tval, v []byte, present bool) string {
			switch {
			case !present:
				return "live-value-lost"
			case !m.written || m.deleted:
				if m.ops[idOf(v)] {
					return "deleted-or-overwritten-value-came-back"
				}
				return "phantom-value"
			case m.ops[idOf(v)] && idOf(v) != idOf(m.val):
				return "deleted-or-overwritten-value-came-back"
			default:
				return "value-bytes-changed"
			}
		}
		iterVals := map[string][]byte{}
		lastIterSnapshot = ""
		defer func() {
			var ks []string
			for k, v := range iterVals {
				ks = append(ks, fmt.Sprintf("%q=%s#%d", k, idOf(v), len(v)))
			}
			sort.Strings(ks)
			lastIterSnapshot = strings.Join(ks, ",")
		}()
		it := txn.NewIterator(NoKV.IteratorOptions{})
		for it.Rewind(); it.Valid(); it.Next() {
			item := it.Item()
			k := kv.SafeCopy(nil, item.Entry().Key)
			if bytes.HasPrefix(k, []byte("!NoKV!")) {
				continue
			}
			v, verr := item.ValueCopy(nil)
			if verr != nil {
				it.Close()
				if m := model[string(k)]; m != nil {
					fail("live-value-unreadable", "TxnIterator", k, "error "+verr.Error(), m)
				}
				return false
			}
			iterVals[string(k)] = kv.SafeCopy(nil, v)
		}
		it.Close()
		for _, k := range keys {
			m := model[string(k)]
			wantPresent := m.written && !m.deleted
			c.Count("reads_checked", 3)
			// Txn.Get
			item, gerr := txn.Get(k)
			var v []byte
			present := false
			switch {
			case gerr == nil:
				var verr error
				v, verr = item.ValueCopy(nil)
				if verr != nil {
					fail("live-value-unreadable", "Txn.Get", k, "error "+verr.Error(), m)
					return false
				}
				present = true
			case errors.Is(gerr, utils.ErrKeyNotFound):
			default:
				fail("live-value-unreadable", "Txn.Get", k, "error "+gerr.Error(), m)
				return false
			}
			if present != wantPresent || (present && !bytes.Equal(v, m.val)) {
				fail(classify(m, v, present), "Txn.Get", k, fmt.Sprintf("present=%v %d bytes %q", present, len(v), head(v)), m)
				return false
			}
			// iterator: a live value must be yielded byte-for-byte. (A deleted key
			// surfacing in the iterator independently of GC is C06's subject; GC
			// changing what the iterator yields is caught by the before/after
			// comparison around every GC action.)
			iv, ipresent := iterVals[string(k)]
			if wantPresent && (!ipresent || !bytes.Equal(iv, m.val)) {
				fail(classify(m, iv, ipresent), "TxnIterator", k, fmt.Sprintf("present=%v %d bytes %q", ipresent, len(iv), head(iv)), m)
				return false
			}
			// versioned read at the read timestamp
			e, verr := db.GetVersionedEntry(kv.CFDefault, k, txn.ReadTs())
			vpresent := verr == nil && e.Meta&kv.BitDelete == 0
			if verr != nil && !errors.Is(verr, utils.ErrKeyNotFound) {
				fail("live-value-unreadable", "GetVersionedEntry", k, "error "+verr.Error(), m)
				return false
			}
			var vv []byte
			if vpresent {
				vv = e.Value
			}
			if vpresent != wantPresent || (vpresent && !bytes.Equal(vv, m.val)) {
				fail(classify(m, vv, vpresent), "GetVersionedEntry", k, fmt.Sprintf("present=%v %d bytes %q", vpresent, len(vv), head(vv)), m)
				return false
			}
		}
		return true
	}

	for i := 0; i < nOps; i++ {
		r := rng.Intn(100)
		switch {
		case r < 60:
			n := 1 + rng.Intn(3)
			txn := env.DB.NewTransaction(true)
			type pend struct {
				k   []byte
				v   []byte
				del bool
			}
			var ps []pend
			var terr error
			for j := 0; j < n; j++ {
				k := keys[rng.Intn(len(keys))]
				if rng.Intn(5) == 0 {
					terr = txn.Delete(k)
					ps = append(ps, pend{k: k, del: true})
				} else {
					v := dbx.Value(fmt.Sprintf("%d.%d.%d|", c.Idx, i, j), sizes[rng.Intn(len(sizes))])
					terr = txn.Set(k, v)
					ps = append(ps, pend{k: k, v: v})
				}
				if terr != nil {
					break
				}
			}
			if terr == nil {
				terr = txn.Commit()
			} else {
				txn.Discard()
			}
			rec := dbx.OpRec{Op: "txn", Size: len(ps)}
			if terr != nil {
				rec.Result = terr.Error()
				env.Trace = append(env.Trace, rec)
				if !errors.Is(terr, utils.ErrTxnTooBig) && !errors.Is(terr, utils.ErrConflict) {
					c.Violation("C08|commit-error", terr.Error(), map[string]any{"config": cfg, "trace": env.Trace})
					return
				}
				continue
			}
			for _, p := range ps { // later writes of the same key in one txn win
				m := model[string(p.k)]
				m.written, m.op = true, i
				if p.del {
					m.deleted = true
				} else {
					m.deleted, m.val = false, p.v
					m.ops[idOf(p.v)] = true
				}
				rec.Key += fmt.Sprintf("%q ", p.k)
			}
			env.Trace = append(env.Trace, rec)
			c.Count("transactions", 1)
		default:
			action := dbx.Actions[rng.Intn(len(dbx.Actions))]
			if rng.Intn(2) == 0 {
				action = []string{"gc", "gc-public", "rotate-wait"}[rng.Intn(3)]
			}
			sealedBefore := 0
			for _, f := range env.DB.VerifVlogFiles() {
				if !f.Active {
					sealedBefore++
				}
			}
			isGC := action == "gc" || action == "gc-public"
			before := ""
			if isGC {
				if !sweep(fmt.Sprintf("before op %d (%s)", i, action)) {
					return
				}
				before = lastIterSnapshot
			}
			res := env.Action(action)
			if isGC && env.DB != nil {
				if !sweep(fmt.Sprintf("op %d (%s)", i, action)) {
					return
				}
				if before != lastIterSnapshot {
					c.Violation("C08|gc-changed-iterator-result", fmt.Sprintf("the transaction iterator yields different (key,value) pairs before and after %s", action),
						map[string]any{"config": cfg, "before": before, "after": lastIterSnapshot, "trace": env.Trace})
					return
				}
			}
			if res.Err != nil {
				if env.DB == nil {
					c.Violation("C08|reopen-failed", res.Err.Error(), map[string]any{"config": cfg, "trace": env.Trace})
					return
				}
				c.Count("maintenance_errors."+action, 1)
				c.Distinct("maintenance_error_texts", action+": "+res.Err.Error())
			}
			if (action == "gc" && sealedBefore > 0) || (action == "gc-public" && res.Effect) {
				gcRuns++
				c.Count("gc_runs_on_sealed_segments", 1)
				nontrivial = true
				if action == "gc" {
					rewrites += sealedBefore
					c.Count("segments_rewritten", sealedBefore)
				}
			}
			if !sweep(fmt.Sprintf("op %d (%s)", i, action)) {
				return
			}
		}
	}
	if !sweep("end") {
		return
	}
	if nontrivial {
		var sb strings.Builder
		for _, t := range env.Trace {
			sb.WriteString(t.Op + t.Key + ";")
		}
		c.Nontrivial(sb.String())
	}
	if c.Idx < 4 {
		c.Sample(map[string]any{"kind": "txn", "config": cfg, "ops": env.Trace})
	}
}

// runConcurrent: per-key single writers overwrite while GC rewrites sealed segments.
func runConcurrent(c *core.Case) {
	rng := c.Rng
	cfg := dbx.RandomConfig(rng)
	cfg.Engine = "skiplist"
	cfg.ValueThreshold = 32
	cfg.VlogFileSize = 16 << 10
	cfg.Controlled = true
	cfg.MemTableSize = 4 << 20 // everything stays in the memtable: no table ties involved
	cfg.L0Tables = 1000
	txnMode := rng.Intn(2) == 0
	cfg.DetectConflicts = txnMode
	env, err := dbx.NewEnv(cfg, c.TempDir(), c.Count)
	if err != nil {
		c.Violation("C08|open-failed", err.Error(), cfg)
		return
	}
	defer env.Close()
	db := env.DB
	nw := 4
	rounds := 150
	last := make([][]byte, nw)
	var stop atomic.Bool
	var writers, collector sync.WaitGroup
	var werrs atomic.Int64
	for w := 0; w < nw; w++ {
		writers.Add(1)
		go func(w int) {
			defer writers.Done()
			key := []byte(fmt.Sprintf("cw-%d", w))
			for i := 0; i < rounds; i++ {
				v := dbx.Value(fmt.Sprintf("%d.%d.%d|", c.Idx, w, i), 40+(i%5)*300)
				var err error
				if txnMode {
					txn := db.NewTransaction(true)
					err = txn.Set(key, v)
					if err == nil {
						err = txn.Commit()
					} else {
						txn.Discard()
					}
				} else {
					err = db.Set(key, v)
				}
				if err != nil {
					werrs.Add(1)
					continue
				}
				last[w] = v
			}
		}(w)
	}
	gcDone := 0
	collector.Add(1)
	go func() {
		defer collector.Done()
		for !stop.Load() {
			for _, f := range db.VerifVlogFiles() {
				if f.Active || stop.Load() {
					continue
				}
				if err := db.VerifRewriteVlog(f.Bucket, f.Fid); err == nil || errors.Is(err, utils.ErrEmptyKey) {
					gcDone++
				}
			}
			runtimeGosched()
		}
	}()
	writers.Wait()
	stop.Store(true)
	collector.Wait()
	// one more full GC pass after quiescing
	for _, f := range db.VerifVlogFiles() {
		if !f.Active {
			_ = db.VerifRewriteVlog(f.Bucket, f.Fid)
			gcDone++
		}
	}
	c.Count("concurrent_gc_rewrites", gcDone)
	c.Count("concurrent_writes", nw*rounds)
	for w := 0; w < nw; w++ {
		key := []byte(fmt.Sprintf("cw-%d", w))
		var got []byte
		var gerr error
		if txnMode {
			txn := db.NewTransaction(false)
			var item *NoKV.Item
			item, gerr = txn.Get(key)
			if gerr == nil {
				got, gerr = item.ValueCopy(nil)
			}
			txn.Discard()
		} else {
			var e *kv.Entry
			e, gerr = db.Get(key)
			if gerr == nil {
				got = e.Value
			}
		}
		c.Count("reads_checked", 1)
		mode := "plain"
		if txnMode {
			mode = "txn"
		}
		if gerr != nil {
			c.Violation("C08|concurrent-gc|live-value-unreadable|"+mode, fmt.Sprintf("key %s: %v", key, gerr), map[string]any{"config": cfg, "want": string(head(last[w]))})
			return
		}
		if !bytes.Equal(got, last[w]) {
			c.Violation("C08|concurrent-gc|overwritten-value-came-back|"+mode, fmt.Sprintf("key %s holds %q (%d bytes) but its writer's last acknowledged value is %q (%d bytes) — GC rewrote an older value over a newer one", key, head(got), len(got), head(last[w]), len(last[w])),
				map[string]any{"config": cfg, "gc_rewrites": gcDone})
			return
		}
	}
	if gcDone > 0 {
		c.Nontrivial(fmt.Sprintf("conc-%d-%v-%d", c.Idx, txnMode, gcDone))
	}
}

func init() {
	plain := c01.Runner("C08", true)
	core.Register(&core.Check{
		ID:    "C08",
		Level: "exploration",
		Race:  false,
		Rule: "three case kinds (case index mod 3): (0) C01's plain-API map-model engine with threshold 32, 16KiB value-log segments, 1/3 buckets and a GC-heavy action mix (forced rewrite of every sealed segment, RunValueLogGC(0.01)); " +
			"(1) transactional engine: 30-120 steps of 1-3 key transactions (value sizes {10,12,31,32,33,200,4K,20K}, deletes) interleaved with the same maintenance actions, after every action all keys are read through Txn.Get, the transaction iterator and GetVersionedEntry and compared byte-for-byte with the model; " +
			"(2) concurrent: 4 single-writer keys overwritten 150 times each while another goroutine rewrites sealed segments; after quiescing each key must hold its writer's last acknowledged value; " +
			"non-trivial = at least one GC run that processed a sealed segment (measured through VerifVlogFiles); distinct = distinct op traces",
		Assumptions:      []string{"forced rewrite (hook H1) bypasses only the sampling decision of doRunGC", "an error returned by a GC call is recorded, only reads decide"},
		CrashIsViolation: true,
		Cases: func(tier string) int {
			if tier == "thorough" {
				return 1800
			}
			return 150
		},
		Run: func(c *core.Case) {
			switch c.Idx % 3 {
			case 0:
				plain(c)
			case 1:
				runTxn(c)
			default:
				runConcurrent(c)
			}
		},
		Finish: func(a *core.Agg) {
			a.FloorNontrivial(40)
			a.Floor("gc_runs_on_sealed_segments", 20)
			a.Floor("concurrent_gc_rewrites", 20)
		},
	})
}
