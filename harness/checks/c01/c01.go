// Package c01: plain KV API is last-writer-wins under any background maintenance.
//
// Monitor: a Go map updated in lock-step with Set/Del/SetCF/DelCF on a real DB;
// after every maintenance action (memtable rotation, flush, every compaction
// kind, value-log GC, close/reopen) and at the end, every key of the model is
// read back through Get/GetCF and compared.
package c01

import (
	"bytes"
	"errors"
	"fmt"
	"strconv"
	"strings"
	"time"

	NoKV "github.com/feichai0017/NoKV"
	"github.com/feichai0017/NoKV/kv"
	"github.com/feichai0017/NoKV/utils"
	"verif/harness/internal/core"
	"verif/harness/internal/dbx"
)

type mval struct {
	val     []byte
	deleted bool
	written bool
	op      int
	ops     []int // every op index that wrote this key (incl. deletes)
	dels    map[int]bool
}

func mk(cf kv.ColumnFamily, key []byte) string { return string([]byte{byte(cf)}) + string(key) }

// opOf extracts the op index from a value head written by this check ("<case>.<op>|...").
func opOf(head []byte) int {
	i := bytes.IndexByte(head, '|')
	if i < 0 {
		return -1
	}
	parts := strings.Split(string(head[:i]), ".")
	if len(parts) != 2 {
		return -1
	}
	n, err := strconv.Atoi(parts[1])
	if err != nil {
		return -1
	}
	return n
}

type ck struct {
	cf  kv.ColumnFamily
	key []byte
}

// Runner returns the case runner; id prefixes the violation signatures so that
// C08 can reuse the engine with a GC-heavy action mix (gcHeavy).
func Runner(id string, gcHeavy bool) func(c *core.Case) {
	return func(c *core.Case) { run(c, id, gcHeavy) }
}

func run(c *core.Case, id string, gcHeavy bool) {
	rng := c.Rng
	cfg := dbx.RandomConfig(rng)
	if gcHeavy {
		cfg.ValueThreshold = 32
		cfg.VlogFileSize = 16 << 10
		cfg.Controlled = true
		cfg.MemTableSize = 1 << 20
		cfg.L0Tables = 1000
		if rng.Intn(2) == 0 {
			// hot/cold value-log bucket routing: overwritten keys cross buckets
			cfg.HotRing, cfg.Buckets = true, 3
		}
	}
	env, err := dbx.NewEnv(cfg, c.TempDir(), c.Count)
	if err != nil {
		c.Violation(id+"|open-failed|fresh", err.Error(), cfg)
		return
	}
	defer env.Close()
	nKeys := 6 + rng.Intn(7)
	keys := dbx.KeyPool(rng, nKeys)
	if cfg.Engine == "art" && rng.Intn(2) == 0 {
		// half of the ART cases avoid prefix-related user keys so that the ART
		// engine also gets coverage that is independent of known finding KF-ART.
		var kept [][]byte
		for _, k := range keys {
			if !dbx.HasZeroSuffixSibling(k, kept) {
				kept = append(kept, k)
			}
		}
		keys = kept
	}
	if !cfg.Controlled {
		// natural background compaction is not observable step by step, so the
		// same-version tie findings (see known_findings.json) could explain any
		// stale answer; natural cases therefore write every key at most once and
		// check that background flush/compaction/GC never lose or garble it.
		for i := 0; i < 24; i++ {
			keys = append(keys, []byte(fmt.Sprintf("n-%03d", i)))
		}
	}
	var cks []ck
	for _, k := range keys {
		cks = append(cks, ck{kv.CFDefault, k})
		if rng.Intn(3) == 0 {
			cks = append(cks, ck{dbx.CFs[1+rng.Intn(2)], k})
		}
	}
	model := map[string]*mval{}
	for _, k := range cks {
		model[mk(k.cf, k.key)] = &mval{dels: map[int]bool{}}
	}
	sizes := []int{0, 10, 12, int(cfg.ValueThreshold) - 1, int(cfg.ValueThreshold), int(cfg.ValueThreshold) + 1, 4 << 10, 40 << 10}
	nOps := 30 + rng.Intn(30)
	if c.Thorough() {
		nOps = 40 + rng.Intn(80)
	}
	nontrivial := false
	tainted := map[string]string{}
	hotRouting := gcHeavy && cfg.HotRing && cfg.Buckets > 1
	pick := func() (ck, bool) {
		if cfg.Controlled {
			if hotRouting && rng.Intn(100) < 35 {
				// two keys are written again and again: their first values go to a cold
				// value-log bucket, the later ones to the hot bucket
				return cks[rng.Intn(2)], true
			}
			return cks[rng.Intn(len(cks))], true
		}
		for try := 0; try < 8; try++ {
			k := cks[rng.Intn(len(cks))]
			if !model[mk(k.cf, k.key)].written {
				return k, true
			}
		}
		return ck{}, false
	}
	// taintScan marks keys whose same version is held by two table sources
	// that are not both L0 flush tables (known findings KF-TIE-*): from then on
	// a wrong answer for that key is attributed to the tie.
	taintScan := func() {
		for _, k := range cks {
			id := mk(k.cf, k.key)
			if tainted[id] != "" {
				continue
			}
			src := env.DB.VerifKeySources(k.cf, k.key)
			// The recorded finding concerns ties among tables of the ingest buffer
			// (and what ingest compactions make of them). One ingest table over one
			// table of the level's sorted run is resolved correctly (the ingest
			// buffer is searched first and wins ties), so only >= 2 ingest tables,
			// or duplicates inside one table (a merged tie), taint a key.
			var classes []string
			for _, s := range src {
				cl := env.SourceClass(s)
				if cl == "deep" && s.Kind != "ingest" {
					if len(s.Entries) > 1 {
						classes = append(classes, "deep", "deep")
					}
					continue
				}
				if cl == "l0f" || cl == "l0c" || cl == "deep" {
					classes = append(classes, cl)
					if cl == "deep" && len(s.Entries) > 1 {
						classes = append(classes, "deep")
					}
				}
			}
			if len(classes) < 2 {
				continue
			}
			deep, l0c := 0, 0
			for _, cl := range classes {
				if cl == "deep" {
					deep++
				}
				if cl == "l0c" {
					l0c++
				}
			}
			switch {
			case deep >= 2:
				tainted[id] = "ingest-buffer-tie"
			case l0c >= 1:
				tainted[id] = "l0-compaction-output-tie"
			case deep == 1:
				// one deep source plus newer L0 tables: L0 is searched first, fine.
			}
		}
	}

	siblings := func(k ck) bool {
		var same [][]byte
		for _, o := range cks {
			if o.cf == k.cf {
				same = append(same, o.key)
			}
		}
		return dbx.HasZeroSuffixSibling(k.key, same)
	}

	// sweep reads every key back and compares with the model.
	sweep := func(after string) bool {
		db := env.DB
		taintScan()
		for _, k := range cks {
			m := model[mk(k.cf, k.key)]
			var e *kv.Entry
			var gerr error
			if k.cf == kv.CFDefault && rng.Intn(2) == 0 {
				e, gerr = db.Get(k.key)
			} else {
				e, gerr = db.GetCF(k.cf, k.key)
			}
			c.Count("reads_checked", 1)
			if tainted[mk(k.cf, k.key)] != "" {
				c.Count("reads_of_tie_tainted_keys", 1)
			}
			src := db.VerifKeySources(k.cf, k.key)
			ss := env.Summary(src)
			if len(src) >= 2 {
				nontrivial = true
				c.Distinct("source_combinations", ss)
				c.Count("reads_with_multi_source_key", 1)
			}
			wantAbsent := !m.written || m.deleted
			ok := false
			switch {
			case gerr != nil && !errors.Is(gerr, utils.ErrKeyNotFound):
			case wantAbsent:
				ok = gerr != nil
			default:
				ok = gerr == nil && bytes.Equal(e.Value, m.val)
			}
			if ok {
				continue
			}
			if !cfg.Controlled {
				// natural mode: was the wrong answer transient (a reader racing
				// background flush/compaction) or persistent?
				db.VerifLSM().VerifWaitFlush(30e9)
				stable, last := 0, dbx.LayoutShape(db)
				for i := 0; i < 500 && stable < 10; i++ {
					time.Sleep(5 * time.Millisecond)
					if cur := dbx.LayoutShape(db); cur == last {
						stable++
					} else {
						stable, last = 0, cur
					}
				}
				e2, gerr2 := db.GetCF(k.cf, k.key)
				ok2 := false
				switch {
				case gerr2 != nil && !errors.Is(gerr2, utils.ErrKeyNotFound):
				case wantAbsent:
					ok2 = gerr2 != nil
				default:
					ok2 = gerr2 == nil && bytes.Equal(e2.Value, m.val)
				}
				if ok2 {
					first := "not-found"
					if gerr == nil {
						first = fmt.Sprintf("%d bytes", len(e.Value))
					} else if !errors.Is(gerr, utils.ErrKeyNotFound) {
						first = "error " + gerr.Error()
					}
					c.Violation(id+"|transient-wrong-read|natural-background-compaction", fmt.Sprintf("Get(%q) after %s returned %s, the same read after background work settled returned the last written value", k.key, after, first),
						map[string]any{"config": cfg, "after": after, "key": fmt.Sprintf("%q", k.key), "first_read": first, "layout_after": dbx.LayoutShape(db), "sources_after": describe(env, db.VerifKeySources(k.cf, k.key)), "trace": env.Trace})
					return false
				}
			}
			// ---- classify the violation from what is observable ----
			ctx := ""
			if cfg.Engine == "art" && siblings(k) {
				ctx = "art-zero-suffix-sibling"
			}
			detail := map[string]any{"config": cfg, "after": after, "cf": k.cf.String(), "key": fmt.Sprintf("%q", k.key), "sources": describe(env, src), "layout": dbx.LayoutShape(db), "expected_op": m.op, "trace": env.Trace}
			if gerr != nil && !errors.Is(gerr, utils.ErrKeyNotFound) {
				if t := tainted[mk(k.cf, k.key)]; t != "" {
					c.Violation(id+"|older-write-wins-or-lost|tainted:"+t, fmt.Sprintf("Get(%q) returned error %q after %s (an older duplicate with a dangling value pointer won the tie)", k.key, gerr, after), detail)
					return false
				}
				if ctx != "" {
					// a key with a zero-suffix sibling in the ART memtable: lookups of the two keys
					// collide (recorded finding), also the lookup by which value-log GC decides
					// whether a record is live - the record is dropped and the pointer dangles
					c.Violation(id+"|wrong-read|"+ctx, fmt.Sprintf("Get(%q) returned error %q after %s", k.key, gerr, after), detail)
					return false
				}
				c.Violation(id+"|read-error|sources="+ss, fmt.Sprintf("Get(%q) returned error %q after %s", k.key, gerr, after), detail)
				return false
			}
			// which op did the read return?
			gotOp, gotDesc := -2, "not-found"
			if gerr == nil {
				gotOp = opOf(e.Value)
				gotDesc = fmt.Sprintf("%d bytes %q", len(e.Value), head(e.Value))
				if len(e.Value) == 0 {
					gotDesc = "empty value"
				}
			}
			// locate the sources that hold the expected op and the returned one
			holder, winner := "none", "none"
			holderC, winnerC := "none", "none"
			for _, s := range src {
				for _, en := range s.Entries {
					isDel := en.Meta&kv.BitDelete != 0
					var enOp int
					if isDel {
						enOp = -2
					} else {
						enOp = opOf(en.Value)
					}
					if holder == "none" && ((m.deleted && isDel) || (!m.deleted && !isDel && en.ValueLen == len(m.val) && (enOp == m.op || len(m.val) == 0))) {
						holder = env.Tag(s)
						holderC = env.SourceClass(s)
					}
					if winner == "none" && ((gotOp == -2 && isDel) || (gotOp != -2 && !isDel && en.ValueLen == len(e.Value) && (enOp == gotOp || len(e.Value) == 0))) {
						winner = env.Tag(s)
						winnerC = env.SourceClass(s)
					}
				}
			}
			rule := "older-write-wins"
			switch {
			case !m.written:
				rule = "phantom"
			case gerr == nil && gotOp >= 0 && !contains(m.ops, gotOp), gerr == nil && gotOp == -1 && len(e.Value) > 0:
				rule = "garbage-value"
			case gerr != nil && len(m.dels) == 0:
				rule = "lost"
			case holder == "none":
				rule = "lost"
			}
			detail["winner_source"], detail["latest_write_held_by"] = winner, holder
			sig := fmt.Sprintf(id+"|%s|%s-beats-%s", rule, winnerC, holderC)
			if t := tainted[mk(k.cf, k.key)]; t != "" && (rule == "older-write-wins" || rule == "lost") {
				sig = id+"|older-write-wins-or-lost|tainted:" + t
			}
			if ctx != "" {
				sig = id+"|wrong-read|" + ctx
			}
			c.Violation(sig, fmt.Sprintf("Get(%q) after %s returned %s but the last write (op %d) was %s", k.key, after, gotDesc, m.op, wantDesc(m)), detail)
			return false
		}
		return true
	}

	bucketsOf := map[string]map[uint32]bool{}
	// The rarer layouts are built on purpose in a sixth of the controlled cases each: five flushes
	// and then the L0->L0 compaction (its planner needs four L0 tables); two rounds of flush +
	// L0->ingest move and then an ingest drain (two ingest tables).
	var forced []string
	if cfg.Controlled {
		switch c.Idx % 6 {
		case 1:
			forced = []string{"rotate-wait", "rotate-wait", "rotate-wait", "rotate-wait", "rotate-wait", "compact:l0-to-l0"}
		case 3:
			forced = []string{"rotate-wait", "compact:l0", "rotate-wait", "compact:l0", "compact:ingest-drain"}
		}
	}
	for i := 0; i < nOps; i++ {
		r := rng.Intn(100)
		switch {
		case r < 55:
			k, ok := pick()
			if !ok {
				continue
			}
			sz := sizes[rng.Intn(len(sizes))]
			val := dbx.Value(fmt.Sprintf("%d.%d|", c.Idx, i), sz)
			var werr error
			if k.cf == kv.CFDefault && rng.Intn(2) == 0 {
				werr = env.DB.Set(k.key, val)
			} else {
				werr = env.DB.SetCF(k.cf, k.key, val)
			}
			rec := dbx.OpRec{Op: "set", CF: k.cf.String(), Key: fmt.Sprintf("%q", k.key), Size: sz}
			if werr != nil {
				rec.Result = werr.Error()
				env.Trace = append(env.Trace, rec)
				if !errors.Is(werr, utils.ErrTxnTooBig) && !errors.Is(werr, utils.ErrHotKeyWriteThrottle) {
					c.Violation(id+"|write-error", fmt.Sprintf("Set failed: %v", werr), map[string]any{"config": cfg, "trace": env.Trace})
					return
				}
				continue
			}
			m := model[mk(k.cf, k.key)]
			m.val, m.deleted, m.written, m.op = val, false, true, i
			m.ops = append(m.ops, i)
			env.Trace = append(env.Trace, rec)
			c.Count("writes", 1)
			if gcHeavy && cfg.HotRing && cfg.Buckets > 1 {
				// which value-log bucket did this value go to? (hot/cold routing moves a
				// key's newer values to another bucket than its older ones)
				if src := env.DB.VerifKeySources(k.cf, k.key); len(src) > 0 && len(src[0].Entries) > 0 && src[0].Entries[0].Pointer {
					b := src[0].Entries[0].Bucket
					id := mk(k.cf, k.key)
					if bucketsOf[id] == nil {
						bucketsOf[id] = map[uint32]bool{}
					}
					if !bucketsOf[id][b] {
						bucketsOf[id][b] = true
						if len(bucketsOf[id]) == 2 {
							c.Count("keys_whose_values_crossed_value_log_buckets", 1)
						}
					}
					c.Count(fmt.Sprintf("separated_values_written_to_bucket_%d", b), 1)
				}
			}
		case r < 72:
			k, ok := pick()
			if !ok {
				continue
			}
			var werr error
			how := rng.Intn(3)
			switch {
			case how == 0 && k.cf == kv.CFDefault:
				werr = env.DB.Del(k.key)
			case how == 1:
				werr = env.DB.SetCF(k.cf, k.key, nil)
			default:
				werr = env.DB.DelCF(k.cf, k.key)
			}
			rec := dbx.OpRec{Op: "del", CF: k.cf.String(), Key: fmt.Sprintf("%q", k.key)}
			if werr != nil {
				rec.Result = werr.Error()
				env.Trace = append(env.Trace, rec)
				c.Violation(id+"|write-error", fmt.Sprintf("Del failed: %v", werr), map[string]any{"config": cfg, "trace": env.Trace})
				return
			}
			m := model[mk(k.cf, k.key)]
			m.deleted, m.written, m.op = true, true, i
			m.ops = append(m.ops, i)
			m.dels[i] = true
			env.Trace = append(env.Trace, rec)
			c.Count("deletes", 1)
		default:
			action := dbx.Actions[rng.Intn(len(dbx.Actions))]
			if gcHeavy && rng.Intn(2) == 0 {
				action = []string{"gc", "gc-public", "rotate-wait"}[rng.Intn(3)]
			}
			if len(forced) > 0 {
				// scripted maintenance of this case (client operations keep coming in between)
				action, forced = forced[0], forced[1:]
			}
			if !cfg.Controlled && action != "rotate-wait" && action != "reopen" {
				// natural mode: background compaction only; value-log GC re-inserts
				// live entries at their old version and would create the same-version
				// duplicates that natural mode cannot track (see taintScan).
				action = "rotate"
			}
			if strings.HasPrefix(action, "compact:") {
				{
					env.DB.VerifLSM().VerifWaitFlush(30e9)
					env.NoteLayout("flush")
					taintScan()
				}
			}
			res := env.Action(action)
			if res.Err != nil {
				if env.DB == nil {
					c.Violation(id+"|reopen-failed", res.Err.Error(), map[string]any{"config": cfg, "trace": env.Trace})
					return
				}
				// A maintenance call that reports an error is not by itself a
				// last-writer-wins violation; it is recorded and the sweep decides.
				c.Count("maintenance_errors."+action, 1)
				c.Distinct("maintenance_error_texts", action+": "+res.Err.Error())
			}
			c.Distinct("layout_shapes", dbx.LayoutShape(env.DB))
			if !sweep(fmt.Sprintf("op %d (%s)", i, action)) {
				return
			}
		}
	}
	env.NoteLayout("flush")
	if !sweep("end") {
		return
	}
	c.Distinct("layout_shapes", dbx.LayoutShape(env.DB))
	for _, t := range env.DB.VerifLSM().VerifLayout().Tables {
		c.Max("deepest_level", t.Level)
	}
	c.Count("cases_engine_"+cfg.Engine, 1)
	if nontrivial {
		var sb strings.Builder
		for _, t := range env.Trace {
			sb.WriteString(t.Op + t.Key + ";")
		}
		c.Nontrivial(sb.String())
	}
	if c.Idx < 2 {
		c.Sample(map[string]any{"config": cfg, "ops": env.Trace})
	}
}

func wantDesc(m *mval) string {
	if m.deleted {
		return "a delete"
	}
	return fmt.Sprintf("a set of %d bytes %q", len(m.val), head(m.val))
}

func contains(xs []int, x int) bool {
	for _, v := range xs {
		if v == x {
			return true
		}
	}
	return false
}

func describe(env *dbx.Env, src []NoKV.VerifKeySource) []string {
	var out []string
	for _, s := range src {
		for _, en := range s.Entries {
			what := fmt.Sprintf("%d bytes %q", en.ValueLen, head(en.Value))
			if en.Meta&kv.BitDelete != 0 {
				what = "tombstone"
			}
			if en.Err != "" {
				what = "unreadable pointer: " + en.Err
			}
			out = append(out, fmt.Sprintf("%s fid=%d ver=%d: %s", env.Tag(s), s.Fid, en.Version, what))
		}
	}
	return out
}

func head(b []byte) []byte {
	if len(b) > 16 {
		return b[:16]
	}
	return b
}

func init() {
	core.Register(&core.Check{
		ID:    "C01",
		Level: "exploration",
		Rule: "case = seeded sequence of 30-120 Set/Del/SetCF/DelCF ops on 6-12 keys (prefix-related, 0x00/0xFF, long; 3 CFs; value sizes {0,10,12,thr-1,thr,thr+1,4K,40K}) interleaved with maintenance actions " +
			"{rotate, rotate+flush, compact l0->base(ingest move), l0->l0, ingest-drain, ingest-merge, level, vlog rewrite of every sealed segment, RunValueLogGC, close/reopen} under a drawn option set " +
			"(skiplist/ART, threshold 32/1024, 1/3 vlog buckets, paused or natural background compaction); after every action all keys are read back and compared with a map model; " +
			"a case is non-trivial iff at some sweep a key had entries in >=2 sources (memtable/immutable/L0/ingest/level tables), measured via VerifKeySources; distinct = distinct op traces",
		Assumptions:      []string{"the plain API has no TTL parameter, so expiry is not exercised here (covered where an API can set it: C06, C29)", "ErrTxnTooBig / ErrHotKeyWriteThrottle writes are failed writes", "an error returned by a maintenance call (RunValueLogGC, forced rewrite) is recorded but only reads decide"},
		CrashIsViolation: true,
		Cases: func(tier string) int {
			if tier == "thorough" {
				return 3000
			}
			return 160
		},
		Run: Runner("C01", false),
		Finish: func(a *core.Agg) {
			a.FloorNontrivial(40)
			for _, k := range []string{"action.rotate-wait", "action.compact:l0", "action.compact:ingest-drain", "action.compact:ingest-merge", "action.reopen"} {
				a.Floor(k, 8)
			}
			a.Floor("action.gc", 3) // a forced rewrite only has an effect when a sealed value-log segment exists (C08 is the GC-heavy runner)
			a.Floor("action.compact:l0-to-l0", 2)
		},
	})
}
