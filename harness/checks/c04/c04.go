// Package c04: transaction commit is atomic with strictly increasing commit
// versions; a commit that reports an error leaves no trace, also after reopen.
//
// Monitor: E-hist, same recorder and MVCC checker as C03, with a workload bent
// towards commit outcomes: transactions filled up to MaxBatchCount /
// MaxBatchSize (ErrTxnTooBig from Set and from Commit), hot-key throttled Sets,
// CommitWith callbacks, transactions committing while Close runs, L0 write
// stalls, and (one case in twelve) a memtable WAL whose writes start failing
// with an injected I/O error in mid-run (judged on the live database only:
// a commit that returned nil is visible as a whole, a commit that returned the
// I/O error is all-or-nothing); then close, reopen, a few more transactions, and a dump of all
// versions. Rules: R-atomic, R-fail (on the live database and after reopen),
// R-mono (real-time order of commit calls vs commit versions, across reopen).
package c04

import (
	"errors"
	"fmt"
	"runtime"
	"strings"
	"sync/atomic"
	"time"

	NoKV "github.com/feichai0017/NoKV"
	"github.com/feichai0017/NoKV/vfs"
	"verif/harness/internal/core"
	"verif/harness/internal/dbx"
	"verif/harness/internal/hist"
)

type caseCfg struct {
	DB            dbx.Config `json:"db"`
	Goroutines    int        `json:"goroutines"`
	TxnsPer       int        `json:"txns_per_goroutine"`
	Keys          []string   `json:"keys"`
	MaxBatchCount int64      `json:"max_batch_count"`
	MaxBatchSize  int64      `json:"max_batch_size"`
	HotKeyLimit   int32      `json:"write_hot_key_limit"`
	CloseRace     bool       `json:"close_race"`
	TailWriters   int        `json:"tail_writers"`
	CloseAfter    int        `json:"close_after_tail_txns"`
	L0Stall       bool       `json:"l0_stall"`
	// WalFaultAt > 0: the WalFaultAt-th write/sync of a memtable WAL segment after Open and
	// every later one fail with an injected I/O error (the device is gone); the case then
	// judges the live database only (commits that returned nil are visible as a whole,
	// commits that returned the error are invisible) and does not reopen.
	WalFaultAt int `json:"wal_fault_at,omitempty"`
}

var keyPool = []string{"ka", "kb", "kc", "kd", "ke", "kf"}
var fillKeys = []string{"fa", "fb", "fc", "fd", "fe", "ff", "fg", "fh", "fi", "fj", "fk", "fl", "fm", "fn", "fo", "fp"}

var myRules = map[string]bool{"R-atomic": true, "R-fail": true, "R-mono": true}

func draw(c *core.Case) caseCfg {
	rng := c.Rng
	cfg := caseCfg{}
	natural := rng.Intn(10) < 4
	cfg.DB = dbx.Config{
		Engine:          []string{"skiplist", "art"}[rng.Intn(2)],
		ValueThreshold:  []int64{32, 1024}[rng.Intn(2)],
		Buckets:         []int{1, 3}[rng.Intn(2)],
		VlogFileSize:    1 << 20,
		HotRing:         rng.Intn(2) == 0,
		ManifestRewrite: 64 << 20,
		Controlled:      !natural,
		MemTableSize:    []int64{8 << 10, 1 << 20}[rng.Intn(2)],
		L0Tables:        1000,
		DetectConflicts: rng.Intn(5) != 0,
	}
	if natural {
		cfg.DB.MemTableSize = 8 << 10
		cfg.DB.L0Tables = 3
		// a few cases run with the L0 write stall switching on and off
		pct := 2
		if c.Thorough() {
			pct = 5
		}
		if rng.Intn(100) < pct {
			cfg.L0Stall = true
			cfg.DB.L0Tables = 1
		}
	}
	switch rng.Intn(3) {
	case 0:
		cfg.MaxBatchCount = int64(4 + rng.Intn(5))
	case 1:
		cfg.MaxBatchSize = int64(1500 + rng.Intn(1500))
	}
	if cfg.DB.HotRing && rng.Intn(2) == 0 {
		cfg.HotKeyLimit = []int32{8, 24}[rng.Intn(2)]
	}
	cfg.Goroutines = 4 + rng.Intn(5)
	cfg.TxnsPer = 5 + rng.Intn(6)
	if c.Thorough() {
		cfg.TxnsPer = 6 + rng.Intn(10)
	}
	nk := 4 + rng.Intn(3)
	perm := rng.Perm(len(keyPool))
	for i := 0; i < nk; i++ {
		cfg.Keys = append(cfg.Keys, keyPool[perm[i]])
	}
	cfg.CloseRace = rng.Intn(2) == 0
	cfg.TailWriters = 2 + rng.Intn(3)
	cfg.CloseAfter = rng.Intn(6)
	if c.Idx%12 == 5 {
		// I/O-fault flavour: one memtable for the whole run (a transaction that straddles a
		// memtable switch is applied in two steps, which is a different subject), no Close race.
		cfg.WalFaultAt = 2 + rng.Intn(24)
		cfg.DB.MemTableSize = 4 << 20
		cfg.DB.SyncWrites = true // every append reaches the file, so the fault surfaces in the commit that hits it
		cfg.CloseRace = false
		cfg.L0Stall = false
	}
	return cfg
}

func (cfg caseCfg) options(dir string) *NoKV.Options {
	o := cfg.DB.Options(dir)
	if cfg.MaxBatchCount > 0 {
		o.MaxBatchCount = cfg.MaxBatchCount
	}
	if cfg.MaxBatchSize > 0 {
		o.MaxBatchSize = cfg.MaxBatchSize
	}
	o.WriteHotKeyLimit = cfg.HotKeyLimit
	if cfg.DB.HotRing {
		o.HotWriteBurstThreshold = 4
	}
	return o
}

// walFault is the FaultFS hook of the I/O-fault flavour.
type walFault struct {
	at     int64
	armed  atomic.Bool
	n      atomic.Int64
	failed atomic.Int64
}

var errInjectedIO = errors.New("injected: input/output error")

func (w *walFault) hook(op vfs.Op, path string) error {
	if !w.armed.Load() || !strings.HasSuffix(path, ".wal") || (op != vfs.OpFileWrite && op != vfs.OpFileSync) {
		return nil
	}
	if w.n.Add(1) >= w.at {
		w.failed.Add(1)
		return errInjectedIO
	}
	return nil
}

func open(cfg caseCfg, dir string, wf *walFault) (*NoKV.DB, error) {
	o := cfg.options(dir)
	if wf != nil {
		o.FS = vfs.NewFaultFS(vfs.OSFS{}, wf.hook)
	}
	db, err := dbx.Open(o)
	if err != nil {
		return nil, err
	}
	if cfg.DB.Controlled {
		db.VerifLSM().VerifSetCompactionPaused(true)
	}
	return db, nil
}

func run(c *core.Case) {
	cfg := draw(c)
	sizes := []int{16, 100, 400, 1500}
	params := hist.PlanParams{Keys: cfg.Keys, Sizes: sizes, PReadOnly: 15, PDiscard: 8, PCommitWith: 30, PScan: 20, MaxOps: 4}
	if cfg.MaxBatchCount > 0 || cfg.MaxBatchSize > 0 {
		params.PFill = 35
		params.FillKeys = fillKeys
		params.FillSize = 300
		if cfg.MaxBatchSize > 0 {
			params.FillSize = int(cfg.MaxBatchSize / 6)
		}
	}
	plans := make([][]hist.TxnPlan, cfg.Goroutines)
	for g := range plans {
		for i := 0; i < cfg.TxnsPer; i++ {
			plans[g] = append(plans[g], hist.DrawPlan(c.Rng, params))
		}
	}
	tailParams := hist.PlanParams{Keys: cfg.Keys, Sizes: sizes, PCommitWith: 30, MaxOps: 3, BlindWrites: true}
	tail := make([][]hist.TxnPlan, cfg.TailWriters)
	for w := range tail {
		for i := 0; i < 10; i++ {
			tail[w] = append(tail[w], hist.DrawPlan(c.Rng, tailParams))
		}
	}
	afterParams := hist.PlanParams{Keys: cfg.Keys, Sizes: sizes, PReadOnly: 0, PCommitWith: 20, PScan: 30, MaxOps: 4}
	var after []hist.TxnPlan
	for i := 0; i < 3; i++ {
		after = append(after, hist.DrawPlan(c.Rng, afterParams))
	}

	dir := c.TempDir()
	var wf *walFault
	if cfg.WalFaultAt > 0 {
		wf = &walFault{at: int64(cfg.WalFaultAt)}
	}
	db, err := open(cfg, dir, wf)
	if err != nil {
		c.Violation("C04|open-failed|fresh", err.Error(), cfg)
		return
	}
	rec := hist.NewTxnRecorder()
	if wf != nil {
		wf.armed.Store(true)
		rec.RunPlans(db, "main", 0, plans, nil)
		wf.armed.Store(false)
		live := hist.DumpAllVersions(db, "live")
		func() {
			defer func() {
				if r := recover(); r != nil {
					c.Count("close_panics_after_io_fault", 1)
				}
			}()
			if err := db.Close(); err != nil {
				c.Count("close_errors", 1)
			}
		}()
		c.Count("cases_with_wal_io_fault", 1)
		c.Count("wal_ops_failed", int(wf.failed.Load()))
		judge(c, cfg, rec.Txns(), live, nil, "live-after-io-fault")
		return
	}
	rec.RunPlans(db, "main", 0, plans, nil)

	var live *hist.Dump
	if cfg.CloseRace {
		// transactions keep committing while Close runs (blind writes only: reads
		// on a closing database are outside the statement)
		var tailDone atomic.Int64
		closed := make(chan error, 1)
		go func() {
			for spins := 0; tailDone.Load() < int64(cfg.CloseAfter) && spins < 2_000_000; spins++ {
				runtime.Gosched()
			}
			closed <- db.Close()
		}()
		rec.RunPlans(db, "tail", cfg.Goroutines, tail, func(t *hist.TxnRec) bool {
			tailDone.Add(1)
			return t.Status == hist.TxnFailed && t.ErrClass == "closed" || t.Panicked
		})
		tailDone.Store(1 << 30)
		if err := <-closed; err != nil {
			c.Count("close_errors", 1)
			c.Distinct("close_error_texts", err.Error())
		}
	} else {
		db.VerifLSM().VerifWaitFlush(30 * time.Second)
		live = hist.DumpAllVersions(db, "live")
		if err := db.Close(); err != nil {
			c.Count("close_errors", 1)
			c.Distinct("close_error_texts", err.Error())
		}
	}

	db2, err := open(cfg, dir, nil)
	if err != nil {
		c.Violation("C04|reopen-failed", err.Error(), map[string]any{"config": cfg})
		return
	}
	rec.RunPlans(db2, "after-reopen", cfg.Goroutines+cfg.TailWriters, [][]hist.TxnPlan{after}, nil)
	db2.VerifLSM().VerifWaitFlush(30 * time.Second)
	final := hist.DumpAllVersions(db2, "after-reopen")
	layout := dbx.LayoutShape(db2)
	_ = db2.Close()

	judge(c, cfg, rec.Txns(), final, live, layout)
}

func judge(c *core.Case, cfg caseCfg, txns []*hist.TxnRec, final, live *hist.Dump, layout string) {
	findings, st := hist.CheckMVCC(txns, final, live, cfg.DB.DetectConflicts)

	c.Count("evaluations", st.CommittedWithWrites+st.MonoPairsChecked+st.Discarded+st.Open)
	c.Count("txns", st.Txns)
	c.Count("txns_committed_with_writes", st.CommittedWithWrites)
	c.Count("txns_discarded", st.Discarded)
	c.Count("txns_open", st.Open)
	nFailed := 0
	for k, n := range st.Failed {
		c.Count("txns_failed."+k, n)
		nFailed += n
	}
	c.Count("evaluations", nFailed)
	c.Count("mono_pairs_checked", st.MonoPairsChecked)
	c.Count("distinct_commit_versions", st.DistinctCommitTs)
	c.Distinct("layout_at_end", layout)
	c.Count("cases_engine_"+cfg.DB.Engine, 1)
	tailClosed, tailCommitted, tooBigAtCommit, tooBigAtSet, throttledSets, cbCommits := 0, 0, 0, 0, 0, 0
	for _, t := range txns {
		if t.Phase == "tail" {
			if t.Status == hist.TxnFailed && t.ErrClass == "closed" {
				tailClosed++
			}
			if t.Status == hist.TxnCommitted {
				tailCommitted++
			}
		}
		if t.Status == hist.TxnFailed && t.ErrClass == "too-big" {
			tooBigAtCommit++
		}
		if t.ErrClass == "other" {
			c.Count("commits_with_other_error_outcome_unknown", 1)
		}
		if t.End == "commitwith" && t.Status == hist.TxnCommitted {
			cbCommits++
		}
		for _, op := range t.Ops {
			if op.Kind == hist.OpSet && strings.HasPrefix(op.Err, "too-big") {
				tooBigAtSet++
			}
			if op.Kind == hist.OpSet && strings.HasPrefix(op.Err, "throttled") {
				throttledSets++
			}
		}
		if t.Panicked {
			c.Violation("C04|api-panicked|"+t.Phase, fmt.Sprintf("txn %d: %s", t.ID, t.Err), map[string]any{"config": cfg, "txn": t})
		}
		if t.ErrClass == "watchdog" {
			c.Inconclusive("CommitWith callback not invoked within the watchdog")
		}
	}
	c.Count("commit_rejected_too_big", tooBigAtCommit)
	c.Count("set_rejected_too_big", tooBigAtSet)
	c.Count("set_rejected_throttled", throttledSets)
	c.Count("commits_through_callback", cbCommits)
	c.Count("tail_txns_rejected_closed", tailClosed)
	c.Count("tail_txns_committed", tailCommitted)
	if cfg.CloseRace {
		c.Count("cases_with_close_race", 1)
		if tailClosed > 0 && tailCommitted > 0 {
			c.Count("cases_where_close_split_the_tail", 1)
		}
	}
	if cfg.L0Stall {
		c.Count("cases_with_l0_stall", 1)
	}
	seen := map[string]bool{}
	for _, f := range findings {
		if !myRules[f.Rule] {
			c.Count("findings_of_rules_owned_by_C03."+f.Rule, 1)
			continue
		}
		sig := "C04|" + f.Rule + "|" + f.Context
		if cfg.WalFaultAt > 0 {
			sig += "|wal-io-fault"
		}
		c.Count("findings."+f.Rule+"|"+f.Context, 1)
		if seen[sig] {
			continue
		}
		seen[sig] = true
		d := f.Detail
		if d == nil {
			d = map[string]any{}
		}
		d["config"] = cfg
		d["layout_at_end"] = layout
		c.Violation(sig, f.What, d)
	}
	if st.MonoPairsChecked > 0 && nFailed > 0 {
		var sb strings.Builder
		for _, t := range txns {
			fmt.Fprintf(&sb, "%d:%s:%d;", t.Status, t.ErrClass, len(t.Ops))
		}
		c.Nontrivial(sb.String())
	}
	if c.Idx < 2 {
		n := len(txns)
		if n > 10 {
			n = 10
		}
		c.Sample(map[string]any{"config": cfg, "first_txns": txns[:n], "total_txns": len(txns)})
	}
}

func init() {
	core.Register(&core.Check{
		ID:    "C04",
		Level: "exploration",
		Rule: "case = one concurrent history: 4-8 goroutines x 5-15 seeded transactions over 4-6 keys (+16 fill keys), option set drawn per case (skiplist/ART, value threshold 32/1024, MaxBatchCount 4-8 or MaxBatchSize 1.5-3KiB in 2/3 of the cases " +
			"with 35% of the transactions filled up to the limit so ErrTxnTooBig fires in Set and in Commit, WriteHotKeyLimit 8/24, 30% CommitWith, 40% natural compaction, a few cases with the L0 write stall toggling, DetectConflicts on in 80%); " +
			"in half of the cases 2-4 goroutines keep committing blind-write transactions while Close runs; then reopen, 3 more transactions, dump of all versions (a dump of the live DB is also taken when Close is not raced). " +
			"One case in twelve: single memtable, SyncWrites, and from the k-th (2..25) write/sync of the memtable WAL on every such operation fails with an injected I/O error through vfs.FaultFS; that case is judged on the live dump only and not reopened. " +
			"Oracle: R-atomic (all pending writes of a committed txn stored at one version, none of an overwritten/rejected write), R-fail (no value of a txn whose Commit / CommitWith callback reported conflict, too-big, throttled or closed, nor of a discarded one, is stored - live and after reopen), " +
			"R-mono (Commit(A) returned before Commit(B) was called => version(A) < version(B); versions distinct; also across reopen). " +
			"A case is non-trivial iff >=1 real-time ordered commit pair was compared and >=1 transaction failed; distinct = distinct (status, error class, #ops) sequences",
		Assumptions: []string{
			"besides the errors named by the statement (conflict, too-big, throttled, closed) only the injected I/O error occurs; any other error leaves the transaction open (all-or-nothing is still required)",
			"compaction keeps every version, so the dump shows every commit version",
			"only blind-write transactions race Close",
		},
		Race: true,
		Cases: func(tier string) int {
			if tier == "thorough" {
				return 3000
			}
			return 300
		},
		CaseTimeout: 5 * time.Minute,
		Run:         run,
		Finish: func(a *core.Agg) {
			a.FloorNontrivial(100)
			a.Floor("mono_pairs_checked", 3000)
			a.Floor("txns_failed.conflict", 100)
			a.Floor("commit_rejected_too_big", 10)
			a.Floor("set_rejected_too_big", 100)
			a.Floor("set_rejected_throttled", 20)
			a.Floor("tail_txns_rejected_closed", 50)
			a.Floor("commits_through_callback", 500)
			a.Floor("cases_where_close_split_the_tail", 5)
		},
	})
}
