// Package c02: versioned reads return the newest entry at or below the
// requested version.
//
// Monitor: a per-(cf,key) model "version -> writes in arrival order" updated in
// lock-step with SetVersionedEntry/DeleteVersionedEntry on a real DB. After
// every maintenance action (memtable rotation, flush, every compaction kind,
// value-log GC, close/reopen) and at the end, GetVersionedEntry is called for
// every key at every probe version (each written version, its neighbours, 0 and
// MaxUint64) and must return the most recently written entry among those with
// the greatest version not above the probe, or not-found.
//
// A wrong answer is classified only from what was observed: which write the
// returned entry is (values carry the op index), which source of the LSM tree
// holds the expected and the returned entry (VerifKeySources, in the engine's
// lookup order), and whether the client wrote the two versions in or out of
// version order.
package c02

import (
	"bytes"
	"errors"
	"fmt"
	"math"
	"sort"
	"strconv"
	"strings"
	"time"

	NoKV "github.com/feichai0017/NoKV"
	"github.com/feichai0017/NoKV/kv"
	"github.com/feichai0017/NoKV/utils"
	"verif/harness/internal/core"
	"verif/harness/internal/dbx"
)

// wr is one versioned write of the model.
type wr struct {
	op  int
	ver uint64
	val []byte
	del bool
}

type kstate struct {
	cf     kv.ColumnFamily
	key    []byte
	writes []wr // arrival order
}

func (k *kstate) id() string { return string([]byte{byte(k.cf)}) + string(k.key) }

// expected returns the index into k.writes of the entry a read at version v
// must return (-1: not-found): the last written entry among those with the
// greatest version <= v.
func (k *kstate) expected(v uint64) int {
	best := -1
	for i, w := range k.writes {
		if w.ver > v {
			continue
		}
		if best < 0 || w.ver >= k.writes[best].ver {
			best = i
		}
	}
	return best
}

func (k *kstate) hasVersion(v uint64) bool {
	for _, w := range k.writes {
		if w.ver == v {
			return true
		}
	}
	return false
}

// opOf extracts the op index from a value head written by this check ("<case>.<op>|...").
func opOf(head []byte) int {
	i := bytes.IndexByte(head, '|')
	if i < 0 {
		return -1
	}
	parts := strings.Split(string(head[:i]), ".")
	if len(parts) != 2 {
		return -1
	}
	n, err := strconv.Atoi(parts[1])
	if err != nil {
		return -1
	}
	return n
}

func head(b []byte) []byte {
	if len(b) > 16 {
		return b[:16]
	}
	return b
}

func descWrite(w wr) string {
	if w.del {
		return fmt.Sprintf("op %d: delete at version %d", w.op, w.ver)
	}
	return fmt.Sprintf("op %d: put of %d bytes %q at version %d", w.op, len(w.val), head(w.val), w.ver)
}

// tier reduces a source to the tier that the statement-independent
// classification uses: every memtable is its own tier (searched newest first),
// all L0 tables form one tier, every level >= 1 (ingest buffer + main tables)
// forms one tier. idx orders tiers in the engine's lookup order.
func tier(src []NoKV.VerifKeySource, i int) (idx int, name string) {
	s := src[i]
	switch s.Kind {
	case "mem":
		return 0, "memtable"
	case "imm":
		n := 0
		for j := 0; j < i; j++ {
			if src[j].Kind == "imm" {
				n++
			}
		}
		return 1 + n, "memtable"
	case "l0":
		return 1000, "l0"
	}
	return 1000 + s.Level, "deep"
}

// entryIs reports whether a stored entry of a source is the model write w.
func entryIs(en NoKV.VerifKeyEntry, w wr) bool {
	if en.Version != w.ver {
		return false
	}
	isDel := en.Meta&kv.BitDelete != 0
	if isDel != w.del {
		return false
	}
	if w.del {
		return true
	}
	if en.Err != "" || en.ValueLen != len(w.val) {
		return false
	}
	n := len(w.val)
	if n > len(en.Value) {
		n = len(en.Value)
	}
	return bytes.Equal(en.Value[:n], w.val[:n])
}

// firstHolder returns the index of the first source (lookup order) holding w, or -1.
func firstHolder(src []NoKV.VerifKeySource, w wr) int {
	for i, s := range src {
		for _, en := range s.Entries {
			if entryIs(en, w) {
				return i
			}
		}
	}
	return -1
}

// shadowed reports whether the layout of one key has a stored version b such
// that the first tier (lookup order) holding any version <= b does not hold b
// itself, i.e. a lower version sits in a tier that is searched earlier than the
// tier of a higher version. Used only for coverage counters and taint.
func shadowed(src []NoKV.VerifKeySource) (bool, string) {
	type tv struct {
		idx  int
		name string
		vers map[uint64]bool
	}
	var tiers []*tv
	for i, s := range src {
		idx, name := tier(src, i)
		var t *tv
		for _, x := range tiers {
			if x.idx == idx {
				t = x
			}
		}
		if t == nil {
			t = &tv{idx: idx, name: name, vers: map[uint64]bool{}}
			tiers = append(tiers, t)
		}
		for _, en := range s.Entries {
			t.vers[en.Version] = true
		}
	}
	sort.Slice(tiers, func(i, j int) bool { return tiers[i].idx < tiers[j].idx })
	for j, tj := range tiers {
		for b := range tj.vers {
			for i := 0; i < j; i++ {
				ti := tiers[i]
				if ti.vers[b] {
					break
				}
				le := false
				for a := range ti.vers {
					if a < b {
						le = true
					}
				}
				if le {
					return true, ti.name + "-over-" + tj.name
				}
			}
		}
	}
	return false, ""
}

func describe(env *dbx.Env, src []NoKV.VerifKeySource) []string {
	var out []string
	for _, s := range src {
		for _, en := range s.Entries {
			what := fmt.Sprintf("%d bytes %q", en.ValueLen, head(en.Value))
			if en.Meta&kv.BitDelete != 0 {
				what = "tombstone"
			}
			if en.Err != "" {
				what = "unreadable pointer: " + en.Err
			}
			out = append(out, fmt.Sprintf("%s L%d fid=%d ver=%d: %s", env.Tag(s), s.Level, s.Fid, en.Version, what))
		}
	}
	return out
}

// overlappingLevelTables reports whether, on a level >= 1 that holds entries
// of the key, two main (non-ingest) tables have intersecting key ranges: the
// engine keeps such levels sorted and non-overlapping and looks at exactly one
// table per level, so any overlap makes entries unreachable.
func overlappingLevelTables(db *NoKV.DB, src []NoKV.VerifKeySource) (bool, string) {
	levels := map[int]bool{}
	for _, s := range src {
		if s.Kind == "level" || s.Kind == "ingest" {
			levels[s.Level] = true
		}
	}
	tables := db.VerifLSM().VerifLayout().Tables
	for i, a := range tables {
		if !levels[a.Level] || a.Level == 0 || a.Ingest || len(a.MinKey) < 8 || len(a.MaxKey) < 8 {
			continue
		}
		for j, b := range tables {
			if j <= i || b.Level != a.Level || b.Ingest || len(b.MinKey) < 8 || len(b.MaxKey) < 8 {
				continue
			}
			alo, ahi := a.MinKey[:len(a.MinKey)-8], a.MaxKey[:len(a.MaxKey)-8]
			blo, bhi := b.MinKey[:len(b.MinKey)-8], b.MaxKey[:len(b.MaxKey)-8]
			if bytes.Compare(alo, bhi) <= 0 && bytes.Compare(blo, ahi) <= 0 {
				return true, fmt.Sprintf("L%d: fid %d and fid %d", a.Level, a.Fid, b.Fid)
			}
		}
	}
	return false, ""
}

// layoutKey identifies the current set of memtables and tables.
func layoutKey(db *NoKV.DB) string {
	l := db.VerifLSM().VerifLayout()
	var sb strings.Builder
	fmt.Fprintf(&sb, "imm%d|", l.Immutables)
	for _, t := range l.Tables {
		fmt.Fprintf(&sb, "%d:%d:%v,", t.Level, t.Fid, t.Ingest)
	}
	return sb.String()
}

func vstr(v uint64) string {
	switch {
	case v == math.MaxUint64:
		return "max"
	case v == math.MaxUint64-1:
		return "max-1"
	case v >= 1<<32 && v < 1<<32+16:
		return fmt.Sprintf("2^32+%d", v-1<<32)
	}
	return strconv.FormatUint(v, 10)
}

func run(c *core.Case) {
	rng := c.Rng
	cfg := dbx.RandomConfig(rng)
	env, err := dbx.NewEnv(cfg, c.TempDir(), c.Count)
	if err != nil {
		c.Violation("C02|open-failed|fresh", err.Error(), cfg)
		return
	}
	defer env.Close()

	// ---- key space ---------------------------------------------------------
	nKeys := 3 + rng.Intn(5)
	keys := dbx.KeyPool(rng, nKeys)
	if cfg.Engine == "art" && rng.Intn(2) == 0 {
		// half of the ART cases avoid byte-prefix related user keys (the ART index
		// orders internal keys by raw bytes, which differs from internal-key order
		// for such pairs: property C07) so that ART also gets independent coverage.
		var kept [][]byte
		for _, k := range keys {
			if !dbx.HasPrefixSibling(k, kept) {
				kept = append(kept, k)
			}
		}
		keys = kept
	}
	var ks []*kstate
	for _, k := range keys {
		ks = append(ks, &kstate{cf: kv.CFDefault, key: k})
		if rng.Intn(3) == 0 {
			ks = append(ks, &kstate{cf: dbx.CFs[1+rng.Intn(2)], key: k})
		}
	}
	// one lock-column style key: CFLock, always written at MaxUint64.
	lockKey := &kstate{cf: kv.CFLock, key: []byte("lock-" + string(keys[0]))}
	hasLockTwin := false
	for _, k := range ks {
		if k.cf == kv.CFLock && bytes.Equal(k.key, lockKey.key) {
			hasLockTwin = true
		}
	}
	if !hasLockTwin {
		ks = append(ks, lockKey)
	}

	// ---- version set of the case --------------------------------------------
	pool := []uint64{1, 2, 3, 4, 5, 6, 1 << 32, math.MaxUint64}
	if rng.Intn(2) == 0 {
		pool = append(pool, math.MaxUint64-1, 1<<32+1, 7, 1000)
	}
	rng.Shuffle(len(pool), func(i, j int) { pool[i], pool[j] = pool[j], pool[i] })
	vers := append([]uint64(nil), pool[:4+rng.Intn(len(pool)-3)]...)
	probeSet := map[uint64]bool{0: true, math.MaxUint64: true}
	for _, v := range vers {
		probeSet[v] = true
		if v > 0 {
			probeSet[v-1] = true
		}
		if v < math.MaxUint64 {
			probeSet[v+1] = true
		}
	}
	var probes []uint64
	for v := range probeSet {
		probes = append(probes, v)
	}
	sort.Slice(probes, func(i, j int) bool { return probes[i] < probes[j] })

	thr := int(cfg.ValueThreshold)
	sizes := []int{10, 12, 20, thr - 1, thr, thr + 1, 4 << 10, 40 << 10}
	nOps := 30 + rng.Intn(30)
	if c.Thorough() {
		nOps = 40 + rng.Intn(80)
	}

	nontrivial := false
	tieTaint := map[string]string{} // key id -> tie kind (same version held by sources whose order is not recency order)
	gcShadowTaint := map[string]bool{}
	reported := map[string]bool{}
	report := func(sig, what string, detail any) {
		if reported[sig] {
			return
		}
		reported[sig] = true
		c.Violation(sig, what, detail)
	}

	siblings := func(k *kstate) bool {
		var same [][]byte
		for _, o := range ks {
			if o.cf == k.cf {
				same = append(same, o.key)
			}
		}
		return dbx.HasPrefixSibling(k.key, same)
	}

	// taintScan records, per key, layouts that the known same-version tie
	// findings of C01 apply to (the same version held by two ingest/level
	// sources, or by an L0 compaction output and another table), and layouts in
	// which a lower version sits in an earlier tier than a higher one.
	taintScan := func(beforeGC bool) {
		for _, k := range ks {
			src := env.DB.VerifKeySources(k.cf, k.key)
			if sh, pair := shadowed(src); sh {
				c.Distinct("shadow_layouts_seen", pair)
				if beforeGC {
					gcShadowTaint[k.id()] = true
				}
			}
			if !cfg.Controlled || tieTaint[k.id()] != "" {
				continue
			}
			perVer := map[uint64][]string{}
			for _, s := range src {
				cl := env.SourceClass(s)
				if cl != "l0f" && cl != "l0c" && cl != "deep" {
					continue
				}
				if s.Kind == "ingest" {
					cl = "ingest"
				}
				seen := map[uint64]int{}
				for _, en := range s.Entries {
					seen[en.Version]++
				}
				for v, n := range seen {
					perVer[v] = append(perVer[v], cl)
					if n > 1 {
						// duplicates of one version inside one table: a compaction
						// merged two tied copies, order inside is the merge order.
						perVer[v] = append(perVer[v], "dup")
					}
				}
			}
			for _, classes := range perVer {
				if len(classes) < 2 {
					continue
				}
				// The recorded finding concerns ties among tables of the ingest buffer
				// (and what ingest compactions make of them). One ingest table over
				// one table of the level's sorted run is resolved correctly (the
				// ingest buffer is searched first and wins ties), so it is not tainted.
				deep, l0c := 0, 0
				for _, cl := range classes {
					if cl == "ingest" || cl == "dup" {
						deep++
					}
					if cl == "l0c" {
						l0c++
					}
				}
				switch {
				case deep >= 2:
					tieTaint[k.id()] = "ingest-buffer-tie"
				case l0c >= 1:
					tieTaint[k.id()] = "l0-compaction-output-tie"
				}
			}
		}
	}

	// settle waits for background work to stop changing the layout (natural mode).
	settle := func() {
		env.DB.VerifLSM().VerifWaitFlush(30 * time.Second)
		stable, last := 0, dbx.LayoutShape(env.DB)
		for i := 0; i < 500 && stable < 10; i++ {
			time.Sleep(5 * time.Millisecond)
			if cur := dbx.LayoutShape(env.DB); cur == last {
				stable++
			} else {
				stable, last = 0, cur
			}
		}
	}

	type readRes struct {
		e   *kv.Entry
		err error
	}
	read := func(k *kstate, v uint64) readRes {
		e, err := env.DB.GetVersionedEntry(k.cf, k.key, v)
		return readRes{e, err}
	}
	gotString := func(r readRes) string {
		switch {
		case r.err != nil && errors.Is(r.err, utils.ErrKeyNotFound):
			return "not-found"
		case r.err != nil:
			return "error " + r.err.Error()
		case r.e.Meta&kv.BitDelete != 0:
			return fmt.Sprintf("tombstone (Version field %s)", vstr(r.e.Version))
		}
		return fmt.Sprintf("put of %d bytes %q (Version field %s)", len(r.e.Value), head(r.e.Value), vstr(r.e.Version))
	}
	lastTombstoneAt := func(k *kstate, ver uint64) int {
		for i := len(k.writes) - 1; i >= 0; i-- {
			if k.writes[i].ver == ver && k.writes[i].del {
				return i
			}
		}
		return -1
	}

	// judge decides, from the statement only, whether a read result is right:
	// "ok", "version-field" (the right entry, but its Version field is not the
	// version it was written at) or "wrong". A tombstone carries no identifying
	// value: it is the expected tombstone if its Version field says so; if the
	// Version field names another tombstone version of the model it is that
	// tombstone (wrong); otherwise its identity is undecidable and only the
	// Version field is faulted.
	judge := func(k *kstate, v uint64, r readRes) string {
		want := k.expected(v)
		if r.err != nil {
			if want < 0 && errors.Is(r.err, utils.ErrKeyNotFound) {
				return "ok"
			}
			return "wrong"
		}
		if want < 0 || r.e == nil {
			return "wrong"
		}
		w := k.writes[want]
		isDel := r.e.Meta&kv.BitDelete != 0
		if isDel != w.del {
			return "wrong"
		}
		if !w.del {
			if !bytes.Equal(r.e.Value, w.val) {
				return "wrong"
			}
			if r.e.Version != w.ver {
				return "version-field"
			}
			return "ok"
		}
		if r.e.Version == w.ver {
			return "ok"
		}
		if r.e.Version != v && lastTombstoneAt(k, r.e.Version) >= 0 {
			return "wrong"
		}
		return "version-field"
	}

	type verdict struct {
		sig, what    string
		detail       map[string]any
		attributable bool // one of the recognised shapes (recorded once per case)
		stop         bool // recognised, but the case cannot usefully continue (ART index defect)
	}

	// classify names a wrong read from what is observable: which model write
	// the returned entry is, which source (lookup order) holds it and which
	// holds the expected entry.
	classify := func(k *kstate, v uint64, r readRes, src []NoKV.VerifKeySource, after string) verdict {
		ss := env.Summary(src)
		want := k.expected(v)
		wantDesc := "not-found"
		if want >= 0 {
			wantDesc = descWrite(k.writes[want])
		}
		detail := map[string]any{"config": cfg, "after": after, "cf": k.cf.String(), "key": fmt.Sprintf("%q", k.key), "probe": vstr(v),
			"expected": wantDesc, "got": gotString(r), "sources_in_lookup_order": describe(env, src), "layout": dbx.LayoutShape(env.DB), "trace": env.Trace}
		var tables []string
		for _, t := range env.DB.VerifLSM().VerifLayout().Tables {
			minCF, minK, _ := kv.SplitInternalKey(t.MinKey)
			maxCF, maxK, _ := kv.SplitInternalKey(t.MaxKey)
			tables = append(tables, fmt.Sprintf("L%d ingest=%v shard=%d fid=%d [%s:%q .. %s:%q] maxver=%s", t.Level, t.Ingest, t.Shard, t.Fid, minCF, minK, maxCF, maxK, vstr(t.MaxVer)))
		}
		detail["tables"] = tables
		what := fmt.Sprintf("GetVersionedEntry(%s,%q,%s) after %s returned %s, expected %s", k.cf, k.key, vstr(v), after, gotString(r), wantDesc)
		if cfg.Engine == "art" && siblings(k) {
			return verdict{"C02|wrong-read|art-prefix-sibling", what, detail, true, true}
		}
		if ov, which := overlappingLevelTables(env.DB, src); ov {
			detail["overlapping_level_tables"] = which
			return verdict{"C02|wrong-read|level-tables-overlap", what, detail, true, false}
		}
		tie := tieTaint[k.id()]
		taint := ""
		switch {
		case tie != "":
			taint = "C02|older-write-wins-or-lost|tainted:" + tie
		case gcShadowTaint[k.id()]:
			taint = "C02|lost-or-read-error|tainted:gc-while-shadowed"
		}
		holderI := -1
		holderC, holderT, holderIdx := "none", "none", -1
		if want >= 0 {
			holderI = firstHolder(src, k.writes[want])
			if holderI >= 0 {
				holderC = env.SourceClass(src[holderI])
				holderIdx, holderT = tier(src, holderI)
			}
		}
		detail["expected_entry_held_by"] = holderC
		if r.err != nil && !errors.Is(r.err, utils.ErrKeyNotFound) {
			if taint != "" {
				return verdict{taint, what, detail, true, false}
			}
			return verdict{"C02|read-error|sources=" + ss, what, detail, false, false}
		}
		if r.err != nil { // not-found but an entry was expected
			if taint != "" && (tie != "" || holderI < 0) {
				return verdict{taint, what, detail, true, false}
			}
			return verdict{fmt.Sprintf("C02|lost|expected-held-by=%s", holderC), what, detail, false, false}
		}
		// an entry was returned: which write is it?
		gotDel := r.e.Meta&kv.BitDelete != 0
		gotW := -1
		if !gotDel && len(r.e.Value) > 0 {
			op := opOf(r.e.Value)
			for i, w := range k.writes {
				if w.op == op && !w.del && bytes.Equal(w.val, r.e.Value) {
					gotW = i
				}
			}
		}
		winnerI := -1
		if gotW >= 0 {
			winnerI = firstHolder(src, k.writes[gotW])
		} else if gotDel {
			// A tombstone carries no value. Its Version field is the stored version
			// when the entry was served from a table; a memtable hit echoes the
			// requested version instead (see the version-field rule), so for an
			// echo the memtables are looked at first.
			x := r.e.Version
			if x != v {
				gotW = lastTombstoneAt(k, x)
			} else if t := lastTombstoneAt(k, v); t >= 0 && firstHolder(src, k.writes[t]) >= 0 {
				// a stored tombstone at exactly the requested version exists: the lookup
				// compares versions across sources, so that is the entry an answer with
				// Version == v stands for (an older tombstone of a memtable would lose to it)
				gotW = t
			}
			if gotW < 0 {
				for i, s := range src {
					if s.Kind != "mem" && s.Kind != "imm" {
						continue
					}
					var bestV uint64
					found, isTomb := false, false
					for _, en := range s.Entries {
						if en.Version <= v && (!found || en.Version > bestV) {
							found, bestV, isTomb = true, en.Version, en.Meta&kv.BitDelete != 0
						}
					}
					if found && isTomb {
						winnerI, gotW = i, lastTombstoneAt(k, bestV)
					}
					if found {
						break
					}
				}
			}
			if gotW < 0 && x == v {
				gotW = lastTombstoneAt(k, v)
			}
			if gotW >= 0 && winnerI < 0 {
				winnerI = firstHolder(src, k.writes[gotW])
			}
			if gotW < 0 {
				// last resort: the first source (lookup order) that holds a
				// tombstone at a version <= v; its greatest such version.
				for i, s := range src {
					var bestV uint64
					found := false
					for _, en := range s.Entries {
						if en.Version <= v && en.Meta&kv.BitDelete != 0 && (!found || en.Version > bestV) {
							found, bestV = true, en.Version
						}
					}
					if found {
						winnerI, gotW = i, lastTombstoneAt(k, bestV)
						break
					}
				}
			}
		}
		winnerC, winnerT, winnerIdx := "none", "none", -1
		if winnerI >= 0 {
			winnerC = env.SourceClass(src[winnerI])
			winnerIdx, winnerT = tier(src, winnerI)
		}
		detail["returned_entry_held_by"] = winnerC
		if gotW >= 0 {
			detail["returned_entry_is"] = descWrite(k.writes[gotW])
		}
		switch {
		case gotW < 0:
			return verdict{fmt.Sprintf("C02|unknown-entry-returned|sources=%s", ss), what, detail, false, false}
		case k.writes[gotW].ver > v:
			return verdict{fmt.Sprintf("C02|version-above-requested|%s", winnerC), what, detail, false, false}
		case want < 0:
			return verdict{fmt.Sprintf("C02|phantom|%s", winnerC), what, detail, false, false}
		case k.writes[gotW].ver < k.writes[want].ver:
			arrival := "in-order"
			if k.writes[gotW].op > k.writes[want].op {
				arrival = "out-of-order"
			}
			detail["tiers"] = winnerT + "-over-" + holderT
			if winnerIdx >= 0 && holderIdx >= 0 && winnerIdx < holderIdx {
				c.Distinct("lower_version_wins_tier_pairs", winnerT+"-over-"+holderT+"/"+arrival)
				return verdict{"C02|lower-version-wins|earlier-tier-shadows-later-tier|arrival=" + arrival, what, detail, true, false}
			}
			if holderI < 0 && taint != "" {
				return verdict{taint, what, detail, true, false}
			}
			return verdict{fmt.Sprintf("C02|lower-version-wins|%s-beats-%s", winnerC, holderC), what, detail, false, false}
		default: // same version, an older write of it won
			if tie != "" {
				return verdict{taint, what, detail, true, false}
			}
			return verdict{fmt.Sprintf("C02|older-write-wins|same-version|%s-beats-%s", winnerC, holderC), what, detail, false, false}
		}
	}

	settledThisSweep := false
	// checkRead evaluates one probe; it returns false when the case must stop
	// (a violation whose shape is not one of the attributable ones). src0/lk0 is
	// the snapshot of the key's sources taken before its probes.
	checkRead := func(k *kstate, v uint64, after string, src0 []NoKV.VerifKeySource, lk0 string) bool {
		r := read(k, v)
		c.Count("reads_checked", 1)
		c.Count("evaluations", 1)
		want := k.expected(v)
		j := judge(k, v, r)
		if j == "ok" || j == "version-field" {
			if want >= 0 {
				c.Count("reads_returning_an_entry", 1)
				if k.writes[want].ver < v {
					c.Count("reads_answered_from_a_lower_version", 1)
				}
			} else {
				c.Count("reads_expecting_not_found", 1)
			}
		}
		if j == "ok" {
			return true
		}
		if j == "version-field" {
			ctx := "other"
			if r.e.Version == v {
				ctx = "requested-version-echoed"
			}
			if hi := firstHolder(src0, k.writes[want]); hi >= 0 {
				_, tn := tier(src0, hi)
				c.Distinct("version_field_wrong_when_expected_entry_first_held_by", tn)
			}
			if k.writes[want].del {
				c.Count("tombstone_reads_with_undecidable_identity", 1)
			}
			report("C02|version-field|"+ctx,
				fmt.Sprintf("GetVersionedEntry(%s,%q,%s) after %s returned %s; that is the expected entry (%s) except for its Version field", k.cf, k.key, vstr(v), after, gotString(r), descWrite(k.writes[want])),
				map[string]any{"config": cfg, "after": after, "cf": k.cf.String(), "key": fmt.Sprintf("%q", k.key), "probe": vstr(v), "sources_in_lookup_order": describe(env, src0), "trace": env.Trace})
			return true
		}
		// ---- wrong: which layout did the read see? ---------------------------
		src1 := env.DB.VerifKeySources(k.cf, k.key)
		changed := layoutKey(env.DB) != lk0
		if !cfg.Controlled && !settledThisSweep {
			settle()
			settledThisSweep = true
			changed = true
		}
		src := src1
		if changed {
			r2 := read(k, v)
			src2 := env.DB.VerifKeySources(k.cf, k.key)
			if j2 := judge(k, v, r2); j2 != "wrong" {
				// transient: the wrong answer belonged to an earlier layout (a flush
				// in flight, or background compaction in natural mode).
				for _, s := range [][]NoKV.VerifKeySource{src0, src1} {
					if vd := classify(k, v, r, s, after); vd.attributable {
						vd.detail["transient"] = "the same read was right once the layout had changed"
						report(vd.sig, vd.what, vd.detail)
						return !vd.stop
					}
				}
				ctx := "controlled-flush-in-flight"
				if !cfg.Controlled {
					ctx = "natural-background-compaction"
				}
				c.Violation("C02|transient-wrong-read|"+ctx,
					fmt.Sprintf("GetVersionedEntry(%s,%q,%s) after %s returned %s; the same read after the layout settled was right", k.cf, k.key, vstr(v), after, gotString(r)),
					map[string]any{"config": cfg, "after": after, "key": fmt.Sprintf("%q", k.key), "probe": vstr(v), "first_read": gotString(r), "sources_before": describe(env, src0), "sources_after": describe(env, src2), "trace": env.Trace})
				return false
			}
			r, src = r2, src2
		}
		vd := classify(k, v, r, src, after)
		if !vd.attributable && changed {
			if vd0 := classify(k, v, r, src0, after); vd0.attributable {
				vd = vd0
			}
		}
		if vd.attributable {
			report(vd.sig, vd.what, vd.detail)
			return !vd.stop
		}
		c.Violation(vd.sig, vd.what, vd.detail)
		return false
	}

	sweep := func(after string) bool {
		settledThisSweep = false
		taintScan(false)
		for _, k := range ks {
			lk0 := layoutKey(env.DB)
			src := env.DB.VerifKeySources(k.cf, k.key)
			nver := map[uint64]int{}
			for _, s := range src {
				mine := map[uint64]bool{}
				for _, en := range s.Entries {
					mine[en.Version] = true
				}
				for v := range mine {
					nver[v]++
				}
			}
			if len(src) >= 2 && len(nver) >= 2 {
				nontrivial = true
				c.Distinct("source_combinations", env.Summary(src))
				c.Count("sweeps_of_keys_with_2+_versions_in_2+_sources", 1)
			}
			for _, n := range nver {
				if n > 1 {
					c.Count("sweeps_of_keys_with_one_version_in_2+_sources", 1)
					break
				}
			}
			if sh, _ := shadowed(src); sh {
				c.Count("sweeps_of_keys_with_a_lower_version_in_an_earlier_tier", 1)
			}
			if tieTaint[k.id()] != "" {
				c.Count("sweeps_of_tie_tainted_keys", 1)
			}
			if ov, _ := overlappingLevelTables(env.DB, src); ov {
				c.Count("sweeps_of_keys_covered_by_two_tables_of_one_level", 1)
			}
			for _, v := range probes {
				if !checkRead(k, v, after, src, lk0) {
					return false
				}
			}
		}
		return true
	}

	write := func(i int, k *kstate, ver uint64, del bool, sz int) bool {
		var werr error
		rec := dbx.OpRec{Op: "vset", CF: k.cf.String(), Key: fmt.Sprintf("%q", k.key), Ver: ver, Size: sz}
		var val []byte
		if del {
			rec.Op = "vdel"
			rec.Size = 0
			werr = env.DB.DeleteVersionedEntry(k.cf, k.key, ver)
		} else {
			val = dbx.Value(fmt.Sprintf("%d.%d|", c.Idx, i), sz)
			werr = env.DB.SetVersionedEntry(k.cf, k.key, ver, val, 0)
		}
		if werr != nil {
			rec.Result = werr.Error()
			env.Trace = append(env.Trace, rec)
			if !errors.Is(werr, utils.ErrTxnTooBig) && !errors.Is(werr, utils.ErrHotKeyWriteThrottle) {
				c.Violation("C02|write-error", fmt.Sprintf("versioned write failed: %v", werr), map[string]any{"config": cfg, "trace": env.Trace})
				return false
			}
			return true
		}
		env.Trace = append(env.Trace, rec)
		if k.hasVersion(ver) {
			c.Count("same_version_rewrites", 1)
		}
		for _, w := range k.writes {
			if w.ver > ver {
				c.Count("writes_below_an_existing_version", 1)
				break
			}
		}
		k.writes = append(k.writes, wr{op: i, ver: ver, val: val, del: del})
		if del {
			c.Count("deletes", 1)
		} else {
			c.Count("writes", 1)
		}
		return true
	}
	// natural mode writes every (key, version) at most once: background
	// compaction is not observable step by step, so the same-version tie
	// findings could not be told apart from anything else.
	pickVer := func(k *kstate) (uint64, bool) {
		if k == lockKey {
			if !cfg.Controlled && k.hasVersion(math.MaxUint64) {
				return 0, false
			}
			return math.MaxUint64, true
		}
		if cfg.Controlled && len(k.writes) > 0 && rng.Intn(100) < 30 {
			return k.writes[rng.Intn(len(k.writes))].ver, true
		}
		for try := 0; try < 8; try++ {
			v := vers[rng.Intn(len(vers))]
			if cfg.Controlled || !k.hasVersion(v) {
				return v, true
			}
		}
		return 0, false
	}

	for i := 0; i < nOps; i++ {
		r := rng.Intn(100)
		k := ks[rng.Intn(len(ks))]
		switch {
		case r < 50:
			ver, ok := pickVer(k)
			if !ok {
				continue
			}
			if !write(i, k, ver, false, sizes[rng.Intn(len(sizes))]) {
				return
			}
		case r < 63:
			ver, ok := pickVer(k)
			if !ok {
				continue
			}
			if !write(i, k, ver, true, 0) {
				return
			}
		case r < 72:
			// prewrite style: delete-then-put at one version (two ops, one index each)
			if !cfg.Controlled {
				continue
			}
			ver, ok := pickVer(k)
			if !ok {
				continue
			}
			if !write(i, k, ver, true, 0) {
				return
			}
			if rng.Intn(3) == 0 {
				act := []string{"rotate", "rotate-wait"}[rng.Intn(2)]
				env.Action(act)
			}
			i++
			if !write(i, k, ver, false, sizes[rng.Intn(len(sizes))]) {
				return
			}
			c.Count("delete_then_put_pairs", 1)
		default:
			action := dbx.Actions[rng.Intn(len(dbx.Actions))]
			if !cfg.Controlled && action != "rotate-wait" && action != "reopen" {
				// natural mode: background compaction only (as C01); every new
				// memtable costs a 64 MiB arena, so only half of the slots rotate.
				action = "rotate"
				if rng.Intn(2) == 0 {
					action = "none"
				}
			}
			if action == "none" {
				if !sweep(fmt.Sprintf("op %d (no action)", i)) {
					return
				}
				continue
			}
			if strings.HasPrefix(action, "compact:") {
				env.DB.VerifLSM().VerifWaitFlush(30 * time.Second)
				env.NoteLayout("flush")
			}
			taintScan(action == "gc" || action == "gc-public")
			res := env.Action(action)
			if res.Err != nil {
				if env.DB == nil {
					c.Violation("C02|reopen-failed", res.Err.Error(), map[string]any{"config": cfg, "trace": env.Trace})
					return
				}
				c.Count("maintenance_errors."+action, 1)
				c.Distinct("maintenance_error_texts", action+": "+res.Err.Error())
			}
			c.Distinct("layout_shapes", dbx.LayoutShape(env.DB))
			if !sweep(fmt.Sprintf("op %d (%s)", i, action)) {
				return
			}
		}
	}
	env.NoteLayout("flush")
	if !sweep("end") {
		return
	}
	for _, t := range env.DB.VerifLSM().VerifLayout().Tables {
		c.Max("deepest_level", t.Level)
	}
	c.Count("cases_engine_"+cfg.Engine, 1)
	if cfg.Controlled {
		c.Count("cases_controlled", 1)
	} else {
		c.Count("cases_natural", 1)
	}
	if nontrivial {
		var sb strings.Builder
		for _, t := range env.Trace {
			sb.WriteString(t.Op + t.Key + strconv.FormatUint(t.Ver, 10) + ";")
		}
		c.Nontrivial(sb.String())
	}
	if c.Idx < 2 {
		c.Sample(map[string]any{"config": cfg, "versions": vers, "probes": len(probes), "ops": env.Trace})
	}
}

func init() {
	core.Register(&core.Check{
		ID:    "C02",
		Level: "exploration",
		Rule: "case = seeded sequence of 30-120 SetVersionedEntry/DeleteVersionedEntry ops on 3-8 keys (prefix-related, 0x00/0xFF, long; 3 CFs; one lock-column key always written at MaxUint64) over a drawn version set from " +
			"{1..7,1000,2^32,2^32+1,MaxUint64-1,MaxUint64}; versions are drawn at random (out-of-order arrival), 30% of the writes re-use a version already written for the key, delete-then-put pairs at one version (prewrite style), " +
			"value sizes {10,12,20,thr-1,thr,thr+1,4K,40K}; interleaved with maintenance actions {rotate, rotate+flush, compact l0->base, l0->l0, ingest-drain, ingest-merge, level, vlog rewrite of every sealed segment, RunValueLogGC, close/reopen} " +
			"under a drawn option set (skiplist/ART, threshold 32/1024, 1/3 vlog buckets, paused or natural background compaction; natural cases write each (key,version) once); after every action every key is read with GetVersionedEntry at every probe " +
			"(each version of the set, +-1, 0, MaxUint64) and compared (value, delete bit; Version field as a separate rule) with a version-map model; non-trivial iff at some sweep a key had >=2 versions in >=2 sources (VerifKeySources); distinct = distinct op traces",
		Assumptions: []string{
			"version 0 is never written (the engine uses 0 as 'no version'); it is only probed",
			"ErrTxnTooBig / ErrHotKeyWriteThrottle writes are failed writes",
			"an error returned by a maintenance call is recorded but only reads decide",
			"a returned tombstone is compared by its delete bit only (tombstones carry no identifying value)",
		},
		CrashIsViolation: true,
		Cases: func(tier string) int {
			if tier == "thorough" {
				return 1600
			}
			return 96
		},
		Run: run,
		Finish: func(a *core.Agg) {
			a.FloorNontrivial(40)
			a.Floor("action.rotate-wait", 50)
			a.Floor("action.reopen", 40)
			a.Floor("action.compact:l0", 15)
			a.Floor("action.compact:ingest-drain", 4)
			a.Floor("action.compact:ingest-merge", 4)
			a.Floor("action.compact:l0-to-l0", 1)
			a.Floor("action.gc-public", 8)
			// a forced rewrite of a sealed segment either reports success or (on
			// the unchanged tree, often) "Key cannot be empty" after having
			// re-inserted the live entries; both exercised the GC path.
			a.Counts["vlog_segment_rewrites_run"] = a.Counts["action.gc"] + a.Counts["maintenance_errors.gc"]
			a.Floor("vlog_segment_rewrites_run", 5)
			a.Floor("same_version_rewrites", 200)
			a.Floor("writes_below_an_existing_version", 200)
			a.Floor("reads_answered_from_a_lower_version", 5000)
			a.Floor("sweeps_of_keys_with_2+_versions_in_2+_sources", 300)
		},
	})
}
