// Package c22: replicas apply identical command sequences and answer each
// proposal once.
//
// Engine: E-cluster (harness/internal/cluster) — three real raftstore stores
// over real DBs, hostile in-memory transport, harness-driven ticks, six client
// goroutines proposing uniquely-marked PREWRITE+COMMIT commands (and reading)
// at whichever store they believe leads, while a seeded fault script
// partitions/isolates leaders, transfers leadership, restarts stores and
// perturbs the network.
//
// Oracle (from the statement):
//
//	R1  for a region, the applied-marker sequences of all replicas (one per
//	    store incarnation: a restarted store replays its log from the start)
//	    are pairwise prefix-comparable;
//	R2  once every replica is observed caught up (raft status), the sequences
//	    of the live incarnations are equal;
//	R3  a marker appears at most once in a sequence;
//	R4  every proposal that was answered (ProposeCommand returned a response
//	    without region error) was applied on the answering store, and the
//	    response pointer the client holds is the pointer that the application
//	    of that very marker produced there.
package c22

import (
	"fmt"
	"sort"
	"time"

	"verif/harness/internal/cluster"
	"verif/harness/internal/core"
)

type finding struct {
	sig, what string
	detail    any
}

func storeOfPeer(peerID uint64) int { return int(peerID%100) - 1 }

// Judge applies R1..R4 to a trace.
func Judge(tr *cluster.Trace, c *core.Case) []finding {
	count := c.Count
	var out []finding
	byRegion := map[uint64][]cluster.SeqKey{}
	for k := range tr.Seqs {
		byRegion[k.Region] = append(byRegion[k.Region], k)
	}
	markers := func(k cluster.SeqKey) []string {
		var m []string
		for _, r := range tr.Seqs[k] {
			m = append(m, r.Marker)
		}
		return m
	}
	for region, keys := range byRegion {
		sort.Slice(keys, func(i, j int) bool {
			if keys[i].Store != keys[j].Store {
				return keys[i].Store < keys[j].Store
			}
			return keys[i].Incarnation < keys[j].Incarnation
		})
		// R3
		for _, k := range keys {
			seen := map[string]int{}
			for i, m := range markers(k) {
				count("evaluations", 1)
				if p, dup := seen[m]; dup {
					all := map[string]any{}
					everywhere := true
					for _, k2 := range keys {
						all[k2.String()] = markers(k2)
						n := 0
						for _, m2 := range markers(k2) {
							if m2 == m {
								n++
							}
						}
						if n < 2 && len(tr.Seqs[k2]) >= len(tr.Seqs[k]) {
							everywhere = false
						}
					}
					var ops []cluster.Op
					for _, op := range tr.Ops {
						if op.Marker == m {
							ops = append(ops, op)
						}
					}
					ctx := "one-replica-only"
					if everywhere {
						ctx = "two-log-entries-on-every-replica"
					}
					recs := []*cluster.AppliedRec{tr.Seqs[k][p], tr.Seqs[k][i]}
					out = append(out, finding{"C22|applied-twice|" + ctx,
						fmt.Sprintf("marker %s applied at positions %d and %d of %s", m, p, i, k),
						map[string]any{"sequences": all, "proposal": ops, "applications": recs, "plan": tr.Plan, "faults": tr.Faults, "leaders": tr.Leaders, "net": tr.Net}})
					break
				}
				seen[m] = i
			}
		}
		// R1
		longest := keys[0]
		for _, k := range keys {
			if len(tr.Seqs[k]) > len(tr.Seqs[longest]) {
				longest = k
			}
		}
		lm := markers(longest)
		for _, k := range keys {
			count("evaluations", 1)
			count("sequence_pairs_compared", 1)
			km := markers(k)
			for i := range km {
				if km[i] != lm[i] {
					ctx := "across-stores"
					if k.Store == longest.Store {
						ctx = "replay-of-same-store"
					}
					out = append(out, finding{"C22|divergent-apply-order|" + ctx,
						fmt.Sprintf("region %d: %s and %s differ at position %d (%s vs %s)", region, k, longest, i, km[i], lm[i]),
						map[string]any{k.String(): km, longest.String(): lm}})
					break
				}
			}
		}
		// R2
		if tr.CaughtUp {
			live := map[int]cluster.SeqKey{}
			for _, k := range keys {
				if cur, ok := live[k.Store]; !ok || k.Incarnation > cur.Incarnation {
					live[k.Store] = k
				}
			}
			for _, k := range live {
				count("evaluations", 1)
				if len(tr.Seqs[k]) != len(lm) {
					out = append(out, finding{"C22|replicas-differ-after-catch-up|shorter-sequence",
						fmt.Sprintf("region %d: %s applied %d commands, %s applied %d, although every replica reported applied == commit", region, k, len(tr.Seqs[k]), longest, len(lm)),
						map[string]any{k.String(): markers(k), longest.String(): lm}})
				}
			}
		}
	}
	// R4
	for i := range tr.Ops {
		op := &tr.Ops[i]
		if op.Kind != "write" {
			continue
		}
		count("proposals."+op.Outcome, 1)
		if op.Outcome != "ok" && op.Outcome != "failed" {
			continue
		}
		count("evaluations", 1)
		count("answered_proposals_checked", 1)
		rec := tr.Cluster.ByResponse(op.Resp)
		if rec != nil && rec.Marker == op.Marker && rec.Store == op.Store && rec.Incarnation == op.Inc {
			continue
		}
		own := []map[string]any{}
		appliedAnywhere := false
		for k, seq := range tr.Seqs {
			for _, r := range seq {
				if r.Marker == op.Marker {
					appliedAnywhere = true
					if k.Store == op.Store {
						own = append(own, map[string]any{"seq": k.String(), "pos": r.Pos, "clock": r.Clock, "request_id": r.RequestID})
					}
				}
			}
		}
		if rec == nil {
			out = append(out, finding{"C22|response-of-unknown-origin", fmt.Sprintf("proposal %s on store %d got a response no recorded application produced", op.Marker, op.Store), op})
			continue
		}
		regionCtx := "same-region"
		if rec.Region != op.Region {
			regionCtx = "other-region"
		}
		propCtx := "proposed-on-other-store"
		if storeOfPeer(rec.PeerID) == op.Store {
			propCtx = "proposed-on-same-store"
		}
		// One canonical signature per cause: the answer was matched to the
		// proposal by request id (the ids are equal) or not.
		idCtx := "request-id-collision"
		if rec.RequestID != op.RequestID {
			idCtx = "request-id-differs"
		}
		c.Distinct("foreign_response_contexts", idCtx+","+regionCtx+","+propCtx)
		c.Count("foreign_responses", 1)
		out = append(out, finding{"C22|foreign-response|" + idCtx,
			fmt.Sprintf("proposal %s (region %d, request id %d) on store %d was answered with the response produced by applying %s (region %d, request id %d, proposed by peer %d) [%s, %s]",
				op.Marker, op.Region, op.RequestID, op.Store, rec.Marker, rec.Region, rec.RequestID, rec.PeerID, regionCtx, propCtx),
			map[string]any{"proposal": op, "response_came_from": rec, "own_command_applied_anywhere": appliedAnywhere, "own_command_applications_on_that_store": own,
				"plan": tr.Plan, "faults": tr.Faults, "leaders": tr.Leaders}})
	}
	return out
}

// collisionOpportunities counts applications on store S of a command that
// carries the same request id as a different harness proposal that was in
// flight on S at that moment (the precondition of the suspected defect).
func collisionOpportunities(tr *cluster.Trace) (sameID, inFlight int) {
	type k struct {
		store, inc int
		id         uint64
	}
	props := map[k][]*cluster.Op{}
	for i := range tr.Ops {
		op := &tr.Ops[i]
		if op.Kind == "write" && op.RequestID != 0 {
			props[k{op.Store, op.Inc, op.RequestID}] = append(props[k{op.Store, op.Inc, op.RequestID}], op)
		}
	}
	for sk, seq := range tr.Seqs {
		for _, r := range seq {
			for _, op := range props[k{sk.Store, sk.Incarnation, r.RequestID}] {
				if op.Marker == r.Marker {
					continue
				}
				sameID++
				if op.Call < r.Clock && r.Clock < op.Ret {
					inFlight++
				}
			}
		}
	}
	return
}

func run(c *core.Case) {
	plan := cluster.GenPlan(c.Rng, c.Thorough(), cluster.FlavorOf(c.Idx))
	tr := cluster.Run(plan, c.TempDir(), c.Rng, 20*time.Second)
	if tr.Cluster != nil {
		defer tr.Cluster.Close()
	}
	if tr.StartErr != "" {
		c.Inconclusive("cluster did not start: " + tr.StartErr)
		return
	}
	cluster.Observe(c, tr)
	if !tr.CaughtUp {
		c.Count("runs_not_caught_up", 1)
	}
	fs := Judge(tr, c)
	seen := map[string]bool{}
	for _, f := range fs {
		if seen[f.sig] {
			c.Count("violations_suppressed_same_signature", 1)
			continue
		}
		seen[f.sig] = true
		c.Violation(f.sig, f.what, f.detail)
	}
	sameID, inFlight := collisionOpportunities(tr)
	c.Count("applied_foreign_command_with_id_of_local_proposal", sameID)
	c.Count("...of_which_while_local_proposal_in_flight", inFlight)
	answeredStores := map[int]bool{}
	for _, op := range tr.Ops {
		if op.Kind == "write" && (op.Outcome == "ok" || op.Outcome == "failed") {
			answeredStores[op.Store] = true
		}
	}
	changes := 0
	for _, ls := range tr.Leaders {
		changes += len(ls) - 1
	}
	if len(answeredStores) >= 2 && changes >= 1 {
		c.Nontrivial(tr.Fingerprint())
		c.Count("runs_with_proposals_answered_by_2plus_leaders", 1)
	}
	if c.Idx < 2 {
		c.Sample(map[string]any{"plan": tr.Plan, "faults": tr.Faults, "leaders": tr.Leaders, "net": tr.Net, "ops": len(tr.Ops), "caught_up": tr.CaughtUp})
	}
}

func init() {
	core.Register(&core.Check{
		ID:    "C22",
		Level: "exploration",
		Rule: "case = one seeded run of a 3-store in-process cluster (1-2 regions, real raftstore Store + real DB + WAL-backed raft log per store, harness transport and ticks): 6 clients x 22-60 calls " +
			"(uniquely-marked PREWRITE+COMMIT proposals and ReadIndex reads, addressed to the believed leader or a random store) under a seeded fault script " +
			"(partition/isolate leader, one-way cut, heal, leader transfer, store restart, drop/duplicate/delay/reorder probabilities; first fault after 2-20 calls, then every 6-32 calls); " +
			"the CommandApplier recorder gives the applied marker sequence per (store, incarnation, region) and the response pointer of every application; oracle R1 prefix-comparable sequences, " +
			"R2 equal after observed catch-up, R3 no marker twice in a sequence, R4 every answered proposal holds the response pointer its own application produced; " +
			"non-trivial = proposals were answered by >= 2 different stores and >= 1 leader change was observed; distinct = distinct (leader sequence, executed fault list)",
		Assumptions: []string{
			"a restarted store replays its raft log from the first retained entry (raft applied index is not persisted); the replay is a new sequence that must again be a prefix-comparable copy, it is not counted as a second application",
			"restart = orderly process exit (in-flight calls drain or time out, DB closed); kill -9 style crashes of the raft log are C21's subject",
			"log compaction/snapshots are not reached (retain window 4096 entries > run length)",
		},
		Race:        true,
		CaseTimeout: 8 * time.Minute,
		Cases: func(tier string) int {
			if tier == "thorough" {
				return 240
			}
			return 32
		},
		Run: run,
		Finish: func(a *core.Agg) {
			a.FloorNontrivial(6)
			a.Floor("answered_proposals_checked", 500)
			a.Floor("leader_changes_observed", 10)
			a.Floor("fault.restart", 3)
			a.Floor("fault.partition-leader", 5)
			a.Floor("fault.transfer-leader", 5)
		},
	})
}
