// Package c19: locks live exactly from prewrite until commit or rollback
// (Percolator lock column at the fixed max version, across flushes and
// compactions; TTL expiry and min-commit-ts rules).
//
// Engine: harness/internal/perco (shared with C17, C18). This check reports the
// C19 rule set.
package c19

import (
	"verif/harness/internal/core"
	"verif/harness/internal/perco"
)

func init() {
	core.Register(&core.Check{
		ID:    "C19",
		Level: "exploration",
		Rule: perco.RuleCommon + " C19 oracle: after every request and every maintenance action Reader.GetLock of every key equals the model's lock (owner, primary, kind, ttl, min_commit_ts): present from an acknowledged PREWRITE until the " +
			"txn commits or is rolled back on that key, never afterwards, never replaced by another txn's PREWRITE; CHECK_TXN_STATUS action TTLExpireRollback only if current_ts >= lock.ts + ttl (unbounded arithmetic); a commit (COMMIT or RESOLVE_LOCK) at a version " +
			"below the lock's min_commit_ts (prewrite value or pushed by CHECK_TXN_STATUS caller_start_ts) never takes effect. Wrong lock states on keys whose lock column sits in two tables of the ingest buffer / compaction outputs are classified by the dbx taint helpers " +
			"(known same-version tie findings). Non-trivial case = a key with >=2 lock transitions had its lock column in >=2 storage sources at a sweep (VerifKeySources); distinct = distinct request-kind traces",
		Assumptions:      perco.Assumptions,
		CrashIsViolation: true,
		Cases:            perco.Cases,
		Run:              func(c *core.Case) { perco.RunCase(c, "C19") },
		Finish: func(a *core.Agg) {
			a.FloorNontrivial(60)
			a.Floor("lock_checks_multi_source", 2000)
			a.Floor("lock_checks_lock_expected", 2000)
			a.Floor("ttl_expiry_rollbacks_justified", 15)
			a.Floor("unexpired_lock_left_alone", 15)
			a.Floor("commits_refused_below_min_commit_ts", 8)
			a.Floor("min_commit_ts_pushes", 8)
			perco.ActionFloors(a)
		},
	})
}
