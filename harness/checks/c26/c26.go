// Package c26: PD routes every key to the unique region containing it.
//
// Monitor: the real pd/server.Service over pd/core.Cluster persisted through
// pd/storage.LocalStore, driven with seeded sequences of region heartbeats
// (ranges over a small key alphabet including unbounded ends, epochs moving in
// both directions), removals, route lookups of every boundary key and its
// neighbours, and restarts (close the store, reopen it, rebuild the cluster
// from the loaded snapshot the way `nokv pd` does). A region-list reference
// model (package ivl for range arithmetic) decides: a heartbeat may be accepted
// only if it is not epoch-stale and overlaps no other known region, and must be
// accepted when it is neither; a lookup returns exactly the model's unique
// containing region or nothing; the catalog after a restart equals the model.
// The thorough tier additionally drives the real `nokv pd` binary over gRPC with
// SIGKILL/SIGTERM restarts.
package c26

import (
	"bufio"
	"bytes"
	"context"
	"fmt"
	"math/rand"
	"os"
	"os/exec"
	"path/filepath"
	"sort"
	"strings"
	"syscall"
	"time"

	"github.com/feichai0017/NoKV/manifest"
	"github.com/feichai0017/NoKV/pb"
	"github.com/feichai0017/NoKV/pd/core"
	pdserver "github.com/feichai0017/NoKV/pd/server"
	pdstorage "github.com/feichai0017/NoKV/pd/storage"
	"google.golang.org/grpc"
	"google.golang.org/grpc/credentials/insecure"
	"google.golang.org/grpc/status"
	vcore "verif/harness/internal/core"
	"verif/harness/internal/ivl"
)

var alphabet = []string{"", "a", "b", "b\x00", "c", "m", "m\x00", "z", "\xff"}

// pdAPI is the surface the sequences are driven through.
type pdAPI interface {
	Heartbeat(m manifest.RegionMeta) (accepted bool, code string)
	Remove(id uint64) (removed bool, err error)
	Lookup(key []byte) (manifest.RegionMeta, bool, error)
	// Catalog lists the regions PD knows (nil, false when not observable).
	Catalog() (map[uint64]manifest.RegionMeta, bool)
	// Restart stops PD and brings it back from its persisted state.
	Restart(hard bool) error
	Close()
}

func toPB(m manifest.RegionMeta) *pb.RegionMeta {
	out := &pb.RegionMeta{Id: m.ID, StartKey: m.StartKey, EndKey: m.EndKey, EpochVersion: m.Epoch.Version, EpochConfVersion: m.Epoch.ConfVersion}
	for _, p := range m.Peers {
		out.Peers = append(out.Peers, &pb.RegionPeer{StoreId: p.StoreID, PeerId: p.PeerID})
	}
	return out
}

func fromPB(m *pb.RegionMeta) manifest.RegionMeta {
	out := manifest.RegionMeta{ID: m.GetId(), StartKey: m.GetStartKey(), EndKey: m.GetEndKey(), Epoch: manifest.RegionEpoch{Version: m.GetEpochVersion(), ConfVersion: m.GetEpochConfVersion()}}
	for _, p := range m.GetPeers() {
		out.Peers = append(out.Peers, manifest.PeerMeta{StoreID: p.GetStoreId(), PeerID: p.GetPeerId()})
	}
	return out
}

// ---- in-process PD: Service + Cluster + LocalStore -------------------------

type inproc struct {
	dir     string
	store   *pdstorage.LocalStore
	cluster *core.Cluster
	svc     *pdserver.Service
}

func (p *inproc) boot() error {
	st, err := pdstorage.OpenLocalStore(p.dir, nil)
	if err != nil {
		return err
	}
	snap, err := st.Load()
	if err != nil {
		_ = st.Close()
		return err
	}
	// rebuild exactly as cmd/nokv/pd.go restorePDRegions does: ascending ids,
	// replayed through UpsertRegionHeartbeat, first error aborts the start
	cl := core.NewCluster()
	var ids []uint64
	for id := range snap.Regions {
		if id != 0 {
			ids = append(ids, id)
		}
	}
	sort.Slice(ids, func(i, j int) bool { return ids[i] < ids[j] })
	for _, id := range ids {
		m := snap.Regions[id]
		if m.ID == 0 {
			continue
		}
		if err := cl.UpsertRegionHeartbeat(m); err != nil {
			_ = st.Close()
			return fmt.Errorf("restore region %d: %w", id, err)
		}
	}
	p.store, p.cluster = st, cl
	p.svc = pdserver.NewService(cl, nil, nil)
	p.svc.SetStorage(st)
	return nil
}

func (p *inproc) Heartbeat(m manifest.RegionMeta) (bool, string) {
	resp, err := p.svc.RegionHeartbeat(context.Background(), &pb.RegionHeartbeatRequest{Region: toPB(m)})
	if err != nil {
		return false, status.Code(err).String()
	}
	return resp.GetAccepted(), "OK"
}

func (p *inproc) Remove(id uint64) (bool, error) {
	resp, err := p.svc.RemoveRegion(context.Background(), &pb.RemoveRegionRequest{RegionId: id})
	if err != nil {
		return false, err
	}
	return resp.GetRemoved(), nil
}

func (p *inproc) Lookup(key []byte) (manifest.RegionMeta, bool, error) {
	resp, err := p.svc.GetRegionByKey(context.Background(), &pb.GetRegionByKeyRequest{Key: key})
	if err != nil {
		return manifest.RegionMeta{}, false, err
	}
	if resp.GetNotFound() || resp.GetRegion() == nil {
		return manifest.RegionMeta{}, false, nil
	}
	return fromPB(resp.GetRegion()), true, nil
}

func (p *inproc) Catalog() (map[uint64]manifest.RegionMeta, bool) {
	out := map[uint64]manifest.RegionMeta{}
	for _, ri := range p.cluster.RegionSnapshot() {
		out[ri.Meta.ID] = ri.Meta
	}
	return out, true
}

func (p *inproc) Restart(bool) error {
	if p.store != nil {
		_ = p.store.Close()
		p.store = nil
	}
	return p.boot()
}

func (p *inproc) Close() {
	if p.store != nil {
		_ = p.store.Close()
		p.store = nil
	}
}

// ---- the real binary: `nokv pd` over gRPC -----------------------------------

type binpd struct {
	dir  string
	bin  string
	cmd  *exec.Cmd
	errb *bytes.Buffer
	conn *grpc.ClientConn
	cli  pb.PDClient
}

func (p *binpd) boot() error {
	cmd := exec.Command(p.bin, "pd", "-addr", "127.0.0.1:0", "-workdir", p.dir)
	out, err := cmd.StdoutPipe()
	if err != nil {
		return err
	}
	p.errb = &bytes.Buffer{}
	cmd.Stderr = p.errb
	if err := cmd.Start(); err != nil {
		return err
	}
	p.cmd = cmd
	addrCh := make(chan string, 1)
	go func() {
		sc := bufio.NewScanner(out)
		sent := false
		for sc.Scan() {
			line := sc.Text()
			if i := strings.Index(line, "listening on "); i >= 0 && !sent {
				addrCh <- strings.TrimSpace(line[i+len("listening on "):])
				sent = true
			}
		}
		if !sent {
			addrCh <- ""
		}
	}()
	var addr string
	select {
	case addr = <-addrCh:
	case <-time.After(120 * time.Second):
	}
	if addr == "" {
		p.kill(true)
		return fmt.Errorf("nokv pd did not report a listen address; stderr: %s", strings.TrimSpace(p.errb.String()))
	}
	conn, err := grpc.NewClient(addr, grpc.WithTransportCredentials(insecure.NewCredentials()))
	if err != nil {
		p.kill(true)
		return err
	}
	p.conn, p.cli = conn, pb.NewPDClient(conn)
	return nil
}

func (p *binpd) kill(hard bool) {
	if p.conn != nil {
		_ = p.conn.Close()
		p.conn, p.cli = nil, nil
	}
	if p.cmd != nil && p.cmd.Process != nil {
		if hard {
			_ = p.cmd.Process.Signal(syscall.SIGKILL)
		} else {
			_ = p.cmd.Process.Signal(syscall.SIGTERM)
		}
		done := make(chan struct{})
		go func() { _, _ = p.cmd.Process.Wait(); close(done) }()
		select {
		case <-done:
		case <-time.After(60 * time.Second):
			_ = p.cmd.Process.Signal(syscall.SIGKILL)
			<-done
		}
		p.cmd = nil
	}
}

func ctx() (context.Context, context.CancelFunc) {
	return context.WithTimeout(context.Background(), 120*time.Second)
}

func (p *binpd) Heartbeat(m manifest.RegionMeta) (bool, string) {
	c, cancel := ctx()
	defer cancel()
	resp, err := p.cli.RegionHeartbeat(c, &pb.RegionHeartbeatRequest{Region: toPB(m)})
	if err != nil {
		return false, status.Code(err).String()
	}
	return resp.GetAccepted(), "OK"
}

func (p *binpd) Remove(id uint64) (bool, error) {
	c, cancel := ctx()
	defer cancel()
	resp, err := p.cli.RemoveRegion(c, &pb.RemoveRegionRequest{RegionId: id})
	if err != nil {
		return false, err
	}
	return resp.GetRemoved(), nil
}

func (p *binpd) Lookup(key []byte) (manifest.RegionMeta, bool, error) {
	c, cancel := ctx()
	defer cancel()
	resp, err := p.cli.GetRegionByKey(c, &pb.GetRegionByKeyRequest{Key: key})
	if err != nil {
		return manifest.RegionMeta{}, false, err
	}
	if resp.GetNotFound() || resp.GetRegion() == nil {
		return manifest.RegionMeta{}, false, nil
	}
	return fromPB(resp.GetRegion()), true, nil
}

func (p *binpd) Catalog() (map[uint64]manifest.RegionMeta, bool) { return nil, false }

func (p *binpd) Restart(hard bool) error {
	p.kill(hard)
	return p.boot()
}

func (p *binpd) Close() { p.kill(true) }

// ---- reference model --------------------------------------------------------

func rangeOf(m manifest.RegionMeta) ivl.Range { return ivl.Range{Start: m.StartKey, End: m.EndKey} }

func sameMeta(a, b manifest.RegionMeta) bool {
	if a.ID != b.ID || !bytes.Equal(a.StartKey, b.StartKey) || !bytes.Equal(a.EndKey, b.EndKey) || a.Epoch != b.Epoch || len(a.Peers) != len(b.Peers) {
		return false
	}
	for i := range a.Peers {
		if a.Peers[i] != b.Peers[i] {
			return false
		}
	}
	return true
}

func show(m manifest.RegionMeta) string {
	return fmt.Sprintf("region %d %s v%d/c%d peers%v", m.ID, rangeOf(m), m.Epoch.Version, m.Epoch.ConfVersion, m.Peers)
}

func showAll(cat map[uint64]manifest.RegionMeta) []string {
	var ids []uint64
	for id := range cat {
		ids = append(ids, id)
	}
	sort.Slice(ids, func(i, j int) bool { return ids[i] < ids[j] })
	var out []string
	for _, id := range ids {
		out = append(out, show(cat[id]))
	}
	return out
}

// overlapClass names how the incoming range lies relative to an existing one.
func overlapClass(in, ex ivl.Range) string {
	rel := "partial"
	inter := ivl.Intersect(in, ex)
	eq := func(a, b ivl.Range) bool { return bytes.Equal(a.Start, b.Start) && bytes.Equal(a.End, b.End) }
	switch {
	case eq(in, ex):
		rel = "identical"
	case eq(inter, ex):
		rel = "incoming-contains-existing"
	case eq(inter, in):
		rel = "existing-contains-incoming"
	}
	shape := "bounded"
	if len(in.Start) == 0 || len(in.End) == 0 || len(ex.Start) == 0 || len(ex.End) == 0 {
		shape = "unbounded-bound-involved"
	}
	return rel + "," + shape
}

func keyPos(r ivl.Range, key []byte) string {
	switch {
	case len(key) == 0:
		return "empty-key"
	case bytes.Equal(key, r.Start):
		return "at-start"
	case len(r.End) > 0 && bytes.Equal(key, r.End):
		return "at-end"
	case r.Contains(key):
		return "inside"
	}
	return "outside"
}

func sweepKeys(r *rand.Rand) [][]byte {
	seen := map[string]bool{}
	var out [][]byte
	add := func(k []byte) {
		if !seen[string(k)] {
			seen[string(k)] = true
			out = append(out, append([]byte(nil), k...))
		}
	}
	add(nil)
	for _, b := range alphabet {
		if b == "" {
			continue
		}
		k := []byte(b)
		add(k)
		add(append(append([]byte(nil), k...), 0)) // successor
		if last := k[len(k)-1]; last > 0 {        // predecessors
			p := append([]byte(nil), k...)
			p[len(p)-1] = last - 1
			add(append(append([]byte(nil), p...), 0xff))
			add(p)
		}
		if len(k) > 1 {
			add(k[:len(k)-1])
		}
	}
	add([]byte{0})
	add([]byte{0xff, 0xff, 0xff})
	for i := 0; i < 3; i++ {
		k := make([]byte, 1+r.Intn(2))
		for j := range k {
			k[j] = byte(r.Intn(256))
		}
		add(k)
	}
	return out
}

func randRange(r *rand.Rand) ivl.Range {
	for {
		s := alphabet[r.Intn(len(alphabet))]
		e := alphabet[r.Intn(len(alphabet))]
		rg := ivl.R(s, e)
		if !rg.IsEmpty() {
			return rg
		}
	}
}

// freeRange picks a range inside the key space no model region covers.
func freeRange(r *rand.Rand, model map[uint64]manifest.RegionMeta, except uint64) (ivl.Range, bool) {
	free := ivl.Set{ivl.R("", "")}
	for id, m := range model {
		if id != except {
			free = free.Minus(rangeOf(m))
		}
	}
	var cands []ivl.Range
	for i := 0; i < len(alphabet); i++ {
		for j := 0; j < len(alphabet); j++ {
			rg := ivl.R(alphabet[i], alphabet[j])
			if rg.IsEmpty() {
				continue
			}
			// rg must lie inside one free piece
			for _, f := range free {
				in := ivl.Intersect(rg, f)
				if bytes.Equal(in.Start, rg.Start) && bytes.Equal(in.End, rg.End) && !in.IsEmpty() {
					cands = append(cands, rg)
					break
				}
			}
		}
	}
	if len(cands) == 0 {
		return ivl.Range{}, false
	}
	return cands[r.Intn(len(cands))], true
}

func bump(r *rand.Rand, v uint64) uint64 {
	switch r.Intn(6) {
	case 0:
		if v > 0 {
			return v - 1
		}
		return v
	case 1, 2:
		return v + 1
	}
	return v
}

type runner struct {
	c     *vcore.Case
	api   pdAPI
	mode  string
	model map[uint64]manifest.RegionMeta
	trace []string
	steps []string
	bad   bool
	// degenerate: PD accepted a heartbeat whose range is inverted or empty
	// (start >= end); such a region contains no key. From then on the
	// "must accept" direction is not applied (whether an empty range
	// "overlaps" is undecided) and route findings carry a separate context.
	degenerate bool
}

func (x *runner) fail(sig, what string, extra map[string]any) {
	d := map[string]any{"mode": x.mode, "ops": x.trace, "model": showAll(x.model)}
	if cat, ok := x.api.Catalog(); ok {
		d["pd_catalog"] = showAll(cat)
	}
	for k, v := range extra {
		d[k] = v
	}
	x.c.Violation(sig, what, d)
	x.bad = true
}

// compareCatalog checks the observable catalog against the model.
func (x *runner) compareCatalog(rule, when string) {
	cat, ok := x.api.Catalog()
	if !ok {
		return
	}
	x.c.Count("evaluations", 1)
	for id, m := range x.model {
		got, ok := cat[id]
		if !ok {
			x.fail("C26|"+rule+"|missing,"+when, fmt.Sprintf("%s is known to the model but not to PD (%s)", show(m), when), nil)
			return
		}
		if !sameMeta(m, got) {
			x.fail("C26|"+rule+"|differs,"+when, fmt.Sprintf("PD holds %s, the model %s (%s)", show(got), show(m), when), nil)
			return
		}
	}
	for id, got := range cat {
		if _, ok := x.model[id]; !ok {
			x.fail("C26|"+rule+"|extra,"+when, fmt.Sprintf("PD holds %s which the model does not (%s)", show(got), when), nil)
			return
		}
	}
}

func (x *runner) heartbeat(r *rand.Rand) {
	c := x.c
	m := manifest.RegionMeta{ID: uint64(1 + r.Intn(6))}
	if r.Intn(40) == 0 {
		m.ID = 0
	}
	cur, exists := x.model[m.ID]
	var rg ivl.Range
	switch y := r.Intn(10); {
	case y < 3 && exists:
		rg = rangeOf(cur) // same range, epoch play
	case y < 7:
		if fr, ok := freeRange(r, x.model, m.ID); ok {
			rg = fr
		} else {
			rg = randRange(r)
		}
	default:
		rg = randRange(r)
	}
	if r.Intn(33) == 0 {
		// arbitrary ranges include inverted / empty ones
		for {
			rg = ivl.R(alphabet[1+r.Intn(len(alphabet)-1)], alphabet[1+r.Intn(len(alphabet)-1)])
			if rg.IsEmpty() {
				break
			}
		}
	}
	m.StartKey, m.EndKey = rg.Start, rg.End
	if exists {
		m.Epoch = manifest.RegionEpoch{Version: bump(r, cur.Epoch.Version), ConfVersion: bump(r, cur.Epoch.ConfVersion)}
	} else {
		m.Epoch = manifest.RegionEpoch{Version: uint64(r.Intn(4)), ConfVersion: uint64(r.Intn(4))}
	}
	for i, n := 0, r.Intn(3); i < n; i++ {
		m.Peers = append(m.Peers, manifest.PeerMeta{StoreID: uint64(1 + i), PeerID: uint64(100*int(m.ID) + i + r.Intn(2))})
	}
	// reference judgement
	staleDef := exists && m.Epoch.Version <= cur.Epoch.Version && m.Epoch.ConfVersion <= cur.Epoch.ConfVersion && m.Epoch != cur.Epoch
	freshDef := !exists || (m.Epoch.Version >= cur.Epoch.Version && m.Epoch.ConfVersion >= cur.Epoch.ConfVersion)
	var overlapWith *manifest.RegionMeta
	var oids []uint64
	for id := range x.model {
		oids = append(oids, id)
	}
	sort.Slice(oids, func(i, j int) bool { return oids[i] < oids[j] })
	for _, id := range oids {
		o := x.model[id]
		if id != m.ID && ivl.Overlap(rg, rangeOf(o)) {
			overlapWith = &o
			break
		}
	}
	accepted, code := x.api.Heartbeat(m)
	x.trace = append(x.trace, fmt.Sprintf("heartbeat %s -> accepted=%v %s", show(m), accepted, code))
	if code != "OK" && code != "InvalidArgument" && code != "FailedPrecondition" {
		// transport trouble or a persistence failure: not an answer about the heartbeat
		c.Inconclusive("RegionHeartbeat failed with " + code)
		x.bad = true
		return
	}
	c.Count("evaluations", 1)
	c.Count("heartbeats", 1)
	cls := ""
	switch {
	case m.ID == 0:
		cls = "invalid-id"
		if accepted {
			x.fail("C26|accepted-invalid-id|region-id-0", "a heartbeat for region id 0 was accepted", nil)
			return
		}
	case accepted && staleDef:
		which := "version-lower"
		if m.Epoch.Version == cur.Epoch.Version {
			which = "conf-version-lower"
		}
		x.fail("C26|accepted-stale|"+which, fmt.Sprintf("accepted %s although PD knew %s", show(m), show(cur)), nil)
		return
	case accepted && overlapWith != nil:
		x.fail("C26|accepted-overlapping|"+overlapClass(rg, rangeOf(*overlapWith)), fmt.Sprintf("accepted %s although it overlaps known %s", show(m), show(*overlapWith)), nil)
		return
	case !accepted && freshDef && overlapWith == nil && !rg.IsEmpty() && !x.degenerate:
		x.fail("C26|rejected-valid|"+code, fmt.Sprintf("rejected %s (%s) although it is not epoch-stale and overlaps no other known region", show(m), code), nil)
		return
	}
	if m.ID != 0 {
		switch {
		case accepted && !exists:
			cls = "accepted-new"
		case accepted && !bytes.Equal(cur.StartKey, m.StartKey) || accepted && !bytes.Equal(cur.EndKey, m.EndKey):
			cls = "accepted-moved"
		case accepted:
			cls = "accepted-refresh"
		case staleDef:
			cls = "rejected-stale"
		case overlapWith != nil:
			cls = "rejected-overlap"
		default:
			cls = "rejected-incomparable-epoch"
		}
		if rg.IsEmpty() {
			cls += "(inverted-range)"
		}
		if !staleDef && !freshDef {
			c.Count("epoch_incomparable", 1)
		}
	}
	c.Count("hb_"+cls, 1)
	c.Distinct("heartbeat_classes", cls+"/"+rg.Shape())
	x.steps = append(x.steps, "hb:"+cls)
	if accepted {
		x.model[m.ID] = m
		if rg.IsEmpty() {
			c.Count("hb_accepted_inverted_or_empty_range", 1)
		}
	}
	x.refreshDegenerate()
	x.compareCatalog("catalog-mismatch", "after-heartbeat")
}

func (x *runner) refreshDegenerate() {
	x.degenerate = false
	for _, o := range x.model {
		if rangeOf(o).IsEmpty() {
			x.degenerate = true
		}
	}
}

func (x *runner) remove(r *rand.Rand) {
	id := uint64(1 + r.Intn(7))
	_, exists := x.model[id]
	removed, err := x.api.Remove(id)
	x.trace = append(x.trace, fmt.Sprintf("remove %d -> removed=%v err=%v", id, removed, err))
	x.c.Count("removals", 1)
	if err != nil {
		x.c.Inconclusive("RemoveRegion failed: " + err.Error())
		x.bad = true
		return
	}
	delete(x.model, id)
	x.refreshDegenerate()
	if exists {
		x.c.Count("removals_of_known", 1)
		x.steps = append(x.steps, "rm:known")
	} else {
		x.steps = append(x.steps, "rm:unknown")
	}
	x.compareCatalog("catalog-mismatch", "after-removal")
}

func (x *runner) sweep(r *rand.Rand, when string) {
	c := x.c
	found, none := 0, 0
	for _, key := range sweepKeys(r) {
		var want *manifest.RegionMeta
		n := 0
		var ids []uint64
		for id := range x.model {
			ids = append(ids, id)
		}
		sort.Slice(ids, func(i, j int) bool { return ids[i] < ids[j] })
		for _, id := range ids {
			m := x.model[id]
			if rangeOf(m).Contains(key) {
				n++
				mm := m
				want = &mm
			}
		}
		if n > 1 {
			// cannot happen while accepted-overlapping is enforced
			c.Inconclusive("model holds overlapping regions")
			x.bad = true
			return
		}
		got, ok, err := x.api.Lookup(key)
		if err != nil {
			c.Inconclusive("GetRegionByKey failed: " + err.Error())
			x.bad = true
			return
		}
		c.Count("evaluations", 1)
		c.Count("lookups", 1)
		extra := map[string]any{"key": fmt.Sprintf("%q", key), "when": when}
		sfx := ""
		if x.degenerate {
			sfx = ",inverted-range-known"
		}
		switch {
		case want == nil && ok:
			x.fail("C26|wrong-route|expected-none,got-region,key="+keyPos(rangeOf(got), key)+sfx, fmt.Sprintf("lookup %q returned %s but no known region contains the key", key, show(got)), extra)
			return
		case want != nil && !ok:
			x.fail("C26|wrong-route|expected-region,got-none,key="+keyPos(rangeOf(*want), key)+sfx, fmt.Sprintf("lookup %q returned nothing but %s contains the key", key, show(*want)), extra)
			return
		case want != nil && got.ID != want.ID:
			x.fail("C26|wrong-route|got-other-region,key="+keyPos(rangeOf(*want), key)+sfx, fmt.Sprintf("lookup %q returned %s, expected %s", key, show(got), show(*want)), extra)
			return
		case want != nil && !sameMeta(got, *want):
			x.fail("C26|wrong-route|got-outdated-meta,key="+keyPos(rangeOf(*want), key)+sfx, fmt.Sprintf("lookup %q returned %s, expected %s", key, show(got), show(*want)), extra)
			return
		}
		if want != nil {
			found++
			c.Distinct("lookup_positions", "found/"+keyPos(rangeOf(*want), key)+"/"+rangeOf(*want).Shape())
		} else {
			none++
			for _, id := range ids {
				if e := x.model[id].EndKey; len(e) > 0 && bytes.Equal(e, key) {
					c.Distinct("lookup_positions", "none/at-end-of-a-region")
				}
			}
		}
	}
	c.Count("lookups_found", found)
	c.Count("lookups_none", none)
	x.steps = append(x.steps, fmt.Sprintf("sweep:%d/%d", found, none))
}

func (x *runner) restart(r *rand.Rand) {
	hard := r.Intn(2) == 0
	err := x.api.Restart(hard)
	x.trace = append(x.trace, fmt.Sprintf("restart hard=%v -> err=%v", hard, err))
	x.c.Count("restarts", 1)
	x.c.Count("evaluations", 1)
	if err != nil {
		if x.mode == "binary" && !strings.Contains(err.Error(), "restore") {
			x.c.Inconclusive("pd binary restart: " + err.Error())
			x.bad = true
			return
		}
		x.fail("C26|reload-failed|restore-rejected-persisted-region", "PD could not be rebuilt from its own persisted catalog: "+err.Error(), nil)
		return
	}
	x.steps = append(x.steps, fmt.Sprintf("restart:%d", len(x.model)))
	x.compareCatalog("reload-mismatch", "after-restart")
	if !x.bad {
		x.sweep(r, "after-restart")
	}
}

func runSeq(c *vcore.Case, api pdAPI, mode string, nOps int) {
	r := c.Rng
	x := &runner{c: c, api: api, mode: mode, model: map[uint64]manifest.RegionMeta{}}
	for i := 0; i < nOps && !x.bad; i++ {
		switch y := r.Intn(100); {
		case y < 62:
			x.heartbeat(r)
		case y < 74:
			x.remove(r)
		case y < 90:
			x.sweep(r, "mid-sequence")
		default:
			x.restart(r)
		}
		c.Max("known_regions", len(x.model))
	}
	if !x.bad {
		x.sweep(r, "end")
	}
	if !x.bad {
		x.restart(r)
	}
	if !x.bad {
		c.Nontrivial(mode + ":" + strings.Join(x.steps, ","))
		if c.Idx < 4 {
			c.Sample(map[string]any{"mode": mode, "ops": x.trace, "final_model": showAll(x.model)})
		}
	}
}

const quickCases, thoroughCases, binaryCases = 1000, 50000, 40

func run(c *vcore.Case) {
	if c.Thorough() && c.Idx >= thoroughCases {
		bin := filepath.Join(os.Getenv("VERIF_BIN_DIR"), "nokv")
		if _, err := os.Stat(bin); err != nil {
			c.Inconclusive("nokv binary not built: " + err.Error())
			return
		}
		p := &binpd{dir: c.TempDir(), bin: bin}
		if err := p.boot(); err != nil {
			c.Inconclusive("start nokv pd: " + err.Error())
			return
		}
		defer p.Close()
		c.Count("binary_sequences", 1)
		runSeq(c, p, "binary", 40)
		return
	}
	p := &inproc{dir: c.TempDir()}
	if err := p.boot(); err != nil {
		c.Inconclusive("open pd storage: " + err.Error())
		return
	}
	defer p.Close()
	runSeq(c, p, "in-process", 30)
}

func init() {
	vcore.Register(&vcore.Check{
		ID:        "C26",
		Level:     "exploration",
		NeedsBins: true,
		Rule: "one case = one PD (pd/server.Service over pd/core.Cluster persisted by pd/storage.LocalStore in a scratch dir) and 30 seeded operations: region heartbeats (ids 1-6, rarely 0; ranges over the alphabet " +
			"{-inf/+inf,a,b,b\\x00,c,m,m\\x00,z,\\xff}, 40% aimed at uncovered key space, 30% same range; epoch components moved -1/0/+1 independently; 0-2 peers), removals of known and unknown ids, " +
			"lookup sweeps over every alphabet key, its successor, its predecessors, its prefix, the empty key, extremes and random keys, and restarts (close, reopen, rebuild from Load() in ascending id order as `nokv pd` does); " +
			"the region-list model judges every heartbeat, every lookup, the whole catalog after every mutation and after every restart; thorough adds 40 sequences against the real `nokv pd` binary over gRPC with SIGKILL/SIGTERM restarts; " +
			"non-trivial/distinct = distinct sequences of (operation class, outcome class)",
		Assumptions: []string{
			"heartbeats carry non-empty ranges (start < end, or an unbounded end); inverted or empty ranges are not generated",
			"epoch-stale = neither epoch component larger and at least one smaller than the known epoch; when one component is larger and the other smaller the statement does not decide and either answer is taken (counted as epoch_incomparable)",
			"region id 0 is not a region: such a heartbeat must be refused",
			"PD does not carry region lifecycle state; metas are compared on id, range, epoch and peers",
			"restart = close/reopen of the store or SIGKILL/SIGTERM of the process (written manifest bytes survive); power-loss durability of the un-synced region edits is not covered",
		},
		Cases: func(tier string) int {
			if tier == "thorough" {
				return thoroughCases + binaryCases
			}
			return quickCases
		},
		Run: run,
		Finish: func(a *vcore.Agg) {
			a.Floor("hb_accepted-new", 1000)
			a.Floor("hb_accepted-moved", 200)
			a.Floor("hb_rejected-stale", 200)
			a.Floor("hb_rejected-overlap", 1000)
			a.Floor("lookups_found", 5000)
			a.Floor("lookups_none", 5000)
			a.Floor("restarts", 1000)
			a.FloorNontrivial(500)
			if a.Tier == "thorough" {
				a.Floor("binary_sequences", 20)
			}
		},
	})
}
