// Package c23: only the current leader serves reads and proposals, and reads
// are linearizable.
//
// Engine: the E-cluster runs of C22 (harness/internal/cluster): write = one
// proposed command containing PREWRITE+COMMIT of a unique value, read =
// Store.ReadCommand GET of the newest version; clients address all stores,
// including an isolated ex-leader.
//
// Oracle (from the statement): every call/return pair is recorded with a
// logical clock; per key the history {acknowledged writes, value/absent reads}
// must be linearizable as a register (porcupine v1.3.0). Proposals whose
// outcome the client does not know (timeout or other error after the store
// accepted the call) stay open to the end of the history; proposals that were
// rejected with NotLeader / EpochNotMatch, or answered with a prewrite error,
// have no effect; reads that were rejected or failed carry no information.
// Every reply must be a value / acknowledgement, a region error, or an error.
package c23

import (
	"fmt"
	"sort"
	"time"

	"github.com/anishathalye/porcupine"
	"verif/harness/internal/cluster"
	"verif/harness/internal/core"
)

type regIn struct {
	write bool
	val   string
}
type regOut struct {
	val    string // read result ("" = absent)
	absent bool
}

var registerModel = porcupine.Model{
	Init: func() interface{} { return "" },
	Step: func(state, input, output interface{}) (bool, interface{}) {
		in := input.(regIn)
		if in.write {
			return true, in.val
		}
		out := output.(regOut)
		cur := state.(string)
		if out.absent {
			return cur == "", cur
		}
		return cur == out.val, cur
	},
	Equal: func(a, b interface{}) bool { return a.(string) == b.(string) },
	DescribeOperation: func(input, output interface{}) string {
		in := input.(regIn)
		if in.write {
			return "write(" + in.val + ")"
		}
		out := output.(regOut)
		if out.absent {
			return "read -> absent"
		}
		return "read -> " + out.val
	},
}

type finding struct {
	sig, what string
	detail    any
}

// history builds the per-key porcupine operations. foreignOpen: writes whose
// response was not produced by their own application are treated as "outcome
// unknown" instead of trusting the (foreign) response content.
func history(tr *cluster.Trace, key string, foreign map[int]bool, foreignOpen bool) ([]porcupine.Operation, []cluster.Op) {
	var maxT int64
	for _, op := range tr.Ops {
		if op.Ret > maxT {
			maxT = op.Ret
		}
	}
	inf := maxT + 10
	var ops []porcupine.Operation
	var used []cluster.Op
	for _, op := range tr.Ops {
		if op.Key != key {
			continue
		}
		switch op.Kind {
		case "write":
			outcome := op.Outcome
			if foreignOpen && foreign[op.ID] {
				outcome = "error"
			}
			switch outcome {
			case "ok":
				ops = append(ops, porcupine.Operation{ClientId: op.Client, Input: regIn{true, op.Marker}, Call: op.Call, Output: regOut{}, Return: op.Ret})
				used = append(used, op)
			case "error", "anomalous":
				// may or may not take effect, now or later. What the apply
				// recorder observed narrows it down: a command that no store
				// ever applied, or whose application reported a prewrite /
				// commit error, had no effect.
				if eff, known := effectOf(tr, op.Marker); known && !eff {
					continue
				}
				ops = append(ops, porcupine.Operation{ClientId: op.Client, Input: regIn{true, op.Marker}, Call: op.Call, Output: regOut{}, Return: inf})
				used = append(used, op)
			}
		case "read":
			if op.Outcome != "ok" {
				continue
			}
			ops = append(ops, porcupine.Operation{ClientId: op.Client, Input: regIn{false, ""}, Call: op.Call, Output: regOut{val: op.Value, absent: op.Absent}, Return: op.Ret})
			used = append(used, op)
		}
	}
	return ops, used
}

// effectOf reports, from the apply recorder, whether the command with this
// marker took effect (known=false when the run was not observed caught up and
// the command was not seen applied, so it might still be in flight).
func effectOf(tr *cluster.Trace, marker string) (effect, known bool) {
	applied := false
	for _, seq := range tr.Seqs {
		for _, r := range seq {
			if r.Marker != marker {
				continue
			}
			applied = true
			if r.Resp == nil {
				return true, false
			}
			rs := r.Resp.GetResponses()
			// a replay after a restart re-executes the command against state
			// that already contains it (and later writes) and reports a
			// conflict; the command had an effect if any application succeeded.
			if !(len(rs) == 2 && rs[0].GetPrewrite() != nil && len(rs[0].GetPrewrite().GetErrors()) > 0) {
				return true, true
			}
		}
	}
	if applied {
		return false, true
	}
	return false, tr.CaughtUp
}

// staleRead looks for a direct witness: a read that returned value v (or
// absent) although a write w of the same key was acknowledged (with its own
// response) before the read was issued and v's write was acknowledged or
// applied before w was issued.
func staleRead(tr *cluster.Trace, key string, foreign map[int]bool) (*cluster.Op, *cluster.Op) {
	byMarker := map[string]*cluster.Op{}
	for i := range tr.Ops {
		if tr.Ops[i].Kind == "write" {
			byMarker[tr.Ops[i].Marker] = &tr.Ops[i]
		}
	}
	for i := range tr.Ops {
		r := &tr.Ops[i]
		if r.Kind != "read" || r.Outcome != "ok" || r.Key != key {
			continue
		}
		for j := range tr.Ops {
			w := &tr.Ops[j]
			if w.Kind != "write" || w.Key != key || w.Outcome != "ok" || foreign[w.ID] || w.Ret >= r.Call {
				continue
			}
			if r.Absent {
				return r, w
			}
			if v := byMarker[r.Value]; v != nil && v.Marker != w.Marker && v.Outcome == "ok" && !foreign[v.ID] && v.Ret < w.Call {
				return r, w
			}
		}
	}
	return nil, nil
}

func trimOps(ops []cluster.Op, n int) []cluster.Op {
	if len(ops) > n {
		return ops[:n]
	}
	return ops
}

// Judge checks one trace.
func Judge(tr *cluster.Trace, c *core.Case) []finding {
	var out []finding
	foreign := map[int]bool{}
	keys := map[string]bool{}
	for _, op := range tr.Ops {
		keys[op.Key] = true
		c.Count(op.Kind+"."+op.Outcome, 1)
		if op.Isolated {
			c.Count(op.Kind+"_to_isolated_store."+op.Outcome, 1)
		}
		if op.Outcome == "anomalous" {
			out = append(out, finding{"C23|reply-neither-value-nor-error|" + op.Kind,
				fmt.Sprintf("%s of %s on store %d: %s", op.Kind, op.Key, op.Store, op.ErrText), op})
		}
		if op.Kind == "write" && (op.Outcome == "ok" || op.Outcome == "failed") {
			rec := tr.Cluster.ByResponse(op.Resp)
			if rec == nil || rec.Marker != op.Marker {
				foreign[op.ID] = true
				c.Count("writes_answered_with_foreign_response", 1)
			}
		}
	}
	var ks []string
	for k := range keys {
		ks = append(ks, k)
	}
	sort.Strings(ks)
	for _, key := range ks {
		ops, used := history(tr, key, foreign, false)
		c.Count("evaluations", len(ops))
		c.Count("key_histories_checked", 1)
		c.Max("history_len", len(ops))
		res, _ := porcupine.CheckOperationsVerbose(registerModel, ops, 30*time.Second)
		switch res {
		case porcupine.Ok:
			continue
		case porcupine.Unknown:
			c.Inconclusive("porcupine timed out on key " + key)
			continue
		}
		ctx := "other"
		detail := map[string]any{"key": key, "plan": tr.Plan, "faults": tr.Faults, "leaders": tr.Leaders}
		if len(foreign) > 0 {
			ops2, _ := history(tr, key, foreign, true)
			if r2, _ := porcupine.CheckOperationsVerbose(registerModel, ops2, 30*time.Second); r2 == porcupine.Ok {
				ctx = "tainted:foreign-response"
			}
		}
		if ctx == "other" {
			if r, w := staleRead(tr, key, foreign); r != nil {
				ctx = "stale-read"
				detail["read"] = r
				detail["acknowledged_write_before_read"] = w
			}
		}
		detail["history"] = trimOps(used, 400)
		out = append(out, finding{"C23|non-linearizable|" + ctx, fmt.Sprintf("history of key %s (%d operations) is not linearizable as a register", key, len(ops)), detail})
	}
	return out
}

func run(c *core.Case) {
	plan := cluster.GenPlan(c.Rng, c.Thorough(), cluster.FlavorOf(c.Idx))
	tr := cluster.Run(plan, c.TempDir(), c.Rng, 20*time.Second)
	if tr.Cluster != nil {
		defer tr.Cluster.Close()
	}
	if tr.StartErr != "" {
		c.Inconclusive("cluster did not start: " + tr.StartErr)
		return
	}
	cluster.Observe(c, tr)
	seen := map[string]bool{}
	for _, f := range Judge(tr, c) {
		if seen[f.sig] {
			continue
		}
		seen[f.sig] = true
		c.Violation(f.sig, f.what, f.detail)
	}
	// non-trivial: values were served by >= 2 different stores, some call to a
	// non-leader was rejected with NotLeader, and leadership changed.
	servers := map[int]bool{}
	rejected := 0
	for _, op := range tr.Ops {
		if op.Kind == "read" && op.Outcome == "ok" {
			servers[op.Store] = true
		}
		if op.Outcome == "not_leader" {
			rejected++
		}
	}
	c.Count("stale_read_probes_issued_while_fresh_leader_had_unapplied_backlog", tr.ProbeBacklogs)
	c.Count("stale_read_probes_answered_while_fresh_leader_was_behind", tr.ProbeReadsServedBehind)
	for _, pr := range tr.Probes {
		c.Count("stale_read_probes", 1)
		c.Count("stale_read_probe_outcomes(write-old/read-new/write-new/read-old)."+pr, 1)
	}
	changes := 0
	for _, ls := range tr.Leaders {
		changes += len(ls) - 1
	}
	if len(servers) >= 2 && rejected > 0 && changes >= 1 {
		c.Nontrivial(tr.Fingerprint())
		c.Count("runs_with_reads_served_by_2plus_leaders", 1)
	}
	if c.Idx < 2 {
		c.Sample(map[string]any{"plan": tr.Plan, "faults": tr.Faults, "leaders": tr.Leaders, "ops": len(tr.Ops), "first_ops": trimOps(tr.Ops, 12)})
	}
}

func init() {
	core.Register(&core.Check{
		ID:    "C23",
		Level: "exploration",
		Rule: "case = one seeded run of the 3-store in-process cluster of C22 (same generator: 6 clients x 22-60 calls on 2 keys per region, 55-85% writes (one PREWRITE+COMMIT command with a unique value), the rest Store.ReadCommand GETs; " +
			"15-40% of the calls go to a random store, so followers and isolated ex-leaders are addressed; seeded fault script of partitions, leader transfers, restarts, drop/dup/delay; every fifth case is the stale-leader-read flavour whose partitions carry a probe: a seventh client writes at the leader, the leader is cut off the moment the write is acknowledged, " +
			"and as soon as another store claims leadership the probe reads there, writes there, and reads at the cut-off old leader); " +
			"call/return events carry a logical clock; oracle = porcupine register linearizability per key (timed-out/errored proposals stay open, rejected or prewrite-failed proposals have no effect, only value/absent reads are constrained) " +
			"plus reply classification (value/ack, NotLeader/EpochNotMatch, or error); non-trivial = values were served by >= 2 different stores, >= 1 NotLeader rejection and >= 1 leader change observed; distinct = distinct (leader sequence, executed fault list)",
		Assumptions: []string{
			"an error return (ReadIndex timeout on a deposed leader, proposal timeout) counts as a rejection: the statement forbids serving stale data, it does not fix the error text",
			"a GET answered with a Locked key error carries no value and is not constrained",
			"a write whose response was produced by another command's application (C22 finding) is first judged as the client saw it; if the history is only explainable with that write's outcome unknown the violation is attributed to the C22 finding (signature tainted:foreign-response)",
		},
		Race:        true,
		CaseTimeout: 8 * time.Minute,
		Cases: func(tier string) int {
			if tier == "thorough" {
				return 240
			}
			return 32
		},
		Run: run,
		Finish: func(a *core.Agg) {
			a.FloorNontrivial(6)
			a.Floor("read.ok", 150)
			a.Floor("read.not_leader", 30)
			a.Floor("key_histories_checked", 50)
			a.Floor("leader_changes_observed", 10)
		},
	})
}
