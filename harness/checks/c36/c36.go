// Package c36: WAL segment cleanup never removes data still needed. The check
// is registered by package c21 (shared crash worker, "c36" script mode).
package c36

import _ "verif/harness/checks/c21"
