// Package c33: at most one database holds a working directory at a time.
//
// Engine: E-sched. 2-3 contenders loop utils.AcquireDirLock / Release on one
// directory, each through its own vfs.FaultFS whose hook parks the contender
// before every open / close / unlink / stat of the LOCK file (the point between
// "unlock" and "unlink" is exactly "before remove"). Thorough adds real
// processes (utils.AcquireDirLock and full NoKV.Open/Close) with seeded sleeps
// at the same points and a holder counter in shared memory.
//
// Oracle (from the statement): a holder counter incremented after an
// acquisition returned success and decremented before Release is called; a
// value > 1 means two holders at the same moment. The counter brackets are
// conservative: they lie strictly inside the real holding interval.
package c33

import (
	"encoding/json"
	"fmt"
	"math/rand"
	"os"
	"os/exec"
	"path/filepath"
	"sort"
	"strconv"
	"strings"
	"sync"
	"sync/atomic"
	"syscall"
	"time"
	"unsafe"

	NoKV "github.com/feichai0017/NoKV"
	"github.com/feichai0017/NoKV/utils"
	"github.com/feichai0017/NoKV/vfs"
	"verif/harness/internal/core"
	"verif/harness/internal/dbx"
	"verif/harness/internal/sched"
)

type scenario struct {
	Workers int `json:"workers"`
	Rounds  int `json:"rounds"`
}

type ev struct {
	Seq  int64  `json:"seq"`
	W    int    `json:"w"`
	Kind string `json:"k"` // open | remove | close | stat | acquired | failed | release | released
	Err  string `json:"err,omitempty"`
	N    int32  `json:"holders,omitempty"`
}

type runOut struct {
	res       sched.Result
	evs       []ev
	maxHold   int32
	acquired  int
	failedUse int
	otherErr  []string
	relErr    []string
}

func lockOp(op vfs.Op, path string) string {
	if filepath.Base(path) != "LOCK" {
		return ""
	}
	switch op {
	case vfs.OpOpenFile:
		return "open"
	case vfs.OpFileClose:
		return "close"
	case vfs.OpRemove:
		return "remove"
	case vfs.OpStat:
		return "stat"
	}
	return ""
}

func runOne(dir string, sc scenario, ch sched.Chooser) runOut {
	var out runOut
	var ctr atomic.Int64
	var holders atomic.Int32
	var maxHold atomic.Int32
	logs := make([][]ev, sc.Workers)
	var mu sync.Mutex
	r := sched.New(sched.Options{Chooser: ch, MaxSteps: 2000})
	for k := 0; k < sc.Workers; k++ {
		k := k
		r.Go(fmt.Sprintf("c%d", k), func(w *sched.Worker) {
			log := func(e ev) {
				e.W = k
				e.Seq = ctr.Add(1)
				logs[k] = append(logs[k], e)
			}
			fs := vfs.NewFaultFS(vfs.OSFS{}, func(op vfs.Op, path string) error {
				if name := lockOp(op, path); name != "" {
					w.Yield("dl." + name)
					log(ev{Kind: name}) // the operation executes right after this ticket
				}
				return nil
			})
			for round := 0; round < sc.Rounds; round++ {
				w.Yield("h.acquire")
				l, err := utils.AcquireDirLock(dir, fs)
				if err != nil {
					log(ev{Kind: "failed", Err: err.Error()})
					mu.Lock()
					if strings.Contains(err.Error(), "already in use") {
						out.failedUse++
					} else {
						out.otherErr = append(out.otherErr, err.Error())
					}
					mu.Unlock()
					continue
				}
				n := holders.Add(1)
				for {
					m := maxHold.Load()
					if n <= m || maxHold.CompareAndSwap(m, n) {
						break
					}
				}
				log(ev{Kind: "acquired", N: n})
				mu.Lock()
				out.acquired++
				mu.Unlock()
				w.Yield("h.holding")
				holders.Add(-1)
				log(ev{Kind: "release"})
				if err := l.Release(); err != nil {
					mu.Lock()
					out.relErr = append(out.relErr, err.Error())
					mu.Unlock()
				}
				log(ev{Kind: "released"})
			}
		})
	}
	// the flock calls do not go through the vfs: the lock code's own yield sites
	// (dirlock.before-flock / dirlock.before-unlock) park the calling contender.
	utils.VerifSetYield(func(site string) {
		if !strings.HasPrefix(site, "dirlock.") {
			return
		}
		if w := r.Current(); w != nil {
			r.Yield("dl." + strings.TrimPrefix(site, "dirlock.before-"))
			logs[w.ID] = append(logs[w.ID], ev{W: w.ID, Seq: ctr.Add(1), Kind: strings.TrimPrefix(site, "dirlock.before-")})
		}
	})
	defer utils.VerifSetYield(nil)
	out.res = r.Execute()
	for _, l := range logs {
		out.evs = append(out.evs, l...)
	}
	sort.Slice(out.evs, func(a, b int) bool { return out.evs[a].Seq < out.evs[b].Seq })
	out.maxHold = maxHold.Load()
	return out
}

// context classifies a two-holder observation from the merged event log: was
// the LOCK file unlinked between the opens that led to the two simultaneous
// acquisitions?
func context(evs []ev) string {
	// Tickets are taken just before an operation executes, so an operation lies between its
	// ticket and the next ticket of the same contender that proves it is over (acquired/failed
	// for an open, released for a remove).
	type span struct{ from, to int64 }
	const inf = int64(1) << 62
	lastOpen := map[int]int64{}
	holdOpen := map[int]int64{} // contender -> ticket of the open that led to its current hold
	var removes []span
	openRemove := map[int]int{}
	for _, e := range evs {
		switch e.Kind {
		case "open":
			lastOpen[e.W] = e.Seq
		case "remove":
			removes = append(removes, span{e.Seq, inf})
			openRemove[e.W] = len(removes) - 1
		case "released":
			if i, ok := openRemove[e.W]; ok {
				removes[i].to = e.Seq
				delete(openRemove, e.W)
			}
		case "release":
			delete(holdOpen, e.W)
		case "acquired":
			holdOpen[e.W] = lastOpen[e.W]
			if e.N > 1 {
				lo := inf
				for _, s := range holdOpen {
					if s < lo {
						lo = s
					}
				}
				for _, rm := range removes {
					if rm.to > lo && rm.from < e.Seq {
						return "lock-file-unlinked-between-opens"
					}
				}
				return "same-lock-file"
			}
		}
	}
	return "unknown"
}

func traceString(tr []sched.Step) string {
	var sb strings.Builder
	for _, s := range tr {
		fmt.Fprintf(&sb, "c%d@%s ", s.Worker, s.Site)
	}
	return sb.String()
}

func account(c *core.Case, sc scenario, o runOut, local map[uint64]bool, mode string, reported map[string]bool) {
	c.Count("schedules_run", 1)
	if o.res.Stuck {
		c.Inconclusive("schedule stuck (watchdog)")
		return
	}
	c.Count("evaluations", 1)
	c.Count("acquisitions_succeeded", o.acquired)
	c.Count("acquisitions_refused_in_use", o.failedUse)
	c.Count("blocked_classifications", o.res.Blocked)
	c.Max("steps_per_schedule", len(o.res.Trace))
	c.Max("preemptions_per_schedule", o.res.Preemptions)
	for _, e := range o.otherErr {
		c.Distinct("other_acquire_errors", e)
	}
	for _, e := range o.relErr {
		c.Distinct("release_errors", e)
	}
	for _, st := range o.res.Trace {
		c.Distinct("sites", st.Site)
	}
	if !local[o.res.Hash] {
		local[o.res.Hash] = true
		c.Distinct("interleavings", fmt.Sprintf("%x", o.res.Hash))
		// contention really happened: somebody was refused, or the lock changed hands
		owners := map[int]bool{}
		for _, e := range o.evs {
			if e.Kind == "acquired" {
				owners[e.W] = true
			}
		}
		if o.failedUse > 0 || len(owners) > 1 {
			c.Nontrivial(fmt.Sprintf("%d/%d/%x", sc.Workers, sc.Rounds, o.res.Hash))
		}
	}
	if o.maxHold > 1 {
		ctx := context(o.evs)
		sig := "C33|two-holders|" + ctx
		if !reported[sig] {
			reported[sig] = true
			c.Violation(sig, fmt.Sprintf("%d contenders held the directory lock at the same time (in-process contenders, one FaultFS each)", o.maxHold),
				map[string]any{"mode": mode, "scenario": sc, "executed_schedule": traceString(o.res.Trace), "events": o.evs})
		}
		c.Count("schedules_with_two_holders", 1)
	}
}

func tiers(tier string) (random, perCase, dfs, procs int) {
	if tier == "thorough" {
		return 128, 150, 16, 24
	}
	return 64, 30, 0, 0
}

func run(c *core.Case) {
	nRand, perCase, nDFS, _ := tiers(c.Tier)
	base := c.TempDir()
	reported := map[string]bool{}
	n := 0
	fresh := func() string {
		n++
		return filepath.Join(base, fmt.Sprintf("s%d", n))
	}
	switch {
	case c.Idx < nRand:
		sc := scenario{Workers: 2 + c.Rng.Intn(2), Rounds: 2 + c.Rng.Intn(2)}
		local := map[uint64]bool{}
		for k := 0; k < perCase; k++ {
			var ch sched.Chooser
			switch k % 3 {
			case 0:
				ch = sched.NewPCT(c.Rng, sc.Workers, 1+c.Rng.Intn(3), 40)
			case 1:
				ch = &sched.Random{Rng: c.Rng, Stay: 0.6}
			default:
				ch = &sched.Random{Rng: c.Rng, Stay: 0.25}
			}
			d := fresh()
			o := runOne(d, sc, ch)
			_ = os.RemoveAll(d)
			account(c, sc, o, local, "pct/random", reported)
		}
		c.Count("distinct_interleavings", len(local))
		if c.Idx < 2 {
			c.Sample(map[string]any{"scenario": sc, "schedules": perCase})
		}
	case c.Idx < nRand+nDFS:
		sc := scenario{Workers: 2, Rounds: 1 + c.Idx%2}
		if c.Idx%4 == 3 {
			sc = scenario{Workers: 3, Rounds: 1}
		}
		local := map[uint64]bool{}
		runs, exhausted := sched.Explore(3, 6000, func(ch *sched.Prefix) (sched.Result, bool) {
			d := fresh()
			o := runOne(d, sc, ch)
			_ = os.RemoveAll(d)
			account(c, sc, o, local, "dfs", reported)
			return o.res, true
		})
		c.Count("dfs_runs", runs)
		if exhausted {
			c.Count("dfs_scripts_exhausted_at_3_preemptions", 1)
		}
		c.Count("distinct_interleavings", len(local))
	default:
		runProcs(c, base)
	}
}

// ---------------------------------------------------------------------------
// real processes (thorough)

const (
	shHolders = 0 // int32: current holders
	shMax     = 1 // int32: maximum seen
	shTicket  = 2 // int64 (slots 2,3): global ticket counter
)

func mapShared(path string, create bool) ([]byte, error) {
	flags := os.O_RDWR
	if create {
		flags |= os.O_CREATE | os.O_TRUNC
	}
	f, err := os.OpenFile(path, flags, 0o644)
	if err != nil {
		return nil, err
	}
	defer f.Close()
	if create {
		if err := f.Truncate(4096); err != nil {
			return nil, err
		}
	}
	return syscall.Mmap(int(f.Fd()), 0, 4096, syscall.PROT_READ|syscall.PROT_WRITE, syscall.MAP_SHARED)
}

func sh32(mem []byte, slot int) *int32 { return (*int32)(unsafe.Pointer(&mem[slot*4])) }
func sh64(mem []byte, slot int) *int64 { return (*int64)(unsafe.Pointer(&mem[slot*4])) }

// procMain: vcheck worker c33proc <dir> <shared> <seed> <id> <rounds> <mode> <log>
func procMain(args []string) int {
	if len(args) < 7 {
		return 2
	}
	dir, shared := args[0], args[1]
	seed, _ := strconv.ParseInt(args[2], 10, 64)
	id, _ := strconv.Atoi(args[3])
	rounds, _ := strconv.Atoi(args[4])
	mode, logPath := args[5], args[6]
	mem, err := mapShared(shared, false)
	if err != nil {
		fmt.Fprintln(os.Stderr, err)
		return 2
	}
	rng := rand.New(rand.NewSource(seed))
	var evs []ev
	var emu sync.Mutex
	log := func(e ev) {
		e.W = id
		e.Seq = atomic.AddInt64(sh64(mem, shTicket), 1)
		emu.Lock()
		evs = append(evs, e)
		emu.Unlock()
	}
	var rmu sync.Mutex
	nap := func() {
		rmu.Lock()
		d := time.Duration(rng.Intn(1500)) * time.Microsecond
		if rng.Intn(3) == 0 {
			d = 0
		}
		rmu.Unlock()
		time.Sleep(d)
	}
	fs := vfs.NewFaultFS(vfs.OSFS{}, func(op vfs.Op, path string) error {
		if name := lockOp(op, path); name != "" {
			nap()
			log(ev{Kind: name})
		}
		return nil
	})
	utils.VerifSetYield(func(site string) {
		if strings.HasPrefix(site, "dirlock.") {
			nap()
			log(ev{Kind: strings.TrimPrefix(site, "dirlock.before-")})
		}
	})
	for round := 0; round < rounds; round++ {
		nap()
		var release func() error
		if mode == "db" {
			o := dbx.Config{Engine: "skiplist", ValueThreshold: 1024, Buckets: 1, VlogFileSize: 1 << 20, MemTableSize: 1 << 20, L0Tables: 1000, ManifestRewrite: 64 << 20}.Options(dir)
			o.FS = fs
			db, err := dbx.Open(o)
			if err != nil {
				log(ev{Kind: "failed", Err: firstLine(err.Error())})
				continue
			}
			release = db.Close
		} else {
			l, err := utils.AcquireDirLock(dir, fs)
			if err != nil {
				log(ev{Kind: "failed", Err: err.Error()})
				continue
			}
			release = l.Release
		}
		n := atomic.AddInt32(sh32(mem, shHolders), 1)
		for {
			m := atomic.LoadInt32(sh32(mem, shMax))
			if n <= m || atomic.CompareAndSwapInt32(sh32(mem, shMax), m, n) {
				break
			}
		}
		log(ev{Kind: "acquired", N: n})
		nap()
		atomic.AddInt32(sh32(mem, shHolders), -1)
		log(ev{Kind: "release"})
		if err := release(); err != nil {
			log(ev{Kind: "release-error", Err: firstLine(err.Error())})
		}
		log(ev{Kind: "released"})
	}
	b, _ := json.Marshal(evs)
	if err := os.WriteFile(logPath, b, 0o644); err != nil {
		return 2
	}
	return 0
}

func firstLine(s string) string {
	if i := strings.IndexByte(s, '\n'); i >= 0 {
		s = s[:i]
	}
	if len(s) > 200 {
		s = s[:200]
	}
	return s
}

var _ = NoKV.Open

func runProcs(c *core.Case, base string) {
	mode := "dirlock"
	rounds := 60
	if c.Idx%4 == 3 {
		mode, rounds = "db", 6
	}
	dir := filepath.Join(base, "wd")
	shared := filepath.Join(base, "shared")
	mem, err := mapShared(shared, true)
	if err != nil {
		c.Inconclusive("shared memory: " + err.Error())
		return
	}
	defer syscall.Munmap(mem)
	const nproc = 3
	var cmds []*exec.Cmd
	var logs []string
	for p := 0; p < nproc; p++ {
		lp := filepath.Join(base, fmt.Sprintf("log%d.json", p))
		logs = append(logs, lp)
		cmd := exec.Command(core.SelfExe(), "worker", "c33proc", dir, shared, strconv.FormatInt(c.Rng.Int63(), 10), strconv.Itoa(p), strconv.Itoa(rounds), mode, lp)
		cmd.Stderr = os.Stderr
		if err := cmd.Start(); err != nil {
			c.Inconclusive("cannot start contender process: " + err.Error())
			return
		}
		cmds = append(cmds, cmd)
	}
	died := false
	for _, cmd := range cmds {
		done := make(chan error, 1)
		go func() { done <- cmd.Wait() }()
		select {
		case err := <-done:
			if err != nil {
				died = true
				c.Count("contender_process_failures", 1)
				c.Distinct("contender_process_failure", err.Error())
			}
		case <-time.After(5 * time.Minute):
			_ = cmd.Process.Kill()
			c.Inconclusive("contender process watchdog")
			return
		}
	}
	var evs []ev
	for _, lp := range logs {
		b, err := os.ReadFile(lp)
		if err != nil {
			continue
		}
		var l []ev
		if json.Unmarshal(b, &l) == nil {
			evs = append(evs, l...)
		}
	}
	sort.Slice(evs, func(a, b int) bool { return evs[a].Seq < evs[b].Seq })
	acq, refused := 0, 0
	owners := map[int]bool{}
	for _, e := range evs {
		switch e.Kind {
		case "acquired":
			acq++
			owners[e.W] = true
		case "failed":
			refused++
			if !strings.Contains(e.Err, "already in use") {
				c.Distinct("other_acquire_errors", e.Err)
			}
		case "release-error":
			c.Distinct("release_errors", e.Err)
		}
	}
	c.Count("evaluations", 1)
	c.Count("process_runs."+mode, 1)
	c.Count("process_acquisitions_succeeded", acq)
	c.Count("process_acquisitions_refused", refused)
	if refused > 0 && len(owners) > 1 {
		c.Nontrivial(fmt.Sprintf("procs/%s/%d/%d", mode, acq, refused))
	}
	max := atomic.LoadInt32(sh32(mem, shMax))
	if max > 1 {
		ctx := context(evs)
		// keep the part of the log around the first two-holder observation
		at := 0
		for i, e := range evs {
			if e.Kind == "acquired" && e.N > 1 {
				at = i
				break
			}
		}
		from, to := at-300, at+40
		if from < 0 {
			from = 0
		}
		if to > len(evs) {
			to = len(evs)
		}
		c.Violation("C33|two-holders|"+ctx, fmt.Sprintf("%d processes held the working directory at the same time (mode %s)", max, mode),
			map[string]any{"mode": "processes/" + mode, "events": evs[from:to]})
	} else if died && mode == "db" {
		c.Inconclusive("a contender process died while opening/closing the database without a two-holder observation")
	}
}

func init() {
	core.RegisterWorker("c33proc", procMain)
	core.Register(&core.Check{
		ID:    "C33",
		Level: "exploration",
		Rule: "one case = 2-3 in-process contenders x 2-3 rounds of AcquireDirLock/hold/Release on one directory, each through its own vfs.FaultFS whose hook parks before open/close/remove/stat of LOCK, plus the lock code's own yield sites before its two flock calls; " +
			"quick 64 cases x 30 PCT(depth 1-3)/random schedules of the token-passing scheduler; thorough 128 x 150, plus bounded-preemption DFS (<=3 preemptions, <=6000 runs) on 16 small scripts, plus 24 runs of 3 real processes " +
			"(AcquireDirLock loops, every 4th run full NoKV.Open/Close) with seeded sleeps at the same points and a shared-memory holder counter; evaluations = executed schedules; " +
			"distinct/non-trivial = distinct executed (contender,site) sequences in which a contender was refused or the lock changed hands",
		Assumptions: []string{
			"'holds the directory' is bracketed conservatively: from after AcquireDirLock/Open returned success until just before Release/Close is called",
			"in-process contenders stand for separate opens: flock locks belong to the open file description, so two opens in one process conflict exactly like two processes",
		},
		Cases: func(tier string) int {
			a, _, d, p := tiers(tier)
			return a + d + p
		},
		Run: run,
		Finish: func(a *core.Agg) {
			a.Floor("evaluations", 1000)
			a.Floor("acquisitions_refused_in_use", 200)
			a.Floor("interleavings", 300)
			a.FloorNontrivial(200)
		},
	})
}
