// Package checks links every property check into the vcheck binary.
package checks

import (
	_ "verif/harness/checks/c38"
)
