// Package c21: persisted raft state and log survive a process crash.
//
// A worker child opens a real NoKV.DB and a WAL-backed raft storage wired as
// raftstore/server does (engine.OpenWALStorage over db.WAL()/db.Manifest()),
// runs a scripted sequence of SetHardState / Append (with conflicting
// overwrites) / ApplySnapshot / MaybeCompact calls interleaved with plain DB
// writes (so WAL segments switch with memtable rotation), logging CALL/ACK per
// step, and is SIGKILLed before the N-th durable file operation or right after
// step k was acknowledged ("persisted", after which a peer sends messages). A
// fresh process reopens and reports hard state and log; the parent compares
// with the model of the acknowledged steps.
package c21

import (
	"bytes"
	"encoding/json"
	"errors"
	"fmt"
	"math/rand"
	"os"
	"os/exec"
	"path/filepath"
	"sort"
	"strconv"
	"strings"
	"syscall"
	"time"

	NoKV "github.com/feichai0017/NoKV"
	myraft "github.com/feichai0017/NoKV/raft"
	"github.com/feichai0017/NoKV/raftstore/engine"
	"github.com/feichai0017/NoKV/utils"
	"github.com/feichai0017/NoKV/vfs"
	"github.com/feichai0017/NoKV/wal"
	"verif/harness/internal/core"
	"verif/harness/internal/crash"
	"verif/harness/internal/dbx"
)

type step struct {
	Kind    string `json:"kind"` // hs | append | snap | compact | dbwrite
	Term    uint64 `json:"term,omitempty"`
	Vote    uint64 `json:"vote,omitempty"`
	Commit  uint64 `json:"commit,omitempty"`
	Index   uint64 `json:"index,omitempty"` // first index of an append / snapshot index / compact applied index
	N       int    `json:"n,omitempty"`
	ETerm   uint64 `json:"eterm,omitempty"`
	DataLen int    `json:"dlen,omitempty"`
	Group   uint64 `json:"group,omitempty"`
}

type script struct {
	Mode  string `json:"mode,omitempty"` // "" = C21, "c36" = two groups + watchdog + WAL sync after every step
	Seed  int64  `json:"seed"`
	Steps []step `json:"steps"`
}

// model of the raft state after a prefix of steps
type mstate struct {
	Term, Vote, Commit uint64
	Log                map[uint64][2]uint64 // index -> (term, data id = step index)
	Last               uint64
	SnapIndex          uint64
	Compacted          uint64 // entries at or below this index were compacted away by MaybeCompact
}

type gstate struct{ term, vote, commit, last, snap uint64 }

func gen(seed int64, n int, pure bool, mode string) script {
	rng := rand.New(rand.NewSource(seed))
	s := script{Seed: seed, Mode: mode}
	groups := map[uint64]*gstate{1: {term: 1}}
	if mode == "c36" {
		groups[2] = &gstate{term: 1}
	}
	for i := 0; i < n; i++ {
		gid := uint64(1)
		if mode == "c36" && rng.Intn(2) == 0 {
			gid = 2
		}
		g := groups[gid]
		r := rng.Intn(100)
		if mode == "c36" && r >= 90 {
			s.Steps = append(s.Steps, step{Kind: "watchdog"})
			continue
		}
		switch {
		case r < 22:
			if rng.Intn(3) == 0 {
				g.term += uint64(1 + rng.Intn(2))
				g.vote = uint64(1 + rng.Intn(3))
			}
			if g.commit < g.last {
				g.commit += uint64(rng.Intn(int(g.last-g.commit) + 1))
			}
			s.Steps = append(s.Steps, step{Kind: "hs", Group: gid, Term: g.term, Vote: g.vote, Commit: g.commit})
		case r < 58:
			first := g.last + 1
			eterm := g.term
			if g.last > g.commit+1 && rng.Intn(4) == 0 {
				// conflicting overwrite of an uncommitted suffix with a higher term
				first = g.commit + 1 + uint64(rng.Intn(int(g.last-g.commit)))
				g.term++
				eterm = g.term
			}
			cnt := 1 + rng.Intn(4)
			s.Steps = append(s.Steps, step{Kind: "append", Group: gid, Index: first, N: cnt, ETerm: eterm, DataLen: []int{0, 16, 200, 3000}[rng.Intn(4)]})
			g.last = first + uint64(cnt) - 1
		case r < 64:
			if g.last > 0 {
				// a snapshot ahead of the log (as a lagging follower receives it):
				// the log restarts right after it
				idx := g.last + 1 + uint64(rng.Intn(3))
				s.Steps = append(s.Steps, step{Kind: "snap", Group: gid, Index: idx, ETerm: g.term})
				g.snap, g.last, g.commit = idx, idx, idx
				continue
			}
			fallthrough
		case r < 74:
			if g.commit > g.snap+2 {
				s.Steps = append(s.Steps, step{Kind: "compact", Group: gid, Index: g.commit, N: 1 + rng.Intn(2)})
				continue
			}
			fallthrough
		default:
			if pure {
				// raft-only script: no memtable rotation, hence no WAL segment
				// removal; isolates raft durability from segment retention.
				i--
				continue
			}
			s.Steps = append(s.Steps, step{Kind: "dbwrite", N: 1 + rng.Intn(6), DataLen: []int{20, 400}[rng.Intn(2)]})
		}
	}
	return s
}

// modelAfter returns the per-group raft model and the number of DB keys written after p steps.
func modelAfter(s script, p int) (map[uint64]*mstate, int) {
	ms := map[uint64]*mstate{1: {Log: map[uint64][2]uint64{}}}
	if s.Mode == "c36" {
		ms[2] = &mstate{Log: map[uint64][2]uint64{}}
	}
	dbn := 0
	for i := 0; i < p && i < len(s.Steps); i++ {
		st := s.Steps[i]
		gid := st.Group
		if gid == 0 {
			gid = 1
		}
		m := ms[gid]
		switch st.Kind {
		case "dbwrite":
			dbn += st.N
		case "hs":
			m.Term, m.Vote, m.Commit = st.Term, st.Vote, st.Commit
		case "append":
			for idx := range m.Log {
				if idx >= st.Index {
					delete(m.Log, idx)
				}
			}
			for j := 0; j < st.N; j++ {
				m.Log[st.Index+uint64(j)] = [2]uint64{st.ETerm, uint64(i)}
			}
			m.Last = st.Index + uint64(st.N) - 1
		case "snap":
			m.SnapIndex = st.Index
			m.Log = map[uint64][2]uint64{}
			m.Last = st.Index
			if m.Commit < st.Index {
				m.Commit = st.Index
			}
		case "compact":
			if t := st.Index - uint64(st.N); st.Index > uint64(st.N) && t > m.Compacted {
				m.Compacted = t
			}
		}
	}
	return ms, dbn
}

func entryData(stepIdx int, index uint64, n int) []byte {
	return dbx.Value(fmt.Sprintf("e%d.%d|", stepIdx, index), max(n, 12))
}

func workerMain(args []string) int {
	if len(args) < 5 {
		return 2
	}
	dir, ackPath := args[0], args[1]
	var s script
	if err := json.Unmarshal([]byte(args[2]), &s); err != nil {
		return 2
	}
	killAt, _ := strconv.ParseInt(args[3], 10, 64)
	afterStep, _ := strconv.Atoi(args[4])
	dryOut := ""
	if len(args) > 5 {
		dryOut = args[5]
	}
	ack, err := os.OpenFile(ackPath, os.O_CREATE|os.O_WRONLY|os.O_APPEND, 0o644)
	if err != nil {
		return 2
	}
	line := func(x string) { _, _ = ack.Write([]byte(x + "\n")) }
	ctr := crash.NewCounter(killAt)
	o := options(dir)
	o.FS = vfs.NewFaultFS(vfs.OSFS{}, ctr.Hook)
	db := NoKV.Open(o)
	ws, err := engine.OpenWALStorage(engine.WALStorageConfig{GroupID: 1, WAL: db.WAL(), Manifest: db.Manifest()})
	if err != nil {
		line("OPENERR " + err.Error())
		return 3
	}
	var ws2 *engine.WALStorage
	var dog *wal.Watchdog
	if s.Mode == "c36" {
		ws2, err = engine.OpenWALStorage(engine.WALStorageConfig{GroupID: 2, WAL: db.WAL(), Manifest: db.Manifest()})
		if err != nil {
			line("OPENERR " + err.Error())
			return 3
		}
		// the database's own watchdog (enabled in options with an hour's interval: it only
		// evaluates when a "watchdog" step calls RunOnce)
		dog = db.VerifWALWatchdog()
		if dog == nil {
			line("OPENERR the database has no WAL watchdog")
			return 3
		}
	}
	line("OPENED")
	// the model term of existing entries is needed for snapshots
	termOf := map[uint64]uint64{}
	dbn := 0
	for i, st := range s.Steps {
		line(fmt.Sprintf("CALL %d", i))
		var err error
		cur := ws
		if st.Group == 2 && ws2 != nil {
			cur = ws2
		}
		switch st.Kind {
		case "watchdog":
			dog.RunOnce()
		case "hs":
			err = cur.SetHardState(myraft.HardState{Term: st.Term, Vote: st.Vote, Commit: st.Commit})
		case "append":
			var ents []myraft.Entry
			for j := 0; j < st.N; j++ {
				idx := st.Index + uint64(j)
				ents = append(ents, myraft.Entry{Index: idx, Term: st.ETerm, Data: entryData(i, idx, st.DataLen)})
				termOf[idx] = st.ETerm
			}
			err = cur.Append(ents)
		case "snap":
			var snap myraft.Snapshot
			snap.Metadata.Index = st.Index
			snap.Metadata.Term = st.ETerm
			snap.Metadata.ConfState.Voters = []uint64{1, 2, 3}
			snap.Data = []byte(fmt.Sprintf("snap-%d", st.Index))
			err = cur.ApplySnapshot(snap)
		case "compact":
			err = cur.MaybeCompact(st.Index, uint64(st.N))
		case "dbwrite":
			for j := 0; j < st.N && err == nil; j++ {
				dbn++
				err = db.Set([]byte(fmt.Sprintf("db-%05d", dbn)), dbx.Value(fmt.Sprintf("d%d|", dbn), st.DataLen))
			}
		}
		if err == nil && s.Mode == "c36" {
			// everything handed to the WAL so far reaches the kernel: a record
			// missing after the crash can only be explained by a removed segment
			err = db.WAL().Sync()
		}
		if err != nil {
			line(fmt.Sprintf("ERR %d %v", i, err))
		} else {
			if st.Kind != "dbwrite" && st.Kind != "compact" && st.Kind != "watchdog" {
				line(fmt.Sprintf("SEG %d %d", i, db.WAL().ActiveSegment()))
			}
			line(fmt.Sprintf("ACK %d", i))
		}
		if afterStep >= 0 && i == afterStep {
			_ = syscall.Kill(os.Getpid(), syscall.SIGKILL)
			select {}
		}
	}
	line("CLOSING")
	_ = db.Close()
	line("DONE")
	if dryOut != "" && killAt == 0 {
		b, _ := json.Marshal(ctr.Result())
		_ = os.WriteFile(dryOut, b, 0o644)
	}
	return 0
}

func options(dir string) *NoKV.Options {
	cfg := dbx.Config{Engine: "skiplist", ValueThreshold: 1024, Buckets: 1, VlogFileSize: 1 << 20, ManifestRewrite: 2048, MemTableSize: 4 << 10, L0Tables: 4}
	o := cfg.Options(dir)
	o.NumCompactors = 1
	o.EnableWALWatchdog = true
	o.WALAutoGCInterval = time.Hour
	o.WALAutoGCMinRemovable = 1
	o.WALAutoGCMaxBatch = 4
	return o
}

type recGroup struct {
	RaftError  string               `json:"raft_error,omitempty"`
	Term       uint64               `json:"term"`
	Vote       uint64               `json:"vote"`
	Commit     uint64               `json:"commit"`
	FirstIndex uint64               `json:"first"`
	LastIndex  uint64               `json:"last"`
	Log        map[string][2]string `json:"log"` // index -> (term, data head)
	SnapIndex  uint64               `json:"snap_index"`
}

type recovered struct {
	OpenError   string                `json:"open_error,omitempty"`
	Groups      map[string]*recGroup  `json:"groups"`
	WalSegments []int                 `json:"wal_segments"`
	DB          map[string]string     `json:"db,omitempty"` // key -> value head#len, "" absent, "ERR:..." error
}

func readGroup(db *NoKV.DB, gid uint64) (rg *recGroup) {
	rg = &recGroup{Log: map[string][2]string{}}
	defer func() {
		if r := recover(); r != nil {
			rg.RaftError = fmt.Sprintf("panic: %v", r)
		}
	}()
	ws, err := engine.OpenWALStorage(engine.WALStorageConfig{GroupID: gid, WAL: db.WAL(), Manifest: db.Manifest()})
	if err != nil {
		rg.RaftError = err.Error()
		return rg
	}
	hs, _, err := ws.InitialState()
	if err != nil {
		rg.RaftError = "InitialState: " + err.Error()
		return rg
	}
	rg.Term, rg.Vote, rg.Commit = hs.Term, hs.Vote, hs.Commit
	fi, _ := ws.FirstIndex()
	li, _ := ws.LastIndex()
	rg.FirstIndex, rg.LastIndex = fi, li
	if li >= fi {
		ents, err := ws.Entries(fi, li+1, 1<<30)
		if err != nil {
			rg.RaftError = "Entries: " + err.Error()
			return rg
		}
		for _, e := range ents {
			h := e.Data
			if i := bytes.IndexByte(h, '|'); i >= 0 {
				h = h[:i+1]
			}
			rg.Log[strconv.FormatUint(e.Index, 10)] = [2]string{strconv.FormatUint(e.Term, 10), string(h)}
		}
	}
	if snap, err := ws.Snapshot(); err == nil {
		rg.SnapIndex = snap.Metadata.Index
	}
	return rg
}

// c21verify <dir> <out.json> <groups> <dbkeys>
func verifyMain(args []string) int {
	dir, outPath := args[0], args[1]
	ngroups, _ := strconv.Atoi(args[2])
	ndb, _ := strconv.Atoi(args[3])
	res := recovered{Groups: map[string]*recGroup{}}
	write := func() int {
		b, _ := json.Marshal(res)
		_ = os.WriteFile(outPath, b, 0o644)
		return 0
	}
	db, err := dbx.Open(options(dir))
	if err != nil {
		res.OpenError = err.Error()
		return write()
	}
	defer db.Close()
	// segments still present after the DB's own recovery, including the flush of the recovered
	// memtables (both may remove segments; the flush runs in the background after Open returns)
	db.VerifLSM().VerifWaitFlush(15 * time.Second)
	if files, err := filepath.Glob(filepath.Join(dir, "*.wal")); err == nil {
		for _, f := range files {
			if n, err := strconv.Atoi(strings.TrimSuffix(filepath.Base(f), ".wal")); err == nil {
				res.WalSegments = append(res.WalSegments, n)
			}
		}
	}
	for g := 1; g <= ngroups; g++ {
		res.Groups[strconv.Itoa(g)] = readGroup(db, uint64(g))
	}
	// A flush reports itself finished a moment before it removes its WAL segment, so a segment
	// listed above can still disappear while the raft storages are being read: only segments
	// that are also present now count as present.
	time.Sleep(50 * time.Millisecond)
	db.VerifLSM().VerifWaitFlush(15 * time.Second)
	if files, err := filepath.Glob(filepath.Join(dir, "*.wal")); err == nil {
		still := map[int]bool{}
		for _, f := range files {
			if n, err := strconv.Atoi(strings.TrimSuffix(filepath.Base(f), ".wal")); err == nil {
				still[n] = true
			}
		}
		kept := res.WalSegments[:0]
		for _, n := range res.WalSegments {
			if still[n] {
				kept = append(kept, n)
			}
		}
		res.WalSegments = kept
	}
	if ndb > 0 {
		res.DB = map[string]string{}
		for i := 1; i <= ndb; i++ {
			k := fmt.Sprintf("db-%05d", i)
			e, err := db.Get([]byte(k))
			switch {
			case err == nil:
				h := e.Value
				if j := bytes.IndexByte(h, '|'); j >= 0 {
					h = h[:j+1]
				}
				res.DB[k] = fmt.Sprintf("%s#%d", h, len(e.Value))
			case errors.Is(err, utils.ErrKeyNotFound):
				res.DB[k] = ""
			default:
				res.DB[k] = "ERR:" + err.Error()
			}
		}
	}
	return write()
}

func runChild(name string, args ...string) (error, string) {
	cmd := exec.Command(core.SelfExe(), append([]string{"worker", name}, args...)...)
	var buf bytes.Buffer
	cmd.Stdout, cmd.Stderr = &buf, &buf
	if err := cmd.Start(); err != nil {
		return err, ""
	}
	done := make(chan error, 1)
	go func() { done <- cmd.Wait() }()
	select {
	case err := <-done:
		return err, buf.String()
	case <-time.After(3 * time.Minute):
		_ = cmd.Process.Kill()
		<-done
		return errors.New("watchdog (3m) fired"), buf.String()
	}
}

func killed(err error) bool {
	var ee *exec.ExitError
	if errors.As(err, &ee) {
		if ws, ok := ee.Sys().(syscall.WaitStatus); ok && ws.Signaled() && ws.Signal() == syscall.SIGKILL {
			return true
		}
	}
	return false
}

const chunks = 4

// Run executes one case for property id ("C21" or "C36").
func Run(c *core.Case, id string) {
	mode := ""
	if id == "C36" {
		mode = "c36"
	}
	si, chunk := c.Idx/chunks, c.Idx%chunks
	n := 45
	if c.Thorough() {
		n = 90
	}
	pure := mode == "" && si%2 == 1
	s := gen(c.Seed*100+int64(si), n, pure, mode)
	ngroups := 1
	if mode == "c36" {
		ngroups = 2
	}
	sj, _ := json.Marshal(s)
	base := c.TempDir()
	// dry run
	dryDir := filepath.Join(base, "dry")
	_ = os.MkdirAll(dryDir, 0o755)
	dryOut := filepath.Join(base, "dry.json")
	if err, out := runChild("c21db", dryDir, filepath.Join(base, "dry.ack"), string(sj), "0", "-1", dryOut); err != nil {
		c.Inconclusive(fmt.Sprintf("dry run failed: %v: %s", err, tailStr(out)))
		return
	}
	var dr crash.DryResult
	b, _ := os.ReadFile(dryOut)
	_ = json.Unmarshal(b, &dr)
	_ = os.RemoveAll(dryDir)
	c.Max("file_ops_in_dry_run", int(dr.Total))
	type point struct {
		killAt    int64
		afterStep int
		stratum   string
	}
	var pts []point
	var names []string
	for k := range dr.Strata {
		names = append(names, k)
	}
	sort.Strings(names)
	per := 3
	if c.Thorough() {
		per = 10
	}
	seen := map[int64]bool{}
	for _, name := range names {
		ords := dr.Strata[name]
		k := min(per, len(ords))
		for j := 0; j < k; j++ {
			idx := 0
			if k > 1 {
				idx = j * (len(ords) - 1) / (k - 1)
			}
			if !seen[ords[idx]] {
				seen[ords[idx]] = true
				pts = append(pts, point{ords[idx], -1, name})
			}
		}
	}
	for k := 0; k < len(s.Steps); k++ { // every after-step point: "persisted, about to send"
		pts = append(pts, point{0, k, "after-step:" + s.Steps[k].Kind})
	}
	if chunk == 0 && si < 2 {
		c.Sample(map[string]any{"script_seed": s.Seed, "mode": mode, "pure_raft_script": pure, "first_steps": s.Steps[:min(8, len(s.Steps))], "file_ops": dr.Total, "crash_points": len(pts)})
	}
	for pi, p := range pts {
		if pi%chunks != chunk {
			continue
		}
		dir := filepath.Join(base, fmt.Sprintf("p%d", pi))
		_ = os.MkdirAll(dir, 0o755)
		ackPath := dir + ".ack"
		werr, wout := runChild("c21db", dir, ackPath, string(sj), strconv.FormatInt(p.killAt, 10), strconv.Itoa(p.afterStep), "")
		ack := crash.ReadAckLog(ackPath)
		raftSegs := map[int]bool{}
		newest := map[uint64]int{} // group -> WAL segment of its newest acknowledged raft record
		if ab, err := os.ReadFile(ackPath); err == nil {
			for _, ln := range strings.Split(string(ab), "\n") {
				var sidx, seg int
				if n, _ := fmt.Sscanf(ln, "SEG %d %d", &sidx, &seg); n == 2 {
					raftSegs[seg] = true
					if sidx >= 0 && sidx < len(s.Steps) {
						g := s.Steps[sidx].Group
						if g == 0 {
							g = 1
						}
						newest[g] = seg
					}
				}
			}
		}
		_ = os.Remove(ackPath)
		c.Count("evaluations", 1)
		died := killed(werr)
		if werr != nil && !died {
			c.Inconclusive(fmt.Sprintf("worker failed without kill: %v: %s", werr, tailStr(wout)))
			_ = os.RemoveAll(dir)
			continue
		}
		acked, called := ack.NumAcked(), ack.Called
		if !died {
			acked, called = len(s.Steps), len(s.Steps)
			c.Count("points_not_reached_clean_close", 1)
		} else {
			c.Count("crashes_executed", 1)
			c.Count("crash."+p.stratum, 1)
			c.Nontrivial(fmt.Sprintf("%d|%s|%d", s.Seed, p.stratum, acked))
		}
		mA, dbA := modelAfter(s, acked)
		mC, dbC := modelAfter(s, called)
		ndb := 0
		if mode == "c36" {
			ndb = dbC
		}
		outPath := dir + ".out.json"
		if keep := os.Getenv("C21_KEEP_IMAGES"); keep != "" {
			// debugging aid: keep a copy of every crash image
			_ = exec.Command("cp", "-r", dir, filepath.Join(keep, fmt.Sprintf("s%d-p%d", s.Seed, pi))).Run()
		}
		verr, vout := runChild("c21verify", dir, outPath, strconv.Itoa(ngroups), strconv.Itoa(ndb))
		var rec recovered
		rb, rerr := os.ReadFile(outPath)
		_ = os.Remove(outPath)
		_ = os.RemoveAll(dir)
		if rerr != nil {
			c.Inconclusive(fmt.Sprintf("verifier died: %v: %s", verr, tailStr(vout)))
			continue
		}
		_ = json.Unmarshal(rb, &rec)
		present := map[int]bool{}
		for _, n := range rec.WalSegments {
			present[n] = true
		}
		var missing []int
		for seg := range raftSegs {
			if !present[seg] {
				missing = append(missing, seg)
			}
		}
		sort.Ints(missing)
		detail := map[string]any{"pure_raft_script": pure, "wal_segments_with_acked_raft_records_missing_at_reopen": missing, "script_seed": s.Seed, "steps": s.Steps,
			"crash_point": map[string]any{"kill_at": p.killAt, "after_step": p.afterStep, "stratum": p.stratum}, "acked": acked, "called": called, "recovered": rec}
		ctx := "crash=" + p.stratum
		if len(missing) > 0 {
			// recorded finding: a WAL segment that held acknowledged, untruncated raft records
			// was removed (flush / recovery / watchdog) before the crash. The retention rule the
			// code does enforce protects every segment at or after the newest record of any
			// group; only the removal of an older segment is what the finding describes.
			protectedFrom := -1
			inflight := uint64(0) // group of a raft step that was called but not acknowledged: its pointer may have moved on
			if called > acked && called-1 < len(s.Steps) {
				if st := s.Steps[called-1]; st.Kind != "dbwrite" && st.Kind != "watchdog" {
					inflight = st.Group
					if inflight == 0 {
						inflight = 1
					}
				}
			}
			for g, seg := range newest {
				if g == inflight {
					continue
				}
				if protectedFrom < 0 || seg < protectedFrom {
					protectedFrom = seg
				}
			}
			ctx = "raft-wal-segment-removed"
			for _, seg := range missing {
				if protectedFrom >= 0 && seg >= protectedFrom {
					ctx = "raft-wal-segment-removed-at-or-after-a-newest-record"
				}
			}
			detail["segments_protected_from"] = protectedFrom
		}
		if rec.OpenError != "" {
			c.Violation(id+"|db-reopen-failed|"+ctx, rec.OpenError, detail)
			continue
		}
		bad := false
		for g := 1; g <= ngroups && !bad; g++ {
			rg := rec.Groups[strconv.Itoa(g)]
			ga, gc := mA[uint64(g)], mC[uint64(g)]
			if rg == nil {
				c.Inconclusive("verifier did not report a group")
				bad = true
				break
			}
			if rg.RaftError != "" {
				c.Violation(id+"|raft-storage-unrecoverable|"+ctx, fmt.Sprintf("group %d: reopening the raft storage after the crash failed: %s", g, rg.RaftError), detail)
				bad = true
				break
			}
			// hard state: term never goes backwards, vote unchanged within a term, commit not below acked
			okHS := func(m *mstate) bool {
				if rg.Term < m.Term {
					return false
				}
				if rg.Term == m.Term && rg.Vote != m.Vote {
					return false
				}
				return rg.Commit >= m.Commit || rg.Term > m.Term || rg.SnapIndex >= m.Commit
			}
			if id == "C21" && !okHS(ga) && !okHS(gc) {
				rule := "term-went-backwards"
				if rg.Term >= ga.Term {
					rule = "vote-or-commit-lost"
				}
				c.Violation("C21|hard-state|"+rule+"|"+ctx, fmt.Sprintf("group %d: recovered hard state term=%d vote=%d commit=%d but acknowledged term=%d vote=%d commit=%d", g, rg.Term, rg.Vote, rg.Commit, ga.Term, ga.Vote, ga.Commit), detail)
				bad = true
				break
			}
			// log: every acknowledged entry that the group has not truncated is present, overwrites winning
			okLog := func(m *mstate) string {
				if rg.LastIndex < m.Last {
					return fmt.Sprintf("group %d: recovered last index %d < acknowledged last index %d", g, rg.LastIndex, m.Last)
				}
				for idx, td := range m.Log {
					if idx <= m.SnapIndex || idx <= m.Compacted {
						continue
					}
					if id == "C21" && idx < rg.FirstIndex {
						continue
					}
					got, ok := rg.Log[strconv.FormatUint(idx, 10)]
					want := [2]string{strconv.FormatUint(td[0], 10), fmt.Sprintf("e%d.%d|", td[1], idx)}
					if !ok {
						return fmt.Sprintf("group %d: acknowledged entry %d (term %d) is not returned by Entries", g, idx, td[0])
					}
					if got != want {
						return fmt.Sprintf("group %d: entry %d recovered as term=%s data=%s, acknowledged term=%s data=%s", g, idx, got[0], got[1], want[0], want[1])
					}
				}
				return ""
			}
			if msgA, msgC := okLog(ga), okLog(gc); msgA != "" && msgC != "" {
				rule := "log|acked-entry-not-recovered"
				if id == "C36" {
					rule = "raft-entries-lost"
				}
				c.Violation(id+"|"+rule+"|"+ctx, msgA, detail)
				bad = true
			}
		}
		if bad {
			continue
		}
		if mode == "c36" {
			// every acknowledged plain write is readable (the WAL was synced after each step)
			lens := map[int]int{}
			k := 0
			for i := 0; i < called && i < len(s.Steps); i++ {
				if s.Steps[i].Kind == "dbwrite" {
					for j := 0; j < s.Steps[i].N; j++ {
						k++
						lens[k] = s.Steps[i].DataLen
					}
				}
			}
			for i := 1; i <= dbA; i++ {
				key := fmt.Sprintf("db-%05d", i)
				want := fmt.Sprintf("d%d|#%d", i, lens[i])
				if got := rec.DB[key]; got != want {
					memCtx := ctx
					if ctx != "raft-wal-segment-removed" {
						memCtx = "crash=" + p.stratum
					}
					c.Violation("C36|acked-write-lost|"+memCtx, fmt.Sprintf("key %s reads %q after the crash, acknowledged value %q (WAL was synced after the write)", key, got, want), detail)
					bad = true
					break
				}
			}
			if bad {
				continue
			}
		}
		c.Count("recoveries_checked", 1)
	}
}

func boolInt(b bool) int {
	if b {
		return 1
	}
	return 0
}

func tailStr(s string) string {
	if len(s) > 3000 {
		return s[:1500] + "\n...\n" + s[len(s)-1500:]
	}
	return s
}

func scriptsFor(tier string) int {
	if tier == "thorough" {
		return 16
	}
	return 4
}

func register(id, rule string) {
	core.Register(&core.Check{
		ID:          id,
		Level:       "fault_enumeration",
		Rule:        rule,
		Assumptions: []string{"process-crash model (bytes handed to the kernel survive)", "an acknowledged call is 'persisted' in the sense of peer.handleReady, which sends messages right after these calls return"},
		Cases:       func(tier string) int { return scriptsFor(tier) * chunks },
		Run:         func(c *core.Case) { Run(c, id) },
		Finish: func(a *core.Agg) {
			a.Floor("crashes_executed", 60)
			a.FloorNontrivial(30)
		},
	})
}

func init() {
	core.RegisterWorker("c21db", workerMain)
	core.RegisterWorker("c21verify", func(args []string) int { return verifyMain(args) })
	register("C21", "case = (script, chunk of crash points); script = 45 (quick) / 90 (thorough) seeded Ready-like steps on engine.WALStorage over a real DB's WAL and manifest: SetHardState (term/vote/commit growing), Append (incl. conflicting overwrites of an uncommitted suffix at a higher term, payloads 0..3000B), ApplySnapshot (ahead of the log), MaybeCompact, plain DB writes (4KiB memtable so WAL segments switch; every second script is raft-only so that durability is judged without segment removal); "+
		"crash points: per stratum (durable file op kind x file class from a dry run) first/middle/last ordinal, and a kill right after EVERY step was acknowledged (the moment a peer would send messages); real SIGKILL; a fresh process reopens DB + raft storage; "+
		"oracle: raft storage reopens; recovered term >= acknowledged term, vote unchanged within the term, commit not below acknowledged; every acknowledged entry above the recovered first index present with its term and payload (overwrite semantics), judged against the model after the acknowledged steps or after the one in-flight step; distinct = (script, stratum, acked count)")
	register("C36", "same crash enumeration as C21 over scripts that interleave plain writes, raft appends/hard states/snapshots/compactions of TWO raft groups sharing the DB's WAL, memtable rotations and flushes (4KiB memtable), and wal.Watchdog.RunOnce passes (configured as DB.Open does); db.WAL().Sync() after every step, so a record missing after the crash can only be explained by a removed segment; "+
		"oracle after reopen: every acknowledged plain write reads back, every acknowledged raft entry above the group's snapshot/compaction index is returned by Entries; distinct = (script, stratum, acked count)")
}
