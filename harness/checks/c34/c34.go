// Package c34: concurrent plain Set/Del/Get are linearizable per key; writes
// that report an error (throttled, too large, closed) have no effect.
//
// Monitor: E-hist. Several goroutines call DB.Set/Del/Get on a few keys of a
// real database; every call is wrapped by the hist recorder (call stamp before,
// return stamp after, one monotonic clock, every written value unique). The
// recorded history is checked offline per key with porcupine against a
// register model: failed writes are no-ops, writes cut off by Close stay
// open-ended; a close/reopen at the end adds one read per key that every
// rejected write must not show up in.
package c34

import (
	"bytes"
	"errors"
	"fmt"
	"runtime"
	"strings"
	"sync"
	"sync/atomic"
	"time"

	NoKV "github.com/feichai0017/NoKV"
	"github.com/feichai0017/NoKV/utils"
	"github.com/feichai0017/NoKV/vfs"
	"verif/harness/internal/core"
	"verif/harness/internal/dbx"
	"verif/harness/internal/hist"
)

type caseCfg struct {
	DB            dbx.Config    `json:"db"`
	HotKeyLimit   int32         `json:"write_hot_key_limit"`
	MaxBatchSize  int64         `json:"max_batch_size"`
	BatchWait     time.Duration `json:"write_batch_wait"`
	Goroutines    int           `json:"goroutines"`
	OpsPerClient  int           `json:"ops_per_client"`
	Keys          []string      `json:"keys"`
	CloseRace     bool          `json:"close_race"`
	TailWriters   int           `json:"tail_writers"`
	CloseAfterOps int           `json:"close_after_tail_ops"`
	// Rotator: a maintenance goroutine seals the active memtable again and again while the
	// history runs (LSM.Rotate, no waiting), so several sealed memtables holding the same keys
	// are in flight at once.
	Rotator bool `json:"rotator"`
	// WalFaultAt > 0: from the WalFaultAt-th write/sync of the memtable WAL after Open on, every
	// such operation fails with an injected I/O error; the history then ends with reads on the
	// live database (no Close race, no reopen).
	WalFaultAt int `json:"wal_fault_at,omitempty"`
}

var keyPool = []string{"ka", "kb", "kc", "kd"}

func draw(c *core.Case) caseCfg {
	rng := c.Rng
	cfg := caseCfg{}
	cfg.DB = dbx.Config{
		Engine:          []string{"skiplist", "art"}[rng.Intn(2)],
		ValueThreshold:  []int64{32, 1024}[rng.Intn(2)],
		Buckets:         []int{1, 3}[rng.Intn(2)],
		VlogFileSize:    1 << 20,
		HotRing:         rng.Intn(2) == 0,
		ManifestRewrite: 64 << 20,
		// Background compaction is paused (hook H3): every plain write carries
		// the same version, and the known same-version-tie findings (ingest
		// buffer, L0->L0 outputs, see known_findings.json / C01) would explain any
		// stale read once data leaves L0. Rotations and flushes into L0 do
		// happen inside the histories (tiny memtable).
		Controlled:   true,
		MemTableSize: []int64{8 << 10, 32 << 10, 1 << 20}[rng.Intn(3)],
		L0Tables:     1000,
	}
	if cfg.DB.HotRing {
		cfg.HotKeyLimit = []int32{6, 16, 40}[rng.Intn(3)]
	}
	if cfg.DB.ValueThreshold == 1024 && rng.Intn(2) == 0 {
		cfg.MaxBatchSize = 600
	}
	if rng.Intn(2) == 0 {
		cfg.BatchWait = 200 * time.Microsecond
	}
	cfg.Goroutines = 3 + rng.Intn(6) // 3..8
	cfg.OpsPerClient = 15 + rng.Intn(26)
	if c.Thorough() {
		cfg.OpsPerClient = 20 + rng.Intn(21)
	}
	nk := 1 + rng.Intn(4)
	perm := rng.Perm(len(keyPool))
	for i := 0; i < nk; i++ {
		cfg.Keys = append(cfg.Keys, keyPool[perm[i]])
	}
	cfg.CloseRace = rng.Intn(2) == 0
	cfg.TailWriters = 2 + rng.Intn(3)
	cfg.CloseAfterOps = rng.Intn(8)
	cfg.Rotator = c.Idx%3 == 1
	if c.Idx%12 == 7 {
		cfg.WalFaultAt = 2 + rng.Intn(24)
		cfg.DB.SyncWrites = true
		cfg.DB.MemTableSize = 4 << 20
		cfg.CloseRace, cfg.Rotator = false, false
	}
	return cfg
}

func (cfg caseCfg) options(dir string) *NoKV.Options {
	o := cfg.DB.Options(dir)
	o.WriteHotKeyLimit = cfg.HotKeyLimit
	o.HotWriteBurstThreshold = 0
	if cfg.DB.HotRing {
		o.HotWriteBurstThreshold = 4
	}
	if cfg.MaxBatchSize > 0 {
		o.MaxBatchSize = cfg.MaxBatchSize
	}
	o.WriteBatchWait = cfg.BatchWait
	return o
}

func valueOf(id string, size int) []byte {
	b := dbx.Value(id+"|", size)
	if len(b) < len(id)+1 {
		b = []byte(id + "|")
	}
	return b
}

func idOf(v []byte) string {
	if i := bytes.IndexByte(v, '|'); i >= 0 {
		return string(v[:i])
	}
	h := v
	if len(h) > 12 {
		h = h[:12]
	}
	return fmt.Sprintf("?%x/%d", h, len(v))
}

// classify maps a write error to (status, class): the three errors the
// property names are "failed" (must have no effect); anything else leaves the
// operation open.
func classify(err error) (hist.Status, string) {
	switch {
	case err == nil:
		return hist.OK, ""
	case errors.Is(err, utils.ErrHotKeyWriteThrottle):
		return hist.Failed, "throttled: " + err.Error()
	case errors.Is(err, utils.ErrTxnTooBig):
		return hist.Failed, "too big: " + err.Error()
	case errors.Is(err, utils.ErrBlockedWrites), errors.Is(err, utils.ErrDBClosed):
		return hist.Failed, "closed: " + err.Error()
	}
	return hist.Open, "other: " + err.Error()
}

func doSet(db *NoKV.DB, cl *hist.RegClient, key, id string, size int) hist.RegOp {
	val := valueOf(id, size)
	return cl.Do(hist.RegSet, key, id, func() (hist.Status, string, string) {
		st, e := classify(db.Set([]byte(key), val))
		return st, "", e
	})
}

func doDel(db *NoKV.DB, cl *hist.RegClient, key string) hist.RegOp {
	return cl.Do(hist.RegDel, key, "", func() (hist.Status, string, string) {
		st, e := classify(db.Del([]byte(key)))
		return st, "", e
	})
}

func doGet(db *NoKV.DB, cl *hist.RegClient, key string) hist.RegOp {
	return cl.Do(hist.RegGet, key, "", func() (hist.Status, string, string) {
		e, err := db.Get([]byte(key))
		switch {
		case err == nil:
			return hist.OK, idOf(e.Value), ""
		case errors.Is(err, utils.ErrKeyNotFound):
			return hist.OK, "", ""
		}
		return hist.Open, "", "get error: " + err.Error()
	})
}

// panicClass strips numbers from a panic text so that it can be part of a signature.
func panicClass(e string) string {
	e = strings.TrimPrefix(e, "panic: ")
	e = strings.Map(func(r rune) rune {
		if r >= '0' && r <= '9' {
			return -1
		}
		return r
	}, e)
	if i := strings.IndexByte(e, '('); i > 0 {
		e = strings.TrimSpace(e[:i])
	}
	if len(e) > 60 {
		e = e[:60]
	}
	return e
}

var errInjectedIO = errors.New("injected: input/output error")

func run(c *core.Case) {
	cfg := draw(c)
	dir := c.TempDir()
	o := cfg.options(dir)
	var walOps, walFailed atomic.Int64
	var armed atomic.Bool
	if cfg.WalFaultAt > 0 {
		o.FS = vfs.NewFaultFS(vfs.OSFS{}, func(op vfs.Op, path string) error {
			if !armed.Load() || !strings.HasSuffix(path, ".wal") || (op != vfs.OpFileWrite && op != vfs.OpFileSync) {
				return nil
			}
			if walOps.Add(1) >= int64(cfg.WalFaultAt) {
				walFailed.Add(1)
				return errInjectedIO
			}
			return nil
		})
	}
	db, err := dbx.Open(o)
	if err != nil {
		c.Violation("C34|open-failed|fresh", err.Error(), cfg)
		return
	}
	db.VerifLSM().VerifSetCompactionPaused(true)
	armed.Store(true)
	rec := hist.NewRegRecorder()
	sizes := []int{12, 40, 200, 700, 1500}
	var wg sync.WaitGroup
	var start sync.WaitGroup
	var ioStopped atomic.Int64
	start.Add(1)
	type plan struct {
		kind hist.RegKind
		key  string
		size int
		yld  bool
	}
	// The operation lists are drawn up front from the case PRNG (fixed by the seed).
	for g := 0; g < cfg.Goroutines; g++ {
		var ops []plan
		for i := 0; i < cfg.OpsPerClient; i++ {
			p := plan{key: cfg.Keys[c.Rng.Intn(len(cfg.Keys))], size: sizes[c.Rng.Intn(len(sizes))], yld: c.Rng.Intn(4) == 0}
			switch r := c.Rng.Intn(100); {
			case r < 45:
				p.kind = hist.RegSet
			case r < 55:
				p.kind = hist.RegDel
			default:
				p.kind = hist.RegGet
			}
			ops = append(ops, p)
		}
		cl := rec.Client()
		wg.Add(1)
		go func(g int, ops []plan) {
			defer wg.Done()
			start.Wait()
			for i, p := range ops {
				var op hist.RegOp
				switch p.kind {
				case hist.RegSet:
					op = doSet(db, cl, p.key, fmt.Sprintf("w%d.%d", g, i), p.size)
				case hist.RegDel:
					op = doDel(db, cl, p.key)
				default:
					op = doGet(db, cl, p.key)
				}
				if cfg.WalFaultAt > 0 && op.Status == hist.Open && p.kind != hist.RegGet {
					// the device is gone: every further write would have an unknown outcome
					// (one open-ended write per client keeps the history checkable)
					ioStopped.Add(1)
					return
				}
				if p.yld {
					runtime.Gosched()
				}
			}
		}(g, ops)
	}
	c.Count("clients_stopped_at_first_io_error", 0)
	rotStop := make(chan struct{})
	var rotWG sync.WaitGroup
	if cfg.Rotator {
		rotWG.Add(1)
		go func() {
			defer rotWG.Done()
			start.Wait()
			n := 0
			for {
				select {
				case <-rotStop:
					c.Count("rotator_memtable_seals", n)
					return
				default:
				}
				db.VerifLSM().Rotate()
				n++
				if im := db.VerifLSM().VerifLayout().Immutables; im >= 2 {
					c.Count("rotator_saw_2plus_sealed_memtables", 1)
				}
				time.Sleep(150 * time.Microsecond)
			}
		}()
	}
	start.Done()
	wg.Wait()
	close(rotStop)
	rotWG.Wait()

	closeErr := error(nil)
	var closeCallAt atomic.Int64
	var closeCalled atomic.Bool
	layoutBefore := ""
	if cfg.WalFaultAt > 0 {
		// I/O-fault flavour: what was acknowledged must be readable on the live database,
		// what was refused with the I/O error has an unknown outcome.
		armed.Store(false)
		fin := rec.Client()
		for _, k := range cfg.Keys {
			doGet(db, fin, k)
		}
		func() {
			defer func() { _ = recover() }()
			_ = db.Close()
		}()
		layoutBefore = "live-after-io-fault"
		c.Count("cases_with_wal_io_fault", 1)
		c.Count("wal_ops_failed", int(walFailed.Load()))
		c.Count("clients_stopped_at_first_io_error", int(ioStopped.Load()))
	}
	// Tail: writers keep writing while Close runs (only writes race Close; the
	// property names "closed" as a write error, reads on a closing DB are not
	// part of the statement).
	if cfg.WalFaultAt > 0 {
		// already closed above
	} else if cfg.CloseRace {
		var tailOps atomic.Int64
		var twg sync.WaitGroup
		for w := 0; w < cfg.TailWriters; w++ {
			cl := rec.Client()
			var keys []string
			var szs []int
			for i := 0; i < 12; i++ {
				keys = append(keys, cfg.Keys[c.Rng.Intn(len(cfg.Keys))])
				szs = append(szs, sizes[c.Rng.Intn(len(sizes))])
			}
			twg.Add(1)
			go func(w int) {
				defer twg.Done()
				for i := range keys {
					op := doSet(db, cl, keys[i], fmt.Sprintf("t%d.%d", w, i), szs[i])
					tailOps.Add(1)
					if op.Panicked || op.Status == hist.Failed && hist.ErrClassOf(op.Err) == "closed" {
						return
					}
				}
			}(w)
		}
		for spins := 0; tailOps.Load() < int64(cfg.CloseAfterOps) && spins < 1_000_000; spins++ {
			runtime.Gosched()
		}
		closeCallAt.Store(rec.Clock.Now())
		closeCalled.Store(true)
		closeErr = db.Close()
		twg.Wait()
	} else {
		closeErr = db.Close()
	}
	if closeErr != nil {
		c.Count("close_errors", 1)
		c.Distinct("close_error_texts", closeErr.Error())
	}

	// Reopen and read every key once: rejected writes must not have surfaced.
	if cfg.WalFaultAt == 0 {
		db2, err := dbx.Open(cfg.options(dir))
		if err != nil {
			c.Violation("C34|reopen-failed", err.Error(), map[string]any{"config": cfg})
			return
		}
		db2.VerifLSM().VerifSetCompactionPaused(true)
		layoutBefore = dbx.LayoutShape(db2)
		fin := rec.Client()
		for _, k := range cfg.Keys {
			doGet(db2, fin, k)
		}
		_ = db2.Close()
	}

	ops := rec.Ops()
	res := hist.CheckRegister(ops, 30*time.Second)
	c.Count("evaluations", res.KeysChecked)
	c.Count("keys_checked", res.KeysChecked)
	c.Count("ops_checked", res.OpsChecked)
	c.Count("reads_overlapping_a_write", res.OverlapReads)
	c.Count("writes_overlapping_a_write", res.OverlapWrites)
	c.Distinct("layout_at_reopen", layoutBefore)
	nOpen, nClosed := 0, 0
	panicReported := map[string]bool{}
	for _, o := range ops {
		switch {
		case o.Status == hist.Failed:
			c.Count("failed_writes."+hist.ErrClassOf(o.Err), 1)
			if hist.ErrClassOf(o.Err) == "closed" {
				nClosed++
			}
		case o.Panicked:
			nClosed++
			c.Count("writes_that_panicked", 1)
			pc := panicClass(o.Err)
			if !panicReported[pc] {
				panicReported[pc] = true
				when := "main-phase"
				if closeCalled.Load() && o.Ret >= closeCallAt.Load() {
					when = "racing-close"
				}
				c.Violation("C34|write-panicked|"+when+"|"+pc, fmt.Sprintf("%s panicked instead of returning: %s", o.String(), o.Err), map[string]any{"config": cfg, "op": o.String(), "panic": o.Err})
			}
		case o.Status == hist.Open:
			nOpen++
			c.Count("open_ended_ops", 1)
			c.Distinct("open_ended_error_texts", o.Err)
		}
	}
	c.Count("cases_engine_"+cfg.DB.Engine, 1)
	if cfg.CloseRace {
		c.Count("cases_with_close_race", 1)
		if nClosed > 0 {
			c.Count("cases_where_close_rejected_a_write", 1)
		}
	}
	for _, k := range res.Unknown {
		c.Inconclusive("porcupine timed out on key " + k)
	}
	for _, f := range res.Findings {
		ctx := f.Class
		if f.ErrClass != "" {
			ctx += ":" + f.ErrClass
		}
		c.Violation("C34|non-linearizable|"+ctx, f.What, map[string]any{"config": cfg, "key": f.Key, "class": f.Class, "ops": f.Ops, "layout_at_reopen": layoutBefore})
	}
	if res.OverlapReads > 0 && res.OverlapWrites > 0 {
		var sb strings.Builder
		for _, o := range ops {
			if o.Kind == hist.RegGet {
				sb.WriteString(o.Key + "=" + o.Val + ";")
			}
		}
		c.Nontrivial(sb.String())
	}
	if c.Idx < 2 {
		var sample []string
		for i, o := range ops {
			if i >= 40 {
				break
			}
			sample = append(sample, o.String())
		}
		c.Sample(map[string]any{"config": cfg, "first_ops": sample, "total_ops": len(ops)})
	}
}

func init() {
	core.Register(&core.Check{
		ID:    "C34",
		Level: "exploration",
		Rule: "case = one short concurrent history on a fresh DB: 3-8 goroutines x 15-40 seeded ops (45% Set of a unique value, 10% Del, 45% Get) on 1-4 keys, option set drawn per case " +
			"(skiplist/ART, memtable 8KiB-1MiB so rotations+flushes happen inside the history, value sizes 12B-1.5KiB inline or in the value log, WriteHotKeyLimit 6/16/40 so hot-key throttling rejects writes, " +
			"MaxBatchSize 600 so too-large rejects writes, WriteBatchWait 0/200us; in every third case a maintenance goroutine seals the active memtable every 150us so that several sealed memtables with the same keys are in flight); in half of the cases 2-4 writers keep writing while Close runs; then reopen and read every key. One case in twelve runs on a vfs.FaultFS whose memtable-WAL writes/syncs fail from the k-th (2..25) on: it ends with reads on the live database instead (an acknowledged write must be there; a write refused with the I/O error has an unknown outcome). " +
			"Every call is stamped before/after from one monotonic clock; each key's history is checked with porcupine against a register model (failed writes = no-ops, unknown outcomes open-ended). " +
			"A case is non-trivial iff the timestamps show >=1 read overlapping a write and >=1 write overlapping a write on the same key; distinct = distinct sequences of read results",
		Assumptions: []string{
			"background compaction is paused (hook H3) so data stays in memtables and L0 flush tables: once two same-version entries of a key sit in the ingest buffer or in L0->L0 outputs the known C01 findings (same-version ties) would explain any stale read",
			"only writes race Close; reads on a closing DB are outside the statement",
			"a Get that returns an error other than not-found carries no information and is dropped from the history (counted)",
			"keys are not byte-prefix related (known ART zero-suffix finding is C01's)",
		},
		Race: true,
		Cases: func(tier string) int {
			if tier == "thorough" {
				return 4000
			}
			return 400
		},
		CaseTimeout: 3 * time.Minute,
		Run:         run,
		Finish: func(a *core.Agg) {
			a.FloorNontrivial(100)
			a.Floor("failed_writes.throttled", 20)
			a.Floor("failed_writes.too-big", 20)
			// writes rejected by Close either return the closed error or (known
			// finding) panic; both count as "Close rejected a write"
			a.Floor("cases_where_close_rejected_a_write", 20)
			a.Floor("reads_overlapping_a_write", 500)
		},
	})
}
