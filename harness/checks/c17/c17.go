// Package c17: transactional reads return the newest committed value visible at
// their timestamp (Percolator reads through raftstore/kv.Apply GET/SCAN).
//
// Engine: harness/internal/perco (shared with C18, C19). This check reports the
// C17 rule set: every GET at every timestamp of interest and SCAN windows are
// compared with the reference model after every request and maintenance action.
package c17

import (
	"verif/harness/internal/core"
	"verif/harness/internal/perco"
)

func init() {
	core.Register(&core.Check{
		ID:    "C17",
		Level: "exploration",
		Rule: perco.RuleCommon + " C17 oracle: GET(k,t) -> lock error iff the model holds a lock on k with start_ts <= t, else the newest committed put/delete with commit_ts <= t " +
			"(rollback and lock-only records skipped); SCAN == the GETs of the keys in range, in order, up to limit / first locked key. Swept over all keys x {start-1,start,commit-1,commit of every txn, max} after every maintenance action, " +
			"a sample after every request. Non-trivial case = some checked GET had to skip a rollback/lock-only record above a committed write, or a key's write column was spread over >=2 storage sources at a sweep; distinct = distinct request-kind traces",
		Assumptions:      perco.Assumptions,
		CrashIsViolation: true,
		Cases:            perco.Cases,
		Run:              func(c *core.Case) { perco.RunCase(c, "C17") },
		Finish: func(a *core.Agg) {
			a.FloorNontrivial(60)
			a.Floor("gets_skipping_rollback_record", 500)
			a.Floor("gets_skipping_lock_only_record", 40)
			a.Floor("gets_expect_locked", 5000)
			a.Floor("gets_expect_value", 3000)
			a.Floor("scans_expect_lock_error", 1000)
			perco.ActionFloors(a)
		},
	})
}
