// Package c37: operations and Close always finish (bounded progress).
//
// Monitor: every client call (Set, Del, Get, iterator scan, transaction commit,
// Close, calls after Close) is started on its own goroutine and must return —
// with a value, an error or a recovered panic. A call that is still running
// after the generous deadline is *inconclusive* unless the quiescence rule also
// holds: during a further observation window no engine progress indicator
// (completed client calls, compaction runs, flush queue, L0 table count) changes
// — then nothing can wake the call and it is reported as a violation.
package c37

import (
	"errors"
	"fmt"
	"runtime"
	"sync"
	"sync/atomic"
	"time"

	NoKV "github.com/feichai0017/NoKV"
	"github.com/feichai0017/NoKV/utils"
	"verif/harness/internal/core"
	"verif/harness/internal/dbx"
)

type scenario struct {
	Name       string
	Writers    int
	OpsPerW    int
	L0Tables   int
	MemTable   int64
	HotLimit   int32
	CloseAfter int // close the DB after this many completed writes (0 = after all)
	Txn        bool
	// DelayEnqueue: once the Close is near, writers pause for 1-4 ms at the yield
	// sites around the commit-queue push (between the closed check / ring push and
	// the queue-length increment), so Close and the commit worker run while
	// accepted requests are still on their way into the queue.
	DelayEnqueue bool
}

var scenarios = []scenario{
	{Name: "queue-saturation", Writers: 1500, OpsPerW: 3, L0Tables: 8, MemTable: 1 << 20},
	{Name: "l0-throttle-toggling", Writers: 32, OpsPerW: 120, L0Tables: 1, MemTable: 8 << 10},
	{Name: "hot-key-throttle", Writers: 16, OpsPerW: 200, L0Tables: 8, MemTable: 1 << 20, HotLimit: 8},
	{Name: "close-mid-stream", Writers: 400, OpsPerW: 20, L0Tables: 2, MemTable: 16 << 10, CloseAfter: 1500},
	{Name: "txn-commit-throttle", Writers: 64, OpsPerW: 40, L0Tables: 1, MemTable: 8 << 10, Txn: true},
	{Name: "txn-close-mid-stream", Writers: 200, OpsPerW: 20, L0Tables: 2, MemTable: 16 << 10, CloseAfter: 1000, Txn: true},
	{Name: "close-vs-delayed-enqueue", Writers: 200, OpsPerW: 20, L0Tables: 4, MemTable: 64 << 10, CloseAfter: 1200, DelayEnqueue: true},
	{Name: "txn-close-vs-delayed-enqueue", Writers: 100, OpsPerW: 20, L0Tables: 4, MemTable: 64 << 10, CloseAfter: 600, Txn: true, DelayEnqueue: true},
}

const (
	deadline    = 150 * time.Second
	quietWindow = 180 * time.Second
)

func run(c *core.Case) {
	sc := scenarios[c.Idx%len(scenarios)]
	rng := c.Rng
	cfg := dbx.Config{Engine: []string{"skiplist", "art"}[rng.Intn(2)], ValueThreshold: 64, Buckets: 1, VlogFileSize: 1 << 20, ManifestRewrite: 1 << 20,
		MemTableSize: sc.MemTable, L0Tables: sc.L0Tables, DetectConflicts: sc.Txn}
	o := cfg.Options(c.TempDir())
	o.WriteHotKeyLimit = sc.HotLimit
	o.NumCompactors = 2
	o.WriteBatchWait = 200 * time.Microsecond
	db, err := dbx.Open(o)
	if err != nil {
		c.Violation("C37|open-failed", err.Error(), cfg)
		return
	}
	var completed, inflight atomic.Int64
	var outcomes sync.Map // class -> count
	note := func(class string) {
		v, _ := outcomes.LoadOrStore(class, new(atomic.Int64))
		v.(*atomic.Int64).Add(1)
	}
	classify := func(err error) string {
		switch {
		case err == nil:
			return "ok"
		case errors.Is(err, utils.ErrBlockedWrites):
			return "blocked-writes"
		case errors.Is(err, utils.ErrHotKeyWriteThrottle):
			return "hot-key-throttled"
		case errors.Is(err, utils.ErrConflict):
			return "conflict"
		case errors.Is(err, utils.ErrKeyNotFound):
			return "not-found"
		case errors.Is(err, utils.ErrTxnTooBig):
			return "too-big"
		case errors.Is(err, utils.ErrDBClosed):
			return "db-closed"
		}
		return "other-error"
	}
	// call runs fn on the caller goroutine, recovering panics.
	call := func(kind string, fn func() error) {
		inflight.Add(1)
		defer inflight.Add(-1)
		defer func() {
			if r := recover(); r != nil {
				note(kind + ":panic-recovered")
				c.Distinct("panic_texts", fmt.Sprintf("%s: %.120v", kind, r))
			}
			completed.Add(1)
		}()
		note(kind + ":" + classify(fn()))
	}
	var wg sync.WaitGroup
	var writesDone atomic.Int64
	if sc.DelayEnqueue {
		var tick, delayed atomic.Int64
		utils.VerifSetYield(func(site string) {
			if site != "cq.enqueue.before-push" && site != "cq.enqueue.after-push" {
				return
			}
			if writesDone.Load() < int64(sc.CloseAfter)-int64(sc.Writers)/2 {
				return
			}
			n := tick.Add(1)
			if n%3 == 0 {
				return
			}
			delayed.Add(1)
			time.Sleep(time.Duration(1+n%4) * time.Millisecond)
		})
		defer func() {
			utils.VerifSetYield(nil)
			c.Count("enqueue_delays."+sc.Name, int(delayed.Load()))
		}()
	}
	closed := make(chan struct{})
	var closeOnce sync.Once
	doClose := func() {
		closeOnce.Do(func() {
			wg.Add(1)
			go func() {
				defer wg.Done()
				call("close", func() error { return db.Close() })
				close(closed)
			}()
		})
	}
	hot := []byte("hot-key")
	for w := 0; w < sc.Writers; w++ {
		wg.Add(1)
		go func(w int) {
			defer wg.Done()
			for i := 0; i < sc.OpsPerW; i++ {
				key := []byte(fmt.Sprintf("k-%04d-%04d", w, i))
				if sc.HotLimit > 0 && i%2 == 0 {
					key = hot
				}
				val := dbx.Value(fmt.Sprintf("%d.%d|", w, i), 100+(i%7)*40)
				if sc.Txn {
					call("commit", func() error {
						txn := db.NewTransaction(true)
						defer txn.Discard()
						if err := txn.Set(key, val); err != nil {
							return err
						}
						return txn.Commit()
					})
				} else if i%9 == 8 {
					call("del", func() error { return db.Del(key) })
				} else {
					call("set", func() error { return db.Set(key, val) })
				}
				if n := writesDone.Add(1); sc.CloseAfter > 0 && n == int64(sc.CloseAfter) {
					doClose()
				}
				if i%5 == 0 {
					if sc.Txn {
						call("txn-get", func() error {
							txn := db.NewTransaction(false)
							defer txn.Discard()
							_, err := txn.Get(key)
							return err
						})
					} else {
						call("get", func() error { _, err := db.Get(key); return err })
					}
				}
				if i%37 == 0 && !sc.Txn {
					call("iterate", func() error {
						it := db.NewIterator(&utils.Options{IsAsc: true})
						n := 0
						for it.Rewind(); it.Valid() && n < 50; it.Next() {
							n++
						}
						return it.Close()
					})
				}
			}
		}(w)
	}
	finished := make(chan struct{})
	go func() {
		wg.Wait()
		if sc.CloseAfter == 0 {
			doClose()
			wg.Wait()
		}
		<-closed
		// calls after Close must return too
		var wg2 sync.WaitGroup
		for i := 0; i < 8; i++ {
			wg2.Add(1)
			go func(i int) {
				defer wg2.Done()
				call("after-close:set", func() error { return db.Set([]byte("late"), []byte("v")) })
				call("after-close:get", func() error { _, err := db.Get([]byte("late")); return err })
				call("after-close:close", func() error { return db.Close() })
			}(i)
		}
		wg2.Wait()
		close(finished)
	}()
	progress := func() string {
		defer func() { _ = recover() }()
		// engine-side progress too: a write stall that ends when the compaction
		// picker finally drains the ingest buffer (its score rises with the age of
		// the oldest ingest table, ~60s) is slow, not stuck.
		_, _, runs := db.VerifLSM().CompactionDurations()
		return fmt.Sprintf("done=%d inflight=%d compaction_runs=%d layout=%s flush_pending=%d", completed.Load(), inflight.Load(), runs, dbx.LayoutShape(db), db.VerifLSM().FlushPending())
	}
	waited := time.Duration(0)
wait:
	for {
		select {
		case <-finished:
			break wait
		case <-time.After(deadline):
		}
		waited += deadline
		// bounded-progress rule: is anything still moving?
		before := progress()
		quiet := true
		end := time.Now().Add(quietWindow)
		for time.Now().Before(end) {
			time.Sleep(time.Second)
			select {
			case <-finished:
				quiet = false
			default:
			}
			if progress() != before {
				quiet = false
			}
			if !quiet {
				break
			}
		}
		select {
		case <-finished:
			c.Count("slow_but_finished", 1)
			break wait
		default:
		}
		if quiet {
			buf := make([]byte, 1<<20)
			buf = buf[:runtime.Stack(buf, true)]
			stacks := string(buf)
			if len(stacks) > 60000 {
				stacks = stacks[:60000]
			}
			prios := fmt.Sprint(db.VerifLSM().VerifPriorities())
			c.KeepDirs() // engine goroutines are still alive
			c.Violation("C37|calls-never-return|"+sc.Name, fmt.Sprintf("%d calls still running after %s and no call completed during a further %s window (no call completes, no compaction run, no layout change, flush queue unchanged) (%s)", inflight.Load(), waited, quietWindow, before), map[string]any{"scenario": sc, "config": cfg, "compaction_priorities": prios, "goroutines": stacks})
			return
		}
		if waited >= 4*deadline {
			c.KeepDirs()
			c.Inconclusive(fmt.Sprintf("%s: still running after %s but calls keep completing", sc.Name, waited))
			return
		}
	}
	total := int64(0)
	outcomes.Range(func(k, v any) bool {
		n := v.(*atomic.Int64).Load()
		c.Count("outcome."+k.(string), int(n))
		total += n
		return true
	})
	c.Count("evaluations", int(total))
	c.Count("scenario."+sc.Name, 1)
	c.Nontrivial(fmt.Sprintf("%s|%s|%d", sc.Name, cfg.Engine, c.Idx))
	if c.Idx < len(scenarios) {
		c.Sample(map[string]any{"scenario": sc, "engine": cfg.Engine, "calls_returned": total})
	}
	var _ = NoKV.Open
}

func init() {
	core.Register(&core.Check{
		ID:    "C37",
		Level: "exploration",
		Race:  false,
		Rule: "case = one stress scenario {commit-queue saturation with 1500 writers, L0 throttle toggling (NumLevelZeroTables=1, 8KiB memtable), hot-key throttling, Close in mid-stream, transactional commits under throttling, transactional Close in mid-stream, Close against writers delayed 1-4 ms at the yield sites around the commit-queue push (plain and transactional)} x memtable engine; every Set/Del/Get/iterator/commit/Close call and calls issued after Close must return; " +
			"verdict: all calls returned (outcome classes counted) = held; still running after 150s but other calls keep completing = inconclusive; still running and nothing completes during a further 180s window (no call completes, no compaction run, no layout change, flush queue unchanged) = violation; distinct = (scenario, engine, case)",
		Assumptions:      []string{"liveness is restated as bounded progress: an unbounded 'eventually' cannot be decided by a finite run", "a recovered panic counts as 'returned' (the statement is about termination); process-fatal errors are violations"},
		CrashIsViolation: true,
		Parallel:         1,
		Procs:            func(string) int { return 6 },
		Cases: func(tier string) int {
			if tier == "thorough" {
				return 60
			}
			return 12
		},
		Run:         run,
		CaseTimeout: 15 * time.Minute,
		Finish: func(a *core.Agg) {
			a.FloorNontrivial(6)
			a.Floor("outcome.set:ok", 1000)
			a.Floor("outcome.close:ok", 6)
		},
	})
}
