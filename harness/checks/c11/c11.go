// Package c11: once reopened, contents change only through new writes.
package c11

import "verif/harness/internal/crash"

func init() {
	crash.Register(crash.Oracle{ID: "C11", SyncModes: []bool{true, false}, Maint: true},
		"same crash enumeration as C10; after recovery the verifier dumps all keys (Get + iterator), runs maintenance (rotate+flush, L0->ingest move, ingest drain, forced rewrite of every sealed value-log segment, RunValueLogGC, close/reopen) and dumps again; every third crash point instead crashes a second time: the crash image is reopened on a counting FaultFS, dumped as soon as Open returns, left to recovery's own background flushes / compactions and SIGKILLed at a seeded durable file operation (or once the flush queue is empty), never closed, then reopened and dumped again; "+
			"oracle: second dump == first dump; distinct = (workload, stratum, crash-before-completion) triples with a real kill",
		"maintenance sequences are ordered so that the recorded ingest-buffer same-version-tie finding (C01) cannot be the cause of a change")
}
