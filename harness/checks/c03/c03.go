// Package c03: committed transactions are serializable and read their snapshot.
//
// Monitor: E-hist. 4-8 goroutines run read-only and read-write transactions
// (Get, iterate, Set, Delete, Commit / CommitWith / Discard) over 4-6 keys of a
// real database opened with DetectConflicts, with natural flush / compaction
// running underneath in most cases. Every transaction is recorded (read ts,
// every read with the unique value it returned, writes, commit result, call /
// return stamps from one monotonic clock). After the history a dump of all
// versions of all keys gives every committed transaction its commit version, and
// the MVCC checker applies R-snap, R-rr, R-conflict and R-atomic.
package c03

import (
	"fmt"
	"strings"
	"time"

	"verif/harness/internal/core"
	"verif/harness/internal/dbx"
	"verif/harness/internal/hist"
)

type caseCfg struct {
	DB         dbx.Config `json:"db"`
	Goroutines int        `json:"goroutines"`
	TxnsPer    int        `json:"txns_per_goroutine"`
	Keys       []string   `json:"keys"`
	// Preload: this many single-Set transactions (values 500-900 B) are
	// committed one after the other before the concurrent part and flushed
	// into one multi-block L0 table, so that the history also reads versions
	// that sit at and around SST block boundaries.
	Preload int `json:"preload"`
}

var keyPool = []string{"ka", "kb", "kc", "kd", "ke", "kf"}

// Rules of this property (the history engine also evaluates R-fail and R-mono,
// which belong to C04; their findings are only counted here).
var myRules = map[string]bool{"R-snap": true, "R-rr": true, "R-conflict": true, "R-atomic": true}

func draw(c *core.Case) caseCfg {
	rng := c.Rng
	cfg := caseCfg{}
	natural := rng.Intn(10) < 6
	cfg.DB = dbx.Config{
		Engine:          []string{"skiplist", "art"}[rng.Intn(2)],
		ValueThreshold:  []int64{32, 1024}[rng.Intn(2)],
		Buckets:         []int{1, 3}[rng.Intn(2)],
		VlogFileSize:    1 << 20,
		HotRing:         rng.Intn(3) == 0,
		ManifestRewrite: 64 << 20,
		Controlled:      !natural,
		MemTableSize:    []int64{8 << 10, 1 << 20}[rng.Intn(2)],
		L0Tables:        1000,
		DetectConflicts: true,
	}
	if natural {
		// tiny memtable, compaction starts at 2 L0 tables; write stalls begin at
		// 2x this number of L0 tables, so 3 keeps the histories moving
		cfg.DB.MemTableSize = 3 << 10
		cfg.DB.L0Tables = 2
	}
	cfg.Goroutines = 4 + rng.Intn(5)
	cfg.TxnsPer = 6 + rng.Intn(7)
	if c.Thorough() {
		cfg.TxnsPer = 8 + rng.Intn(10)
	}
	if !natural && rng.Intn(3) != 0 {
		// (only with background compaction paused: the preload must end up in
		// one table, and a 3KiB memtable would run into the L0 write stall)
		cfg.Preload = 40 + rng.Intn(60)
		cfg.DB.MemTableSize = 1 << 20
	}
	nk := 4 + rng.Intn(3)
	perm := rng.Perm(len(keyPool))
	for i := 0; i < nk; i++ {
		cfg.Keys = append(cfg.Keys, keyPool[perm[i]])
	}
	return cfg
}

func run(c *core.Case) {
	cfg := draw(c)
	params := hist.PlanParams{Keys: cfg.Keys, Sizes: []int{16, 100, 400, 1500}, PReadOnly: 25, PDiscard: 10, PCommitWith: 15, PScan: 30, MaxOps: 5}
	plans := make([][]hist.TxnPlan, cfg.Goroutines)
	for g := range plans {
		for i := 0; i < cfg.TxnsPer; i++ {
			plans[g] = append(plans[g], hist.DrawPlan(c.Rng, params))
		}
	}
	var preload []hist.TxnPlan
	for i := 0; i < cfg.Preload; i++ {
		preload = append(preload, hist.TxnPlan{Update: true, End: "commit", Ops: []hist.PlannedOp{{Kind: hist.OpSet, Key: cfg.Keys[c.Rng.Intn(len(cfg.Keys))], Size: 500 + c.Rng.Intn(400)}}})
	}
	db, err := dbx.OpenCfg(cfg.DB, c.TempDir())
	if err != nil {
		c.Violation("C03|open-failed|fresh", err.Error(), cfg)
		return
	}
	rec := hist.NewTxnRecorder()
	for _, p := range preload {
		rec.RunTxn(db, cfg.Goroutines, "preload", p)
	}
	if len(preload) > 0 {
		db.VerifLSM().Rotate()
		db.VerifLSM().VerifWaitFlush(30 * time.Second)
		c.Count("cases_with_preloaded_multi_block_table", 1)
	}
	rec.RunPlans(db, "main", 0, plans, nil)
	db.VerifLSM().VerifWaitFlush(30 * time.Second)
	final := hist.DumpAllVersions(db, "live")
	layout := dbx.LayoutShape(db)
	if err := db.Close(); err != nil {
		c.Count("close_errors", 1)
	}
	txns := rec.Txns()
	findings, st := hist.CheckMVCC(txns, final, nil, true)

	c.Count("evaluations", st.ReadsChecked+st.ScansChecked+st.ConflictKeysChecked+st.CommittedWithWrites)
	c.Count("txns", st.Txns)
	c.Count("txns_committed", st.Committed)
	c.Count("txns_committed_with_writes", st.CommittedWithWrites)
	c.Count("txns_discarded", st.Discarded)
	c.Count("txns_open", st.Open)
	for k, n := range st.Failed {
		c.Count("txns_failed."+k, n)
	}
	c.Count("reads_checked", st.ReadsChecked)
	c.Count("reads_of_own_pending_write", st.OwnWriteReads)
	c.Count("reads_with_newer_version_existing", st.ReadsWithNewerVersion)
	c.Count("scans_checked", st.ScansChecked)
	c.Count("scan_items_checked", st.ScanItemsChecked)
	c.Count("read_errors", st.ReadErrors)
	c.Count("item_version_field_mismatch", st.VersionFieldMismatch)
	c.Count("rw_committed_overlapping_a_writer_of_a_read_key", st.RWOverlap)
	c.Count("conflict_errors_justified", st.ConflictsJustified)
	c.Count("conflict_errors_spurious", st.ConflictsSpurious)
	c.Count("conflict_keys_checked", st.ConflictKeysChecked)
	c.Distinct("layout_at_end", layout)
	c.Count("cases_engine_"+cfg.DB.Engine, 1)
	if !cfg.DB.Controlled {
		c.Count("cases_with_natural_compaction", 1)
		if strings.Contains(layout, "L6") {
			c.Count("cases_with_data_below_L0", 1)
		}
	}
	for _, t := range txns {
		if t.Panicked {
			c.Violation("C03|api-panicked|"+t.Phase, fmt.Sprintf("txn %d: %s", t.ID, t.Err), map[string]any{"config": cfg, "txn": t})
		}
		if t.ErrClass == "watchdog" {
			c.Inconclusive("CommitWith callback not invoked within the watchdog")
		}
	}
	seen := map[string]bool{}
	for _, f := range findings {
		if !myRules[f.Rule] {
			c.Count("findings_of_rules_owned_by_C04."+f.Rule, 1)
			continue
		}
		sig := "C03|" + f.Rule + "|" + f.Context
		c.Count("findings."+f.Rule+"|"+f.Context, 1)
		if seen[sig] {
			continue
		}
		seen[sig] = true
		d := f.Detail
		if d == nil {
			d = map[string]any{}
		}
		d["config"] = cfg
		d["layout_at_end"] = layout
		c.Violation(sig, f.What, d)
	}
	if st.RWOverlap > 0 && st.ReadsWithNewerVersion > 0 {
		var sb strings.Builder
		for _, t := range txns {
			fmt.Fprintf(&sb, "%d:%d:%d;", t.Status, t.ReadTs, len(t.Ops))
		}
		c.Nontrivial(sb.String())
	}
	if c.Idx < 2 {
		n := len(txns)
		if n > 12 {
			n = 12
		}
		c.Sample(map[string]any{"config": cfg, "first_txns": txns[:n], "total_txns": len(txns), "dump_keys": len(final.Keys)})
	}
}

func init() {
	core.Register(&core.Check{
		ID:    "C03",
		Level: "exploration",
		Rule: "case = one concurrent history on a fresh DB with DetectConflicts: 4-8 goroutines x 6-17 seeded transactions (25% read-only; 1-5 ops each of Get / full or seeked forward+reverse iteration / Set of a unique value / Delete; " +
			"end = Commit 75%, CommitWith 15%, Discard 10%) over 4-6 keys; option set drawn per case (skiplist/ART, value threshold 32/1024, values 16B-1.5KiB, 60% of cases with natural background flush+compaction on a 3KiB memtable, others paused; 2/3 of the paused cases first commit 40-99 single-Set transactions and flush them into one multi-block L0 table). " +
			"Recorded per transaction: ReadTs, every read result (unique value ids), writes, commit outcome, call/return stamps. Oracle = final all-versions dump (NewInternalIterator + VerifKeySources) + MVCC rules " +
			"R-snap (each Get / iterator result = newest version <= read ts, or own pending write), R-rr, R-conflict (no committed write to a read key with read ts < ts < commit ts), R-atomic. " +
			"A case is non-trivial iff >=1 committed read-write txn overlapped in time a committed writer of a key it read and >=1 read had to ignore a newer version; distinct = distinct (status, read ts, #ops) sequences",
		Assumptions: []string{
			"compaction keeps every version (no version GC in this code base), so the final dump is the complete version order",
			"every writing transaction's first write is a Set of a unique value, which identifies its commit version in the dump",
			"phantoms (a key inserted into a scanned range) are outside the statement; only keys actually returned by an iterator join the read set",
			"keys are not byte-prefix related (ART zero-suffix finding is C01's)",
		},
		Race: true,
		Cases: func(tier string) int {
			if tier == "thorough" {
				return 3000
			}
			return 300
		},
		CaseTimeout: 5 * time.Minute,
		Run:         run,
		Finish: func(a *core.Agg) {
			a.FloorNontrivial(100)
			a.Floor("rw_committed_overlapping_a_writer_of_a_read_key", 300)
			a.Floor("conflict_errors_justified", 100)
			a.Floor("reads_with_newer_version_existing", 300)
			a.Floor("scans_checked", 500)
			a.Floor("cases_with_data_below_L0", 10)
		},
	})
}
