// Package c13: the WAL replays exactly what was appended and tolerates any torn tail.
//
// Engine: bare wal.Manager. A case builds one log (typed records of all four
// types, sizes 0..70 KiB, explicit and size-driven rotations, several buffer
// sizes), closes it, and then enumerates truncation offsets of the final
// segment. For every cut the directory is rebuilt (earlier segments hard-linked,
// final segment = prefix), then exactly what DB.Open does is run:
// wal.VerifyDir, wal.Open, Replay. Oracle (from the statement): the replay
// yields exactly the records whose framed bytes lie wholly before the cut, in
// order, with their types; then fresh records are appended, the log is closed,
// verified, reopened and replayed again: survivors followed by the new records.
//
// The framing (4-byte length, 1-byte type, payload, 4-byte CRC) is taken from
// the documented record format only to know where a record ends; the monitor
// cross-checks that knowledge against the observed file size and reports
// "inconclusive" (not a violation) if the layout model is wrong.
package c13

import (
	"bytes"
	"crypto/sha256"
	"encoding/hex"
	"fmt"
	"math/rand"
	"os"
	"path/filepath"
	"sort"
	"time"

	"github.com/feichai0017/NoKV/wal"
	"verif/harness/internal/core"
)

const frameOverhead = 9 // len(4) + type(1) + crc(4)

type rec struct {
	Type    wal.RecordType
	Payload []byte
	Seg     uint32
	Off     int64 // offset inside its segment (model)
}

func (r rec) size() int64 { return int64(len(r.Payload)) + frameOverhead }

type config struct {
	Shape       string `json:"shape"`
	SegmentSize int64  `json:"segment_size"`
	BufferSize  int    `json:"buffer_size"`
	SyncOnWrite bool   `json:"sync_on_write"`
}

func (cf config) walConfig(dir string) wal.Config {
	return wal.Config{Dir: dir, SegmentSize: cf.SegmentSize, BufferSize: cf.BufferSize, SyncOnWrite: cf.SyncOnWrite}
}

var smallSizes = []int{0, 0, 1, 1, 2, 3, 4, 5, 7, 8, 9, 15, 16, 17, 31, 64, 100, 255, 256, 257}

func payload(rng *rand.Rand, n int) []byte {
	b := make([]byte, n)
	switch rng.Intn(4) {
	case 0: // all zero: a torn header followed by zeros must not look like a record
	case 1:
		for i := range b {
			b[i] = 0xFF
		}
	default:
		rng.Read(b)
	}
	return b
}

var shapes = []string{"single-small", "rotations-small", "size-rotation", "large-final", "mixed", "single-small", "rotations-small", "mixed"}

// build writes the log and returns the model record list.
func build(c *core.Case, dir string) (config, []rec, error) {
	rng := c.Rng
	// (idx + idx/16) spreads the expensive shapes over the 16 child processes (case i runs in child i%16)
	cf := config{Shape: shapes[(c.Idx+c.Idx/16)%len(shapes)]}
	cf.BufferSize = []int{1, 16, 64, 4096, 0}[rng.Intn(5)]
	cf.SyncOnWrite = rng.Intn(3) == 0
	switch cf.Shape {
	case "size-rotation":
		cf.SegmentSize = 64 << 10
	case "large-final":
		cf.SegmentSize = []int64{0, 100 << 10, 64 << 10}[rng.Intn(3)]
	default:
		cf.SegmentSize = []int64{0, 1, 64 << 10, 1 << 20}[rng.Intn(4)] // 1 is raised to the 64 KiB minimum by Open
	}
	m, err := wal.Open(cf.walConfig(dir))
	if err != nil {
		return cf, nil, fmt.Errorf("open: %w", err)
	}
	var recs []rec
	appendBatch := func(sizes ...int) error {
		batch := make([]wal.Record, len(sizes))
		allEntry := true
		for i, n := range sizes {
			batch[i] = wal.Record{Type: wal.RecordType(rng.Intn(4)), Payload: payload(rng, n)}
			if batch[i].Type != wal.RecordTypeEntry {
				allEntry = false
			}
		}
		var infos []wal.EntryInfo
		var err error
		if allEntry && rng.Intn(2) == 0 {
			ps := make([][]byte, len(batch))
			for i := range batch {
				ps[i] = batch[i].Payload
			}
			infos, err = m.Append(ps...)
		} else {
			infos, err = m.AppendRecords(batch...)
		}
		if err != nil {
			return err
		}
		if len(infos) != len(batch) {
			return fmt.Errorf("AppendRecords returned %d infos for %d records", len(infos), len(batch))
		}
		for i := range batch {
			recs = append(recs, rec{Type: batch[i].Type, Payload: batch[i].Payload, Seg: infos[i].SegmentID})
		}
		return nil
	}
	smallBatch := func() error {
		k := 1 + rng.Intn(4)
		sz := make([]int, k)
		for i := range sz {
			sz[i] = smallSizes[rng.Intn(len(smallSizes))]
			if rng.Intn(12) == 0 {
				sz[i] = 1024 + rng.Intn(3*1024+2) // up to 4 KiB + 1
			}
		}
		return appendBatch(sz...)
	}
	var werr error
	step := func(err error) {
		if err != nil && werr == nil {
			werr = err
		}
	}
	switch cf.Shape {
	case "single-small":
		for i, n := 0, 4+rng.Intn(10); i < n; i++ {
			step(smallBatch())
		}
	case "rotations-small":
		for s, ns := 0, 1+rng.Intn(3); s < ns; s++ {
			for i, n := 0, rng.Intn(4); i < n; i++ {
				step(smallBatch())
			}
			step(m.Rotate())
			if rng.Intn(5) == 0 {
				step(m.Rotate()) // an empty segment in the middle
			}
		}
		for i, n := 0, rng.Intn(10); i < n; i++ { // may leave the final segment empty
			step(smallBatch())
		}
	case "size-rotation":
		for total := 0; total < 150<<10; {
			n := 3000 + rng.Intn(18000)
			step(appendBatch(n))
			total += n
			if rng.Intn(3) == 0 {
				step(smallBatch())
			}
		}
		for i, n := 0, 2+rng.Intn(5); i < n; i++ {
			step(smallBatch())
		}
	case "large-final":
		if rng.Intn(2) == 0 {
			step(smallBatch())
			step(m.Rotate())
		}
		step(smallBatch())
		step(appendBatch(70 << 10))
		for i, n := 0, 1+rng.Intn(3); i < n; i++ {
			step(smallBatch())
		}
	default: // mixed
		for i, n := 0, 6+rng.Intn(14); i < n; i++ {
			switch rng.Intn(10) {
			case 0:
				step(m.Rotate())
			case 1:
				step(m.Sync())
			case 2:
				step(appendBatch(4096))
			default:
				step(smallBatch())
			}
		}
	}
	if werr != nil {
		_ = m.Close()
		return cf, recs, fmt.Errorf("append: %w", werr)
	}
	if err := m.Close(); err != nil {
		return cf, recs, fmt.Errorf("close: %w", err)
	}
	// model offsets: records of one segment are laid out back to back.
	next := map[uint32]int64{}
	for i := range recs {
		recs[i].Off = next[recs[i].Seg]
		next[recs[i].Seg] += recs[i].size()
	}
	return cf, recs, nil
}

type got struct {
	Type    wal.RecordType
	Payload []byte
	Seg     uint32
}

func replayAll(m *wal.Manager) ([]got, error) {
	var out []got
	err := m.Replay(func(info wal.EntryInfo, p []byte) error {
		out = append(out, got{Type: info.Type, Payload: append([]byte(nil), p...), Seg: info.SegmentID})
		return nil
	})
	return out, err
}

// compare returns "" when equal, else a canonical mismatch class: "lost-old" /
// "lost-new" when the replay is a proper subsequence of the expectation (which
// records are missing decides), "extra" when the expectation is a proper
// subsequence of the replay, "altered" otherwise.
func compare(g []got, want []rec, nOld int) (string, string) {
	eq := func(a got, b rec) bool { return a.Type == b.Type && bytes.Equal(a.Payload, b.Payload) }
	if len(g) == len(want) {
		same := true
		for i := range g {
			if !eq(g[i], want[i]) {
				same = false
				break
			}
		}
		if same {
			return "", ""
		}
	}
	// g subsequence of want?
	j, firstMissing := 0, -1
	for i := 0; i < len(want); i++ {
		if j < len(g) && eq(g[j], want[i]) {
			j++
		} else if firstMissing < 0 {
			firstMissing = i
		}
	}
	if j == len(g) && len(g) < len(want) {
		cls := "lost-new"
		if firstMissing < nOld {
			cls = "lost-old"
		}
		return cls, fmt.Sprintf("replayed %d of the %d expected records (%d survivors of the cut + %d appended after recovery); first missing: #%d type=%d len=%d", len(g), len(want), nOld, len(want)-nOld, firstMissing, want[firstMissing].Type, len(want[firstMissing].Payload))
	}
	// want subsequence of g?
	j, firstExtra := 0, -1
	for i := 0; i < len(g); i++ {
		if j < len(want) && eq(g[i], want[j]) {
			j++
		} else if firstExtra < 0 {
			firstExtra = i
		}
	}
	if j == len(want) && len(g) > len(want) {
		return "extra", fmt.Sprintf("replayed %d records, only %d expected; first extra: #%d type=%d len=%d sha=%s", len(g), len(want), firstExtra, g[firstExtra].Type, len(g[firstExtra].Payload), sha(g[firstExtra].Payload))
	}
	for i := 0; i < len(g) && i < len(want); i++ {
		if !eq(g[i], want[i]) {
			return "altered", fmt.Sprintf("record %d: got type=%d len=%d sha=%s, want type=%d len=%d sha=%s (replayed %d, expected %d)", i, g[i].Type, len(g[i].Payload), sha(g[i].Payload), want[i].Type, len(want[i].Payload), sha(want[i].Payload), len(g), len(want))
		}
	}
	return "altered", fmt.Sprintf("replayed %d records, expected %d", len(g), len(want))
}

func sha(b []byte) string {
	h := sha256.Sum256(b)
	return hex.EncodeToString(h[:6])
}

func sizeClass(n int) string {
	switch {
	case n == 0:
		return "0"
	case n == 1:
		return "1"
	case n < 256:
		return "small"
	case n < 8192:
		return "kib"
	default:
		return "large"
	}
}

// posClass classifies a cut offset relative to the record that contains it.
func posClass(finals []rec, size, cut int64) (string, *rec) {
	if cut == size {
		return "none", nil
	}
	i := sort.Search(len(finals), func(i int) bool { return finals[i].Off+finals[i].size() > cut })
	if i >= len(finals) {
		return "none", nil
	}
	r := &finals[i]
	rel := cut - r.Off
	n := int64(len(r.Payload))
	switch {
	case rel == 0:
		return "record-boundary", r
	case rel < 4:
		return "partial-length-field", r
	case rel == 4:
		return "length-field-only", r
	case rel == 5 && n > 0:
		return "type-byte-only", r
	case rel < 5+n:
		return "inside-payload", r
	case rel == 5+n:
		return "before-crc", r
	default:
		return "partial-crc", r
	}
}

func fileHash(path string) string {
	b, err := os.ReadFile(path)
	if err != nil {
		return "ERR:" + err.Error()
	}
	h := sha256.Sum256(b)
	return fmt.Sprintf("%d:%s", len(b), hex.EncodeToString(h[:8]))
}

func summarize(recs []rec) []string {
	var out []string
	for i, r := range recs {
		if i >= 60 {
			out = append(out, fmt.Sprintf("... %d more", len(recs)-i))
			break
		}
		out = append(out, fmt.Sprintf("seg%d@%d type=%d len=%d", r.Seg, r.Off, r.Type, len(r.Payload)))
	}
	return out
}

// fastDir returns a scratch directory on a memory file system when one is available
// (the logs are opened, synced and closed thousands of times; only their content
// matters to the oracle), else the case's ordinary scratch directory.
func fastDir(c *core.Case, tag string) (string, func()) {
	// remove leftovers of runs that were killed before their deferred cleanup (older than 3 h)
	if old, _ := filepath.Glob("/dev/shm/verif-" + tag + "-*"); len(old) > 0 {
		for _, o := range old {
			if st, err := os.Stat(o); err == nil && time.Since(st.ModTime()) > 3*time.Hour {
				_ = os.RemoveAll(o)
			}
		}
	}
	if d, err := os.MkdirTemp("/dev/shm", "verif-"+tag+"-"); err == nil {
		return d, func() { _ = os.RemoveAll(d) }
	}
	return c.TempDir(), func() {}
}

func run(c *core.Case) {
	root, cleanup := fastDir(c, "c13")
	defer cleanup()
	base := filepath.Join(root, "base")
	cf, recs, err := build(c, base)
	if err != nil {
		c.Violation("C13|append-error|fresh-log", err.Error(), map[string]any{"config": cf})
		return
	}
	segs, _ := filepath.Glob(filepath.Join(base, "*.wal"))
	sort.Strings(segs)
	if len(segs) == 0 {
		c.Inconclusive("no segment files produced")
		return
	}
	finalPath := segs[len(segs)-1]
	var finalID uint32
	fmt.Sscanf(filepath.Base(finalPath), "%05d.wal", &finalID)
	finalBytes, err := os.ReadFile(finalPath)
	if err != nil {
		c.Inconclusive(err.Error())
		return
	}
	size := int64(len(finalBytes))
	var earlier, finals []rec
	for _, r := range recs {
		if r.Seg == finalID {
			finals = append(finals, r)
		} else {
			earlier = append(earlier, r)
		}
	}
	var modelSize int64
	for _, r := range finals {
		modelSize += r.size()
	}
	if modelSize != size {
		c.Inconclusive(fmt.Sprintf("layout model wrong: final segment has %d bytes, framed records sum to %d", size, modelSize))
		return
	}
	earlierHash := map[string]string{}
	for _, s := range segs[:len(segs)-1] {
		earlierHash[s] = fileHash(s)
	}
	c.Count("records_appended", len(recs))
	c.Count("segments", len(segs))
	c.Max("segments_per_log", len(segs))
	c.Max("final_segment_bytes", int(size))
	c.Distinct("shapes", cf.Shape)
	for _, r := range recs {
		c.Distinct("record_type_x_size", fmt.Sprintf("type%d/%s", r.Type, sizeClass(len(r.Payload))))
	}
	if len(segs) > 1 {
		c.Count("logs_with_rotation", 1)
	}

	// choose the cut offsets
	cuts := map[int64]struct{}{0: {}, size: {}}
	if c.Thorough() && size <= 8<<10 {
		for o := int64(0); o <= size; o++ {
			cuts[o] = struct{}{}
		}
	} else if c.Thorough() {
		// large final segment (size-driven rotation, 70 KiB record): every byte within 64 of a record boundary,
		// every byte of the first and last 1 KiB of every record, every byte around multiples of 4096 (buffer
		// and page edges), and every 13th byte elsewhere
		for _, r := range finals {
			for d := int64(-64); d <= 1024; d++ {
				for _, b := range []int64{r.Off + d, r.Off + r.size() - d} {
					if b >= 0 && b <= size {
						cuts[b] = struct{}{}
					}
				}
			}
		}
		for o := int64(0); o <= size; o++ {
			if o%13 == 0 || o%4096 <= 8 || o%4096 >= 4088 {
				cuts[o] = struct{}{}
			}
		}
	} else {
		for _, r := range finals {
			for _, b := range []int64{r.Off, r.Off + r.size()} {
				for d := int64(-4); d <= 5; d++ {
					if o := b + d; o >= 0 && o <= size {
						cuts[o] = struct{}{}
					}
				}
			}
		}
		stride := size/24 + 1
		if stride%2 == 0 {
			stride++
		}
		for o := stride; o < size; o += stride {
			cuts[o] = struct{}{}
		}
	}
	order := make([]int64, 0, len(cuts))
	for o := range cuts {
		order = append(order, o)
	}
	sort.Slice(order, func(i, j int) bool { return order[i] < order[j] })

	work := filepath.Join(root, "work")
	sampleCuts := []any{}
	violated := map[string]bool{}
	report := func(sig, what string, cut int64, extra map[string]any) {
		if violated[sig] { // one witness per signature and case is enough
			c.Count("violating_cuts", 1)
			return
		}
		violated[sig] = true
		c.Count("violating_cuts", 1)
		d := map[string]any{"config": cf, "cut_offset": cut, "final_segment": filepath.Base(finalPath), "final_segment_size": size, "records": summarize(recs)}
		for k, v := range extra {
			d[k] = v
		}
		c.Violation(sig, what, d)
	}
	for ci, cut := range order {
		cls, inRec := posClass(finals, size, cut)
		dir := filepath.Join(work, fmt.Sprintf("cut-%d", cut))
		if err := os.MkdirAll(dir, 0o755); err != nil {
			c.Inconclusive(err.Error())
			return
		}
		for _, s := range segs[:len(segs)-1] {
			if err := os.Link(s, filepath.Join(dir, filepath.Base(s))); err != nil {
				c.Inconclusive(err.Error())
				return
			}
		}
		if err := os.WriteFile(filepath.Join(dir, filepath.Base(finalPath)), finalBytes[:cut], 0o644); err != nil {
			c.Inconclusive(err.Error())
			return
		}
		want := append([]rec(nil), earlier...)
		for _, r := range finals {
			if r.Off+r.size() <= cut {
				want = append(want, r)
			}
		}
		nOld := len(want)
		c.Count("evaluations", 1)
		c.Count("fault_points.truncate@"+cls+"|wal-final-segment", 1)
		fp := cls
		if inRec != nil {
			fp += fmt.Sprintf("/type%d/%s", inRec.Type, sizeClass(len(inRec.Payload)))
		}
		if len(earlier) > 0 {
			fp += "/after-rotation"
		}
		c.Nontrivial(fp)
		ctx := "cut=" + cls

		func() {
			defer os.RemoveAll(dir)
			if err := wal.VerifyDir(dir, nil); err != nil {
				report("C13|verify-error|"+ctx, fmt.Sprintf("VerifyDir failed on a log whose final segment was cut at byte %d: %v", cut, err), cut, nil)
				return
			}
			m, err := wal.Open(cf.walConfig(dir))
			if err != nil {
				report("C13|open-error|"+ctx, fmt.Sprintf("Open failed after cut at byte %d: %v", cut, err), cut, nil)
				return
			}
			g, err := replayAll(m)
			if err != nil {
				_ = m.Close()
				report("C13|replay-error|"+ctx, fmt.Sprintf("Replay failed after cut at byte %d: %v", cut, err), cut, nil)
				return
			}
			if cls, why := compare(g, want, nOld); cls != "" {
				_ = m.Close()
				report("C13|replay-mismatch|"+cls+"|"+ctx, fmt.Sprintf("after cut at byte %d: %s", cut, why), cut, nil)
				return
			}
			// the single-segment view must agree for the cut segment
			var segGot []got
			if err := m.ReplaySegment(finalID, func(info wal.EntryInfo, p []byte) error {
				segGot = append(segGot, got{Type: info.Type, Payload: append([]byte(nil), p...)})
				return nil
			}); err != nil {
				_ = m.Close()
				report("C13|replay-segment-error|"+ctx, fmt.Sprintf("ReplaySegment(%d) failed after cut at byte %d: %v", finalID, cut, err), cut, nil)
				return
			}
			if cls, why := compare(segGot, want[len(earlier):], nOld-len(earlier)); cls != "" {
				_ = m.Close()
				report("C13|replay-segment-mismatch|"+cls+"|"+ctx, fmt.Sprintf("ReplaySegment after cut at byte %d: %s", cut, why), cut, nil)
				return
			}
			c.Count("replays_compared", 2)

			// append after recovery, close, reopen, replay
			lr := rand.New(rand.NewSource(c.Seed ^ int64(cut)*7919 ^ int64(c.Idx)<<20))
			nNew := 1 + lr.Intn(3)
			var newDesc []string
			for i := 0; i < nNew; i++ {
				if ci%7 == 3 && i == 1 {
					if err := m.Rotate(); err != nil {
						_ = m.Close()
						report("C13|after-append|error|"+ctx, fmt.Sprintf("Rotate after recovery from cut %d: %v", cut, err), cut, nil)
						return
					}
					newDesc = append(newDesc, "rotate")
				}
				n := smallSizes[lr.Intn(len(smallSizes))]
				if lr.Intn(10) == 0 {
					n = 5000
				}
				r := rec{Type: wal.RecordType(lr.Intn(4)), Payload: payload(lr, n)}
				if _, err := m.AppendRecords(wal.Record{Type: r.Type, Payload: r.Payload}); err != nil {
					_ = m.Close()
					report("C13|after-append|error|"+ctx, fmt.Sprintf("AppendRecords after recovery from cut %d: %v", cut, err), cut, nil)
					return
				}
				want = append(want, r)
				newDesc = append(newDesc, fmt.Sprintf("type=%d len=%d", r.Type, n))
			}
			if err := m.Close(); err != nil {
				report("C13|after-append|error|"+ctx, fmt.Sprintf("Close after recovery from cut %d: %v", cut, err), cut, nil)
				return
			}
			extra := map[string]any{"appended_after_recovery": newDesc, "survivors": nOld}
			if err := wal.VerifyDir(dir, nil); err != nil {
				report("C13|after-append|error|"+ctx, fmt.Sprintf("cut %d, recovered, appended %d records, closed: VerifyDir failed: %v", cut, nNew, err), cut, extra)
				return
			}
			m2, err := wal.Open(cf.walConfig(dir))
			if err != nil {
				report("C13|after-append|error|"+ctx, fmt.Sprintf("cut %d, recovered, appended, closed: Open failed: %v", cut, err), cut, extra)
				return
			}
			g2, err := replayAll(m2)
			_ = m2.Close()
			if err != nil {
				report("C13|after-append|error|"+ctx, fmt.Sprintf("cut %d, recovered, appended %d records, closed, reopened: Replay failed: %v", cut, nNew, err), cut, extra)
				return
			}
			if cls, why := compare(g2, want, nOld); cls != "" {
				report("C13|after-append|"+cls+"|"+ctx, fmt.Sprintf("cut %d, recovered, appended, closed, reopened: %s", cut, why), cut, extra)
				return
			}
			c.Count("replays_compared", 1)
			c.Count("cuts_with_append_after_recovery_verified", 1)
			if len(sampleCuts) < 3 && cls != "none" && cls != "record-boundary" {
				sampleCuts = append(sampleCuts, map[string]any{"cut_offset": cut, "position": cls, "survivors": nOld, "appended_after_recovery": newDesc})
			}
		}()
	}
	for s, h := range earlierHash {
		if fileHash(s) != h {
			c.Violation("C13|earlier-segment-modified", "recovery of a torn final segment changed an earlier segment: "+filepath.Base(s), map[string]any{"config": cf})
		}
	}
	if c.Idx < 8 {
		c.Sample(map[string]any{"config": cf, "records": summarize(recs), "final_segment_bytes": size, "cuts_executed": len(order), "example_cuts": sampleCuts})
	}
}

func init() {
	core.Register(&core.Check{
		ID:    "C13",
		Level: "fault_enumeration",
		Rule: "case = one seeded WAL built with the bare wal.Manager (records of the four types, payload sizes {0,1,2,..,257,1-4 KiB,3-21 KiB,70 KiB}, payloads random/all-zero/all-0xFF, Append and AppendRecords batches of 1-4, " +
			"explicit Rotate incl. empty segments, size-driven rotation at the 64 KiB minimum segment size, buffer sizes {1,16,64,4096,default}, SyncOnWrite on/off); fault point = truncation offset of the final segment: " +
			"thorough = every byte offset 0..size for final segments up to 8 KiB (3 of 4 logs) and, for larger ones, every byte within -64..+1024 of each record start / end, around every multiple of 4096, and every 13th byte elsewhere; quick = offsets within -4..+5 of every record boundary plus a stride of size/24; per fault point: VerifyDir+Open+Replay(+ReplaySegment) must equal the records wholly before the cut, " +
			"then 1-3 fresh records (sometimes with a Rotate) are appended, Close, VerifyDir+Open+Replay must equal survivors+new; evaluations = fault points executed; " +
			"non-trivial/distinct = distinct (cut position class within the record, type and size class of the cut record, rotated-or-not) combinations; strata reported as fault_points.truncate@<position>|wal-final-segment",
		Assumptions: []string{
			"record framing 4-byte length + type + payload + 4-byte CRC (documented in wal/record.go) is used only to locate record ends; checked against the observed segment size per case",
			"a process crash leaves a prefix of the final segment (earlier segments were flushed and synced at rotation), which is what truncation models",
		},
		Cases: func(tier string) int {
			if tier == "thorough" {
				return 48
			}
			return 40
		},
		Run:         run,
		CaseTimeout: 45 * time.Minute,
		Finish: func(a *core.Agg) {
			a.FloorNontrivial(20)
			a.Floor("logs_with_rotation", 4)
			for _, cls := range []string{"record-boundary", "partial-length-field", "length-field-only", "inside-payload", "before-crc", "partial-crc", "none"} {
				a.Floor("fault_points.truncate@"+cls+"|wal-final-segment", 10)
			}
			strata := map[string]int64{}
			var total int64
			for k, v := range a.Counts {
				if len(k) > 13 && k[:13] == "fault_points." {
					strata[k[13:]] = v
					total += v
				}
			}
			a.Extra["fault_points_per_stratum"] = strata
			a.Extra["fault_points_total"] = total
		},
	})
}
