package c16

import (
	"bytes"
	"encoding/binary"
	"fmt"
	"math"
	"math/rand"
	"os"
	"path/filepath"
	"reflect"
	"testing/iotest"

	"github.com/feichai0017/NoKV/kv"
	"github.com/feichai0017/NoKV/manifest"
	"github.com/feichai0017/NoKV/pb"
	"github.com/feichai0017/NoKV/percolator"
	myraft "github.com/feichai0017/NoKV/raft"
	"github.com/feichai0017/NoKV/raftstore/command"
	"github.com/feichai0017/NoKV/raftstore/engine"
	"github.com/feichai0017/NoKV/utils"
	"github.com/feichai0017/NoKV/wal"
	"google.golang.org/protobuf/proto"
	"verif/harness/internal/core"
)

// ---- boundary value pools ----

var u64s = []uint64{0, 1, 127, 128, 255, 256, 16383, 16384, 1<<31 - 1, 1 << 31, 1<<32 - 1, 1 << 32, 1<<63 - 1, 1 << 63, math.MaxUint64 - 1, math.MaxUint64}
var u32s = []uint32{0, 1, 127, 128, 255, 256, 65535, 65536, 1<<31 - 1, 1 << 31, math.MaxUint32 - 1, math.MaxUint32}

func pickU64(rng *rand.Rand) uint64 {
	if rng.Intn(3) == 0 {
		return rng.Uint64() >> uint(rng.Intn(64))
	}
	return u64s[rng.Intn(len(u64s))]
}

func pickU32(rng *rand.Rand) uint32 {
	if rng.Intn(3) == 0 {
		return rng.Uint32() >> uint(rng.Intn(32))
	}
	return u32s[rng.Intn(len(u32s))]
}

func pickBytes(rng *rand.Rand, allowNil bool) []byte {
	var n int
	switch rng.Intn(10) {
	case 0:
		if allowNil {
			return nil
		}
		n = 0
	case 1:
		n = 1
	case 2:
		n = 127 + rng.Intn(3)
	case 3:
		n = 16383 + rng.Intn(3)
	case 4:
		n = 65535 + rng.Intn(3)
	default:
		n = rng.Intn(40)
	}
	b := make([]byte, n)
	switch rng.Intn(3) {
	case 0:
		rng.Read(b)
	case 1:
		for i := range b {
			b[i] = []byte{0x00, 0xFF, 0x80, 'a'}[rng.Intn(4)]
		}
	default:
		for i := range b {
			b[i] = byte('a' + rng.Intn(3))
		}
	}
	return b
}

func eqBytes(a, b []byte) bool { return bytes.Equal(a, b) } // nil and empty are the same value on the wire

// ---- generators of valid values (shared with the hostile-input generator) ----

func genEntry(rng *rand.Rand) *kv.Entry {
	return &kv.Entry{Key: pickBytes(rng, false), Value: pickBytes(rng, true), Meta: byte(u32s[rng.Intn(len(u32s))]), ExpiresAt: pickU64(rng)}
}

func genLock(rng *rand.Rand) percolator.Lock {
	return percolator.Lock{Primary: pickBytes(rng, true), Ts: pickU64(rng), TTL: pickU64(rng),
		Kind: pb.Mutation_Op(rng.Intn(4)), MinCommitTs: pickU64(rng)}
}

func genWrite(rng *rand.Rand) percolator.Write {
	return percolator.Write{Kind: pb.Mutation_Op(rng.Intn(4)), StartTs: pickU64(rng), ShortValue: pickBytes(rng, true)}
}

func genCommand(rng *rand.Rand) *pb.RaftCmdRequest {
	req := &pb.RaftCmdRequest{}
	if rng.Intn(8) > 0 {
		req.Header = &pb.CmdHeader{RegionId: pickU64(rng), PeerId: pickU64(rng), ReadQuorum: rng.Intn(2) == 0, RequestId: pickU64(rng)}
		if rng.Intn(2) == 0 {
			req.Header.RegionEpoch = &pb.RegionEpoch{ConfVer: pickU64(rng), Version: pickU64(rng)}
		}
	}
	for i, n := 0, rng.Intn(4); i < n; i++ {
		r := &pb.Request{}
		switch rng.Intn(4) {
		case 0:
			r.CmdType = pb.CmdType_CMD_GET
			r.Cmd = &pb.Request_Get{Get: &pb.GetRequest{Key: pickBytes(rng, true), Version: pickU64(rng)}}
		case 1:
			r.CmdType = pb.CmdType_CMD_PREWRITE
			p := &pb.PrewriteRequest{PrimaryLock: pickBytes(rng, true), StartVersion: pickU64(rng), LockTtl: pickU64(rng), TxnSize: pickU64(rng), MinCommitTs: pickU64(rng)}
			for j, m := 0, rng.Intn(3); j < m; j++ {
				p.Mutations = append(p.Mutations, &pb.Mutation{Op: pb.Mutation_Op(rng.Intn(4)), Key: pickBytes(rng, true), Value: pickBytes(rng, true), AssertionNotExist: rng.Intn(2) == 0})
			}
			r.Cmd = &pb.Request_Prewrite{Prewrite: p}
		case 2:
			r.CmdType = pb.CmdType_CMD_COMMIT
			cm := &pb.CommitRequest{StartVersion: pickU64(rng), CommitVersion: pickU64(rng)}
			for j, m := 0, rng.Intn(3); j < m; j++ {
				cm.Keys = append(cm.Keys, pickBytes(rng, false))
			}
			r.Cmd = &pb.Request_Commit{Commit: cm}
		default:
			r.CmdType = pb.CmdType(rng.Intn(8))
		}
		req.Requests = append(req.Requests, r)
	}
	return req
}

func genFileMeta(rng *rand.Rand) *manifest.FileMeta {
	return &manifest.FileMeta{Level: rng.Intn(8), FileID: pickU64(rng), Size: pickU64(rng), Smallest: pickBytes(rng, true), Largest: pickBytes(rng, true),
		CreatedAt: pickU64(rng), ValueSize: pickU64(rng), Ingest: rng.Intn(2) == 0}
}

func genRaftPointer(rng *rand.Rand) manifest.RaftLogPointer {
	return manifest.RaftLogPointer{GroupID: 1 + uint64(rng.Intn(3)), Segment: pickU32(rng), Offset: pickU64(rng), AppliedIndex: pickU64(rng), AppliedTerm: pickU64(rng),
		Committed: pickU64(rng), SnapshotIndex: pickU64(rng), SnapshotTerm: pickU64(rng), TruncatedIndex: pickU64(rng), TruncatedTerm: pickU64(rng),
		SegmentIndex: pickU64(rng), TruncatedOffset: pickU64(rng)}
}

func genRegion(rng *rand.Rand) manifest.RegionMeta {
	r := manifest.RegionMeta{ID: 1 + uint64(rng.Intn(4)), StartKey: pickBytes(rng, true), EndKey: pickBytes(rng, true),
		Epoch: manifest.RegionEpoch{Version: pickU64(rng), ConfVersion: pickU64(rng)}, State: manifest.RegionState(rng.Intn(4))}
	for i, n := 0, rng.Intn(4); i < n; i++ {
		r.Peers = append(r.Peers, manifest.PeerMeta{StoreID: pickU64(rng), PeerID: pickU64(rng)})
	}
	return r
}

// genEdit draws one manifest edit of any type.
func genEdit(rng *rand.Rand) manifest.Edit {
	switch rng.Intn(8) {
	case 0:
		return manifest.Edit{Type: manifest.EditAddFile, File: genFileMeta(rng)}
	case 1:
		return manifest.Edit{Type: manifest.EditDeleteFile, File: genFileMeta(rng)}
	case 2:
		return manifest.Edit{Type: manifest.EditLogPointer, LogSeg: pickU32(rng), LogOffset: pickU64(rng)}
	case 3:
		return manifest.Edit{Type: manifest.EditValueLogHead, ValueLog: &manifest.ValueLogMeta{Bucket: uint32(rng.Intn(3)), FileID: pickU32(rng), Offset: pickU64(rng), Valid: true}}
	case 4:
		return manifest.Edit{Type: manifest.EditDeleteValueLog, ValueLog: &manifest.ValueLogMeta{Bucket: uint32(rng.Intn(3)), FileID: pickU32(rng)}}
	case 5:
		return manifest.Edit{Type: manifest.EditUpdateValueLog, ValueLog: &manifest.ValueLogMeta{Bucket: uint32(rng.Intn(3)), FileID: pickU32(rng), Offset: pickU64(rng), Valid: rng.Intn(2) == 0}}
	case 6:
		p := genRaftPointer(rng)
		return manifest.Edit{Type: manifest.EditRaftPointer, Raft: &p}
	default:
		return manifest.Edit{Type: manifest.EditRegion, Region: &manifest.RegionEdit{Meta: genRegion(rng), Delete: rng.Intn(5) == 0}}
	}
}

// normVersion makes two manifest versions comparable: nil and empty slices /
// maps are the same state.
func normVersion(v manifest.Version) manifest.Version {
	nb := func(b []byte) []byte {
		if len(b) == 0 {
			return nil
		}
		return b
	}
	out := manifest.Version{LogSegment: v.LogSegment, LogOffset: v.LogOffset, Levels: map[int][]manifest.FileMeta{},
		ValueLogs: map[manifest.ValueLogID]manifest.ValueLogMeta{}, ValueLogHead: map[uint32]manifest.ValueLogMeta{},
		RaftPointers: map[uint64]manifest.RaftLogPointer{}, Regions: map[uint64]manifest.RegionMeta{}}
	for l, fs := range v.Levels {
		if len(fs) == 0 {
			continue
		}
		var cp []manifest.FileMeta
		for _, f := range fs {
			f.Smallest, f.Largest = nb(f.Smallest), nb(f.Largest)
			cp = append(cp, f)
		}
		out.Levels[l] = cp
	}
	for k, x := range v.ValueLogs {
		out.ValueLogs[k] = x
	}
	for k, x := range v.ValueLogHead {
		out.ValueLogHead[k] = x
	}
	for k, x := range v.RaftPointers {
		out.RaftPointers[k] = x
	}
	for k, r := range v.Regions {
		r.StartKey, r.EndKey = nb(r.StartKey), nb(r.EndKey)
		if len(r.Peers) == 0 {
			r.Peers = nil
		}
		out.Regions[k] = r
	}
	return out
}

// manifestSession logs n random edits through a Manager in dir, returns the
// in-memory version before Close and the edits.
func manifestSession(rng *rand.Rand, dir string, n int) (manifest.Version, []manifest.Edit, error) {
	m, err := manifest.Open(dir, nil)
	if err != nil {
		return manifest.Version{}, nil, err
	}
	m.SetSync(false)
	var edits []manifest.Edit
	for i := 0; i < n; i++ {
		e := genEdit(rng)
		edits = append(edits, e)
		if rng.Intn(4) == 0 && i+1 < n {
			e2 := genEdit(rng)
			edits = append(edits, e2)
			i++
			err = m.LogEdits(e, e2)
		} else {
			err = m.LogEdit(e)
		}
		if err != nil {
			_ = m.Close()
			return manifest.Version{}, edits, err
		}
	}
	v := m.Current()
	return v, edits, m.Close()
}

// raftSession drives a WALStorage and returns what it must hold after a reopen.
type raftState struct {
	entries []myraft.Entry
	hard    myraft.HardState
	snap    myraft.Snapshot
}

// selfContained: at most one record of each kind, each replayable on an empty
// storage (used as seeds for hostile payloads, which are replayed one at a time).
func raftSession(rng *rand.Rand, dir string, selfContained bool) (raftState, error) {
	var st raftState
	w, err := wal.Open(wal.Config{Dir: dir, BufferSize: 4096, SegmentSize: 64 << 10})
	if err != nil {
		return st, err
	}
	defer w.Close()
	ws, err := engine.OpenWALStorage(engine.WALStorageConfig{GroupID: 1, WAL: w})
	if err != nil {
		return st, err
	}
	index := uint64(1)
	term := uint64(1 + rng.Intn(3))
	if selfContained && rng.Intn(3) == 0 {
		st.snap = myraft.Snapshot{Data: pickBytes(rng, true)}
		if len(st.snap.Data) > 300 {
			st.snap.Data = st.snap.Data[:300]
		}
		st.snap.Metadata.Index = 1 + uint64(rng.Intn(1000))
		st.snap.Metadata.Term = term
		st.snap.Metadata.ConfState.Voters = []uint64{1, 2, 3}
		if err := ws.ApplySnapshot(st.snap); err != nil {
			return st, err
		}
		return st, w.Sync()
	}
	if !selfContained && rng.Intn(3) == 0 {
		// start from a snapshot
		index = 1 + uint64(rng.Intn(1000))
		if rng.Intn(4) == 0 {
			index = 1 << 40
		}
		st.snap = myraft.Snapshot{Data: pickBytes(rng, true)}
		if len(st.snap.Data) > 20000 {
			st.snap.Data = st.snap.Data[:20000]
		}
		st.snap.Metadata.Index = index
		st.snap.Metadata.Term = term
		st.snap.Metadata.ConfState.Voters = []uint64{1, pickU64(rng) | 1}
		if err := ws.ApplySnapshot(st.snap); err != nil {
			return st, err
		}
		index++
	}
	nb := 1 + rng.Intn(4)
	if selfContained {
		nb = 1
	}
	for b := 0; b < nb; b++ {
		var batch []myraft.Entry
		for i, n := 0, 1+rng.Intn(5); i < n; i++ {
			if rng.Intn(6) == 0 {
				term += uint64(1 + rng.Intn(3))
			}
			e := myraft.Entry{Index: index, Term: term, Data: pickBytes(rng, true)}
			if rng.Intn(5) == 0 {
				e.Type = myraft.EntryConfChange
			}
			if len(e.Data) > 20000 {
				e.Data = e.Data[:20000]
			}
			if selfContained && len(e.Data) > 100 {
				e.Data = e.Data[:100]
			}
			batch = append(batch, e)
			index++
		}
		if err := ws.Append(batch); err != nil {
			return st, err
		}
		st.entries = append(st.entries, batch...)
		if rng.Intn(2) == 0 {
			st.hard = myraft.HardState{Term: term, Vote: pickU64(rng), Commit: batch[0].Index}
			if err := ws.SetHardState(st.hard); err != nil {
				return st, err
			}
		}
	}
	return st, w.Sync()
}

// ---- round-trip cases ----

type rtCase struct {
	codec string
	run   func(c *core.Case, rng *rand.Rand) (evals int)
}

func fail(c *core.Case, codec, rule, what string, detail any) {
	c.Violation("C16|"+codec+"|"+rule, what, detail)
}

var roundTrips = []rtCase{
	{"entry", func(c *core.Case, rng *rand.Rand) int {
		n := 0
		for i := 0; i < 400; i++ {
			e := genEntry(rng)
			enc, err := kv.EncodeEntry(nil, e)
			if err != nil {
				fail(c, "entry", "encode-error", err.Error(), fmt.Sprintf("%+v", e))
				continue
			}
			enc = append([]byte{}, enc...)
			check := func(how string, d *kv.Entry, recLen uint32, err error) {
				n++
				if err != nil || d == nil {
					fail(c, "entry", "roundtrip", fmt.Sprintf("%s rejected a valid encoding: %v", how, err), map[string]any{"encoded_hex": hexHead(enc)})
					return
				}
				if !eqBytes(d.Key, e.Key) || !eqBytes(d.Value, e.Value) || d.Meta != e.Meta || d.ExpiresAt != e.ExpiresAt || (recLen != 0 && int(recLen) != len(enc)) {
					fail(c, "entry", "roundtrip", how+" returned a different entry", map[string]any{"encoded_hex": hexHead(enc), "key_len": len(e.Key), "value_len": len(e.Value),
						"meta": e.Meta, "expires": e.ExpiresAt, "got_meta": d.Meta, "got_expires": d.ExpiresAt, "got_key_len": len(d.Key), "got_value_len": len(d.Value), "record_len": recLen})
				}
				d.DecrRef()
			}
			d, err := kv.DecodeEntry(enc)
			check("DecodeEntry", d, 0, err)
			d, l, err := kv.DecodeEntryFrom(iotest.OneByteReader(bytes.NewReader(append(append([]byte{}, enc...), 0xAA, 0xBB))))
			check("DecodeEntryFrom", d, l, err)
			val, h, err := kv.DecodeValueSlice(enc)
			n++
			if err != nil || !eqBytes(val, e.Value) || int(h.KeyLen) != len(e.Key) || int(h.ValueLen) != len(e.Value) || h.Meta != e.Meta || h.ExpiresAt != e.ExpiresAt {
				fail(c, "entry", "roundtrip", fmt.Sprintf("DecodeValueSlice disagrees with the encoded entry (err=%v)", err), map[string]any{"encoded_hex": hexHead(enc)})
			}
			// ValueStruct
			vs := kv.ValueStruct{Meta: e.Meta, Value: e.Value, ExpiresAt: e.ExpiresAt}
			buf := make([]byte, vs.EncodedSize())
			w := vs.EncodeValue(buf)
			var back kv.ValueStruct
			back.DecodeValue(buf)
			n++
			if w != vs.EncodedSize() || back.Meta != vs.Meta || back.ExpiresAt != vs.ExpiresAt || !eqBytes(back.Value, vs.Value) {
				fail(c, "entry", "roundtrip", "ValueStruct EncodeValue/DecodeValue returned a different value", map[string]any{"meta": vs.Meta, "expires": vs.ExpiresAt, "value_len": len(vs.Value)})
			}
		}
		return n
	}},
	{"valueptr", func(c *core.Case, rng *rand.Rand) int {
		n := 0
		for i := 0; i < 3000; i++ {
			p := kv.ValuePtr{Len: pickU32(rng), Offset: pickU32(rng), Fid: pickU32(rng), Bucket: pickU32(rng)}
			var q kv.ValuePtr
			q.Decode(p.Encode())
			n++
			if p != q {
				fail(c, "valueptr", "roundtrip", "ValuePtr Decode(Encode(p)) != p", map[string]any{"p": p, "got": q})
			}
		}
		return n
	}},
	{"internalkey", func(c *core.Case, rng *rand.Rand) int {
		n := 0
		type ik struct {
			cf  byte
			u   []byte
			v   uint64
			enc []byte
		}
		var keys []ik
		bases := [][]byte{[]byte("a"), {0x00}, {0xFF}, {0xFF, 'C', 'F', 0}, pickBytes(rng, false), pickBytes(rng, false)}
		for _, b := range bases {
			if len(b) > 300 {
				b = b[:300]
			}
			if len(b) == 0 {
				b = []byte{'x'}
			}
			variants := [][]byte{b, append(append([]byte{}, b...), 0x00), append(append([]byte{}, b...), 0xFF), append(append([]byte{}, b...), 'b'),
				append(append([]byte{}, b...), 0xFF, 0xFF, 0xFF, 0xFF, 0xFF, 0xFF, 0xFF, 0xFF), append(append([]byte{}, b...), 0, 0, 0, 0, 0, 0, 0, 0)}
			for _, u := range variants {
				for k := 0; k < 3; k++ {
					cf := byte(rng.Intn(3))
					v := pickU64(rng)
					enc := kv.InternalKey(kv.ColumnFamily(cf), u, v)
					// layout from the documentation, built independently
					want := append([]byte{0xFF, 'C', 'F', cf}, u...)
					var ts [8]byte
					binary.BigEndian.PutUint64(ts[:], math.MaxUint64-v)
					want = append(want, ts[:]...)
					gcf, gu, gv := kv.SplitInternalKey(enc)
					n++
					if !bytes.Equal(enc, want) || byte(gcf) != cf || !eqBytes(gu, u) || gv != v || kv.ParseTs(enc) != v ||
						!bytes.Equal(kv.KeyWithTs(want[:len(want)-8], v), want) || !bytes.Equal(kv.ParseKey(enc), want[:len(want)-8]) {
						fail(c, "internalkey", "roundtrip", "InternalKey / SplitInternalKey / KeyWithTs / ParseTs do not round-trip", map[string]any{"cf": cf, "user_key_hex": fmt.Sprintf("%x", u), "version": v, "encoded_hex": fmt.Sprintf("%x", enc)})
					}
					keys = append(keys, ik{cf, u, v, enc})
				}
			}
		}
		sign := func(x int) int {
			switch {
			case x < 0:
				return -1
			case x > 0:
				return 1
			}
			return 0
		}
		for i := range keys {
			for j := range keys {
				a, b := keys[i], keys[j]
				want := 0
				switch {
				case a.cf != b.cf:
					want = sign(int(a.cf) - int(b.cf))
				case !bytes.Equal(a.u, b.u):
					want = bytes.Compare(a.u, b.u)
				case a.v > b.v:
					want = -1
				case a.v < b.v:
					want = 1
				}
				n++
				c.Count("key_order_pairs", 1)
				if (len(a.u) != len(b.u)) && a.cf == b.cf && (bytes.HasPrefix(a.u, b.u) || bytes.HasPrefix(b.u, a.u)) {
					c.Count("key_order_prefix_pairs", 1)
				}
				if got := sign(utils.CompareKeys(a.enc, b.enc)); got != want {
					fail(c, "internalkey", "order", "utils.CompareKeys disagrees with (cf, user key ascending, version descending)",
						map[string]any{"a_hex": fmt.Sprintf("%x", a.enc), "b_hex": fmt.Sprintf("%x", b.enc), "got": got, "want": want})
				}
				if same := kv.SameKey(a.enc, b.enc); same != (a.cf == b.cf && bytes.Equal(a.u, b.u)) {
					fail(c, "internalkey", "samekey", "kv.SameKey disagrees with equality of (cf, user key)", map[string]any{"a_hex": fmt.Sprintf("%x", a.enc), "b_hex": fmt.Sprintf("%x", b.enc), "got": same})
				}
			}
		}
		return n
	}},
	{"lock", func(c *core.Case, rng *rand.Rand) int {
		n := 0
		for i := 0; i < 1500; i++ {
			l := genLock(rng)
			d, err := percolator.DecodeLock(percolator.EncodeLock(l))
			n++
			if err != nil || !eqBytes(d.Primary, l.Primary) || d.Ts != l.Ts || d.TTL != l.TTL || d.Kind != l.Kind || d.MinCommitTs != l.MinCommitTs {
				fail(c, "lock", "roundtrip", fmt.Sprintf("DecodeLock(EncodeLock(l)) != l (err=%v)", err), map[string]any{"lock": fmt.Sprintf("%+v", l), "got": fmt.Sprintf("%+v", d)})
			}
		}
		return n
	}},
	{"write", func(c *core.Case, rng *rand.Rand) int {
		n := 0
		for i := 0; i < 1500; i++ {
			w := genWrite(rng)
			d, err := percolator.DecodeWrite(percolator.EncodeWrite(w))
			n++
			if err != nil || !eqBytes(d.ShortValue, w.ShortValue) || d.StartTs != w.StartTs || d.Kind != w.Kind {
				fail(c, "write", "roundtrip", fmt.Sprintf("DecodeWrite(EncodeWrite(w)) != w (err=%v)", err), map[string]any{"write": fmt.Sprintf("%+v", w), "got": fmt.Sprintf("%+v", d)})
			}
		}
		return n
	}},
	{"command", func(c *core.Case, rng *rand.Rand) int {
		n := 0
		for i := 0; i < 300; i++ {
			req := genCommand(rng)
			enc, err := command.Encode(req)
			if err != nil {
				fail(c, "command", "encode-error", err.Error(), nil)
				continue
			}
			d, framed, err := command.Decode(enc)
			n++
			if err != nil || !framed || !proto.Equal(d, req) {
				fail(c, "command", "roundtrip", fmt.Sprintf("command.Decode(Encode(req)) != req (framed=%v err=%v)", framed, err), map[string]any{"encoded_hex": hexHead(enc)})
			}
		}
		// a payload without the frame prefix is reported as "not a command", not as an error
		if d, framed, err := command.Decode([]byte{0x01, 0x02}); d != nil || framed || err != nil {
			fail(c, "command", "roundtrip", "a payload without the frame prefix was not reported as unframed", nil)
		}
		return n + 1
	}},
	{"manifest", func(c *core.Case, rng *rand.Rand) int {
		n := 0
		for s := 0; s < 6; s++ {
			dir := c.TempDir()
			before, edits, err := manifestSession(rng, dir, 5+rng.Intn(40))
			if err != nil {
				fail(c, "manifest", "encode-error", "logging valid edits failed: "+err.Error(), nil)
				continue
			}
			n += len(edits)
			if err := manifest.Verify(dir, nil); err != nil {
				fail(c, "manifest", "roundtrip", "manifest.Verify rejects a manifest written by Manager: "+err.Error(), map[string]any{"edits": len(edits)})
			}
			m, err := manifest.Open(dir, nil)
			if err != nil {
				fail(c, "manifest", "roundtrip", "manifest.Open cannot reload a manifest written by Manager: "+err.Error(), map[string]any{"edits": len(edits)})
				continue
			}
			after := m.Current()
			_ = m.Close()
			if a, b := normVersion(before), normVersion(after); !reflect.DeepEqual(a, b) {
				fail(c, "manifest", "roundtrip", "the version reloaded from the manifest differs from the version the logged edits produced in memory",
					map[string]any{"edits": len(edits), "before": fmt.Sprintf("%+v", a), "after": fmt.Sprintf("%+v", b)})
			}
			// every single edit type on its own: the field values must come back exactly
			for i := 0; i < 12; i++ {
				d2 := filepath.Join(dir, fmt.Sprintf("single-%d", i))
				e := genEdit(rng)
				m2, err := manifest.Open(d2, nil)
				if err != nil {
					continue
				}
				m2.SetSync(false)
				_ = m2.LogEdit(e)
				v1 := m2.Current()
				_ = m2.Close()
				m3, err := manifest.Open(d2, nil)
				n++
				if err != nil {
					fail(c, "manifest", "roundtrip", "manifest.Open cannot reload a single edit: "+err.Error(), map[string]any{"edit": fmt.Sprintf("%+v", e)})
					continue
				}
				v2 := m3.Current()
				_ = m3.Close()
				if a, b := normVersion(v1), normVersion(v2); !reflect.DeepEqual(a, b) {
					fail(c, "manifest", "roundtrip", fmt.Sprintf("edit type %d does not round-trip through the manifest file", e.Type), map[string]any{"before": fmt.Sprintf("%+v", a), "after": fmt.Sprintf("%+v", b)})
				}
				c.Distinct("manifest_edit_types", fmt.Sprint(e.Type))
			}
		}
		return n
	}},
	{"raftwal", func(c *core.Case, rng *rand.Rand) int {
		n := 0
		for s := 0; s < 10; s++ {
			dir := c.TempDir()
			st, err := raftSession(rng, dir, false)
			if err != nil {
				fail(c, "raftwal", "encode-error", "WALStorage rejected a valid raft log: "+err.Error(), nil)
				continue
			}
			w, err := wal.Open(wal.Config{Dir: dir, BufferSize: 4096, SegmentSize: 64 << 10})
			if err != nil {
				c.Inconclusive("wal reopen failed: " + err.Error())
				continue
			}
			ws, err := engine.OpenWALStorage(engine.WALStorageConfig{GroupID: 1, WAL: w})
			if err != nil {
				fail(c, "raftwal", "roundtrip", "OpenWALStorage cannot replay records written by WALStorage: "+err.Error(), nil)
				_ = w.Close()
				continue
			}
			n += len(st.entries) + 2
			if len(st.entries) > 0 {
				lo, hi := st.entries[0].Index, st.entries[len(st.entries)-1].Index+1
				got, err := ws.Entries(lo, hi, math.MaxUint64)
				ok := err == nil && len(got) == len(st.entries)
				for i := 0; ok && i < len(got); i++ {
					g, e := got[i], st.entries[i]
					ok = g.Index == e.Index && g.Term == e.Term && g.Type == e.Type && eqBytes(g.Data, e.Data)
				}
				if !ok {
					fail(c, "raftwal", "roundtrip", fmt.Sprintf("raft entries replayed from the WAL differ from the appended ones (err=%v, got %d want %d)", err, len(got), len(st.entries)), map[string]any{"first_index": lo, "last_index": hi - 1})
				}
			}
			hs, _, err := ws.InitialState()
			if err != nil || !reflect.DeepEqual(hs, st.hard) {
				fail(c, "raftwal", "roundtrip", fmt.Sprintf("hard state replayed from the WAL differs (err=%v)", err), map[string]any{"want": fmt.Sprintf("%+v", st.hard), "got": fmt.Sprintf("%+v", hs)})
			}
			snap, err := ws.Snapshot()
			if err != nil || snap.Metadata.Index != st.snap.Metadata.Index || snap.Metadata.Term != st.snap.Metadata.Term || !eqBytes(snap.Data, st.snap.Data) ||
				!reflect.DeepEqual(append([]uint64{}, snap.Metadata.ConfState.Voters...), append([]uint64{}, st.snap.Metadata.ConfState.Voters...)) {
				fail(c, "raftwal", "roundtrip", fmt.Sprintf("snapshot replayed from the WAL differs (err=%v)", err), map[string]any{"want_index": st.snap.Metadata.Index, "got_index": snap.Metadata.Index})
			}
			_ = w.Close()
		}
		return n
	}},
}

func hexHead(b []byte) string {
	if len(b) > 96 {
		return fmt.Sprintf("%x...(len %d)", b[:96], len(b))
	}
	return fmt.Sprintf("%x", b)
}

// capturePayloads replays a WAL directory and returns the typed raft payloads
// prefixed with their type selector (see prepare("raftwal")).
func capturePayloads(dir string) [][]byte {
	w, err := wal.Open(wal.Config{Dir: dir, BufferSize: 4096, SegmentSize: 64 << 10})
	if err != nil {
		return nil
	}
	defer w.Close()
	var out [][]byte
	_ = w.Replay(func(info wal.EntryInfo, payload []byte) error {
		sel := byte(0)
		switch info.Type {
		case wal.RecordTypeRaftEntry:
			sel = 0
		case wal.RecordTypeRaftState:
			sel = 1
		case wal.RecordTypeRaftSnapshot:
			sel = 2
		default:
			return nil
		}
		out = append(out, append([]byte{sel}, payload...))
		return nil
	})
	return out
}

func readManifestFile(dir string) []byte {
	b, _ := os.ReadFile(filepath.Join(dir, "MANIFEST-000001"))
	return b
}
