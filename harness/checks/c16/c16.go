// Package c16: encodings round-trip, internal keys order correctly, decoders
// fail safely.
//
// Round-trip / order cases run in the case process with generated boundary
// values, always through exported entry points. Hostile-input cases hand a batch
// of inputs (random bytes, every truncation of valid encodings, valid encodings
// with each varint replaced by 2^31-1, 2^32, 2^63, MaxUint64, 4-byte length
// windows overwritten, bit flips) to a worker process that runs under an
// address-space limit, writes each input to disk before the call, recovers
// panics and measures runtime.MemStats.TotalAlloc around the call. Oracle: the
// decoder returns (a value or an error); no panic, no process death, and
// allocation <= 64*len(input) + 64 KiB.
package c16

import (
	"bytes"
	"encoding/binary"
	"fmt"
	"math/rand"
	"os"
	"os/exec"
	"path/filepath"
	"strconv"
	"strings"

	"github.com/feichai0017/NoKV/kv"
	"github.com/feichai0017/NoKV/percolator"
	"github.com/feichai0017/NoKV/raftstore/command"
	"verif/harness/internal/core"
)

const (
	maxDeathsPerCase     = 80
	rtCasesPerCodec      = 3
	hostileCasesQuick    = 4  // per decoder
	hostileCasesThorough = 40 // per decoder
)

func nRoundTrip() int { return len(roundTrips) * rtCasesPerCodec }

// validSeeds returns valid encodings for a decoder (inputs to truncate / mutate).
func validSeeds(c *core.Case, name string, rng *rand.Rand, n int) [][]byte {
	var out [][]byte
	switch name {
	case "entry", "entry-stream", "entry-valueslice", "entry-header":
		for i := 0; i < n; i++ {
			e := genEntry(rng)
			if len(e.Key) > 200 {
				e.Key = e.Key[:200]
			}
			if len(e.Value) > 200 {
				e.Value = e.Value[:200]
			}
			if enc, err := kv.EncodeEntry(nil, e); err == nil {
				out = append(out, append([]byte{}, enc...))
			}
		}
	case "valueptr":
		for i := 0; i < n; i++ {
			out = append(out, kv.ValuePtr{Len: pickU32(rng), Offset: pickU32(rng), Fid: pickU32(rng), Bucket: pickU32(rng)}.Encode())
		}
	case "internalkey":
		for i := 0; i < n; i++ {
			u := pickBytes(rng, false)
			if len(u) > 64 {
				u = u[:64]
			}
			out = append(out, kv.InternalKey(kv.ColumnFamily(rng.Intn(3)), u, pickU64(rng)))
		}
	case "lock":
		for i := 0; i < n; i++ {
			l := genLock(rng)
			if len(l.Primary) > 200 {
				l.Primary = l.Primary[:200]
			}
			out = append(out, percolator.EncodeLock(l))
		}
	case "write":
		for i := 0; i < n; i++ {
			w := genWrite(rng)
			if len(w.ShortValue) > 200 {
				w.ShortValue = w.ShortValue[:200]
			}
			out = append(out, percolator.EncodeWrite(w))
		}
	case "command":
		for i := 0; i < n; i++ {
			if enc, err := command.Encode(genCommand(rng)); err == nil && len(enc) < 600 {
				out = append(out, enc)
			}
		}
	case "manifest-verify", "manifest-open":
		for i := 0; i < n; i++ {
			dir := c.TempDir()
			if _, _, err := manifestSession(rng, dir, 1+rng.Intn(6)); err == nil {
				if b := readManifestFile(dir); len(b) > 0 && len(b) < 1500 {
					out = append(out, b)
				}
			}
		}
	case "raftwal":
		for i := 0; i < n; i++ {
			dir := c.TempDir()
			if _, err := raftSession(rng, dir, true); err == nil {
				for _, p := range capturePayloads(dir) {
					if len(p) < 800 {
						out = append(out, p)
					}
				}
			}
		}
	}
	return out
}

type hostileInput struct {
	data  []byte
	class string
}

func buildHostile(c *core.Case, dec *decoder, rng *rand.Rand) []hostileInput {
	budget := 560 // inputs per case
	slow := dec.name == "raftwal" || strings.HasPrefix(dec.name, "manifest")
	if slow {
		budget = 200
	}
	var out []hostileInput
	add := func(class string, ins [][]byte) {
		for _, in := range ins {
			out = append(out, hostileInput{in, class})
		}
	}
	nSeeds := 6
	seeds := validSeeds(c, dec.name, rng, nSeeds)
	var prefix []byte
	if len(seeds) > 0 {
		prefix = seeds[0][:min(len(seeds[0]), 6)]
	}
	if strings.HasPrefix(dec.name, "manifest") {
		// a manifest starts with a 4-byte record length: purely random bytes nearly
		// always declare gigabytes (one process death each, nothing else learnt), so
		// most random inputs keep a plausible length prefix
		add("random", randomInputs(rng, 6, nil))
		for _, in := range randomInputs(rng, budget/5, nil) {
			var l [4]byte
			binary.LittleEndian.PutUint32(l[:], uint32(rng.Intn(2*len(in)+8)))
			add("random", [][]byte{append(append(l[:], "NoKV"[:rng.Intn(5)]...), in...)})
		}
	} else {
		add("random", randomInputs(rng, budget/5, prefix))
	}
	add("valid", seeds)
	per := (budget - len(out)) / max(1, len(seeds))
	for _, s := range seeds {
		add("truncation", truncations(s, per/3, rng))
		add("varint-replaced", mutateVarints(s, rng, per/3))
		if strings.HasPrefix(dec.name, "manifest") {
			add("fixed32-replaced", mutateFixed32(s, rng, 4))
		} else if slow || rng.Intn(2) == 0 {
			add("fixed32-replaced", mutateFixed32(s, rng, per/6))
		}
		add("bitflip", bitFlips(s, rng, per/6))
	}
	if dec.name == "raftwal" {
		// every input needs a type selector; random inputs keep theirs, the rest already have one
		for i := range out {
			if len(out[i].data) == 0 {
				out[i].data = []byte{byte(rng.Intn(3))}
			}
		}
	}
	return out
}

type workerResult struct {
	outcome string
	alloc   uint64
	msg     string
}

func panicClass(msg string) string {
	switch {
	case strings.Contains(msg, "slice bounds out of range"):
		return "slice-bounds"
	case strings.Contains(msg, "index out of range"):
		return "index-out-of-range"
	case strings.Contains(msg, "makeslice"):
		return "makeslice"
	case strings.Contains(msg, "nil pointer"):
		return "nil-pointer"
	}
	return "other"
}

func deathClass(stderr string) string {
	if strings.Contains(stderr, "out of memory") || strings.Contains(stderr, "cannot allocate memory") {
		return "out-of-memory"
	}
	for _, l := range strings.Split(stderr, "\n") {
		if strings.HasPrefix(l, "fatal error:") || strings.HasPrefix(l, "panic:") || strings.HasPrefix(l, "runtime:") {
			l = strings.Map(func(r rune) rune {
				if r >= '0' && r <= '9' {
					return -1
				}
				return r
			}, l)
			if len(l) > 70 {
				l = l[:70]
			}
			return l
		}
	}
	return "unknown"
}

// runHostile runs one batch through worker processes (restarting after a death).
func runHostile(c *core.Case, dec *decoder, inputs []hostileInput) {
	dir := c.TempDir()
	batch := filepath.Join(dir, "batch")
	raw := make([][]byte, len(inputs))
	for i := range inputs {
		raw[i] = inputs[i].data
	}
	if err := writeBatch(batch, raw); err != nil {
		c.Inconclusive("cannot write batch: " + err.Error())
		return
	}
	results := map[int]workerResult{}
	start := 0
	deaths := 0
	infra := 0
	seen := map[string]bool{}
	warm := -1
	for i := range inputs {
		if inputs[i].class == "valid" {
			warm = i
			break
		}
	}
	for start < len(inputs) && deaths < maxDeathsPerCase {
		cmd := exec.Command(core.SelfExe(), "worker", workerName, dec.name, batch, dir, strconv.Itoa(start), strconv.Itoa(warm))
		var stderr bytes.Buffer
		cmd.Stderr = &stderr
		err := cmd.Run()
		c.Count("worker_processes", 1)
		// read results so far
		b, _ := os.ReadFile(filepath.Join(dir, "results"))
		last := -1
		for _, line := range strings.Split(string(b), "\n") {
			f := strings.SplitN(line, "\t", 4)
			if len(f) < 4 {
				continue
			}
			i, e1 := strconv.Atoi(f[0])
			a, e2 := strconv.ParseUint(f[2], 10, 64)
			if e1 != nil || e2 != nil {
				continue
			}
			results[i] = workerResult{f[1], a, f[3]}
			if i > last {
				last = i
			}
		}
		if err == nil {
			break
		}
		if es := stderr.String(); strings.Contains(es, "pthread_create failed") || strings.Contains(es, "failed to create new OS thread") {
			// the machine (or the address-space limit) refused a new thread: not the input's doing
			c.Count("worker_infrastructure_failures", 1)
			infra++
			if infra > 5 {
				c.Inconclusive("worker processes cannot create threads: " + deathClass(es))
				return
			}
			if last+1 > start {
				start = last + 1 // resume at the input that was running; results up to last are kept
			}
			continue
		}
		// the worker died: the input it had written to disk last is the culprit
		deaths++
		cur, _ := os.ReadFile(filepath.Join(dir, "current"))
		culprit := last + 1
		if nl := bytes.IndexByte(cur, '\n'); nl > 0 {
			if i, e := strconv.Atoi(string(cur[:nl])); e == nil {
				culprit = i
			}
		}
		if culprit < start || culprit >= len(inputs) {
			c.Inconclusive(fmt.Sprintf("worker for %s died before reaching an input: %v %s", dec.name, err, deathClass(stderr.String())))
			return
		}
		tail := stderr.String()
		if len(tail) > 3000 {
			tail = tail[:3000]
		}
		c.Count("worker_deaths", 1)
		c.Count("process_deaths."+dec.name, 1)
		if sig := "C16|" + dec.name + "|process-death|" + deathClass(stderr.String()); !seen[sig] {
			seen[sig] = true
			c.Violation(sig, fmt.Sprintf("decoding a %d-byte %s input killed the process (%v)", len(inputs[culprit].data), inputs[culprit].class, err),
				map[string]any{"decoder": dec.name, "input_class": inputs[culprit].class, "input_hex": hexHead(inputs[culprit].data), "input_len": len(inputs[culprit].data), "stderr_head": tail})
		}
		results[culprit] = workerResult{outcome: "death"}
		start = culprit + 1
	}
	if deaths >= maxDeathsPerCase {
		// enough evidence; the inputs not reached are not counted as evaluated
		c.Count("inputs_skipped_after_repeated_deaths."+dec.name, len(inputs)-start)
		inputs = inputs[:start]
	}
	// The entry points that work on files (manifest.Open/Verify, OpenWALStorage)
	// allocate a fixed amount whatever the input is (readers, maps, handles). The
	// smallest allocation seen in the batch is that fixed part; only what an input
	// costs beyond it is compared with the bound.
	fixed := uint64(1 << 62)
	for i := range inputs {
		if r, ok := results[i]; ok && r.outcome != "death" && r.outcome != "prepare-failed" && r.alloc < fixed {
			fixed = r.alloc
		}
	}
	if fixed == 1<<62 {
		fixed = 0
	}
	c.Max("fixed_alloc_bytes."+dec.name, int(fixed))
	for i := range inputs {
		r, ok := results[i]
		if !ok {
			c.Inconclusive(fmt.Sprintf("no result for input %d of %s", i, dec.name))
			continue
		}
		in := inputs[i]
		c.Count("evaluations", 1)
		c.Count("hostile_inputs."+dec.name, 1)
		c.Count("hostile_class."+in.class, 1)
		c.Count("outcome."+dec.name+"."+r.outcome, 1)
		c.Max("alloc_bytes."+dec.name, int(min(r.alloc, 1<<40)))
		c.Nontrivial(dec.name + "/" + in.class + "/" + r.outcome)
		detail := map[string]any{"decoder": dec.name, "input_class": in.class, "input_hex": hexHead(in.data), "input_len": len(in.data), "allocated_bytes": r.alloc, "fixed_part_bytes": fixed}
		switch {
		case r.outcome == "panic" && dec.name == "raftwal" && strings.Contains(r.msg, "go.etcd.io/raft/v3.(*MemoryStorage)"):
			// the payload decoded; etcd's MemoryStorage then rejected the log's
			// continuity (gap, overlap with a snapshot) by panicking. That is a
			// statement about raft log contents, not about decoding bytes.
			c.Count("raft_log_continuity_panics_outside_codec", 1)
		case r.outcome == "panic":
			sig := "C16|" + dec.name + "|panic|" + panicClass(r.msg)
			if !seen[sig] {
				seen[sig] = true
				detail["panic"] = r.msg
				c.Violation(sig, fmt.Sprintf("%s decoder panicked on a %d-byte %s input: %s", dec.name, len(in.data), in.class, strings.SplitN(r.msg, " || ", 2)[0]), detail)
			}
			c.Count("panics."+dec.name, 1)
		case r.outcome == "prepare-failed":
			c.Inconclusive("prepare failed for " + dec.name + ": " + r.msg)
		case r.outcome == "death":
		case in.class == "valid" && r.outcome != "ok":
			sig := "C16|" + dec.name + "|rejected-valid-encoding"
			if !seen[sig] {
				seen[sig] = true
				c.Violation(sig, dec.name+" decoder rejected an encoding produced by its own encoder", detail)
			}
		}
		if r.outcome != "death" && r.outcome != "panic" && r.alloc-min(r.alloc, fixed) > allocFactor*uint64(len(in.data))+allocSlack {
			sig := "C16|" + dec.name + "|alloc-out-of-proportion"
			c.Count("alloc_violations."+dec.name, 1)
			if !seen[sig] {
				seen[sig] = true
				c.Violation(sig, fmt.Sprintf("%s decoder allocated %d bytes for a %d-byte %s input (bound %d)", dec.name, r.alloc, len(in.data), in.class, allocFactor*len(in.data)+allocSlack), detail)
			}
		}
	}
}

func run(c *core.Case) {
	rng := c.Rng
	if c.Idx < nRoundTrip() {
		rt := roundTrips[c.Idx%len(roundTrips)]
		n := rt.run(c, rng)
		c.Count("evaluations", n)
		c.Count("roundtrips."+rt.codec, n)
		c.Nontrivial("roundtrip/" + rt.codec)
		if c.Idx < len(roundTrips) {
			c.Sample(map[string]any{"case": c.Idx, "kind": "roundtrip", "codec": rt.codec, "evaluations": n})
		}
		return
	}
	h := c.Idx - nRoundTrip()
	dec := &decoders[h%len(decoders)]
	inputs := buildHostile(c, dec, rng)
	runHostile(c, dec, inputs)
	if h < 2 {
		c.Sample(map[string]any{"case": c.Idx, "kind": "hostile", "decoder": dec.name, "inputs": len(inputs), "first_input_hex": hexHead(inputs[0].data)})
	}
}

func init() {
	core.RegisterWorker(workerName, workerMain)
	core.Register(&core.Check{
		ID:    "C16",
		Level: "exploration",
		Rule: "round-trip cases: generated boundary values (empty/1/127/128/16383/16384/65535/65536-byte fields, 0/1/2^31/2^32/2^63/MaxUint64 integers) for the entry codec, ValueStruct, ValuePtr, internal keys (+utils.CompareKeys / SameKey against an independent comparator on all pairs incl. prefix pairs), " +
			"manifest edits written through manifest.Manager and read back through Verify/Open, percolator lock/write records, raft entries/hard state/snapshots written through WALStorage and read back through OpenWALStorage, raftstore/command frames; " +
			"hostile cases: per decoder batches of random bytes, every truncation, every varint replaced by {2^31-1,2^32,2^63,MaxUint64}, 4-byte windows overwritten, bit flips, one input at a time in a worker process under RLIMIT_AS = start size + 256 MiB with the input on disk before the call; " +
			"oracle: decode(encode(x))==x, order agreement, no panic, no process death, TotalAlloc delta (minus the smallest delta of the batch = the fixed cost of the entry point) <= 64*len+64KiB; evaluations = comparisons + hostile inputs; non-trivial/distinct = distinct (codec) and (decoder, input class, outcome) combinations",
		Assumptions: []string{
			"nil and empty byte fields are the same value on the wire",
			"utils.CompareKeys and ValueStruct.DecodeValue have no error return and are only called on inputs satisfying their documented precondition (keys longer than 8 bytes; values written by EncodeValue)",
			"a truncation that is itself a valid shorter encoding may be accepted; only panics, process death and disproportionate allocation are failures",
			"manifest edits are encoded and decoded only through Manager.LogEdit(s)/Open/Verify, raft payloads only through WALStorage/OpenWALStorage (the codec functions are unexported)",
		},
		Cases: func(tier string) int {
			if tier == "thorough" {
				return nRoundTrip()*4 + len(decoders)*hostileCasesThorough
			}
			return nRoundTrip() + len(decoders)*hostileCasesQuick
		},
		Run: func(c *core.Case) {
			if c.Thorough() && c.Idx < nRoundTrip()*4 {
				// thorough runs every round-trip group 4x as often
				idx := c.Idx % nRoundTrip()
				rt := roundTrips[idx%len(roundTrips)]
				n := rt.run(c, c.Rng)
				c.Count("evaluations", n)
				c.Count("roundtrips."+rt.codec, n)
				c.Nontrivial("roundtrip/" + rt.codec)
				if c.Idx < len(roundTrips) {
					c.Sample(map[string]any{"case": c.Idx, "kind": "roundtrip", "codec": rt.codec, "evaluations": n})
				}
				return
			}
			if c.Thorough() {
				h := c.Idx - nRoundTrip()*4
				dec := &decoders[h%len(decoders)]
				inputs := buildHostile(c, dec, c.Rng)
				runHostile(c, dec, inputs)
				return
			}
			run(c)
		},
		CrashIsViolation: true,
		Finish: func(a *core.Agg) {
			for _, rt := range roundTrips {
				a.Floor("roundtrips."+rt.codec, 50)
			}
			for _, d := range decoders {
				a.Floor("hostile_inputs."+d.name, 500)
			}
			a.Floor("key_order_prefix_pairs", 500)
			a.Floor("hostile_class.truncation", 2000)
			a.Floor("hostile_class.varint-replaced", 2000)
			a.Floor("manifest_edit_types", 8)
			a.FloorNontrivial(30)
		},
	})
}
