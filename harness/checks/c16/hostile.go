package c16

import (
	"bytes"
	"encoding/binary"
	"fmt"
	"math"
	"math/rand"
	"os"
	"path/filepath"
	"runtime"
	"runtime/debug"
	"strings"
	"syscall"
	"testing/iotest"

	"github.com/feichai0017/NoKV/kv"
	"github.com/feichai0017/NoKV/manifest"
	"github.com/feichai0017/NoKV/percolator"
	"github.com/feichai0017/NoKV/raftstore/command"
	"github.com/feichai0017/NoKV/raftstore/engine"
	"github.com/feichai0017/NoKV/utils"
	"github.com/feichai0017/NoKV/wal"
)

// A decoder is one exported entry point that turns untrusted bytes into a
// value. call runs inside the worker process; it returns "ok" or "err" (both are
// fine: the statement only forbids panics, process death and allocation out of
// proportion to the input). dir is a scratch directory owned by the worker.
type decoder struct {
	name string // codec name used in signatures
	call func(dir string, in []byte) string
}

func verdict(err error) string {
	if err != nil {
		return "err"
	}
	return "ok"
}

var decoders = []decoder{
	{"entry", func(_ string, in []byte) string {
		e, err := kv.DecodeEntry(in)
		if e != nil {
			e.DecrRef()
		}
		return verdict(err)
	}},
	{"entry-stream", func(_ string, in []byte) string {
		e, _, err := kv.DecodeEntryFrom(iotest.OneByteReader(bytes.NewReader(in)))
		if e != nil {
			e.DecrRef()
		}
		return verdict(err)
	}},
	{"entry-valueslice", func(_ string, in []byte) string {
		_, _, err := kv.DecodeValueSlice(in)
		return verdict(err)
	}},
	{"entry-header", func(_ string, in []byte) string {
		var h kv.EntryHeader
		_, err := h.Decode(in)
		return verdict(err)
	}},
	{"valueptr", func(_ string, in []byte) string {
		var p kv.ValuePtr
		p.Decode(in)
		return "ok"
	}},
	{"internalkey", func(_ string, in []byte) string {
		_, _, _ = kv.SplitInternalKey(in)
		_ = kv.ParseTs(in)
		_ = kv.ParseKey(in)
		_, _, _ = kv.DecodeKeyCF(in)
		_ = kv.SameKey(in, in)
		if len(in) > 8 { // CompareKeys documents (and asserts) keys longer than the 8-byte suffix
			half := in[:8+(len(in)-8)/2+1]
			_ = utils.CompareKeys(in, half)
			_ = utils.CompareKeys(half, in)
		}
		return "ok"
	}},
	{"lock", func(_ string, in []byte) string {
		_, err := percolator.DecodeLock(in)
		return verdict(err)
	}},
	{"write", func(_ string, in []byte) string {
		_, err := percolator.DecodeWrite(in)
		return verdict(err)
	}},
	{"command", func(_ string, in []byte) string {
		_, _, err := command.Decode(in)
		return verdict(err)
	}},
	{"manifest-verify", func(dir string, in []byte) string {
		return verdict(manifest.Verify(dir, nil))
	}},
	{"manifest-open", func(dir string, in []byte) string {
		m, err := manifest.Open(dir, nil)
		if m != nil {
			_ = m.Close()
		}
		return verdict(err)
	}},
	{"raftwal", func(dir string, in []byte) string {
		// the WAL manager is opened by prepare (opening it is not the decoder under
		// test); OpenWALStorage replays the typed record and decodes its payload
		w := preparedWAL
		preparedWAL = nil
		if w == nil {
			return "err"
		}
		defer w.Close()
		_, err := engine.OpenWALStorage(engine.WALStorageConfig{GroupID: 1, WAL: w})
		return verdict(err)
	}},
}

var preparedWAL *wal.Manager

func decoderByName(name string) *decoder {
	for i := range decoders {
		if decoders[i].name == name {
			return &decoders[i]
		}
	}
	return nil
}

func openWAL(dir string) *wal.Manager {
	w, err := wal.Open(wal.Config{Dir: dir, BufferSize: 4096, SegmentSize: 64 << 10})
	if err != nil {
		return nil
	}
	return w
}

// prepare puts the input where the decoder will read it from (files for the
// decoders that work on directories). It runs before the allocation measurement.
func prepare(name, dir string, in []byte) error {
	switch name {
	case "manifest-verify", "manifest-open":
		_ = os.RemoveAll(dir)
		if err := os.MkdirAll(dir, 0o755); err != nil {
			return err
		}
		if err := os.WriteFile(filepath.Join(dir, "MANIFEST-000001"), in, 0o644); err != nil {
			return err
		}
		return os.WriteFile(filepath.Join(dir, "CURRENT"), []byte("MANIFEST-000001"), 0o644)
	case "raftwal":
		// in[0] selects the record type, the rest is the payload of one typed WAL record
		_ = os.RemoveAll(dir)
		w := openWAL(dir)
		if w == nil {
			return fmt.Errorf("wal open failed")
		}
		typ := wal.RecordTypeRaftEntry
		var payload []byte
		if len(in) > 0 {
			typ = []wal.RecordType{wal.RecordTypeRaftEntry, wal.RecordTypeRaftState, wal.RecordTypeRaftSnapshot}[int(in[0])%3]
			payload = in[1:]
		}
		if _, err := w.AppendRecords(wal.Record{Type: typ, Payload: payload}); err != nil {
			_ = w.Close()
			return err
		}
		if err := w.Sync(); err != nil {
			_ = w.Close()
			return err
		}
		if err := w.Close(); err != nil {
			return err
		}
		if preparedWAL != nil {
			_ = preparedWAL.Close()
		}
		if preparedWAL = openWAL(dir); preparedWAL == nil {
			return fmt.Errorf("wal reopen failed")
		}
	}
	return nil
}

// ---- batch files ----

func writeBatch(path string, inputs [][]byte) error {
	var buf bytes.Buffer
	for _, in := range inputs {
		var l [4]byte
		binary.LittleEndian.PutUint32(l[:], uint32(len(in)))
		buf.Write(l[:])
		buf.Write(in)
	}
	return os.WriteFile(path, buf.Bytes(), 0o644)
}

func readBatch(path string) ([][]byte, error) {
	b, err := os.ReadFile(path)
	if err != nil {
		return nil, err
	}
	var out [][]byte
	for len(b) >= 4 {
		n := int(binary.LittleEndian.Uint32(b))
		b = b[4:]
		if n > len(b) {
			return nil, fmt.Errorf("batch file truncated")
		}
		out = append(out, b[:n:n])
		b = b[n:]
	}
	return out, nil
}

const (
	workerName = "c16-decode"
	// address-space limit of a worker ("ulimit -v"): a multi-GiB reservation fails at once
	workerASFallback = 3 << 30
	workerASHeadroom = 384 << 20
	allocSlack       = 64 << 10
	allocFactor      = 64
)

// workerMain: c16-decode <decoder> <batch file> <out dir> <start index> <warm-up index>
//
// For every input from the start index on: write the input to <out>/current
// (so that the parent can attribute a death), read TotalAlloc, call the decoder
// with panics recovered, read TotalAlloc again, append one result line to
// <out>/results.
func workerMain(args []string) int {
	if len(args) != 5 {
		return 2
	}
	dec := decoderByName(args[0])
	inputs, err := readBatch(args[1])
	if dec == nil || err != nil {
		fmt.Fprintln(os.Stderr, "c16 worker: bad arguments:", err)
		return 2
	}
	outDir := args[2]
	start := 0
	fmt.Sscanf(args[3], "%d", &start)
	// "ulimit -v": the address space may grow by workerASHeadroom beyond what the
	// runtime has reserved at start, so a reservation of hundreds of MiB fails at
	// once instead of succeeding lazily.
	asLimit := uint64(workerASFallback)
	if b, err := os.ReadFile("/proc/self/status"); err == nil {
		for _, l := range strings.Split(string(b), "\n") {
			var kb uint64
			if n, _ := fmt.Sscanf(l, "VmSize: %d kB", &kb); n == 1 {
				asLimit = kb<<10 + workerASHeadroom
			}
		}
	}
	if v := os.Getenv("VERIF_C16_AS_LIMIT"); v != "" {
		fmt.Sscanf(v, "%d", &asLimit)
	}
	lim := syscall.Rlimit{Cur: asLimit, Max: asLimit}
	_ = syscall.Setrlimit(syscall.RLIMIT_AS, &lim)
	debug.SetGCPercent(100)
	runtime.GOMAXPROCS(2) // few threads: thread stacks count against the address-space limit
	res, err := os.OpenFile(filepath.Join(outDir, "results"), os.O_CREATE|os.O_WRONLY|os.O_APPEND, 0o644)
	if err != nil {
		return 2
	}
	defer res.Close()
	scratch := filepath.Join(outDir, "scratch")
	// warm-up: one unmeasured call on a valid input, so that one-time lazy
	// initialisation (protobuf message tables, pools) is not charged to an input
	warm := -1
	fmt.Sscanf(args[4], "%d", &warm)
	if warm >= 0 && warm < len(inputs) {
		if prepare(dec.name, scratch, inputs[warm]) == nil {
			safeCall(dec, scratch, inputs[warm])
			safeCall(dec, scratch, inputs[warm])
		}
	}
	var m0, m1 runtime.MemStats
	for i := start; i < len(inputs); i++ {
		in := inputs[i]
		cur := make([]byte, 0, len(in)+16)
		cur = append(cur, fmt.Sprintf("%d\n", i)...)
		cur = append(cur, in...)
		if err := os.WriteFile(filepath.Join(outDir, "current"), cur, 0o644); err != nil {
			return 2
		}
		if err := prepare(dec.name, scratch, in); err != nil {
			fmt.Fprintf(res, "%d\tprepare-failed\t0\t%s\n", i, oneLine(err.Error()))
			continue
		}
		runtime.ReadMemStats(&m0)
		outcome, msg := safeCall(dec, scratch, in)
		runtime.ReadMemStats(&m1)
		fmt.Fprintf(res, "%d\t%s\t%d\t%s\n", i, outcome, m1.TotalAlloc-m0.TotalAlloc, msg)
	}
	return 0
}

func oneLine(s string) string {
	s = strings.ReplaceAll(s, "\n", " | ")
	s = strings.ReplaceAll(s, "\t", " ")
	if len(s) > 600 {
		s = s[:600]
	}
	return s
}

func safeCall(dec *decoder, dir string, in []byte) (outcome, msg string) {
	defer func() {
		if r := recover(); r != nil {
			outcome = "panic"
			st := string(debug.Stack())
			// keep the frames below the panic machinery
			if i := strings.Index(st, "panic("); i >= 0 {
				st = st[i:]
			}
			msg = oneLine(fmt.Sprintf("%v || %s", r, st))
		}
	}()
	return dec.call(dir, in), ""
}

// ---- hostile input generation ----

var hostileLengths = []uint64{math.MaxInt32, 1 << 32, 1 << 63, math.MaxUint64}

// mutateVarints replaces, at every offset where a uvarint can be read, that
// varint by each hostile length. This covers every real length / count field of
// any of the encodings (and many positions that are no length at all).
func mutateVarints(valid []byte, rng *rand.Rand, max int) [][]byte {
	var out [][]byte
	offs := rng.Perm(len(valid))
	for _, off := range offs {
		_, n := binary.Uvarint(valid[off:])
		if n <= 0 {
			continue
		}
		for _, h := range hostileLengths {
			m := append([]byte{}, valid[:off]...)
			m = binary.AppendUvarint(m, h)
			m = append(m, valid[off+n:]...)
			out = append(out, m)
		}
		if len(out) >= max {
			break
		}
	}
	return out
}

// mutateFixed32 overwrites every aligned-or-not 4-byte window with large
// little/big-endian lengths (the manifest record frame uses a fixed 4-byte length).
func mutateFixed32(valid []byte, rng *rand.Rand, max int) [][]byte {
	var out [][]byte
	for _, off := range rng.Perm(len(valid)) {
		if off+4 > len(valid) {
			continue
		}
		for _, v := range []uint32{math.MaxInt32, math.MaxUint32, 1 << 30} {
			m := append([]byte{}, valid...)
			if rng.Intn(2) == 0 {
				binary.LittleEndian.PutUint32(m[off:], v)
			} else {
				binary.BigEndian.PutUint32(m[off:], v)
			}
			out = append(out, m)
		}
		if len(out) >= max {
			break
		}
	}
	return out
}

func truncations(valid []byte, max int, rng *rand.Rand) [][]byte {
	var out [][]byte
	if len(valid) <= max {
		for n := 0; n < len(valid); n++ {
			out = append(out, valid[:n:n])
		}
		return out
	}
	for _, n := range rng.Perm(len(valid))[:max] {
		out = append(out, valid[:n:n])
	}
	return out
}

func randomInputs(rng *rand.Rand, n int, prefix []byte) [][]byte {
	var out [][]byte
	for i := 0; i < n; i++ {
		l := rng.Intn(64)
		if rng.Intn(8) == 0 {
			l = rng.Intn(2048)
		}
		b := make([]byte, l)
		switch rng.Intn(3) {
		case 0:
			rng.Read(b)
		case 1: // mostly high bytes: long varints
			for j := range b {
				b[j] = 0x80 | byte(rng.Intn(128))
			}
		default:
			for j := range b {
				b[j] = []byte{0, 1, 0x7F, 0x80, 0xFF, 'N', 'o', 'K', 'V'}[rng.Intn(9)]
			}
		}
		if len(prefix) > 0 && rng.Intn(2) == 0 {
			b = append(append([]byte{}, prefix...), b...)
		}
		out = append(out, b)
	}
	return out
}

func bitFlips(valid []byte, rng *rand.Rand, n int) [][]byte {
	var out [][]byte
	if len(valid) == 0 {
		return nil
	}
	for i := 0; i < n; i++ {
		m := append([]byte{}, valid...)
		m[rng.Intn(len(m))] ^= 1 << uint(rng.Intn(8))
		out = append(out, m)
	}
	return out
}
