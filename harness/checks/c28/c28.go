// Package c28: client two-phase commit is atomic across regions under failures
// injected at every RPC of the prewrite/commit sequence.
//
// Setup: real raftstore/kv.Service in front of real raftstore/store.Store
// instances (harness/internal/cluster: real DB, WAL-backed raft log, three
// regions) served over in-memory gRPC (bufconn); a real raftstore/client.Client
// whose DialOptions carry a unary interceptor that fails the k-th
// KvPrewrite/KvCommit RPC either before sending it or after the server
// processed it (reply lost). Afterwards a second, fault-free client does what
// readers do: Get -> on a Locked error CheckTxnStatus on the lock's primary
// with a timestamp beyond the TTL -> ResolveLocks -> Get.
//
// Oracle (from the statement): after resolution the mutation set is entirely
// visible at its commit version (and not below it) or entirely invisible; it is
// visible if a TwoPhaseCommit call returned nil or the primary key's commit
// was applied; it is invisible if the primary key never committed; and once a
// reader has rolled its locks back a later client retry never makes it visible.
package c28

import (
	"bytes"
	"context"
	"fmt"
	"math/rand"
	"sort"
	"strings"
	"sync"
	"time"

	"github.com/feichai0017/NoKV/pb"
	"github.com/feichai0017/NoKV/raftstore/client"
	"google.golang.org/grpc"
	"google.golang.org/grpc/codes"
	"google.golang.org/grpc/status"
	"verif/harness/internal/cluster"
	"verif/harness/internal/core"
	"verif/harness/internal/dbx"
)

// shape = which regions a mutation set spans and which one holds the primary.
type shape struct {
	regions []int // region indices 0..2
	primary int   // region index of the primary key
}

var shapes = func() []shape {
	var out []shape
	subsets := [][]int{{0}, {1}, {2}, {0, 1}, {0, 2}, {1, 2}, {0, 1, 2}}
	for _, s := range subsets {
		for _, p := range s {
			out = append(out, shape{s, p})
		}
	}
	return out
}()

var followups = []string{"resolve", "retry-then-resolve", "resolve-then-retry"}

var regionSpecs = []cluster.RegionSpec{{ID: 1, End: []byte("h")}, {ID: 2, Start: []byte("h"), End: []byte("p")}, {ID: 3, Start: []byte("p")}}
var regionLetter = []string{"b", "k", "t"}

type rpcRec struct {
	Idx       int    `json:"idx"`
	Method    string `json:"method"`
	Region    uint64 `json:"region"`
	Role      string `json:"role"` // primary | secondary
	Injected  string `json:"injected,omitempty"`
	Processed bool   `json:"server_processed_ok"`
	Err       string `json:"err,omitempty"`
	Transfer  string `json:"leader_transfer_before,omitempty"`
}

// injector is the fault-injecting unary client interceptor.
type injector struct {
	mu            sync.Mutex
	armed         bool
	k             int
	mode          string // before | after
	n             int
	log           []rpcRec
	primaryRegion uint64
	before        func(region uint64) string // thorough: leader transfer between RPCs
}

func (in *injector) reset(k int, mode string, primaryRegion uint64) {
	in.mu.Lock()
	in.armed, in.k, in.mode, in.n, in.log, in.primaryRegion = k > 0, k, mode, 0, nil, primaryRegion
	in.mu.Unlock()
}

func (in *injector) disarm() {
	in.mu.Lock()
	in.armed = false
	in.mu.Unlock()
}

func replyOK(reply any) bool {
	switch r := reply.(type) {
	case *pb.KvPrewriteResponse:
		return r.GetRegionError() == nil && len(r.GetResponse().GetErrors()) == 0
	case *pb.KvCommitResponse:
		return r.GetRegionError() == nil && r.GetResponse().GetError() == nil
	}
	return false
}

func (in *injector) intercept(ctx context.Context, method string, req, reply any, cc *grpc.ClientConn, invoker grpc.UnaryInvoker, opts ...grpc.CallOption) error {
	name := method[strings.LastIndex(method, "/")+1:]
	var region uint64
	switch r := req.(type) {
	case *pb.KvPrewriteRequest:
		region = r.GetContext().GetRegionId()
	case *pb.KvCommitRequest:
		region = r.GetContext().GetRegionId()
	default:
		return invoker(ctx, method, req, reply, cc, opts...)
	}
	in.mu.Lock()
	in.n++
	rec := rpcRec{Idx: in.n, Method: name, Region: region, Role: "secondary"}
	if region == in.primaryRegion {
		rec.Role = "primary"
	}
	fire := in.armed && in.n == in.k
	mode := in.mode
	hook := in.before
	in.mu.Unlock()
	if hook != nil {
		rec.Transfer = hook(region)
	}
	var err error
	switch {
	case fire && mode == "before":
		rec.Injected = "before"
		err = status.Error(codes.Unavailable, "injected fault: request not sent")
	case fire:
		rec.Injected = "after"
		ierr := invoker(ctx, method, req, reply, cc, opts...)
		rec.Processed = ierr == nil && replyOK(reply)
		if ierr != nil {
			rec.Err = ierr.Error()
		}
		err = status.Error(codes.Unavailable, "injected fault: reply lost")
	default:
		err = invoker(ctx, method, req, reply, cc, opts...)
		rec.Processed = err == nil && replyOK(reply)
		if err != nil {
			rec.Err = err.Error()
		}
	}
	in.mu.Lock()
	in.log = append(in.log, rec)
	in.mu.Unlock()
	return err
}

func (in *injector) snapshot() []rpcRec {
	in.mu.Lock()
	defer in.mu.Unlock()
	return append([]rpcRec(nil), in.log...)
}

type env struct {
	c      *core.Case
	cl     *cluster.Cluster
	front  *cluster.KVFront
	writer *client.Client
	reader *client.Client
	inj    *injector
	res    *cluster.Resolver
	stores int
}

func ctxT() (context.Context, context.CancelFunc) {
	return context.WithTimeout(context.Background(), 20*time.Second)
}

// patient retries a fault-free reader/setup call while the client gives up
// because no store could name the leader yet (leader transfer in progress on a
// 3-store cluster); a real reader retries the same way. Scheduling only.
func patient(call func() error) error {
	var err error
	for i := 0; i < 100; i++ {
		if err = call(); err == nil || !strings.Contains(err.Error(), "retries exhausted") {
			return err
		}
		time.Sleep(20 * time.Millisecond)
	}
	return err
}

type txn struct {
	Sub         int               `json:"sub"`
	Primary     string            `json:"primary"`
	Keys        []string          `json:"keys"`
	Values      map[string]string `json:"values"`
	Old         map[string]string `json:"preexisting,omitempty"`
	Start       uint64            `json:"start_version"`
	Commit      uint64            `json:"commit_version"`
	TTL         uint64            `json:"ttl"`
	K           int               `json:"fault_rpc_index"`
	Mode        string            `json:"fault_mode"`
	Followup    string            `json:"followup"`
	Results     []string          `json:"two_phase_commit_results"`
	RPCs        []rpcRec          `json:"rpcs"`
	Resolution  []string          `json:"resolution_log"`
	Vis1        map[string]bool   `json:"visible_after_first_resolution,omitempty"`
	Vis         map[string]bool   `json:"visible_at_end"`
	VisBelow    map[string]bool   `json:"visible_below_commit_version"`
	PrimaryCom  bool              `json:"primary_commit_applied"`
	RolledBack1 bool              `json:"reader_rolled_back_in_first_resolution,omitempty"`
	rolledBack  bool
}

// resolveAndRead is the reader procedure; it returns per key whether the
// transaction's value is visible at readTs.
func (e *env) resolveAndRead(t *txn, readTs uint64) (map[string]bool, error) {
	vis := map[string]bool{}
	for _, k := range t.Keys {
		for attempt := 0; ; attempt++ {
			var resp *pb.GetResponse
			err := patient(func() error {
				ctx, cancel := ctxT()
				defer cancel()
				var gerr error
				resp, gerr = e.reader.Get(ctx, []byte(k), readTs)
				return gerr
			})
			if err != nil {
				return nil, fmt.Errorf("reader get %s: %w", k, err)
			}
			lk := resp.GetError().GetLocked()
			if resp.GetError() != nil && lk == nil {
				return nil, fmt.Errorf("reader get %s: key error %v", k, resp.GetError())
			}
			if lk == nil {
				vis[k] = !resp.GetNotFound() && string(resp.GetValue()) == t.Values[k]
				break
			}
			if attempt >= 3 {
				return nil, fmt.Errorf("key %s still locked after %d resolution attempts", k, attempt)
			}
			var st *pb.CheckTxnStatusResponse
			err = patient(func() error {
				ctx, cancel := ctxT()
				defer cancel()
				var cerr error
				st, cerr = e.reader.CheckTxnStatus(ctx, lk.GetPrimaryLock(), lk.GetLockVersion(), lk.GetLockVersion()+lk.GetLockTtl()+1000)
				return cerr
			})
			if err != nil {
				return nil, fmt.Errorf("check txn status: %w", err)
			}
			if st.GetError() != nil {
				return nil, fmt.Errorf("check txn status key error: %v", st.GetError())
			}
			var commitVersion uint64
			switch {
			case st.GetCommitVersion() > 0:
				commitVersion = st.GetCommitVersion()
			case st.GetAction() == pb.CheckTxnStatusAction_CheckTxnStatusTTLExpireRollback, st.GetAction() == pb.CheckTxnStatusAction_CheckTxnStatusLockNotExistRollback:
				commitVersion = 0
			default:
				return nil, fmt.Errorf("check txn status beyond TTL neither committed nor rolled back: %v", st)
			}
			if commitVersion == 0 {
				t.rolledBack = true
			}
			t.Resolution = append(t.Resolution, fmt.Sprintf("%s locked by %d (primary %s): status commit=%d action=%v -> resolve", k, lk.GetLockVersion(), lk.GetPrimaryLock(), st.GetCommitVersion(), st.GetAction()))
			err = patient(func() error {
				ctx, cancel := ctxT()
				defer cancel()
				_, rerr := e.reader.ResolveLocks(ctx, lk.GetLockVersion(), commitVersion, [][]byte{[]byte(k)})
				return rerr
			})
			if err != nil {
				return nil, fmt.Errorf("resolve locks: %w", err)
			}
		}
	}
	return vis, nil
}

// primaryCommitApplied looks in the apply recorder for an application that
// committed the primary key of the transaction (COMMIT, or RESOLVE_LOCK with
// a commit version) without error.
func (e *env) primaryCommitApplied(t *txn) bool {
	for _, seq := range e.cl.Sequences() {
		for _, r := range seq {
			if r.Req == nil || r.Resp == nil {
				continue
			}
			for i, q := range r.Req.GetRequests() {
				if i >= len(r.Resp.GetResponses()) {
					break
				}
				out := r.Resp.GetResponses()[i]
				has := func(keys [][]byte) bool {
					for _, k := range keys {
						if string(k) == t.Primary {
							return true
						}
					}
					return false
				}
				if cm := q.GetCommit(); cm != nil && cm.GetStartVersion() == t.Start && has(cm.GetKeys()) && out.GetCommit() != nil && out.GetCommit().GetError() == nil {
					return true
				}
				if rl := q.GetResolveLock(); rl != nil && rl.GetStartVersion() == t.Start && rl.GetCommitVersion() > 0 && has(rl.GetKeys()) && out.GetResolveLock() != nil && out.GetResolveLock().GetError() == nil && out.GetResolveLock().GetResolvedLocks() > 0 {
					return true
				}
			}
		}
	}
	return false
}

func allSame(m map[string]bool) (bool, bool) {
	first, set := false, false
	for _, v := range m {
		if !set {
			first, set = v, true
		} else if v != first {
			return false, false
		}
	}
	return true, first
}

func faultCtx(t *txn) string {
	for _, r := range t.RPCs {
		if r.Injected != "" {
			return fmt.Sprintf("fault=%s:%s:%s,followup=%s", r.Injected, r.Method, r.Role, t.Followup)
		}
	}
	return "fault=none,followup=" + t.Followup
}

// runTxn runs one mutation set with one fault point and judges it.
func (e *env) runTxn(sh shape, sub, k int, mode, followup string, rng *rand.Rand) (fired bool) {
	c := e.c
	t := &txn{Sub: sub, K: k, Mode: mode, Followup: followup, Values: map[string]string{}, Old: map[string]string{}, TTL: 50}
	t.Start = uint64(1000 * (sub + 2))
	t.Commit = t.Start + 10
	var muts []*pb.Mutation
	for _, ri := range sh.regions {
		nk := 1 + rng.Intn(2)
		for j := 0; j < nk; j++ {
			key := fmt.Sprintf("%s-c%d-s%03d-%d", regionLetter[ri], c.Idx, sub, j)
			t.Keys = append(t.Keys, key)
			t.Values[key] = fmt.Sprintf("v-%d-%d-%s", c.Idx, sub, key)
			if ri == sh.primary && j == 0 {
				t.Primary = key
			}
			muts = append(muts, &pb.Mutation{Op: pb.Mutation_Put, Key: []byte(key), Value: []byte(t.Values[key])})
			if rng.Intn(4) == 0 {
				// a committed older value that the transaction overwrites
				old := "old-" + key
				err := patient(func() error {
					ctx, cancel := ctxT()
					defer cancel()
					return e.reader.Put(ctx, []byte(key), []byte(old), t.Start-200, t.Start-190, 50)
				})
				if err != nil {
					c.Inconclusive("setup put failed: " + err.Error())
					return false
				}
				t.Old[key] = old
			}
		}
	}
	rng.Shuffle(len(muts), func(i, j int) { muts[i], muts[j] = muts[j], muts[i] })
	primaryRegion := e.res.RegionOf([]byte(t.Primary))
	call := func() {
		ctx, cancel := ctxT()
		err := e.writer.TwoPhaseCommit(ctx, []byte(t.Primary), muts, t.Start, t.Commit, t.TTL)
		cancel()
		if err == nil {
			t.Results = append(t.Results, "nil")
		} else {
			t.Results = append(t.Results, "error: "+err.Error())
		}
	}
	e.inj.reset(k, mode, primaryRegion)
	call()
	e.inj.disarm()
	readTs := t.Commit + 5
	var err error
	switch followup {
	case "resolve":
		t.Vis, err = e.resolveAndRead(t, readTs)
	case "retry-then-resolve":
		call()
		t.Vis, err = e.resolveAndRead(t, readTs)
	case "resolve-then-retry":
		t.Vis1, err = e.resolveAndRead(t, readTs)
		t.RolledBack1 = t.rolledBack
		if err == nil {
			call()
			t.Vis, err = e.resolveAndRead(t, readTs)
		}
	}
	t.RPCs = e.inj.snapshot()
	for _, r := range t.RPCs {
		if r.Injected != "" {
			fired = true
		}
	}
	if err != nil {
		c.Inconclusive(fmt.Sprintf("reader could not resolve (%s): %v", faultCtx(t), err))
		c.Count("resolution_failures", 1)
		return fired
	}
	t.VisBelow, err = e.readOnly(t, t.Commit-1)
	if err != nil {
		c.Inconclusive("read below commit version failed: " + err.Error())
		return fired
	}
	t.PrimaryCom = e.primaryCommitApplied(t)
	c.Count("evaluations", 1)
	c.Count("mutation_sets_judged", 1)
	c.Count(fmt.Sprintf("regions_spanned_%d", len(sh.regions)), 1)
	ctxs := faultCtx(t)
	if fired {
		c.Distinct("fault_points", ctxs)
		for _, r := range t.RPCs {
			if r.Injected != "" {
				c.Distinct("fault_rpc_kinds", fmt.Sprintf("%s:%s:%s", r.Injected, r.Method, r.Role))
				if r.Transfer != "" {
					c.Count("faults_right_after_leader_transfer", 1)
				}
			}
		}
	}
	for _, r := range t.RPCs {
		if r.Transfer != "" {
			c.Count("leader_transfers_between_rpcs", 1)
		}
	}
	c.Count("locks_resolved", len(t.Resolution))
	succeeded := false
	for _, r := range t.Results {
		if r == "nil" {
			succeeded = true
		}
	}
	same, visible := allSame(t.Vis)
	outcome := "invisible"
	if same && visible {
		outcome = "visible"
	}
	c.Count("outcome."+outcome, 1)
	report := func(rule, what string) {
		c.Violation("C28|"+rule+"|"+ctxs, what, map[string]any{"txn": t, "shape": sh, "stores": e.stores})
	}
	switch {
	case !same:
		report("partial-visibility", fmt.Sprintf("after lock resolution the mutation set is partly visible: %v", t.Vis))
	case (succeeded || t.PrimaryCom) && !visible:
		report("committed-but-invisible", fmt.Sprintf("TwoPhaseCommit results %v, primary commit applied=%v, but no key is visible at version %d", t.Results, t.PrimaryCom, readTs))
	case !t.PrimaryCom && visible:
		report("visible-although-primary-never-committed", fmt.Sprintf("all keys visible although no commit of primary %s was applied", t.Primary))
	}
	if t.Vis1 != nil {
		if s1, v1 := allSame(t.Vis1); !s1 {
			report("partial-visibility", fmt.Sprintf("after the first lock resolution the mutation set is partly visible: %v", t.Vis1))
		} else if !v1 && t.RolledBack1 && same && visible {
			report("visible-after-rollback-resolution", "a reader rolled the failed transaction back (CheckTxnStatus/ResolveLocks with commit version 0), a later client retry made it visible")
		}
	}
	for k, v := range t.VisBelow {
		if v {
			report("visible-below-commit-version", fmt.Sprintf("key %s shows the transaction's value at version %d < commit version %d", k, t.Commit-1, t.Commit))
			break
		}
	}
	if fired {
		c.Nontrivial(fmt.Sprintf("%v|%d|%s|%s|%d", sh, len(t.Keys), ctxs, outcome, e.stores))
	}
	if c.Idx < 2 && sub == 1 {
		c.Sample(map[string]any{"shape": sh, "txn": t})
	}
	return fired
}

// readOnly reads every key at a version without resolving anything.
func (e *env) readOnly(t *txn, ts uint64) (map[string]bool, error) {
	vis := map[string]bool{}
	for _, k := range t.Keys {
		var resp *pb.GetResponse
		err := patient(func() error {
			ctx, cancel := ctxT()
			defer cancel()
			var gerr error
			resp, gerr = e.reader.Get(ctx, []byte(k), ts)
			return gerr
		})
		if err != nil {
			return nil, err
		}
		vis[k] = resp.GetError() == nil && !resp.GetNotFound() && bytes.Equal(resp.GetValue(), []byte(t.Values[k]))
	}
	return vis, nil
}

func run(c *core.Case) {
	nBase := len(shapes) * len(followups)
	variant := c.Idx / nBase
	sh := shapes[(c.Idx%nBase)/len(followups)]
	followup := followups[c.Idx%len(followups)]
	stores := 1
	if c.Thorough() && variant >= 3 {
		stores = 3
	}
	cfg := dbx.Config{Engine: []string{"skiplist", "art"}[c.Rng.Intn(2)], ValueThreshold: 1024, Buckets: 1, VlogFileSize: 1 << 20, ManifestRewrite: 64 << 20, Controlled: true, MemTableSize: 4 << 20, L0Tables: 1000}
	cl, err := cluster.New(cluster.Options{Dir: c.TempDir(), Stores: stores, Regions: regionSpecs, Rng: rand.New(rand.NewSource(c.Rng.Int63())), CommandTimeout: 3 * time.Second, DB: cfg})
	if err != nil {
		c.Inconclusive("cluster did not start: " + err.Error())
		return
	}
	defer cl.Close()
	front := cl.ServeKV()
	defer front.Close()
	deadline := time.Now().Add(20 * time.Second)
	for _, r := range regionSpecs {
		for {
			if _, _, ok := cl.Leader(r.ID); ok {
				break
			}
			if time.Now().After(deadline) {
				c.Inconclusive("no leader elected")
				return
			}
			time.Sleep(2 * time.Millisecond)
		}
	}
	e := &env{c: c, cl: cl, front: front, inj: &injector{}, res: cl.Resolver(), stores: stores}
	e.reader, err = client.New(client.Config{Stores: front.Endpoints(), RegionResolver: cl.Resolver(), DialOptions: front.DialOptions(), MaxRetries: 12, DialTimeout: 60 * time.Second})
	if err != nil {
		c.Inconclusive("reader client: " + err.Error())
		return
	}
	defer e.reader.Close()
	e.writer, err = client.New(client.Config{Stores: front.Endpoints(), RegionResolver: cl.Resolver(), DialOptions: front.DialOptions(e.inj.intercept), MaxRetries: 12, DialTimeout: 60 * time.Second})
	if err != nil {
		c.Inconclusive("writer client: " + err.Error())
		return
	}
	defer e.writer.Close()
	if stores == 3 {
		if !skewProposalCounters(e) {
			c.Inconclusive("could not skew proposal counters")
			return
		}
		trng := rand.New(rand.NewSource(c.Rng.Int63()))
		e.inj.before = func(region uint64) string {
			if trng.Intn(2) == 0 {
				return ""
			}
			return transferAndWait(cl, region, trng.Intn(2))
		}
	}
	c.Count(fmt.Sprintf("clusters_with_%d_stores", stores), 1)
	nRPC := 2 * len(sh.regions)
	sub := 0
	// baseline without fault, then every (k, mode)
	e.runTxn(sh, sub, 0, "", followup, c.Rng)
	for k := 1; k <= nRPC; k++ {
		for _, mode := range []string{"before", "after"} {
			sub++
			if !e.runTxn(sh, sub, k, mode, followup, c.Rng) {
				c.Count("fault_points_not_reached", 1)
			} else {
				c.Count("fault_points_executed", 1)
			}
		}
	}
}

// transferAndWait moves the leadership of a region to another store and waits
// (watchdog) until some store leads again; the result is only a note.
func transferAndWait(cl *cluster.Cluster, region uint64, step int) string {
	from, _, ok := cl.Leader(region)
	if !ok {
		return "no-leader"
	}
	to := (from + 1 + step) % 3
	if err := cl.TransferLeader(region, to); err != nil {
		return "transfer-error"
	}
	dl := time.Now().Add(3 * time.Second)
	for time.Now().Before(dl) {
		if l, _, ok := cl.Leader(region); ok && l == to {
			return fmt.Sprintf("%d->%d", from, to)
		}
		time.Sleep(time.Millisecond)
	}
	return fmt.Sprintf("%d->%d(unconfirmed)", from, to)
}

// skewProposalCounters makes the per-store proposal id counters of the three
// stores disjoint for the length of a run (store i serves 300*i reads as a
// leader first), so that the request-id collision recorded as a C22 finding
// cannot interfere with this check's verdicts.
func skewProposalCounters(e *env) bool {
	for i := 1; i < 3; i++ {
		dl := time.Now().Add(10 * time.Second)
		for {
			if l, _, ok := e.cl.Leader(1); ok && l == i {
				break
			}
			_ = e.cl.TransferLeader(1, i)
			if time.Now().After(dl) {
				return false
			}
			time.Sleep(20 * time.Millisecond)
		}
		okReads := 0
		for n := 0; n < 300*i*3 && okReads < 300*i; n++ {
			r := e.cl.Read(i, cluster.ReadRequest(1, "b-skew"))
			if r.Err == nil && r.Resp != nil && r.Resp.GetRegionError() == nil {
				okReads++
			}
		}
		if okReads < 300*i {
			return false
		}
	}
	return true
}

func init() {
	core.Register(&core.Check{
		ID:    "C28",
		Level: "fault_enumeration",
		Rule: "enumeration: mutation-set shape = (non-empty subset of 3 regions, region holding the primary) [12 shapes] x follow-up {reader resolves; client retries then reader resolves; reader resolves, client retries, reader resolves} [3]; " +
			"one case = one (shape, follow-up) on a fresh cluster (real kv.Service + store.Store + DB over bufconn gRPC, real client.Client), inside it every fault point k in 1..2*regions (every KvPrewrite/KvCommit RPC of TwoPhaseCommit) x mode {request not sent, reply lost after the server processed it} plus a fault-free baseline; " +
			"1-2 keys per region, some with a committed older value, mutation order shuffled (PRNG); reader = Get -> CheckTxnStatus(primary, ts beyond TTL) -> ResolveLocks -> Get at commit+5 and commit-1; " +
			"oracle: all-or-nothing, visible iff the primary's commit was applied (apply recorder) and whenever TwoPhaseCommit returned nil, not visible below the commit version, never visible after a reader rolled its locks back; " +
			"thorough repeats the enumeration with 2 more PRNG variants and adds 3-store clusters with leader transfers between the RPCs; distinct/non-trivial = executed (shape, key count, fault RPC kind/role/mode, follow-up, outcome) combinations",
		Assumptions: []string{
			"the order in which TwoPhaseCommit visits secondary regions is Go map order; the fault point is identified by what the interceptor observed (method, primary/secondary role), not by k",
			"'primary commit applied' is observed at the CommandApplier (a COMMIT or committing RESOLVE_LOCK of the primary key without error)",
			"3-store clusters (thorough): per-store proposal counters are pre-skewed so that the C22 request-id collision finding cannot produce foreign responses here",
			"a reader that cannot finish the resolution procedure (RPC error) makes the sub-case inconclusive, not violated",
		},
		Exhaustive:  false,
		CaseTimeout: 5 * time.Minute,
		Cases: func(tier string) int {
			n := len(shapes) * len(followups)
			if tier == "thorough" {
				return n * 5 // variants 0-2: single store, 3-4: three stores with leader transfers
			}
			return n
		},
		Run: run,
		Finish: func(a *core.Agg) {
			a.FloorNontrivial(100)
			a.Floor("fault_rpc_kinds", 8)
			a.Floor("fault_points_executed", 250)
			a.Floor("outcome.visible", 50)
			a.Floor("outcome.invisible", 50)
			a.Floor("locks_resolved", 100)
			if a.Tier == "thorough" {
				a.Floor("leader_transfers_between_rpcs", 50)
			}
			var kinds []string
			for k := range a.Sets["fault_rpc_kinds"] {
				kinds = append(kinds, k)
			}
			sort.Strings(kinds)
			a.Extra["fault_rpc_kinds_seen"] = kinds
		},
	})
}
