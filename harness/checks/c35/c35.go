// Package c35: SST tables serve exactly the entries they were built from.
//
// Monitor: a bare lsm.LSM (no compactor started) receives a generated entry
// set, the memtable is rotated and flushed, so that one L0 table built with the
// chosen block size / bloom setting is the only source. A sorted-list model of
// the stored entries (written from the statement: internal keys ordered by key
// body ascending, then version descending) judges
//   - point lookups of every stored internal key (no bloom false negative, the
//     entry comes back with its value / meta / expiry) and of absent user keys,
//   - forward seeks (first entry >= target) and reverse seeks (last entry <=
//     target) from every key and its neighbours, followed by a few steps,
//   - full forward and reverse iteration,
//
// before and after closing and reopening the LSM (table re-opened from disk).
package c35

import (
	"bytes"
	"errors"
	"fmt"
	"math"
	"math/rand"
	"os"
	"path/filepath"
	"sort"
	"time"

	"github.com/feichai0017/NoKV/kv"
	"github.com/feichai0017/NoKV/lsm"
	"github.com/feichai0017/NoKV/manifest"
	"github.com/feichai0017/NoKV/utils"
	"github.com/feichai0017/NoKV/wal"
	"verif/harness/internal/core"
)

type ent struct {
	key  []byte // internal key (body + 8-byte inverted version)
	val  []byte
	meta byte
	exp  uint64
}

// cmpKey is the order of the statement: key body ascending, newer version first.
func cmpKey(a, b []byte) int {
	ab, bb := a[:len(a)-8], b[:len(b)-8]
	if c := bytes.Compare(ab, bb); c != 0 {
		return c
	}
	return bytes.Compare(a[len(a)-8:], b[len(b)-8:])
}

type config struct {
	BlockSize  int     `json:"block_size"`
	BloomFP    float64 `json:"bloom_fp"`
	BlockCache int     `json:"block_cache"`
	BloomCache int     `json:"bloom_cache"`
	Shape      string  `json:"shape"`
	RawKeys    bool    `json:"raw_keys"` // keys without the CF marker (kv.KeyWithTs)
}

var shapes = []string{"single", "big", "prefix", "versions", "long-keys", "random", "sequential"}

const farFuture = uint64(4102444800) // 2100-01-01

type bare struct {
	l   *lsm.LSM
	w   *wal.Manager
	ch  chan map[manifest.ValueLogID]int64
	dir string
}

func openBare(dir string, cfg config) (b *bare, err error) {
	defer func() {
		if r := recover(); r != nil {
			err = fmt.Errorf("open panicked: %v", r)
			b = nil
		}
	}()
	w, werr := wal.Open(wal.Config{Dir: dir})
	if werr != nil {
		return nil, werr
	}
	ch := make(chan map[manifest.ValueLogID]int64, 16)
	opt := &lsm.Options{
		WorkDir:             dir,
		MemTableSize:        32 << 20,
		MemTableEngine:      "skiplist",
		SSTableMaxSz:        64 << 20,
		BlockSize:           cfg.BlockSize,
		BloomFalsePositive:  cfg.BloomFP,
		BlockCacheSize:      cfg.BlockCache,
		BloomCacheSize:      cfg.BloomCache,
		BaseLevelSize:       32 << 20,
		LevelSizeMultiplier: 8,
		BaseTableSize:       8 << 20,
		TableSizeMultiplier: 2,
		NumLevelZeroTables:  15,
		MaxLevelNum:         utils.MaxLevelNum,
		NumCompactors:       1,
		DiscardStatsCh:      &ch,
	}
	l := lsm.NewLSM(opt, w)
	return &bare{l: l, w: w, ch: ch, dir: dir}, nil
}

func (b *bare) close() error {
	if b == nil || b.l == nil {
		return nil
	}
	err := b.l.Close()
	if cerr := b.w.Close(); err == nil {
		err = cerr
	}
	b.l = nil
	return err
}

// ---------------------------------------------------------------------------
// entry-set generation

var alphabet = []byte{0x00, 0x01, 'a', 'b', 'k', 0xfe, 0xff}

func randKey(rng *rand.Rand, min, max int) []byte {
	n := min + rng.Intn(max-min+1)
	k := make([]byte, n)
	for i := range k {
		k[i] = alphabet[rng.Intn(len(alphabet))]
	}
	return k
}

func genVersions(rng *rand.Rand, n int) []uint64 {
	set := map[uint64]bool{}
	base := uint64(1 + rng.Intn(1000))
	if rng.Intn(4) == 0 {
		base = uint64(1)<<40 + uint64(rng.Intn(1000))
	}
	for len(set) < n {
		switch rng.Intn(10) {
		case 0:
			set[math.MaxUint64] = true
		case 1:
			set[1] = true
		case 2:
			set[math.MaxUint64-1-uint64(rng.Intn(3))] = true
		default:
			set[base+uint64(rng.Intn(n*3+2))] = true
		}
	}
	out := make([]uint64, 0, n)
	for v := range set {
		out = append(out, v)
	}
	sort.Slice(out, func(i, j int) bool { return out[i] < out[j] })
	return out
}

type ukey struct {
	cf kv.ColumnFamily
	k  []byte
}

func genUserKeys(rng *rand.Rand, shape string, block int) (keys []ukey, versionsPerKey func() int, valSize func() int) {
	cfs := []kv.ColumnFamily{kv.CFDefault, kv.CFLock, kv.CFWrite}
	cf := func() kv.ColumnFamily {
		if rng.Intn(3) == 0 {
			return cfs[rng.Intn(3)]
		}
		return kv.CFDefault
	}
	smallVal := func() int { return []int{0, 1, 7, 10, 33, 100}[rng.Intn(6)] }
	versionsPerKey = func() int {
		if rng.Intn(4) == 0 {
			return 1 + rng.Intn(4)
		}
		return 1
	}
	valSize = smallVal
	seen := map[string]bool{}
	add := func(c kv.ColumnFamily, k []byte) {
		id := string([]byte{byte(c)}) + string(k)
		if len(k) == 0 || seen[id] {
			return
		}
		seen[id] = true
		keys = append(keys, ukey{c, append([]byte(nil), k...)})
	}
	switch shape {
	case "single":
		add(cf(), randKey(rng, 1, 40))
		versionsPerKey = func() int { return 1 }
		valSize = func() int { return []int{0, 1, 100, block - 1, block, block + 1, 3 * block}[rng.Intn(7)] }
	case "big":
		n := 3 + rng.Intn(10)
		for i := 0; i < n; i++ {
			add(cf(), randKey(rng, 1, 24))
		}
		valSize = func() int {
			if rng.Intn(3) == 0 {
				return smallVal()
			}
			return []int{block - 40, block - 1, block, block + 1, 2*block + 17, 3 * block, 5*block + 3}[rng.Intn(7)]
		}
	case "prefix":
		n := 3 + rng.Intn(12)
		for i := 0; i < n; i++ {
			base := randKey(rng, 1, 6)
			c := cf()
			add(c, base)
			cur := base
			for j := 0; j < 1+rng.Intn(6); j++ {
				ext := [][]byte{{0x00}, {0x00, 0x00}, {0xff}, {'a'}, {0x00, 0xff}, {0xff, 0xff, 0xff, 0xff, 0xff, 0xff, 0xff, 0xff}, {0, 0, 0, 0, 0, 0, 0, 0}}[rng.Intn(7)]
				cur = append(append([]byte(nil), cur...), ext...)
				add(c, cur)
				if rng.Intn(3) == 0 {
					add(cfs[rng.Intn(3)], cur)
				}
			}
		}
		versionsPerKey = func() int { return 1 + rng.Intn(3) }
	case "versions":
		n := 1 + rng.Intn(4)
		for i := 0; i < n; i++ {
			add(cf(), randKey(rng, 1, 10))
		}
		versionsPerKey = func() int { return 20 + rng.Intn(180) }
		if block >= 4096 && rng.Intn(2) == 0 {
			valSize = func() int { return 40 + rng.Intn(200) }
		}
	case "long-keys":
		n := 4 + rng.Intn(30)
		stem := randKey(rng, 250, 900)
		for i := 0; i < n; i++ {
			switch rng.Intn(3) {
			case 0:
				add(kv.CFDefault, append(append([]byte(nil), stem...), randKey(rng, 1, 30)...))
			case 1:
				cut := 200 + rng.Intn(len(stem)-200)
				add(kv.CFDefault, append(append([]byte(nil), stem[:cut]...), randKey(rng, 1, 300)...))
			default:
				add(cf(), randKey(rng, 260, 2000))
			}
		}
		versionsPerKey = func() int { return 1 + rng.Intn(3) }
	case "sequential":
		n := 50 + rng.Intn(750)
		pfx := randKey(rng, 0, 8)
		c := cf()
		for i := 0; i < n; i++ {
			add(c, append(append([]byte(nil), pfx...), []byte(fmt.Sprintf("%06d", i*(1+rng.Intn(3))+i))...))
		}
		valSize = func() int { return []int{0, 8, 16, 64}[rng.Intn(4)] }
	default: // random
		n := 20 + rng.Intn(400)
		for i := 0; i < n; i++ {
			add(cf(), randKey(rng, 1, 14))
		}
		valSize = func() int {
			if rng.Intn(40) == 0 {
				return block + rng.Intn(2*block)
			}
			return smallVal()
		}
	}
	return keys, versionsPerKey, valSize
}

func mkValue(id string, size int) []byte {
	if size <= 0 {
		return []byte{}
	}
	b := make([]byte, size)
	for i := range b {
		b[i] = id[i%len(id)] ^ byte(i>>8)
	}
	copy(b, id)
	return b
}

func genEntries(c *core.Case, cfg config) []ent {
	rng := c.Rng
	uks, vpk, vsz := genUserKeys(rng, cfg.Shape, cfg.BlockSize)
	var out []ent
	metas := []byte{0, 0, 0, kv.BitDelete, 0x40, kv.BitValuePointer}
	for _, uk := range uks {
		for _, v := range genVersions(rng, vpk()) {
			var ik []byte
			if cfg.RawKeys {
				ik = kv.KeyWithTs(uk.k, v)
			} else {
				ik = kv.InternalKey(uk.cf, uk.k, v)
			}
			e := ent{key: ik, meta: metas[rng.Intn(len(metas))], exp: []uint64{0, 0, 0, 1, farFuture}[rng.Intn(5)]}
			sz := vsz()
			if e.meta&kv.BitDelete != 0 && rng.Intn(2) == 0 {
				sz = 0
			}
			e.val = mkValue(fmt.Sprintf("c35.%d.%d|", c.Idx, len(out)), sz)
			out = append(out, e)
		}
	}
	// raw keys of different CFs could collide: dedupe on the internal key.
	sort.Slice(out, func(i, j int) bool { return cmpKey(out[i].key, out[j].key) < 0 })
	ded := out[:0]
	for i, e := range out {
		if i > 0 && bytes.Equal(e.key, out[i-1].key) {
			continue
		}
		ded = append(ded, e)
	}
	return ded
}

// ---------------------------------------------------------------------------
// oracle

type probe struct {
	c      *core.Case
	cfg    config
	list   []ent
	stage  string
	b      *bare
	tg     [][]byte        // seek targets, fixed per case so that both stages see the same ones
	gap    map[string]bool // "dir|target index" of seeks already reported in the fresh stage
	listed bool
}

func (p *probe) detail(extra map[string]any) map[string]any {
	d := map[string]any{"config": p.cfg, "stage": p.stage, "entries": len(p.list)}
	for k, v := range extra {
		d[k] = v
	}
	if len(p.list) <= 64 && !p.listed {
		p.listed = true // the stored list goes into the first violation of a case only
		var ks []string
		for _, e := range p.list {
			ks = append(ks, fmt.Sprintf("%s len(val)=%d meta=%#x exp=%d", kd(e.key), len(e.val), e.meta, e.exp))
		}
		d["stored"] = ks
	}
	return d
}

func kd(k []byte) string {
	if len(k) < 8 {
		return fmt.Sprintf("%q", k)
	}
	body := k[:len(k)-8]
	if len(body) > 80 {
		return fmt.Sprintf("%q...(%d bytes) ver=%d", body[:80], len(body), kv.ParseTs(k))
	}
	return fmt.Sprintf("%q ver=%d", body, kv.ParseTs(k))
}

// sameEntry compares an observed entry with a stored one; returns the first differing field.
func sameEntry(got *kv.Entry, want ent) string {
	switch {
	case !bytes.Equal(got.Key, want.key):
		return "key"
	case !bytes.Equal(got.Value, want.val):
		return "value"
	case got.Meta != want.meta:
		return "meta"
	case got.ExpiresAt != want.exp:
		return "expires"
	}
	return ""
}

func (p *probe) bloomCtx() string {
	if p.cfg.BloomFP > 0 {
		return "bloom=on"
	}
	return "bloom=off"
}

// tableIter returns the iterator of the single table (the last of the LSM's
// iterators: active memtable first, then the levels).
func (p *probe) tableIter(asc bool) (utils.Iterator, error) {
	its := p.b.l.NewIterators(&utils.Options{IsAsc: asc})
	if len(its) != 2 {
		for _, it := range its {
			if it != nil {
				_ = it.Close()
			}
		}
		return nil, fmt.Errorf("expected 2 iterators (memtable + one table), got %d", len(its))
	}
	if its[0] != nil {
		_ = its[0].Close()
	}
	return its[1], nil
}

func (p *probe) lookups() bool {
	c := p.c
	for i, e := range p.list {
		got, err := p.b.l.Get(e.key)
		c.Count("point_lookups", 1)
		c.Count("evaluations", 1)
		if err != nil && !errors.Is(err, utils.ErrKeyNotFound) {
			c.Violation("C35|point-lookup-error|"+p.stage, fmt.Sprintf("Get(%s) returned error %v", kd(e.key), err), p.detail(map[string]any{"index": i}))
			return false
		}
		if got == nil || err != nil {
			// is the entry reachable by a seek? (separates bloom/range filtering from block search)
			bySeek := "unknown"
			if it, ierr := p.tableIter(true); ierr == nil {
				it.Seek(e.key)
				bySeek = "seek-misses-too"
				if it.Valid() && it.Item() != nil && bytes.Equal(it.Item().Entry().Key, e.key) {
					bySeek = "seek-finds-it"
				}
				_ = it.Close()
			}
			c.Violation(fmt.Sprintf("C35|point-lookup-miss|%s,%s,%s", p.bloomCtx(), bySeek, p.stage), fmt.Sprintf("stored internal key %s is not found by point lookup (entry %d of %d)", kd(e.key), i, len(p.list)), p.detail(map[string]any{"index": i}))
			return false
		}
		diff := sameEntry(got, e)
		gk := append([]byte(nil), got.Key...)
		gl := len(got.Value)
		got.DecrRef()
		if diff != "" {
			c.Violation(fmt.Sprintf("C35|point-lookup-wrong-entry|field=%s,%s", diff, p.stage), fmt.Sprintf("Get(%s) returned entry %s with %d value bytes; stored entry has %d value bytes meta=%#x exp=%d", kd(e.key), kd(gk), gl, len(e.val), e.meta, e.exp), p.detail(map[string]any{"index": i}))
			return false
		}
	}
	// absent user keys must not be served.
	rng := p.c.Rng
	for n := 0; n < 12; n++ {
		e := p.list[rng.Intn(len(p.list))]
		body := append([]byte(nil), e.key[:len(e.key)-8]...)
		switch rng.Intn(3) {
		case 0:
			body = append(body, 0x01, 'z')
		case 1:
			body = append(body, 0x00)
		default:
			body[len(body)-1] ^= 0x55
		}
		present := false
		for _, o := range p.list {
			if bytes.Equal(o.key[:len(o.key)-8], body) {
				present = true
				break
			}
		}
		if present {
			continue
		}
		k := kv.KeyWithTs(body, math.MaxUint64)
		got, err := p.b.l.Get(k)
		c.Count("absent_lookups", 1)
		if err != nil && !errors.Is(err, utils.ErrKeyNotFound) {
			c.Violation("C35|point-lookup-error|"+p.stage, fmt.Sprintf("Get(absent %s) returned error %v", kd(k), err), p.detail(nil))
			return false
		}
		if got != nil && err == nil {
			gk := append([]byte(nil), got.Key...)
			got.DecrRef()
			c.Violation("C35|phantom-point-lookup|"+p.stage, fmt.Sprintf("Get(%s), a key that was never stored, returned entry %s", kd(k), kd(gk)), p.detail(nil))
			return false
		}
	}
	return true
}

func (p *probe) scans() bool {
	c := p.c
	for _, asc := range []bool{true, false} {
		dir := "forward"
		if !asc {
			dir = "reverse"
		}
		it, err := p.tableIter(asc)
		if err != nil {
			c.Inconclusive(err.Error())
			return false
		}
		n := len(p.list)
		pos := 0
		ok := true
		for it.Rewind(); it.Valid(); it.Next() {
			item := it.Item()
			if item == nil || item.Entry() == nil {
				c.Violation(fmt.Sprintf("C35|scan-%s|nil-item,%s", dir, p.stage), "iterator is Valid but Item()/Entry() is nil", p.detail(map[string]any{"position": pos}))
				ok = false
				break
			}
			if pos >= n {
				c.Violation(fmt.Sprintf("C35|scan-%s|extra-entry,%s", dir, p.stage), fmt.Sprintf("full %s iteration returned more than the %d stored entries; extra: %s", dir, n, kd(item.Entry().Key)), p.detail(nil))
				ok = false
				break
			}
			want := p.list[pos]
			if !asc {
				want = p.list[n-1-pos]
			}
			if d := sameEntry(item.Entry(), want); d != "" {
				rule := "field-mismatch:" + d
				if d == "key" {
					rule = "wrong-key-at-position"
				}
				c.Violation(fmt.Sprintf("C35|scan-%s|%s,%s", dir, rule, p.stage), fmt.Sprintf("full %s iteration position %d: got %s (%d value bytes), stored list has %s (%d value bytes)", dir, pos, kd(item.Entry().Key), len(item.Entry().Value), kd(want.key), len(want.val)), p.detail(map[string]any{"position": pos}))
				ok = false
				break
			}
			pos++
		}
		if ok && pos != n {
			c.Violation(fmt.Sprintf("C35|scan-%s|stops-early,%s", dir, p.stage), fmt.Sprintf("full %s iteration ended after %d of %d stored entries", dir, pos, n), p.detail(map[string]any{"position": pos}))
			ok = false
		}
		_ = it.Close()
		c.Count("full_scans", 1)
		c.Count("evaluations", 1)
		if !ok {
			return false
		}
	}
	return true
}

func (p *probe) targets(maxKeys int) [][]byte {
	rng := p.c.Rng
	n := len(p.list)
	var idx []int
	if n <= maxKeys {
		for i := 0; i < n; i++ {
			idx = append(idx, i)
		}
	} else {
		idx = append(idx, 0, 1, n-2, n-1)
		for len(idx) < maxKeys {
			idx = append(idx, rng.Intn(n))
		}
	}
	var out [][]byte
	for _, i := range idx {
		k := p.list[i].key
		out = append(out, k)
		body := k[:len(k)-8]
		v := kv.ParseTs(k)
		if v < math.MaxUint64 {
			out = append(out, kv.KeyWithTs(body, v+1))
		}
		if v > 1 {
			out = append(out, kv.KeyWithTs(body, v-1))
		}
		switch rng.Intn(4) {
		case 0:
			out = append(out, kv.KeyWithTs(append(append([]byte(nil), body...), 0x00), math.MaxUint64))
		case 1:
			if len(body) > 1 {
				out = append(out, kv.KeyWithTs(body[:len(body)-1], uint64(1+rng.Intn(5))))
			}
		case 2:
			out = append(out, kv.KeyWithTs(body, math.MaxUint64), kv.KeyWithTs(body, 1))
		default:
			b2 := append([]byte(nil), body...)
			b2[len(b2)-1]++
			out = append(out, kv.KeyWithTs(b2, uint64(1+rng.Intn(1000))))
		}
	}
	out = append(out, kv.KeyWithTs([]byte{0x00}, math.MaxUint64), kv.KeyWithTs(bytes.Repeat([]byte{0xff}, 12), 1),
		kv.InternalKey(kv.CFDefault, []byte{0x00}, math.MaxUint64), kv.InternalKey(kv.CFWrite, bytes.Repeat([]byte{0xff}, 9), 1))
	return out
}

func (p *probe) seeks(maxKeys int) bool {
	c := p.c
	n := len(p.list)
	if p.tg == nil {
		p.tg = p.targets(maxKeys)
		p.gap = map[string]bool{}
	}
	tg := p.tg
	for _, asc := range []bool{true, false} {
		dir := "forward"
		if !asc {
			dir = "reverse"
		}
		it, err := p.tableIter(asc)
		if err != nil {
			c.Inconclusive(err.Error())
			return false
		}
	targets:
		for ti, t := range tg {
			if ti%17 == 16 { // now and then use a fresh iterator
				_ = it.Close()
				if it, err = p.tableIter(asc); err != nil {
					c.Inconclusive(err.Error())
					return false
				}
			}
			// model position
			var want int
			if asc {
				want = sort.Search(n, func(i int) bool { return cmpKey(p.list[i].key, t) >= 0 })
				if want == n {
					want = -1
				}
			} else {
				want = sort.Search(n, func(i int) bool { return cmpKey(p.list[i].key, t) > 0 }) - 1
			}
			it.Seek(t)
			c.Count("seeks_"+dir, 1)
			c.Count("evaluations", 1)
			steps := 1 + p.c.Rng.Intn(4)
			for s := 0; s <= steps; s++ {
				valid := it.Valid()
				var gk []byte
				if valid {
					item := it.Item()
					if item == nil || item.Entry() == nil {
						c.Violation(fmt.Sprintf("C35|seek-%s|nil-item,%s", dir, p.stage), "iterator is Valid but Item()/Entry() is nil after Seek", p.detail(map[string]any{"target": kd(t)}))
						_ = it.Close()
						return false
					}
					gk = item.Entry().Key
				}
				what := "seek"
				if s > 0 {
					what = "step-after-seek"
				}
				if want < 0 || want >= n {
					if valid {
						c.Violation(fmt.Sprintf("C35|%s-%s|valid-past-end,%s", what, dir, p.stage), fmt.Sprintf("%s Seek(%s) + %d steps: model has no entry there, iterator points at %s", dir, kd(t), s, kd(gk)), p.detail(map[string]any{"target": kd(t), "steps": s}))
						_ = it.Close()
						return false
					}
					break
				}
				if !valid && s == 0 {
					// The seek found nothing although the model has an entry at or
					// beyond the target. Context from what can be observed: was the
					// target itself stored, and is the expected entry reachable by
					// seeking to its own key? The case goes on with the next target
					// (the iterator is repositioned by every Seek), so one defect of
					// this kind does not hide the rest of the oracle.
					stored := "absent"
					if cmpKey(p.list[want].key, t) == 0 {
						stored = "stored"
					}
					reach := "unreachable"
					it.Seek(p.list[want].key)
					if it.Valid() && it.Item() != nil && it.Item().Entry() != nil && bytes.Equal(it.Item().Entry().Key, p.list[want].key) {
						reach = "reachable"
					}
					id := fmt.Sprintf("%s|%d", dir, ti)
					if p.stage == "fresh" {
						p.gap[id] = true
					} else if p.gap[id] {
						c.Count("seek_misses_same_in_both_stages", 1)
						continue targets
					}
					c.Count("seek_misses_"+dir, 1)
					c.Violation(fmt.Sprintf("C35|seek-%s|finds-nothing,target=%s,expected-entry=%s-by-own-key,%s", dir, stored, reach, p.stage),
						fmt.Sprintf("%s Seek(%s): iterator invalid, but the table stores %s at or after the target (a Seek to that key itself is %s)", dir, kd(t), kd(p.list[want].key), reach),
						p.detail(map[string]any{"target": kd(t), "expected_index": want, "expected": kd(p.list[want].key), "predecessor": func() string {
							if asc && want > 0 {
								return kd(p.list[want-1].key)
							}
							if !asc && want+1 < n {
								return kd(p.list[want+1].key)
							}
							return "none"
						}()}))
					continue targets
				}
				if !valid {
					c.Violation(fmt.Sprintf("C35|%s-%s|invalid,%s", what, dir, p.stage), fmt.Sprintf("%s Seek(%s) + %d steps: iterator invalid, model expects %s", dir, kd(t), s, kd(p.list[want].key)), p.detail(map[string]any{"target": kd(t), "steps": s, "expected_index": want}))
					_ = it.Close()
					return false
				}
				if !bytes.Equal(gk, p.list[want].key) {
					rel := "lands-later"
					if (cmpKey(gk, p.list[want].key) < 0) == asc {
						rel = "lands-earlier"
					}
					c.Violation(fmt.Sprintf("C35|%s-%s|%s,%s", what, dir, rel, p.stage), fmt.Sprintf("%s Seek(%s) + %d steps: iterator at %s, model expects %s", dir, kd(t), s, kd(gk), kd(p.list[want].key)), p.detail(map[string]any{"target": kd(t), "steps": s, "expected_index": want}))
					_ = it.Close()
					return false
				}
				if d := sameEntry(it.Item().Entry(), p.list[want]); d != "" {
					c.Violation(fmt.Sprintf("C35|%s-%s|field-mismatch:%s,%s", what, dir, d, p.stage), fmt.Sprintf("%s Seek(%s) + %d steps: entry %s differs from the stored one in %s", dir, kd(t), s, kd(gk), d), p.detail(map[string]any{"target": kd(t), "steps": s, "expected_index": want}))
					_ = it.Close()
					return false
				}
				if s == steps {
					break
				}
				it.Next()
				if asc {
					want++
				} else {
					want--
				}
			}
		}
		_ = it.Close()
	}
	return true
}

// onlyTable checks (by observation) that one L0 table is the only source.
func (p *probe) onlyTable() (string, bool) {
	lay := p.b.l.VerifLayout()
	if lay.Immutables != 0 || len(lay.Tables) != 1 {
		return fmt.Sprintf("layout: %d immutables, %d tables", lay.Immutables, len(lay.Tables)), false
	}
	for _, i := range []int{0, len(p.list) / 2, len(p.list) - 1} {
		for _, s := range p.b.l.VerifKeySources(p.list[i].key) {
			if s.Kind != "l0" {
				return "entry also held by source " + s.Kind, false
			}
		}
	}
	return "", true
}

func run(c *core.Case) {
	rng := c.Rng
	cfg := config{
		BlockSize:  []int{256, 4096}[c.Idx%2],
		BloomFP:    []float64{0, 0.01, 0.5}[(c.Idx/2)%3],
		BlockCache: []int{0, 64}[rng.Intn(2)],
		BloomCache: []int{0, 64}[rng.Intn(2)],
		Shape:      shapes[(c.Idx/6)%len(shapes)],
		RawKeys:    rng.Intn(7) == 0,
	}
	list := genEntries(c, cfg)
	if len(list) == 0 {
		c.Inconclusive("empty entry set generated")
		return
	}
	dir := c.TempDir()
	b, err := openBare(dir, cfg)
	if err != nil {
		c.Violation("C35|open-failed|fresh", err.Error(), cfg)
		return
	}
	defer func() { _ = b.close() }()
	// insert in random order: the memtable sorts, the flush builds the table.
	order := rng.Perm(len(list))
	totalBytes := 0
	for _, i := range order {
		e := list[i]
		en := kv.NewEntry(append([]byte(nil), e.key...), append([]byte{}, e.val...))
		en.Meta, en.ExpiresAt = e.meta, e.exp
		serr := b.l.Set(en)
		en.DecrRef()
		if serr != nil {
			c.Inconclusive("lsm.Set failed: " + serr.Error())
			return
		}
		totalBytes += len(e.key) + len(e.val)
		c.Max("value_bytes", len(e.val))
		c.Max("key_bytes", len(e.key))
	}
	b.l.Rotate()
	if !b.l.VerifWaitFlush(60 * time.Second) {
		c.Inconclusive("flush did not finish within 60s")
		return
	}
	p := &probe{c: c, cfg: cfg, list: list, stage: "fresh", b: b}
	if why, ok := p.onlyTable(); !ok {
		c.Inconclusive("after flush the table is not the only source: " + why)
		return
	}
	var sstSize int64
	if m, _ := filepath.Glob(filepath.Join(dir, "*.sst")); len(m) == 1 {
		if st, serr := os.Stat(m[0]); serr == nil {
			sstSize = st.Size()
		}
	}
	c.Max("sst_bytes", int(sstSize))
	c.Max("entries_per_table", len(list))
	maxKeys := 40
	if c.Thorough() {
		maxKeys = 120
	}
	if !(p.lookups() && p.scans() && p.seeks(maxKeys)) {
		return
	}
	// ---- close + reopen: the table is re-opened from the file ----
	if err := b.close(); err != nil {
		c.Violation("C35|close-failed|fresh", err.Error(), cfg)
		return
	}
	b2, err := openBare(dir, cfg)
	if err != nil {
		c.Violation("C35|open-failed|reopen", err.Error(), p.detail(nil))
		return
	}
	defer func() { _ = b2.close() }()
	if !b2.l.VerifWaitFlush(60 * time.Second) {
		c.Inconclusive("flush after reopen did not finish within 60s")
		return
	}
	p.b, p.stage = b2, "reopened"
	if why, ok := p.onlyTable(); !ok {
		c.Inconclusive("after reopen the table is not the only source: " + why)
		return
	}
	if !(p.lookups() && p.scans() && p.seeks(maxKeys)) {
		return
	}
	c.Count("tables_checked", 1)
	c.Count("tables_reopened", 1)
	c.Count("entries_stored", len(list))
	bl := "multi-block"
	if int64(totalBytes) < int64(cfg.BlockSize) {
		bl = "single-block"
	}
	c.Count("tables_"+bl, 1)
	c.Count(fmt.Sprintf("combo.block%d.bloom%v", cfg.BlockSize, cfg.BloomFP), 1)
	c.Count("shape."+cfg.Shape, 1)
	if cfg.RawKeys {
		c.Count("tables_with_raw_keys", 1)
	}
	for _, e := range list {
		if len(e.val)+len(e.key) > cfg.BlockSize {
			c.Count("entries_larger_than_block", 1)
		}
	}
	c.Distinct("configs", fmt.Sprintf("b%d/fp%v/%s/cache%d,%d", cfg.BlockSize, cfg.BloomFP, cfg.Shape, cfg.BlockCache, cfg.BloomCache))
	c.Nontrivial(fmt.Sprintf("%d|%v|%s|%d|%d", cfg.BlockSize, cfg.BloomFP, cfg.Shape, len(list), sstSize))
	if c.Idx < 2 {
		c.Sample(map[string]any{"config": cfg, "entries": len(list), "sst_bytes": sstSize, "first_key": kd(list[0].key), "last_key": kd(list[len(list)-1].key)})
	}
}

func init() {
	core.Register(&core.Check{
		ID:    "C35",
		Level: "exploration",
		Rule: "case = one table: entry set of a drawn shape {single entry, entries larger than a block, prefix-related keys (k, k+00, k+ff, 8x00/8xff extensions, 3 CFs), 20-200 versions per key, 250-2000 byte keys with long shared prefixes, random, sequential 50-800 keys} " +
			"with metas {0, delete, value-pointer, user bit}, expiries {0, 1, year 2100}, value sizes {0..100, block-1, block, block+1, 3-5 blocks}, written to a bare lsm.NewLSM (compactor never started; BlockSize cycles {256,4096}, BloomFalsePositive cycles {0,0.01,0.5}, block/bloom cache {0,64}), Rotate + flush so that one L0 table is the only source (checked via VerifLayout/VerifKeySources); " +
			"oracle = sorted stored list: Get of every stored internal key returns it with value/meta/expiry, Get of absent user keys returns nothing, forward Seek lands on first >= target / reverse Seek on last <= target for every stored key (sampled above 40/120 keys) and its neighbours (version+-1, key+00, truncated key, successor key, extremes) followed by 1-4 Next steps, full forward/reverse scans equal the list; all repeated after Close + reopen; " +
			"non-trivial = both stages evaluated on a table that was measured to be the only source; distinct = (block size, bloom, shape, entry count, sst size)",
		Assumptions: []string{
			"version 0 is never stored (the engine never writes it; point lookups treat 0 as 'no version seen yet')",
			"the table is built by the engine's own flush path from a skiplist memtable (the memtable engines are C07's subject)",
			"internal-key order = key body bytes ascending, then version descending (utils.CompareKeys' documented order), recomputed independently by the oracle",
		},
		CrashIsViolation: true,
		Cases: func(tier string) int {
			if tier == "thorough" {
				return 5040
			}
			return 126
		},
		Run: run,
		Finish: func(a *core.Agg) {
			min := int64(18)
			if a.Tier == "thorough" {
				min = 400
			}
			for _, bs := range []int{256, 4096} {
				for _, fp := range []float64{0, 0.01, 0.5} {
					a.Floor(fmt.Sprintf("combo.block%d.bloom%v", bs, fp), min)
				}
			}
			for _, s := range shapes {
				a.Floor("shape."+s, min/2)
			}
			a.Floor("entries_larger_than_block", 20)
			a.Floor("tables_reopened", min*6)
			a.FloorNontrivial(int(min * 5))
		},
	})
}
