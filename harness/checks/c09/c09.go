// Package c09: with synchronous writes, acknowledged writes survive any crash.
package c09

import "verif/harness/internal/crash"

func init() {
	crash.Register(crash.Oracle{ID: "C09", SyncModes: []bool{true}},
		"case = (workload, chunk of crash points); workloads: SyncWrites=true x {transactions with overwrites/deletes, plain single-write keys} x {natural compaction with L0 limit 2, value-log GC steps} x {skiplist, ART}, 2KiB memtable, 8KiB value-log segments, manifest rewrite threshold 512B; "+
			"crash points: per stratum (durable file op kind x file class, from a dry run) first/middle/last ordinal + uniform ordinals + after-step kills; the worker is SIGKILLed before the N-th durable file operation; a fresh process reopens and reads every key; "+
			"oracle: reopen succeeds and the recovered point reads equal the model after p steps for some acked <= p <= called; non-trivial/distinct = distinct (workload, stratum, crash-before-completion) triples in which the kill really fired",
		"single writer, so acknowledged steps form a prefix")
}
