// Package c14: a single flipped bit in a WAL record, a value-log record or an SST
// data block is never served as valid data.
//
// Artefacts (all built by the real code):
//
//	wal   bare wal.Manager segment with 12 typed records,
//	      readers: Open+Replay, and VerifyDir+Open+Replay;
//	vlog  bare vlog.Manager segment with 12 entries,
//	      readers: ReadValue through every original pointer, Iterate, and the same
//	      after vlog.VerifyDir;
//	db    a crash image of a real DB directory: two flushed SSTs (the first with >= 2
//	      data blocks), a value-log segment holding the large values, and a WAL with
//	      unflushed writes; readers: NoKV.Open (which runs the recovery checks and
//	      replays the WAL), DB.Get of every key ever written, full DB iterator.
//
// A fault point is one bit of a target file. The readers run in a child worker
// process (core.RegisterWorker) over a fresh copy with that one bit flipped; the
// worker logs START/RESULT lines with plain O_APPEND writes so that a fatal exit is
// attributed to the position that was being read.
//
// Oracle (from the statement): whatever a reader hands back as valid data must be
// byte-identical to something originally written at that key / position (WAL:
// record at that segment offset; value log: entry at that pointer / offset; DB: any
// value ever written under that key). Errors, not-found, truncation, Open failing
// are all acceptable. Raw panics and fatal exits are tallied as "ungraceful", they
// do not violate this property.
package c14

import (
	"bytes"
	"context"
	"crypto/sha256"
	"encoding/hex"
	"encoding/json"
	"errors"
	"fmt"
	"io"
	"math/rand"
	"os"
	"os/exec"
	"path/filepath"
	"runtime"
	"sort"
	"strings"
	"time"

	"github.com/feichai0017/NoKV/kv"
	"github.com/feichai0017/NoKV/pb"
	"github.com/feichai0017/NoKV/utils"
	"github.com/feichai0017/NoKV/vlog"
	"github.com/feichai0017/NoKV/wal"
	"google.golang.org/protobuf/proto"
	"verif/harness/internal/core"
	"verif/harness/internal/dbx"
)

// ---------------------------------------------------------------- shared types

type obs struct {
	R string `json:"r"` // reader
	K string `json:"k"` // key or position
	V string `json:"v"` // canonical content descriptor
}

type result struct {
	Idx    int               `json:"idx"`
	Obs    []obs             `json:"obs,omitempty"`
	Errs   map[string]string `json:"errs,omitempty"`
	Panics map[string]string `json:"panics,omitempty"`
}

// meta is written next to the artefact for the worker.
type meta struct {
	Kind   string        `json:"kind"`
	DB     dbx.Config    `json:"db,omitempty"`
	Keys   []string      `json:"keys,omitempty"` // hex user keys (db)
	Ptrs   []kv.ValuePtr `json:"ptrs,omitempty"` // vlog
	VlogSz int64         `json:"vlog_max_size,omitempty"`
}

type region struct {
	File     string // relative to the artefact dir
	Start    int64  // byte offsets [Start, End)
	End      int64
	Stratum  string
	Bulk     bool  // sampled in the quick tier
	Outside  bool  // outside the statement (SST index / footer): anomalies are observations only
	FullOnly bool  // executed only in every-bit mode
	Mask     byte  // when non-zero, only these bits of each byte
	Stride   int64 // in every-bit mode take every Stride-th bit only (large bulk regions of the db image)
}

type position struct {
	File    string
	Bit     int64
	Stratum string
	Outside bool
}

func desc(b []byte) string {
	h := sha256.Sum256(b)
	return fmt.Sprintf("n=%d/h=%s", len(b), hex.EncodeToString(h[:8]))
}

// ---------------------------------------------------------------- artefact builders

type artefact struct {
	Meta    meta
	Regions []region
	// allowed[table][key] = set of acceptable descriptors
	Allowed map[string]map[string]map[string]bool
	Summary map[string]any
}

func (a *artefact) allow(table, key, v string) {
	if a.Allowed == nil {
		a.Allowed = map[string]map[string]map[string]bool{}
	}
	if a.Allowed[table] == nil {
		a.Allowed[table] = map[string]map[string]bool{}
	}
	if a.Allowed[table][key] == nil {
		a.Allowed[table][key] = map[string]bool{}
	}
	a.Allowed[table][key][v] = true
}

var recSizes = []int{0, 1, 2, 5, 16, 40, 100, 300}

func fill(r *rand.Rand, n int) []byte {
	b := make([]byte, n)
	r.Read(b)
	return b
}

func buildWAL(dir string, r *rand.Rand) (*artefact, error) {
	a := &artefact{Meta: meta{Kind: "wal"}}
	m, err := wal.Open(wal.Config{Dir: dir, BufferSize: 4096})
	if err != nil {
		return nil, err
	}
	var sum []string
	for i := 0; i < 12; i++ {
		rec := wal.Record{Type: wal.RecordType(i % 4), Payload: fill(r, recSizes[r.Intn(len(recSizes))])}
		if i == 5 { // a payload that is itself an encoded entry, as the LSM writes them
			var buf bytes.Buffer
			p, err := kv.EncodeEntry(&buf, &kv.Entry{Key: kv.InternalKey(kv.CFDefault, []byte("wal-key"), 7), Value: fill(r, 33), Meta: 0})
			if err != nil {
				return nil, err
			}
			rec = wal.Record{Type: wal.RecordTypeEntry, Payload: append([]byte(nil), p...)}
		}
		infos, err := m.AppendRecords(rec)
		if err != nil {
			return nil, err
		}
		in := infos[0]
		file := fmt.Sprintf("%05d.wal", in.SegmentID)
		pos := fmt.Sprintf("seg%d@%d", in.SegmentID, in.Offset)
		a.allow("wal", pos, fmt.Sprintf("t=%d/%s", rec.Type, desc(rec.Payload)))
		n := int64(len(rec.Payload))
		a.Regions = append(a.Regions,
			// The most significant length byte is split off: a flip there makes the decoder allocate 16 MiB - 2 GiB per replay
			// pass (it trusts the declared length) and there are 5 passes per flip. Bits 24-28 (<= 256 MiB): two records in the
			// sampled mode, all records in every-bit mode. Bits 29-31 (0.5 - 2 GiB): every-bit mode only, two records.
			region{File: file, Start: in.Offset, End: in.Offset + 1, Mask: 0x1F, Stratum: "wal-record:length-field(bits 24-28)", FullOnly: i != 0 && i != 6},
			region{File: file, Start: in.Offset + 1, End: in.Offset + 4, Stratum: "wal-record:length-field"},
			region{File: file, Start: in.Offset + 4, End: in.Offset + 5, Stratum: "wal-record:type-byte"},
			region{File: file, Start: in.Offset + 5 + n, End: in.Offset + 9 + n, Stratum: "wal-record:crc"})
		if i == 0 || i == 6 {
			a.Regions = append(a.Regions, region{File: file, Start: in.Offset, End: in.Offset + 1, Mask: 0xE0, Stratum: "wal-record:length-field(bits 29-31)", FullOnly: true})
		}
		if n > 0 {
			a.Regions = append(a.Regions, region{File: file, Start: in.Offset + 5, End: in.Offset + 5 + n, Stratum: "wal-record:payload", Bulk: true})
		}
		sum = append(sum, fmt.Sprintf("%s type=%d len=%d", pos, rec.Type, n))
		if i == 7 {
			if err := m.Rotate(); err != nil {
				return nil, err
			}
		}
	}
	if err := m.Close(); err != nil {
		return nil, err
	}
	a.Summary = map[string]any{"kind": "wal", "records": sum}
	return a, nil
}

const bareVlogMax = 64 << 10

func buildVlog(dir string, r *rand.Rand) (*artefact, error) {
	a := &artefact{Meta: meta{Kind: "vlog", VlogSz: bareVlogMax}}
	m, err := vlog.Open(vlog.Config{Dir: dir, MaxSize: bareVlogMax, Bucket: 0})
	if err != nil {
		return nil, err
	}
	var entries []*kv.Entry
	for i := 0; i < 12; i++ {
		e := &kv.Entry{Key: kv.InternalKey(kv.CFDefault, []byte(fmt.Sprintf("vk-%02d", i)), uint64(100+i)), Value: fill(r, []int{0, 1, 7, 64, 65, 200, 500, 1000}[r.Intn(8)]), Meta: byte(r.Intn(2)) * kv.BitDelete}
		if i%5 == 4 {
			e.ExpiresAt = 1 << 40
		}
		entries = append(entries, e)
	}
	// first a batch, then single appends (both write paths)
	ptrs, err := m.AppendEntries(entries[:8], nil)
	if err != nil {
		return nil, err
	}
	for _, e := range entries[8:] {
		p, err := m.AppendEntry(e)
		if err != nil {
			return nil, err
		}
		ptrs = append(ptrs, *p)
	}
	var sum []string
	for i, p := range ptrs {
		e := entries[i]
		file := fmt.Sprintf("%05d.vlog", p.Fid)
		a.allow("vlog-ptr", fmt.Sprintf("ptr@%d/%d", p.Fid, p.Offset), desc(e.Value))
		a.allow("vlog-off", fmt.Sprintf("off@%d/%d", p.Fid, p.Offset), fmt.Sprintf("key=%s/meta=%d/exp=%d/%s", hex.EncodeToString(e.Key), e.Meta, e.ExpiresAt, desc(e.Value)))
		hl := int64(p.Len) - int64(len(e.Key)) - int64(len(e.Value)) - 4
		if hl <= 0 {
			return nil, fmt.Errorf("vlog layout model wrong: record len %d key %d value %d", p.Len, len(e.Key), len(e.Value))
		}
		o := int64(p.Offset)
		a.Regions = append(a.Regions,
			region{File: file, Start: o, End: o + hl, Stratum: "vlog-record:header-varints"},
			region{File: file, Start: o + hl, End: o + hl + int64(len(e.Key)), Stratum: "vlog-record:key", Bulk: true},
			region{File: file, Start: o + int64(p.Len) - 4, End: o + int64(p.Len), Stratum: "vlog-record:crc"})
		if len(e.Value) > 0 {
			a.Regions = append(a.Regions, region{File: file, Start: o + hl + int64(len(e.Key)), End: o + int64(p.Len) - 4, Stratum: "vlog-record:value", Bulk: true})
		}
		sum = append(sum, fmt.Sprintf("ptr@%d/%d len=%d value=%d meta=%d", p.Fid, p.Offset, p.Len, len(e.Value), e.Meta))
	}
	a.Meta.Ptrs = ptrs
	if err := m.Close(); err != nil {
		return nil, err
	}
	a.Summary = map[string]any{"kind": "vlog", "records": sum}
	return a, nil
}

func dbConfig() dbx.Config {
	return dbx.Config{Engine: "skiplist", ValueThreshold: 96, Buckets: 1, VlogFileSize: 64 << 10, ManifestRewrite: 64 << 20, Controlled: true, MemTableSize: 1 << 20, L0Tables: 1000, SyncWrites: true, HotRing: true}
}

func copyTree(src, dst string, skip func(rel string) bool) error {
	return filepath.Walk(src, func(p string, info os.FileInfo, err error) error {
		if err != nil {
			return err
		}
		rel, _ := filepath.Rel(src, p)
		if rel == "." {
			return os.MkdirAll(dst, 0o755)
		}
		if skip != nil && skip(rel) {
			return nil
		}
		if info.IsDir() {
			return os.MkdirAll(filepath.Join(dst, rel), 0o755)
		}
		b, err := os.ReadFile(p)
		if err != nil {
			return err
		}
		return os.WriteFile(filepath.Join(dst, rel), b, 0o644)
	})
}

// strideFor: opening and closing the real DB costs ~0.4 CPU-seconds per flip, so in the
// every-bit mode only regions of the db image up to 512 bytes are enumerated bit by
// bit; regions up to 2 KiB at every 3rd bit and larger ones at every 29th bit (both
// coprime to 8, so all eight bit indices of a byte are exercised across a region).
func strideFor(bytes int64) int64 {
	switch {
	case bytes > 2048:
		return 29
	case bytes > 512:
		return 3
	}
	return 1
}

func sstRegions(dir, rel string) ([]region, int, error) {
	b, err := os.ReadFile(filepath.Join(dir, rel))
	if err != nil {
		return nil, 0, err
	}
	// footer (documented in lsm/builder.go): ... | index | index len (4) | checksum | checksum len (4)
	n := len(b)
	if n < 16 {
		return nil, 0, fmt.Errorf("%s too small", rel)
	}
	ck := int(kv.BytesToU32(b[n-4:]))
	il := int(kv.BytesToU32(b[n-4-ck-4 : n-4-ck]))
	idxStart := n - 4 - ck - 4 - il
	if idxStart < 0 {
		return nil, 0, fmt.Errorf("%s: footer does not parse", rel)
	}
	var ti pb.TableIndex
	if err := proto.Unmarshal(b[idxStart:idxStart+il], &ti); err != nil {
		return nil, 0, err
	}
	var out []region
	for _, bo := range ti.GetOffsets() {
		o, l := int64(bo.GetOffset()), int64(bo.GetLen())
		blk := b[o : o+l]
		bck := int64(kv.BytesToU32(blk[l-4:]))
		cnt := int64(kv.BytesToU32(blk[l-4-bck-4 : l-4-bck]))
		offStart := l - 4 - bck - 4 - cnt*4
		if offStart < 0 {
			return nil, 0, fmt.Errorf("%s: block trailer does not parse", rel)
		}
		out = append(out,
			region{File: rel, Start: o, End: o + offStart, Stratum: "sst-data-block:entries", Bulk: true, Stride: strideFor(offStart)},
			region{File: rel, Start: o + offStart, End: o + l - 4 - bck, Stratum: "sst-data-block:entry-offsets+count", Bulk: true, Stride: strideFor(l - 4 - bck - offStart)},
			region{File: rel, Start: o + l - 4 - bck, End: o + l - 4, Stratum: "sst-data-block:checksum"},
			region{File: rel, Start: o + l - 4, End: o + l, Stratum: "sst-data-block:checksum-length"})
	}
	out = append(out, region{File: rel, Start: int64(idxStart), End: int64(n), Stratum: "sst-index+footer(outside-statement)", Bulk: true, Outside: true, Stride: 29})
	return out, len(ti.GetOffsets()), nil
}

func buildDB(root string, r *rand.Rand) (*artefact, error) {
	cfg := dbConfig()
	a := &artefact{Meta: meta{Kind: "db", DB: cfg}}
	live := filepath.Join(root, "live")
	img := filepath.Join(root, "art")
	db, err := dbx.OpenCfg(cfg, live)
	if err != nil {
		return nil, err
	}
	closed := false
	defer func() {
		if !closed {
			_ = db.Close()
		}
	}()
	keys := map[string]bool{}
	set := func(k string, n int) error {
		v := fill(r, n)
		if err := db.Set([]byte(k), v); err != nil {
			return fmt.Errorf("Set(%q): %w", k, err)
		}
		keys[k] = true
		a.allow("db", hex.EncodeToString([]byte(k)), desc(v))
		return nil
	}
	sizes := []int{1, 10, 40, 95, 96, 97, 150, 300, 420}
	for i := 0; i < 44; i++ { // wave 1 -> SST 1 (inline values up to 95 bytes, larger ones go to the value log)
		n := sizes[r.Intn(len(sizes))]
		if i%4 == 0 {
			n = 95 // plenty of inline bytes so that the table needs a second block
		}
		if err := set(fmt.Sprintf("key-%03d", i), n); err != nil {
			return nil, err
		}
	}
	for i := 0; i < 120; i++ { // filler so that SST 1 exceeds one 8 KiB block
		if err := set(fmt.Sprintf("pad-%03d", i), 60+r.Intn(36)); err != nil {
			return nil, err
		}
	}
	for _, i := range []int{3, 17, 29} {
		k := fmt.Sprintf("key-%03d", i)
		if err := db.Del([]byte(k)); err != nil {
			return nil, err
		}
		a.allow("db", hex.EncodeToString([]byte(k)), desc(nil)) // the delete marker (empty value) is also "something written at that key"
	}
	if res := dbx.DoAction(db, "rotate-wait"); res.Err != nil {
		return nil, res.Err
	}
	for i := 0; i < 44; i += 4 { // wave 2 -> SST 2 (overwrites)
		if err := set(fmt.Sprintf("key-%03d", i+1), sizes[r.Intn(len(sizes))]); err != nil {
			return nil, err
		}
	}
	if res := dbx.DoAction(db, "rotate-wait"); res.Err != nil {
		return nil, res.Err
	}
	for i := 0; i < 8; i++ { // wave 3 stays in the WAL (+ value log)
		k := fmt.Sprintf("key-%03d", i*5+2)
		if i >= 4 {
			k = fmt.Sprintf("new-%03d", i)
		}
		if err := set(k, sizes[r.Intn(len(sizes))]); err != nil {
			return nil, err
		}
	}
	// crash image: everything written so far was handed to the kernel (SyncWrites)
	if err := copyTree(live, img, func(rel string) bool { return rel == "LOCK" }); err != nil {
		return nil, err
	}
	closed = true
	if err := db.Close(); err != nil {
		return nil, fmt.Errorf("close: %w", err)
	}
	for k := range keys {
		a.Meta.Keys = append(a.Meta.Keys, hex.EncodeToString([]byte(k)))
	}
	sort.Strings(a.Meta.Keys)
	// targets
	var files []string
	_ = filepath.Walk(img, func(p string, info os.FileInfo, err error) error {
		if err == nil && !info.IsDir() {
			rel, _ := filepath.Rel(img, p)
			files = append(files, rel)
		}
		return nil
	})
	sort.Strings(files)
	blocks, ssts := 0, 0
	var layout []string
	for _, rel := range files {
		st, _ := os.Stat(filepath.Join(img, rel))
		switch {
		case strings.HasSuffix(rel, ".sst"):
			rs, nb, err := sstRegions(img, rel)
			if err != nil {
				return nil, err
			}
			a.Regions = append(a.Regions, rs...)
			blocks += nb
			ssts++
			layout = append(layout, fmt.Sprintf("%s: %d bytes, %d data blocks", rel, st.Size(), nb))
		case strings.HasSuffix(rel, ".wal"):
			if st.Size() > 0 {
				a.Regions = append(a.Regions, region{File: rel, Start: 0, End: st.Size(), Stratum: "db-wal:records", Bulk: true, Stride: strideFor(st.Size())})
			}
			layout = append(layout, fmt.Sprintf("%s: %d bytes", rel, st.Size()))
		case strings.HasSuffix(rel, ".vlog"):
			b, _ := os.ReadFile(filepath.Join(img, rel))
			end := len(b)
			for end > 0 && b[end-1] == 0 {
				end--
			}
			if end > kv.ValueLogHeaderSize {
				a.Regions = append(a.Regions, region{File: rel, Start: kv.ValueLogHeaderSize, End: int64(end), Stratum: "db-vlog:records", Bulk: true, Stride: strideFor(int64(end))})
			}
			layout = append(layout, fmt.Sprintf("%s: %d bytes of records", rel, end-kv.ValueLogHeaderSize))
		}
	}
	a.Summary = map[string]any{"kind": "db", "config": cfg, "keys": len(keys), "files": layout, "sst_files": ssts, "sst_data_blocks": blocks}
	return a, nil
}

// ---------------------------------------------------------------- readers (worker side)

func guard(name string, res *result, fn func()) {
	defer func() {
		if r := recover(); r != nil {
			if res.Panics == nil {
				res.Panics = map[string]string{}
			}
			kind := "panic"
			if _, ok := r.(runtime.Error); ok {
				kind = "runtime-panic"
			}
			res.Panics[name] = fmt.Sprintf("%s: %v", kind, r)
		}
	}()
	fn()
}

func (res *result) err(name string, err error) {
	if err == nil {
		return
	}
	if res.Errs == nil {
		res.Errs = map[string]string{}
	}
	s := err.Error()
	if len(s) > 160 {
		s = s[:160]
	}
	res.Errs[name] = s
}

func readWAL(dir string, res *result) {
	replay := func(name string) {
		guard(name, res, func() {
			m, err := wal.Open(wal.Config{Dir: dir, BufferSize: 4096})
			if err != nil {
				res.err(name+":open", err)
				return
			}
			defer func() { _ = m.Close() }()
			err = m.Replay(func(info wal.EntryInfo, p []byte) error {
				res.Obs = append(res.Obs, obs{R: name, K: fmt.Sprintf("seg%d@%d", info.SegmentID, info.Offset), V: fmt.Sprintf("t=%d/%s", info.Type, desc(p))})
				return nil
			})
			res.err(name, err)
		})
	}
	replay("replay")
	var verr error
	guard("verify", res, func() { verr = wal.VerifyDir(dir, nil) })
	res.err("verify", verr)
	if verr == nil && res.Panics["verify"] == "" {
		replay("verify+replay")
	}
}

func readVlog(dir string, m meta, res *result) {
	cfg := vlog.Config{Dir: dir, MaxSize: m.VlogSz, Bucket: 0}
	pass := func(prefix string) {
		guard(prefix+"open", res, func() {
			mg, err := vlog.Open(cfg)
			if err != nil {
				res.err(prefix+"open", err)
				return
			}
			defer func() { _ = mg.Close() }()
			for i := range m.Ptrs {
				p := m.Ptrs[i]
				guard(prefix+"readvalue", res, func() {
					val, cb, err := mg.ReadValue(&p, vlog.ReadOptions{Mode: vlog.ReadModeCopy})
					if cb != nil {
						defer cb()
					}
					if err != nil {
						res.err(prefix+"readvalue", err)
						return
					}
					res.Obs = append(res.Obs, obs{R: prefix + "readvalue", K: fmt.Sprintf("ptr@%d/%d", p.Fid, p.Offset), V: desc(val)})
				})
			}
			for _, fid := range mg.ListFIDs() {
				guard(prefix+"iterate", res, func() {
					_, err := mg.Iterate(fid, 0, func(e *kv.Entry, vp *kv.ValuePtr) error {
						res.Obs = append(res.Obs, obs{R: prefix + "iterate", K: fmt.Sprintf("off@%d/%d", vp.Fid, vp.Offset), V: fmt.Sprintf("key=%s/meta=%d/exp=%d/%s", hex.EncodeToString(e.Key), e.Meta, e.ExpiresAt, desc(e.Value))})
						return nil
					})
					res.err(prefix+"iterate", err)
				})
			}
		})
	}
	pass("")
	var verr error
	guard("verify", res, func() { verr = vlog.VerifyDir(cfg) })
	res.err("verify", verr)
	if verr == nil && res.Panics["verify"] == "" {
		pass("verify+")
	}
}

func readDB(dir string, m meta, res *result, flippedFile string) {
	guard("open", res, func() {
		db, err := dbx.OpenCfg(m.DB, dir)
		if err != nil {
			res.err("open", err)
			return
		}
		defer func() { guard("close", res, func() { res.err("close", db.Close()) }) }()
		for _, hk := range m.Keys {
			k, _ := hex.DecodeString(hk)
			guard("get", res, func() {
				e, err := db.Get(k)
				if err != nil {
					if !errors.Is(err, utils.ErrKeyNotFound) {
						res.err("get", err)
					}
					return
				}
				res.Obs = append(res.Obs, obs{R: "get", K: hk, V: desc(e.Value)})
			})
		}
		// Hot-key prefetch path: keys read often are prefetched (their blocks are
		// loaded into the block cache by a background loop, for every table that
		// overlaps the key). A block that reaches the cache that way must have
		// been verified like any other: read every readable key 20 times, give the
		// prefetch loop a moment, then read everything again.
		if m.DB.HotRing && strings.HasSuffix(flippedFile, ".sst") {
			for round := 0; round < 20; round++ {
				for _, hk := range m.Keys {
					k, _ := hex.DecodeString(hk)
					guard("get", res, func() { _, _ = db.Get(k) })
				}
			}
			time.Sleep(80 * time.Millisecond)
			for _, hk := range m.Keys {
				k, _ := hex.DecodeString(hk)
				guard("get-after-prefetch", res, func() {
					e, err := db.Get(k)
					if err != nil {
						if !errors.Is(err, utils.ErrKeyNotFound) {
							res.err("get-after-prefetch", err)
						}
						return
					}
					res.Obs = append(res.Obs, obs{R: "get", K: hk, V: desc(e.Value)})
				})
			}
		}
		guard("iter", res, func() {
			it := db.NewIterator(&utils.Options{IsAsc: true})
			defer func() { _ = it.Close() }()
			n := 0
			for it.Rewind(); it.Valid() && n < 10000; it.Next() {
				n++
				e := it.Item().Entry()
				if bytes.HasPrefix(e.Key, []byte("!NoKV!")) {
					continue
				}
				res.Obs = append(res.Obs, obs{R: "iter", K: hex.EncodeToString(e.Key), V: desc(e.Value)})
			}
		})
	})
}

// worker: c14read <artefactDir> <posFile> <outFile> <scratchDir>
func worker(args []string) int {
	if len(args) < 4 {
		return 2
	}
	art, posFile, outFile, scratch := args[0], args[1], args[2], args[3]
	var m meta
	mb, err := os.ReadFile(filepath.Join(filepath.Dir(art), "meta.json"))
	if err != nil || json.Unmarshal(mb, &m) != nil {
		fmt.Fprintln(os.Stderr, "meta:", err)
		return 2
	}
	posBytes, err := os.ReadFile(posFile)
	if err != nil {
		return 2
	}
	out, err := os.OpenFile(outFile, os.O_CREATE|os.O_WRONLY|os.O_APPEND, 0o644)
	if err != nil {
		return 2
	}
	for _, line := range strings.Split(strings.TrimSpace(string(posBytes)), "\n") {
		var idx int
		var bit int64
		var file string
		if _, err := fmt.Sscanf(line, "%d %d %s", &idx, &bit, &file); err != nil {
			continue
		}
		_, _ = out.Write([]byte(fmt.Sprintf("START %d\n", idx)))
		wd := time.AfterFunc(120*time.Second, func() {
			_, _ = out.Write([]byte(fmt.Sprintf("HANG %d\n", idx)))
			os.Exit(7)
		})
		run := filepath.Join(scratch, fmt.Sprintf("run-%d", idx))
		_ = os.RemoveAll(run)
		if err := copyTree(art, run, nil); err != nil {
			fmt.Fprintln(os.Stderr, "copy:", err)
			return 2
		}
		if bit >= 0 {
			p := filepath.Join(run, file)
			b, err := os.ReadFile(p)
			if err != nil || bit/8 >= int64(len(b)) {
				fmt.Fprintln(os.Stderr, "flip:", err, bit, len(b))
				return 2
			}
			b[bit/8] ^= 1 << uint(bit%8)
			if err := os.WriteFile(p, b, 0o644); err != nil {
				return 2
			}
		}
		res := result{Idx: idx}
		switch m.Kind {
		case "wal":
			readWAL(run, &res)
		case "vlog":
			readVlog(run, m, &res)
		case "db":
			readDB(run, m, &res, file)
		}
		wd.Stop()
		_ = os.RemoveAll(run)
		rb, _ := json.Marshal(res)
		_, _ = out.Write(append(append([]byte(fmt.Sprintf("RESULT %d ", idx)), rb...), '\n'))
	}
	return 0
}

// ---------------------------------------------------------------- case plan

type spec struct {
	Kind    string
	Variant int
	Chunk   int
	NChunks int
	Full    bool // every bit (thorough); otherwise field bits + sampled bulk bits
	Sample  int  // bulk bits sampled per stratum when !Full
}

func plan(tier string) []spec {
	var out []spec
	if tier == "thorough" {
		for v := 0; v < 4; v++ {
			for ch := 0; ch < 2; ch++ {
				out = append(out, spec{Kind: "wal", Variant: v, Chunk: ch, NChunks: 2, Full: true})
			}
		}
		for v := 0; v < 2; v++ {
			for ch := 0; ch < 8; ch++ {
				out = append(out, spec{Kind: "vlog", Variant: v, Chunk: ch, NChunks: 8, Full: true})
			}
		}
		for ch := 0; ch < 40; ch++ {
			out = append(out, spec{Kind: "db", Variant: 0, Chunk: ch, NChunks: 40, Full: true})
		}
		for ch := 0; ch < 8; ch++ {
			out = append(out, spec{Kind: "db", Variant: 1, Chunk: ch, NChunks: 8, Sample: 200})
		}
		return out
	}
	for v := 0; v < 2; v++ {
		out = append(out, spec{Kind: "wal", Variant: v, NChunks: 1, Sample: 150})
		out = append(out, spec{Kind: "vlog", Variant: v, NChunks: 1, Sample: 150})
	}
	for ch := 0; ch < 12; ch++ {
		out = append(out, spec{Kind: "db", Variant: 0, Chunk: ch, NChunks: 12, Sample: 100})
	}
	return out
}

func positions(a *artefact, sp spec, seed int64) []position {
	var all []position
	byStratum := map[string][]position{}
	var order []string
	for _, rg := range a.Regions {
		if rg.FullOnly && !sp.Full {
			continue
		}
		if _, ok := byStratum[rg.Stratum]; !ok {
			order = append(order, rg.Stratum)
		}
		step := int64(1)
		if sp.Full && rg.Stride > 1 {
			step = rg.Stride
		}
		for bit := rg.Start * 8; bit < rg.End*8; bit += step {
			if rg.Mask != 0 && rg.Mask&(1<<uint(bit%8)) == 0 {
				continue
			}
			byStratum[rg.Stratum] = append(byStratum[rg.Stratum], position{File: rg.File, Bit: bit, Stratum: rg.Stratum, Outside: rg.Outside})
		}
	}
	bulk := map[string]bool{}
	for _, rg := range a.Regions {
		if rg.Bulk {
			bulk[rg.Stratum] = true
		}
	}
	r := rand.New(rand.NewSource(seed))
	for _, s := range order {
		l := byStratum[s]
		if !sp.Full && bulk[s] && len(l) > sp.Sample {
			r.Shuffle(len(l), func(i, j int) { l[i], l[j] = l[j], l[i] })
			l = l[:sp.Sample]
			sort.Slice(l, func(i, j int) bool {
				if l[i].File != l[j].File {
					return l[i].File < l[j].File
				}
				return l[i].Bit < l[j].Bit
			})
		}
		all = append(all, l...)
	}
	var mine []position
	for i, p := range all {
		if i%sp.NChunks == sp.Chunk {
			mine = append(mine, p)
		}
	}
	return mine
}

// ---------------------------------------------------------------- parent side

func runWorker(art, posFile, outFile, scratch string) error {
	ctx, cancel := context.WithTimeout(context.Background(), 30*time.Minute)
	defer cancel()
	cmd := exec.CommandContext(ctx, core.SelfExe(), "worker", "c14read", art, posFile, outFile, scratch)
	cmd.Stdout = io.Discard
	cmd.Stderr = io.Discard
	return cmd.Run()
}

func table(kind, reader string) string {
	switch kind {
	case "wal":
		return "wal"
	case "vlog":
		if strings.HasSuffix(reader, "readvalue") {
			return "vlog-ptr"
		}
		return "vlog-off"
	}
	return "db"
}

func run(c *core.Case) {
	sp := plan(c.Tier)[c.Idx]
	root := c.TempDir()
	art := filepath.Join(root, "art")
	seed := core.CaseSeed(c.Seed, "C14/"+sp.Kind, sp.Variant)
	r := rand.New(rand.NewSource(seed))
	var a *artefact
	var err error
	switch sp.Kind {
	case "wal":
		a, err = buildWAL(art, r)
	case "vlog":
		a, err = buildVlog(art, r)
	default:
		a, err = buildDB(root, r)
	}
	if err != nil {
		c.Inconclusive("building the " + sp.Kind + " artefact failed: " + err.Error())
		return
	}
	mb, _ := json.Marshal(a.Meta)
	if err := os.WriteFile(filepath.Join(root, "meta.json"), mb, 0o644); err != nil {
		c.Inconclusive(err.Error())
		return
	}
	pts := positions(a, sp, seed)
	// index 0 = control (no flip)
	type job struct {
		idx int
		p   position
	}
	jobs := []job{{0, position{Bit: -1, File: "-", Stratum: "control"}}}
	for i, p := range pts {
		jobs = append(jobs, job{i + 1, p})
	}
	results := map[int]*result{}
	died := map[int]string{}
	// Every flip is read from a fresh copy that the readers open, fsync and close; on a memory file system this is
	// several times faster than on disk. Content, not durability, is what the readers are judged on.
	scratch := filepath.Join(root, "scratch")
	if old, _ := filepath.Glob("/dev/shm/verif-c14-*"); len(old) > 0 { // leftovers of killed runs
		for _, o := range old {
			if st, err := os.Stat(o); err == nil && time.Since(st.ModTime()) > 3*time.Hour {
				_ = os.RemoveAll(o)
			}
		}
	}
	if d, err := os.MkdirTemp("/dev/shm", "verif-c14-"); err == nil {
		scratch = d
		defer os.RemoveAll(d)
	}
	_ = os.MkdirAll(scratch, 0o755)
	remaining := jobs
	for round := 0; len(remaining) > 0; round++ {
		if round > 200 {
			c.Inconclusive("reader worker died more than 200 times")
			return
		}
		var sb strings.Builder
		for _, j := range remaining {
			fmt.Fprintf(&sb, "%d %d %s\n", j.idx, j.p.Bit, j.p.File)
		}
		posFile := filepath.Join(root, "positions.txt")
		outFile := filepath.Join(root, fmt.Sprintf("out-%d.txt", round))
		_ = os.WriteFile(posFile, []byte(sb.String()), 0o644)
		werr := runWorker(art, posFile, outFile, scratch)
		ob, _ := os.ReadFile(outFile)
		last, lastDone := -1, true
		for _, line := range strings.Split(string(ob), "\n") {
			switch {
			case strings.HasPrefix(line, "START "):
				fmt.Sscanf(line, "START %d", &last)
				lastDone = false
			case strings.HasPrefix(line, "HANG "):
				died[last] = "hang (120 s watchdog)"
				lastDone = true
			case strings.HasPrefix(line, "RESULT "):
				rest := strings.TrimPrefix(line, "RESULT ")
				cut := strings.IndexByte(rest, ' ')
				if cut < 0 {
					continue
				}
				var res result
				if json.Unmarshal([]byte(rest[cut+1:]), &res) == nil {
					results[res.Idx] = &res
					lastDone = true
				}
			}
		}
		if !lastDone && last >= 0 {
			died[last] = fmt.Sprintf("worker process died (%v)", werr)
		}
		var next []job
		for _, j := range remaining {
			if results[j.idx] == nil && died[j.idx] == "" {
				next = append(next, j)
			}
		}
		if len(next) == len(remaining) {
			c.Inconclusive(fmt.Sprintf("reader worker made no progress: %v", werr))
			return
		}
		remaining = next
	}

	// control: the pristine artefact must read back completely and correctly
	ctrl := results[0]
	if ctrl == nil {
		c.Inconclusive("control read of the pristine artefact died: " + died[0])
		return
	}
	ctrlSet := map[string]bool{}
	covered := map[string]map[string]bool{}
	for _, o := range ctrl.Obs {
		t := table(sp.Kind, o.R)
		if !a.Allowed[t][o.K][o.V] {
			c.Inconclusive(fmt.Sprintf("control read of the pristine %s artefact returned %s %s=%s which was never written", sp.Kind, o.R, o.K, o.V))
			return
		}
		ctrlSet[o.R+"|"+o.K+"|"+o.V] = true
		if covered[t] == nil {
			covered[t] = map[string]bool{}
		}
		covered[t][o.K] = true
	}
	if len(ctrl.Errs) > 0 || len(ctrl.Panics) > 0 {
		c.Inconclusive(fmt.Sprintf("control read of the pristine %s artefact reported errors: %v %v", sp.Kind, ctrl.Errs, ctrl.Panics))
		return
	}
	missing := 0
	for t, keys := range a.Allowed {
		for k := range keys {
			if !covered[t][k] {
				missing++
			}
		}
	}
	// db: deleted keys are legitimately absent (3 of them)
	if (sp.Kind != "db" && missing > 0) || missing > 3 {
		c.Inconclusive(fmt.Sprintf("control read of the pristine %s artefact misses %d of the written items", sp.Kind, missing))
		return
	}
	c.Count("control_items_read."+sp.Kind, len(ctrl.Obs))

	reported := map[string]bool{}
	for _, j := range jobs[1:] {
		p := j.p
		c.Count("evaluations", 1)
		c.Count("fault_points.bit-flip@"+p.Stratum, 1)
		c.Distinct("flipped_files", sp.Kind+":"+filepath.Ext(p.File))
		if why, dead := died[j.idx]; dead {
			c.Count("ungraceful.process-death-or-hang@"+p.Stratum, 1)
			c.Distinct("ungraceful_kinds", sp.Kind+": "+why)
			c.Nontrivial(sp.Kind + "/" + p.Stratum + "/process-death")
			continue
		}
		res := results[j.idx]
		if res == nil {
			continue
		}
		for rd, txt := range res.Panics {
			if strings.HasPrefix(txt, "runtime-panic") {
				c.Count("ungraceful.runtime-panic@"+p.Stratum, 1)
				t := txt
				if len(t) > 90 {
					t = t[:90]
				}
				c.Distinct("ungraceful_kinds", sp.Kind+":"+rd+": "+t)
			}
		}
		bad := 0
		same := len(res.Obs) == len(ctrl.Obs)
		for _, o := range res.Obs {
			if !ctrlSet[o.R+"|"+o.K+"|"+o.V] {
				same = false
			}
			t := table(sp.Kind, o.R)
			if a.Allowed[t][o.K][o.V] {
				continue
			}
			bad++
			if p.Outside {
				c.Count("outside_statement_anomalies@"+p.Stratum, 1)
				continue
			}
			sig := fmt.Sprintf("C14|corrupt-data-served|%s:%s|flip=%s", sp.Kind, o.R, p.Stratum)
			c.Count("violating_observations", 1)
			if reported[sig] {
				continue
			}
			reported[sig] = true
			var want []string
			for v := range a.Allowed[t][o.K] {
				want = append(want, v)
			}
			sort.Strings(want)
			c.Violation(sig, fmt.Sprintf("after flipping bit %d of byte %d of %s (%s), reader %s returned %s = %s as valid; originally written there: %v", p.Bit%8, p.Bit/8, p.File, p.Stratum, o.R, o.K, o.V, want),
				map[string]any{"artefact": a.Summary, "artefact_seed_variant": sp.Variant, "file": p.File, "byte": p.Bit / 8, "bit": p.Bit % 8, "stratum": p.Stratum, "reader": o.R, "returned": o, "originally_written": want, "errors": res.Errs, "panics": res.Panics})
		}
		outcome := "reported-error"
		switch {
		case bad > 0:
			outcome = "wrong-data"
		case same && len(res.Errs) == 0 && len(res.Panics) == 0:
			outcome = "no-visible-effect"
		case len(res.Errs) == 0 && len(res.Panics) == 0:
			outcome = "items-dropped-silently"
		case len(res.Panics) > 0:
			outcome = "panic"
		}
		c.Count("outcome."+sp.Kind+"."+outcome, 1)
		c.Nontrivial(sp.Kind + "/" + p.Stratum + "/" + outcome)
	}
	if sp.Chunk == 0 {
		ex := []any{}
		for i, j := range jobs {
			if i == 0 || len(ex) >= 3 {
				continue
			}
			if res := results[j.idx]; res != nil {
				ex = append(ex, map[string]any{"file": j.p.File, "byte": j.p.Bit / 8, "bit": j.p.Bit % 8, "stratum": j.p.Stratum, "items_returned": len(res.Obs), "errors": res.Errs})
			}
		}
		c.Sample(map[string]any{"artefact": a.Summary, "variant": sp.Variant, "fault_points_in_this_case": len(pts), "chunks": sp.NChunks, "every_bit": sp.Full, "examples": ex})
	}
}

func init() {
	core.RegisterWorker("c14read", worker)
	core.Register(&core.Check{
		ID:    "C14",
		Level: "fault_enumeration",
		Rule: "artefacts built by the real code from the seed: (wal) bare wal.Manager, 12 records of the 4 types, payload sizes {0..300}, one rotation; (vlog) bare vlog.Manager, 12 entries via AppendEntries and AppendEntry, values {0..1000 B}; " +
			"(db) crash image of a DB with SyncWrites: SST 1 (167 keys, >= 2 data blocks, 3 tombstones), SST 2 (11 overwrites), value-log segment with every value >= 96 B, WAL with 8 unflushed writes. " +
			"fault point = one flipped bit of a target file; thorough = every bit of every record / data block of the wal and vlog artefacts and, for the db image (split in 40 chunks; one DB open+close per flip costs ~0.4 CPU-s), every bit of regions <= 512 B (block checksums and lengths, the small SST, the WAL), every 3rd bit of regions <= 2 KiB, every 29th bit of larger regions (entries of the 2-block SST, value-log records), plus a sampled second db variant; quick = every bit of length/type/CRC/header/checksum fields (of the most significant WAL length byte: bits 24-28 of two records; bits 29-31, i.e. 0.5-2 GiB declared lengths, only in thorough and for two records, because the decoder allocates the declared length on each of 5 replay passes) + a seeded sample of payload/key/value/entry bits; " +
			"readers run in a worker child per batch (START/RESULT log attributes fatal exits): wal Open+Replay and VerifyDir+Open+Replay; vlog ReadValue per original pointer, Iterate, and both again after VerifyDir; db NoKV.Open + Get of every key ever written + full iterator. " +
			"oracle: each item returned as valid must be byte-identical to what was originally written at that position / pointer / key. evaluations = flipped bits read back; non-trivial/distinct = distinct (artefact, field stratum, outcome) with outcome in {reported-error, items-dropped-silently, no-visible-effect, panic, process-death, wrong-data}; " +
			"strata reported as fault_points.bit-flip@<file class>:<field>",
		Assumptions: []string{
			"vlog.Manager.Read returns the raw record bytes for the caller to decode; 'read through the pointer' is ReadValue (decode + CRC), which is what DB reads use",
			"for a DB key every value ever written under that key is acceptable (a corrupted newer version may be treated as absent and an older one served)",
			"flips in the SST index/footer are executed and tallied but lie outside the statement (data blocks): anomalies there are reported as observations, not violations",
			"a CRC32 collision (2^-32 per flip) would be reported as a violation",
		},
		Cases:       func(tier string) int { return len(plan(tier)) },
		Run:         run,
		CaseTimeout: 45 * time.Minute, // watchdog only (inconclusive); a loaded machine must not turn slowness into a verdict
		Finish: func(a *core.Agg) {
			a.FloorNontrivial(12)
			strata := map[string]int64{}
			var total int64
			for k, v := range a.Counts {
				if strings.HasPrefix(k, "fault_points.") {
					strata[strings.TrimPrefix(k, "fault_points.")] = v
					total += v
				}
			}
			a.Extra["fault_points_per_stratum"] = strata
			a.Extra["fault_points_total"] = total
			for _, s := range []string{"wal-record:length-field", "wal-record:type-byte", "wal-record:payload", "wal-record:crc", "vlog-record:header-varints", "vlog-record:key", "vlog-record:value", "vlog-record:crc",
				"sst-data-block:entries", "sst-data-block:entry-offsets+count", "sst-data-block:checksum", "sst-data-block:checksum-length", "db-wal:records", "db-vlog:records"} {
				a.Floor("fault_points.bit-flip@"+s, 30)
			}
			a.Floor("fault_points.bit-flip@wal-record:length-field(bits 24-28)", 10)
		},
	})
}
