// Package c10: recovery after any crash yields a prefix-consistent, readable state.
package c10

import "verif/harness/internal/crash"

func init() {
	crash.Register(crash.Oracle{ID: "C10", SyncModes: []bool{true, false}},
		"same crash enumeration as C09 with SyncWrites on and off; oracle: recovered point reads equal the model after some prefix p of the called batches (acked <= p <= called when syncing, 0 <= p <= called otherwise: unique value ids make p unambiguous), "+
			"no value that was never written, transactions all-or-nothing, every present key readable through Get and the iterator (iterator and Get agree); distinct = (workload, stratum, crash-before-completion) triples with a real kill",
		"single writer, so accepted batches are totally ordered")
}
