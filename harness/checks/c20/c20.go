// Package c20: key latches exclude overlapping requests without deadlock.
//
// Direct stress of percolator/latch under the race detector: 16 goroutines
// acquire random key sets (duplicates, empty keys, hash-colliding keys; with 1-3
// stripes every pair of requests collides) from latch.NewManager(n),
// n in {1,2,3,512}, hold them across random Gosched calls and release them,
// sometimes twice.
//
// Oracle (from the statement): one atomic holder counter per key, incremented
// after Acquire returned and decremented before Release is called - a value
// > 1 means two requests sharing that key held their latches at the same time.
// Deadlock: bounded progress - the case must complete; if no acquisition
// completes for 30 s and two goroutine dumps 10 s apart show every worker
// still parked in the latch manager the run is quiescent (violation), any
// other stall is inconclusive. A panic / fatal error (for instance an unlock of
// an unlocked mutex after a double Release) kills the child and is a violation.
package c20

import (
	"bytes"
	"fmt"
	"runtime"
	"strings"
	"sync"
	"sync/atomic"
	"time"

	"github.com/feichai0017/NoKV/kv"
	"github.com/feichai0017/NoKV/percolator/latch"
	"verif/harness/internal/core"
)

const workers = 16

var stripeChoices = []int{1, 2, 3, 512}

// keyPool builds the key universe: short keys, prefix pairs, 0x00/0xff bytes, a long key, the
// empty key, and - for the large manager - three keys that share a stripe.
func keyPool(stripes int) [][]byte {
	pool := [][]byte{
		[]byte(""), []byte("a"), []byte("b"), []byte("ab"), []byte("a\x00"), []byte("a\xff"),
		[]byte("k1"), []byte("k2"), bytes.Repeat([]byte("L"), 300),
	}
	if stripes > 3 {
		byStripe := map[uint64][][]byte{}
		for i := 0; i < 100000; i++ {
			k := []byte(fmt.Sprintf("col-%d", i))
			s := kv.MemHash(k) % uint64(stripes)
			byStripe[s] = append(byStripe[s], k)
			if len(byStripe[s]) == 3 {
				pool = append(pool, byStripe[s]...)
				break
			}
		}
	}
	return pool
}

func perWorker(tier string) int {
	if tier == "thorough" {
		return 4000
	}
	return 800
}

func run(c *core.Case) {
	stripes := stripeChoices[c.Idx%len(stripeChoices)]
	pool := keyPool(stripes)
	m := latch.NewManager(stripes)
	holders := make([]atomic.Int32, len(pool))
	stripeOf := make([]uint64, len(pool))
	for i, k := range pool {
		stripeOf[i] = kv.MemHash(k) % uint64(stripes)
	}
	n := perWorker(c.Tier)
	var progress, finished atomic.Int64
	var violated atomic.Bool
	var wg sync.WaitGroup
	seeds := make([]int64, workers)
	for i := range seeds {
		seeds[i] = c.Rng.Int63()
	}
	type local struct {
		acq, contendedKey, contendedStripe, dup, emptyShared, double, emptyOnly int
		fps                                                                     map[string]struct{}
	}
	locals := make([]local, workers)
	for g := 0; g < workers; g++ {
		wg.Add(1)
		go func(g int) {
			defer wg.Done()
			defer finished.Add(1)
			rng := newRng(seeds[g])
			lc := &locals[g]
			lc.fps = map[string]struct{}{}
			for it := 0; it < n; it++ {
				size := rng.Intn(5)
				idxs := make([]int, 0, size)
				keys := make([][]byte, 0, size)
				for k := 0; k < size; k++ {
					var i int
					if k > 0 && rng.Intn(5) == 0 {
						i = idxs[rng.Intn(len(idxs))] // duplicate
						lc.dup++
					} else {
						i = rng.Intn(len(pool))
					}
					idxs = append(idxs, i)
					keys = append(keys, pool[i])
				}
				distinct := map[int]bool{}
				for _, i := range idxs {
					distinct[i] = true
				}
				// coverage only: was a key / a stripe of this request held when it was issued?
				ck, cs := false, false
				for i := range distinct {
					if i != 0 && holders[i].Load() > 0 {
						ck = true
					}
					for j := range pool {
						if j != 0 && j != i && i != 0 && stripeOf[j] == stripeOf[i] && holders[j].Load() > 0 {
							cs = true
						}
					}
				}
				guard := m.Acquire(keys)
				for i := range distinct {
					v := holders[i].Add(1)
					if v > 1 {
						if i == 0 {
							lc.emptyShared++ // the empty key is not latched (see Assumptions)
							continue
						}
						if violated.CompareAndSwap(false, true) {
							c.Violation("C20|overlapping-holders|same-key", fmt.Sprintf("%d requests whose key sets contain %q held their latches at the same time (manager with %d stripes)", v, pool[i], stripes),
								map[string]any{"stripes": stripes, "key": string(pool[i]), "request_keys": keyStrings(keys), "holders": v})
						}
					}
				}
				for y := rng.Intn(3); y > 0; y-- {
					runtime.Gosched()
				}
				for i := range distinct {
					holders[i].Add(-1)
				}
				guard.Release()
				if rng.Intn(5) == 0 {
					guard.Release() // releasing twice must be harmless
					lc.double++
				}
				lc.acq++
				if ck {
					lc.contendedKey++
				}
				if cs {
					lc.contendedStripe++
				}
				if len(distinct) == 1 && distinct[0] {
					lc.emptyOnly++
				}
				lc.fps[fmt.Sprintf("stripes=%d size=%d distinct=%d key-held=%v stripe-held=%v", stripes, size, len(distinct), ck, cs)] = struct{}{}
				progress.Add(1)
			}
		}(g)
	}
	done := make(chan struct{})
	go func() { wg.Wait(); close(done) }()
	// bounded-progress watchdog
	last, lastChange := int64(-1), time.Now()
	tick := time.NewTicker(time.Second)
	defer tick.Stop()
wait:
	for {
		select {
		case <-done:
			break wait
		case <-tick.C:
			p := progress.Load()
			if p != last {
				last, lastChange = p, time.Now()
				continue
			}
			if time.Since(lastChange) < 30*time.Second {
				continue
			}
			d1 := latchParked()
			time.Sleep(10 * time.Second)
			d2 := latchParked()
			if progress.Load() == last && d1 > 0 && d1 == d2 && d1 == workers-int(finished.Load()) {
				c.Violation("C20|deadlock|quiescent", fmt.Sprintf("no acquisition completed for 40 s; %d workers are parked in latch.Manager.Acquire in two dumps 10 s apart (manager with %d stripes)", d1, stripes), dump())
			} else if progress.Load() == last {
				c.Inconclusive("no progress for 40 s but the run is not quiescent inside the latch manager")
			} else {
				continue
			}
			return
		}
	}
	tot := local{}
	for _, lc := range locals {
		tot.acq += lc.acq
		tot.contendedKey += lc.contendedKey
		tot.contendedStripe += lc.contendedStripe
		tot.dup += lc.dup
		tot.emptyShared += lc.emptyShared
		tot.double += lc.double
		tot.emptyOnly += lc.emptyOnly
		for fp := range lc.fps {
			c.Nontrivial(fp)
		}
	}
	c.Count("evaluations", tot.acq)
	c.Count("acquisitions", tot.acq)
	c.Count("acquisitions_with_a_key_held_by_another_request", tot.contendedKey)
	c.Count("acquisitions_with_only_the_stripe_held", tot.contendedStripe)
	c.Count("duplicate_keys_in_requests", tot.dup)
	c.Count("double_releases", tot.double)
	c.Count("obs.empty_key_shared_by_simultaneous_holders", tot.emptyShared)
	c.Count(fmt.Sprintf("acquisitions_stripes_%d", stripes), tot.acq)
	for i := range holders {
		if holders[i].Load() != 0 {
			c.Inconclusive("harness counter imbalance")
		}
	}
	if c.Idx < 2 {
		c.Sample(map[string]any{"stripes": stripes, "goroutines": workers, "acquisitions_per_goroutine": n, "keys": keyStrings(pool)})
	}
}

func keyStrings(keys [][]byte) []string {
	var out []string
	for _, k := range keys {
		s := fmt.Sprintf("%q", k)
		if len(s) > 24 {
			s = s[:24] + "..."
		}
		out = append(out, s)
	}
	return out
}

func dump() string {
	buf := make([]byte, 1<<20)
	n := runtime.Stack(buf, true)
	s := string(buf[:n])
	if len(s) > 20000 {
		s = s[:20000]
	}
	return s
}

// latchParked counts goroutines whose stack is inside latch.(*Manager).Acquire.
func latchParked() int {
	buf := make([]byte, 4<<20)
	n := runtime.Stack(buf, true)
	cnt := 0
	for _, g := range strings.Split(string(buf[:n]), "\n\n") {
		if strings.Contains(g, "latch.(*Manager).Acquire") {
			cnt++
		}
	}
	return cnt
}

// small deterministic PRNG per goroutine (math/rand.Rand is not safe for concurrent use)
type rng struct{ s uint64 }

func newRng(seed int64) *rng { return &rng{s: uint64(seed)*2685821657736338717 + 1} }
func (r *rng) next() uint64 {
	r.s ^= r.s << 13
	r.s ^= r.s >> 7
	r.s ^= r.s << 17
	return r.s
}
func (r *rng) Intn(n int) int { return int(r.next() % uint64(n)) }

func init() {
	core.Register(&core.Check{
		ID:    "C20",
		Level: "exploration",
		Rule: "one case = latch.NewManager(n), n cycling through {1,2,3,512}, stressed by 16 goroutines x 800 (quick, 16 cases = 204 800 acquisitions) or x 4000 (thorough, 160 cases = 10.24 M) acquisitions of random key sets " +
			"(0-4 keys from a pool with the empty key, prefix pairs, 0x00/0xff bytes, a 300-byte key and three keys sharing a stripe of the 512-stripe manager; 20% duplicates), random Gosched while holding, 20% double Release, under the race detector; " +
			"evaluations = acquisitions checked by the per-key holder counters; distinct/non-trivial = distinct (stripes, request size, distinct keys, a key was held by another request when issued, only its stripe was held) combinations observed",
		Assumptions: []string{
			"the empty key is not a latchable key: latch.Acquire skips it (requests sharing only the empty key may overlap; counted as obs.empty_key_shared_by_simultaneous_holders, not a violation)",
			"'releasing twice' means the same goroutine calling Release again on the same guard",
			"'eventually succeeds' is checked as bounded progress: every acquisition of the fixed case list must complete",
		},
		Race:             true,
		RaceFiles:        []string{"percolator/latch/latch.go"},
		CrashIsViolation: true,
		Cases: func(tier string) int {
			if tier == "thorough" {
				return 160
			}
			return 16
		},
		Run: run,
		Finish: func(a *core.Agg) {
			a.Floor("acquisitions", 200000)
			a.Floor("acquisitions_with_a_key_held_by_another_request", 10000)
			a.Floor("acquisitions_with_only_the_stripe_held", 1000)
			a.Floor("double_releases", 10000)
			a.FloorNontrivial(20)
		},
	})
}
