// Package checks links every property check into the vcheck binary: each
// check has a file reg_cNN.go importing its package for its init().
package checks
