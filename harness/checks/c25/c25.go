// Package c25: commands only execute against the region that owns their keys.
//
// Monitor: a real store.Store with one single-voter region (WAL-backed raft
// storage over a real NoKV.DB, kv.NewApplier wrapped by a call counter) that
// is campaigned to leader. An enumeration of command kind x key position x
// range shape x epoch variant x request form is sent through
// Store.ProposeCommand (all kinds) and Store.ReadCommand (read kinds, and
// write kinds that must be refused). Oracle, written from the statement: a
// reply without RegionError (and without Go error) requires the region's
// current epoch and every named non-empty key inside the region's range; a
// command refused with a RegionError must not have reached the applier; every
// key returned by an accepted SCAN lies inside the range.
package c25

import (
	"fmt"
	"sort"
	"strings"
	"sync/atomic"
	"time"

	NoKV "github.com/feichai0017/NoKV"
	"github.com/feichai0017/NoKV/manifest"
	"github.com/feichai0017/NoKV/pb"
	myraft "github.com/feichai0017/NoKV/raft"
	rkv "github.com/feichai0017/NoKV/raftstore/kv"
	"github.com/feichai0017/NoKV/raftstore/peer"
	"github.com/feichai0017/NoKV/raftstore/store"
	"verif/harness/internal/core"
	"verif/harness/internal/dbx"
	"verif/harness/internal/ivl"
)

type noopTransport struct{}

func (noopTransport) Send(myraft.Message) {}

const (
	regionID = 77
	peerID   = 7
	epochVer = 5
	epochCnf = 3
)

// ranges is the enumerated set of region ranges: every shape, with bounds
// chosen so that prefix / 0x00 / 0xff neighbours exist.
var ranges = []ivl.Range{
	ivl.R("c", "m"),
	ivl.R("b", "b\x00"), // contains exactly the key "b"
	ivl.R("ab", "ac"),
	ivl.R("", "m"),
	ivl.R("", "\x00"), // contains no non-empty key
	ivl.R("c", ""),
	ivl.R("\xff", ""),
	ivl.R("", ""),
}

var kinds = []pb.CmdType{pb.CmdType_CMD_GET, pb.CmdType_CMD_SCAN, pb.CmdType_CMD_PREWRITE, pb.CmdType_CMD_COMMIT, pb.CmdType_CMD_BATCH_ROLLBACK, pb.CmdType_CMD_RESOLVE_LOCK, pb.CmdType_CMD_CHECK_TXN_STATUS}

func kindName(k pb.CmdType) string {
	n := k.String()
	if len(n) > 4 {
		return n[4:]
	}
	return n
}

func multiKey(k pb.CmdType) bool {
	switch k {
	case pb.CmdType_CMD_PREWRITE, pb.CmdType_CMD_COMMIT, pb.CmdType_CMD_BATCH_ROLLBACK, pb.CmdType_CMD_RESOLVE_LOCK:
		return true
	}
	return false
}

func readKind(k pb.CmdType) bool { return k == pb.CmdType_CMD_GET || k == pb.CmdType_CMD_SCAN }

type posKey struct {
	Label string
	Key   []byte
}

func pred(b []byte) [][]byte {
	// keys just below b: last byte decremented (+0xff tail), and the proper prefix
	var out [][]byte
	if len(b) == 0 {
		return nil
	}
	if last := b[len(b)-1]; last > 0 {
		p := append([]byte(nil), b...)
		p[len(p)-1] = last - 1
		out = append(out, append(append([]byte(nil), p...), 0xff), p)
	}
	if len(b) > 1 {
		out = append(out, append([]byte(nil), b[:len(b)-1]...))
	}
	return out
}

// relLabel names the position of key relative to the range bounds (by comparison only).
func relLabel(rg ivl.Range, key []byte) string {
	switch {
	case len(key) == 0:
		return "empty"
	case len(rg.Start) > 0 && string(key) < string(rg.Start):
		return "below-start"
	case len(rg.Start) > 0 && string(key) == string(rg.Start):
		return "at-start"
	case len(rg.End) > 0 && string(key) == string(rg.End):
		return "at-end"
	case len(rg.End) > 0 && string(key) > string(rg.End):
		return "above-end"
	}
	return "inside"
}

// positions enumerates the key positions of the statement for one range.
func positions(rg ivl.Range) []posKey {
	seen := map[string]bool{}
	var out []posKey
	add := func(how string, k []byte) {
		if seen[string(k)] {
			return
		}
		seen[string(k)] = true
		out = append(out, posKey{Label: relLabel(rg, k) + "/" + how, Key: append([]byte(nil), k...)})
	}
	add("empty", nil)
	if len(rg.Start) > 0 {
		for _, p := range pred(rg.Start) {
			add("start-1", p)
		}
		add("start", rg.Start)
		add("start+0", append(append([]byte(nil), rg.Start...), 0))
	}
	if len(rg.End) > 0 {
		for _, p := range pred(rg.End) {
			add("end-1", p)
		}
		add("end", rg.End)
		add("end+0", append(append([]byte(nil), rg.End...), 0))
	}
	add("smallest", []byte{0})
	add("fixed", []byte("g"))
	add("fixed", []byte("b"))
	add("largest", []byte{0xff, 0xff, 0xff})
	return out
}

func goodKeys(rg ivl.Range) [][]byte {
	var out [][]byte
	for _, p := range positions(rg) {
		if len(p.Key) > 0 && rg.Contains(p.Key) {
			out = append(out, p.Key)
		}
	}
	sort.Slice(out, func(i, j int) bool { return string(out[i]) < string(out[j]) })
	return out
}

type epochVariant struct {
	Name string
	E    *pb.RegionEpoch
}

func epochVariants() []epochVariant {
	return []epochVariant{
		{"current", &pb.RegionEpoch{Version: epochVer, ConfVer: epochCnf}},
		{"version+1", &pb.RegionEpoch{Version: epochVer + 1, ConfVer: epochCnf}},
		{"version-1", &pb.RegionEpoch{Version: epochVer - 1, ConfVer: epochCnf}},
		{"conf+1", &pb.RegionEpoch{Version: epochVer, ConfVer: epochCnf + 1}},
		{"conf-1", &pb.RegionEpoch{Version: epochVer, ConfVer: epochCnf - 1}},
		{"nil", nil},
		{"swapped", &pb.RegionEpoch{Version: epochCnf, ConfVer: epochVer}},
		{"zero", &pb.RegionEpoch{}},
	}
}

type fixture struct {
	c       *core.Case
	rg      ivl.Range
	db      *NoKV.DB
	st      *store.Store
	p       *peer.Peer
	applied atomic.Int64
	ts      uint64
}

func (f *fixture) close() {
	if f.st != nil {
		if f.p != nil {
			f.st.StopPeer(f.p.ID())
		}
		f.st.Close()
	}
	if f.db != nil {
		_ = f.db.Close()
	}
	f.st, f.p, f.db = nil, nil, nil
}

func (f *fixture) open() error {
	cfg := dbx.Config{Engine: "skiplist", ValueThreshold: 1024, Buckets: 1, VlogFileSize: 1 << 20, MemTableSize: 1 << 20, L0Tables: 1000, ManifestRewrite: 64 << 20}
	db, err := dbx.Open(cfg.Options(f.c.TempDir()))
	if err != nil {
		return err
	}
	f.db = db
	inner := rkv.NewApplier(db)
	f.st = store.NewStoreWithConfig(store.Config{StoreID: 1, CommandTimeout: 60 * time.Second,
		CommandApplier: func(req *pb.RaftCmdRequest) (*pb.RaftCmdResponse, error) {
			f.applied.Add(1)
			return inner(req)
		}})
	region := &manifest.RegionMeta{ID: regionID, StartKey: f.rg.Start, EndKey: f.rg.End,
		Epoch: manifest.RegionEpoch{Version: epochVer, ConfVersion: epochCnf}, Peers: []manifest.PeerMeta{{StoreID: 1, PeerID: peerID}}}
	pcfg := &peer.Config{
		RaftConfig: myraft.Config{ID: peerID, ElectionTick: 5, HeartbeatTick: 1, MaxSizePerMsg: 1 << 20, MaxInflightMsgs: 256, PreVote: true},
		Transport:  noopTransport{}, WAL: db.WAL(), Manifest: db.Manifest(), GroupID: regionID, Region: region,
	}
	p, err := f.st.StartPeer(pcfg, []myraft.Peer{{ID: peerID}})
	if err != nil {
		return err
	}
	f.p = p
	if err := p.Campaign(); err != nil {
		return err
	}
	if st := p.Status(); st.RaftState != myraft.StateLeader {
		return fmt.Errorf("peer did not become leader: %v", st.RaftState)
	}
	return nil
}

func (f *fixture) nextTs() uint64 { f.ts += 10; return 1000 + f.ts }

// build makes one sub-request of the given kind naming exactly keys.
func (f *fixture) build(kind pb.CmdType, keys [][]byte) *pb.Request {
	ts := f.nextTs()
	r := &pb.Request{CmdType: kind}
	switch kind {
	case pb.CmdType_CMD_GET:
		r.Cmd = &pb.Request_Get{Get: &pb.GetRequest{Key: keys[0], Version: ts}}
	case pb.CmdType_CMD_SCAN:
		r.Cmd = &pb.Request_Scan{Scan: &pb.ScanRequest{StartKey: keys[0], Limit: 4, Version: ts, IncludeStart: true}}
	case pb.CmdType_CMD_PREWRITE:
		pw := &pb.PrewriteRequest{PrimaryLock: keys[0], StartVersion: ts, LockTtl: 3000}
		for _, k := range keys {
			pw.Mutations = append(pw.Mutations, &pb.Mutation{Op: pb.Mutation_Put, Key: k, Value: []byte("v")})
		}
		r.Cmd = &pb.Request_Prewrite{Prewrite: pw}
	case pb.CmdType_CMD_COMMIT:
		r.Cmd = &pb.Request_Commit{Commit: &pb.CommitRequest{Keys: keys, StartVersion: ts, CommitVersion: ts + 1}}
	case pb.CmdType_CMD_BATCH_ROLLBACK:
		r.Cmd = &pb.Request_BatchRollback{BatchRollback: &pb.BatchRollbackRequest{Keys: keys, StartVersion: ts}}
	case pb.CmdType_CMD_RESOLVE_LOCK:
		r.Cmd = &pb.Request_ResolveLock{ResolveLock: &pb.ResolveLockRequest{Keys: keys, StartVersion: ts}}
	case pb.CmdType_CMD_CHECK_TXN_STATUS:
		r.Cmd = &pb.Request_CheckTxnStatus{CheckTxnStatus: &pb.CheckTxnStatusRequest{PrimaryKey: keys[0], LockTs: ts, CurrentTs: ts + 5, CallerStartTs: ts + 5}}
	}
	return r
}

func stripDigits(s string) string {
	out := make([]rune, 0, len(s))
	for _, r := range s {
		if r < '0' || r > '9' {
			out = append(out, r)
		}
	}
	if len(out) > 100 {
		out = out[:100]
	}
	return string(out)
}

type cmdDesc struct {
	Path     string   `json:"path"`
	Epoch    string   `json:"epoch"`
	Form     string   `json:"form"`
	Kinds    []string `json:"kinds"`
	Keys     []string `json:"keys"`
	Range    string   `json:"range"`
	Accepted bool     `json:"accepted"`
	Err      string   `json:"err,omitempty"`
	RegErr   string   `json:"region_error,omitempty"`
}

// send runs one command and judges it. named = every key the command names;
// kind/pos/form describe the sub-request under test (for signatures).
func (f *fixture) send(path string, ev epochVariant, reqs []*pb.Request, named [][]byte, kind pb.CmdType, pos, form string) (*pb.RaftCmdResponse, bool) {
	c := f.c
	req := &pb.RaftCmdRequest{Header: &pb.CmdHeader{RegionId: regionID, RegionEpoch: ev.E}, Requests: reqs}
	before := f.applied.Load()
	var resp *pb.RaftCmdResponse
	var err error
	if path == "propose" {
		resp, err = f.st.ProposeCommand(req)
	} else {
		resp, err = f.st.ReadCommand(req)
	}
	ran := f.applied.Load() - before
	accepted := err == nil && resp != nil && resp.GetRegionError() == nil
	c.Count("evaluations", 1)
	c.Count("commands_"+path, 1)
	epochOK := ev.E != nil && ev.E.GetVersion() == epochVer && ev.E.GetConfVer() == epochCnf
	var outKey []byte
	hasEmpty := false
	for _, k := range named {
		if len(k) == 0 {
			hasEmpty = true
			continue
		}
		if !f.rg.Contains(k) && outKey == nil {
			outKey = k
		}
	}
	valid := epochOK && outKey == nil
	d := cmdDesc{Path: path, Epoch: ev.Name, Form: form, Range: f.rg.String(), Accepted: accepted}
	for _, r := range reqs {
		d.Kinds = append(d.Kinds, kindName(r.GetCmdType()))
	}
	for _, k := range named {
		d.Keys = append(d.Keys, fmt.Sprintf("%q", k))
	}
	if err != nil {
		d.Err = err.Error()
		c.Distinct("go_errors", path+": "+stripDigits(d.Err))
	}
	if resp != nil && resp.GetRegionError() != nil {
		d.RegErr = resp.GetRegionError().String()
	}
	// signatures name the oracle rule, the command kind and the boundary /
	// epoch class only; path and request form are in the detail.
	ctx := "kind=" + kindName(kind)
	switch {
	case accepted && !epochOK:
		c.Violation("C25|accepted-wrong-epoch|epoch="+ev.Name, "a command carrying an epoch other than the region's current epoch was answered without RegionError", d)
	case accepted && outKey != nil:
		c.Violation("C25|accepted-out-of-range-key|"+ctx+",pos="+relLabel(f.rg, outKey), fmt.Sprintf("a command naming key %q outside %s was answered without RegionError", outKey, f.rg), d)
	}
	if !accepted && ran > 0 && resp != nil && resp.GetRegionError() != nil {
		c.Violation("C25|executed-after-region-error|"+ctx, "the applier ran for a command that was answered with a RegionError", d)
	}
	cls := "rejected"
	if accepted {
		cls = "accepted"
	}
	vcls := "invalid"
	if valid {
		vcls = "valid"
	}
	c.Count(cls+"_"+vcls, 1)
	if hasEmpty {
		c.Count("names_empty_key_"+cls, 1)
	}
	if accepted && ran > 0 {
		c.Count("accepted_and_executed", 1)
	}
	why := "ok"
	if !epochOK {
		why = "epoch"
	} else if outKey != nil {
		why = "key:" + relLabel(f.rg, outKey)
	}
	c.Nontrivial(fmt.Sprintf("%s|%s|%s|%s|%s|%s|%s", f.rg.Shape(), path, kindName(kind), form, pos, why, cls))
	c.Distinct("outcome_classes", fmt.Sprintf("%s/%s/%s/%s", path, kindName(kind), why, cls))
	if err != nil && path == "propose" {
		// a Go error from the apply path can leave the peer's ready loop
		// unusable; continue on a fresh fixture.
		c.Count("fixture_rebuilds", 1)
		f.close()
		if e := f.open(); e != nil {
			c.Inconclusive("fixture rebuild: " + e.Error())
			return resp, false
		}
	}
	if accepted && valid && kind == pb.CmdType_CMD_COMMIT && form == "multi@1" {
		c.Sample(d)
	}
	return resp, accepted
}

// place puts k at index i among the good keys.
func place(good [][]byte, k []byte, i int) [][]byte {
	out := [][]byte{good[0], good[len(good)-1]}
	res := make([][]byte, 0, 3)
	res = append(res, out[:i]...)
	res = append(res, k)
	res = append(res, out[i:]...)
	return res
}

func runSingle(f *fixture, kinds []pb.CmdType) {
	for _, pk := range positions(f.rg) {
		for _, kind := range kinds {
			for _, ev := range epochVariants() {
				if f.st == nil {
					return
				}
				f.send("propose", ev, []*pb.Request{f.build(kind, [][]byte{pk.Key})}, [][]byte{pk.Key}, kind, pk.Label, "single")
				if f.st == nil {
					return
				}
				if readKind(kind) || ev.Name == "current" {
					// write kinds through ReadCommand must be refused one way or another
					f.send("read", ev, []*pb.Request{f.build(kind, [][]byte{pk.Key})}, [][]byte{pk.Key}, kind, pk.Label, "single")
				}
			}
		}
	}
}

func runMulti(f *fixture, kinds []pb.CmdType) {
	good := goodKeys(f.rg)
	if len(good) == 0 {
		// the range holds no non-empty key: mixed forms do not exist
		f.c.Count("ranges_without_good_keys", 1)
		// still non-trivial: every non-empty key must be refused in a two-key command
		for _, pk := range positions(f.rg) {
			for _, kind := range kinds {
				if !multiKey(kind) || f.st == nil {
					continue
				}
				keys := [][]byte{pk.Key, []byte("zz")}
				f.send("propose", epochVariants()[0], []*pb.Request{f.build(kind, keys)}, keys, kind, pk.Label, "multi@0")
			}
		}
		return
	}
	evs := []epochVariant{epochVariants()[0], epochVariants()[2], epochVariants()[5]}
	for _, pk := range positions(f.rg) {
		for _, kind := range kinds {
			for _, ev := range evs {
				for i := 0; i < 3; i++ {
					if f.st == nil {
						return
					}
					if multiKey(kind) {
						keys := place(good, pk.Key, i)
						f.send("propose", ev, []*pb.Request{f.build(kind, keys)}, keys, kind, pk.Label, fmt.Sprintf("multi@%d", i))
					}
					// batch: the request under test among good GETs (reads) or good rollbacks (writes)
					filler := pb.CmdType_CMD_GET
					if i%2 == 1 {
						filler = pb.CmdType_CMD_BATCH_ROLLBACK
					}
					a := f.build(filler, [][]byte{good[0]})
					b := f.build(filler, [][]byte{good[len(good)-1]})
					x := f.build(kind, [][]byte{pk.Key})
					reqs := []*pb.Request{a, b}
					reqs = append(reqs[:i:i], append([]*pb.Request{x}, reqs[i:]...)...)
					named := [][]byte{good[0], good[len(good)-1], pk.Key}
					if f.st == nil {
						return
					}
					f.send("propose", ev, reqs, named, kind, pk.Label, fmt.Sprintf("batch@%d", i))
					if readKind(kind) && filler == pb.CmdType_CMD_GET {
						if f.st == nil {
							return
						}
						f.send("read", ev, reqs, named, kind, pk.Label, fmt.Sprintf("batch@%d", i))
					}
				}
			}
		}
	}
}

// planted keys cover every side of every enumerated range.
var planted = []string{"\x00", "\x00\x01", "a", "ab", "ab\x00", "abz", "ac", "b", "b\x00", "b\x00\x00", "bz", "c", "c\x00", "g", "l", "l\xff", "m", "m\x00", "z", "\xfe\xff", "\xff", "\xff\x00", "\xff\xff", "\xff\xff\xff"}

func plant(f *fixture) error {
	var muts []*pb.Mutation
	var keys [][]byte
	for _, k := range planted {
		muts = append(muts, &pb.Mutation{Op: pb.Mutation_Put, Key: []byte(k), Value: []byte("planted:" + k)})
		keys = append(keys, []byte(k))
	}
	// written directly into the DB, i.e. not through the region under test
	resp, err := rkv.Apply(f.db, &pb.RaftCmdRequest{Requests: []*pb.Request{
		{CmdType: pb.CmdType_CMD_PREWRITE, Cmd: &pb.Request_Prewrite{Prewrite: &pb.PrewriteRequest{Mutations: muts, PrimaryLock: keys[0], StartVersion: 10, LockTtl: 3000}}},
		{CmdType: pb.CmdType_CMD_COMMIT, Cmd: &pb.Request_Commit{Commit: &pb.CommitRequest{Keys: keys, StartVersion: 10, CommitVersion: 20}}},
	}})
	if err != nil {
		return err
	}
	if e := resp.GetResponses()[0].GetPrewrite().GetErrors(); len(e) > 0 {
		return fmt.Errorf("plant prewrite: %v", e)
	}
	if e := resp.GetResponses()[1].GetCommit().GetError(); e != nil {
		return fmt.Errorf("plant commit: %v", e)
	}
	return nil
}

func runScan(f *fixture) {
	c := f.c
	if err := plant(f); err != nil {
		c.Inconclusive("planting data: " + err.Error())
		return
	}
	cur := epochVariants()[0]
	for _, pk := range positions(f.rg) {
		for _, incl := range []bool{true, false} {
			for _, limit := range []uint32{1, 4, 100} {
				for _, path := range []string{"read", "propose"} {
					if f.st == nil {
						return
					}
					sr := &pb.Request{CmdType: pb.CmdType_CMD_SCAN, Cmd: &pb.Request_Scan{Scan: &pb.ScanRequest{StartKey: pk.Key, Limit: limit, Version: 100, IncludeStart: incl}}}
					resp, accepted := f.send(path, cur, []*pb.Request{sr}, [][]byte{pk.Key}, pb.CmdType_CMD_SCAN, pk.Label, fmt.Sprintf("scan-limit%d", limit))
					if !accepted || resp == nil || len(resp.GetResponses()) == 0 {
						continue
					}
					scan := resp.GetResponses()[0].GetScan()
					c.Count("scans_accepted", 1)
					var keys []string
					bad := ""
					for _, kv := range scan.GetKvs() {
						keys = append(keys, fmt.Sprintf("%q", kv.GetKey()))
						if !f.rg.Contains(kv.GetKey()) && bad == "" {
							bad = relLabel(f.rg, kv.GetKey())
							if bad == "at-end" || bad == "above-end" {
								bad = "at-or-above-end"
							}
						}
					}
					c.Count("scan_keys_returned", len(keys))
					if len(keys) > 0 {
						c.Count("scans_with_results", 1)
					}
					if bad != "" {
						c.Violation("C25|scan-result-out-of-range|path="+path+",side="+bad,
							fmt.Sprintf("SCAN(start=%q, include_start=%v, limit=%d) through region %s via %s returned keys outside the range", pk.Key, incl, limit, f.rg, path),
							map[string]any{"range": f.rg.String(), "start_key": fmt.Sprintf("%q", pk.Key), "include_start": incl, "limit": limit, "path": path, "returned": keys})
					}
				}
			}
		}
	}
}

// parts of the enumeration for one range: the scan-result part, the
// single-request forms (all kinds) and the mixed forms in three kind groups.
var parts = []string{"scan", "single", "mixed:reads", "mixed:writes", "mixed:resolves"}

func kindOf(part string) []pb.CmdType {
	switch part {
	case "mixed:reads":
		return []pb.CmdType{pb.CmdType_CMD_GET, pb.CmdType_CMD_SCAN}
	case "mixed:writes":
		return []pb.CmdType{pb.CmdType_CMD_PREWRITE, pb.CmdType_CMD_COMMIT}
	case "mixed:resolves":
		return []pb.CmdType{pb.CmdType_CMD_BATCH_ROLLBACK, pb.CmdType_CMD_RESOLVE_LOCK, pb.CmdType_CMD_CHECK_TXN_STATUS}
	}
	return kinds
}

func run(c *core.Case) {
	enum := len(ranges) * len(parts)
	var rg ivl.Range
	part := ""
	if c.Idx < enum {
		rg = ranges[c.Idx/len(parts)]
		part = parts[c.Idx%len(parts)]
	} else {
		// thorough: random ranges beyond the enumeration
		rb := func() []byte {
			if c.Rng.Intn(4) == 0 {
				return nil
			}
			b := make([]byte, 1+c.Rng.Intn(3))
			for i := range b {
				b[i] = []byte{0, 1, 'a', 'b', 'm', 0xfe, 0xff}[c.Rng.Intn(7)]
			}
			return b
		}
		for {
			rg = ivl.Range{Start: rb(), End: rb()}
			if !rg.IsEmpty() {
				break
			}
		}
		part = parts[c.Rng.Intn(len(parts))]
	}
	f := &fixture{c: c, rg: rg}
	if err := f.open(); err != nil {
		c.Inconclusive("fixture: " + err.Error())
		f.close()
		return
	}
	defer f.close()
	c.Distinct("range_shapes", rg.Shape())
	c.Distinct("ranges", rg.String())
	switch {
	case strings.HasPrefix(part, "single"):
		runSingle(f, kindOf(part))
	case strings.HasPrefix(part, "mixed"):
		runMulti(f, kindOf(part))
	default:
		runScan(f)
	}
}

func init() {
	core.Register(&core.Check{
		ID:         "C25",
		Level:      "exploration",
		Exhaustive: true,
		Rule: "exhaustive enumeration on a single-voter leader region (WAL-backed raft over a real DB): 8 ranges (bounded x3, start-unbounded x2, end-unbounded x2, both) x key positions " +
			"{empty, start-1 (byte-decremented and prefix), start, start+\\x00, end-1 (byte-decremented, with 0xff tail, prefix), end, end+\\x00, smallest, largest, fixed} x 7 command kinds x 8 epoch variants " +
			"{current, version+-1, conf+-1, nil, swapped, zero} through ProposeCommand (all) and ReadCommand (read kinds; write kinds with the current epoch); multi-key commands and 3-request batches with the key under test at " +
			"index 0/1/2 among in-range keys x epochs {current, version-1, nil}; SCAN of data planted directly in the DB on every side of the range x start position x include_start x limit {1,4,100} x both paths. " +
			"One case = (range, part) with part = scan | single-request forms | mixed forms of one kind group (reads, prewrite+commit, rollback+resolve+check). Oracle = reference predicate from the statement. Non-trivial/distinct = distinct (range shape, path, kind, form, key position, validity reason, outcome) tuples observed; thorough adds seeded random ranges",
		Assumptions: []string{
			"an empty key names no key (the API treats it as 'unset'); commands naming only empty keys are outside the in-range requirement and only counted",
			"accepted = no Go error and no RegionError in the reply; per-key errors inside a response (locked, not found) are executions, not refusals",
			"a PREWRITE's primary_lock is not a named key of the request (it may live in another region); it is always set to the first mutation key here",
			"reverse scans are not generated (the applier refuses them with an error that stalls the peer's ready loop)",
		},
		Cases: func(tier string) int {
			n := len(ranges) * len(parts)
			if tier == "thorough" {
				n += 300
			}
			return n
		},
		Run: run,
		Finish: func(a *core.Agg) {
			a.Floor("accepted_valid", 500)
			a.Floor("rejected_invalid", 3000)
			a.Floor("scans_with_results", 50)
			a.Floor("range_shapes", 4)
			a.FloorNontrivial(500)
		},
	})
}
