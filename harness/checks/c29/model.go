package c29

import (
	"math"
	"strconv"
	"strings"

	"verif/harness/internal/redisx"
)

// The reference model of the Redis subset named by the property, written from
// Redis' documented semantics (redis.io command pages / Redis 7 behaviour),
// not from the gateway's code.
//
// Observable state is key -> string value. Time-to-live is not observable with
// this command subset except through expiry itself, and the check only uses
// expiry instants that are decades in the past ("already expired": the key is
// absent afterwards) or decades in the future ("never" within a run), so the
// model needs no clock.

type model struct {
	kv map[string][]byte
}

func newModel() *model { return &model{kv: map[string][]byte{}} }

// expect is what Redis would answer.
type expect struct {
	reply redisx.Reply
	// errs non-empty: the reply must be an error of one of these classes and
	// the data must not change. (Several classes are listed when more than one
	// defect is present in the command: the statement fixes no precedence.)
	errs []string
	// closes: the server closes the connection after the reply (QUIT).
	closes bool
	// skip: the command is outside what the model decides (ambiguous lexeme,
	// near-now expiry, empty key): it is not sent.
	skip string
	// ctx is a structural description of what the command exercised (used in
	// violation signatures and coverage sets).
	ctx string
	// write: keys the command may write (for hot-key accounting).
	writes [][]byte
}

// redisInt implements string2ll: exactly the canonical decimal form of an
// int64 is an integer. ambiguous=true for lexemes that Go's ParseInt accepts
// but Redis rejects ("+5", "007", "-0"): the statement does not cover the
// integer grammar, so those are never judged.
func redisInt(b []byte) (v int64, ok bool, ambiguous bool) {
	s := string(b)
	v, err := strconv.ParseInt(s, 10, 64)
	if err != nil {
		return 0, false, false
	}
	if strconv.FormatInt(v, 10) != s {
		return 0, false, true
	}
	return v, true, false
}

func valueClass(b []byte, present bool) string {
	if !present {
		return "absent"
	}
	if len(b) == 0 {
		return "empty"
	}
	if strings.TrimSpace(string(b)) == "" {
		return "blank"
	}
	v, ok, amb := redisInt(b)
	switch {
	case amb:
		return "ambiguous-int"
	case !ok:
		return "non-int"
	case v == math.MaxInt64 || v == math.MinInt64:
		return "int-limit"
	}
	return "int"
}

func intClass(v int64) string {
	switch {
	case v == math.MinInt64:
		return "minint64"
	case v == math.MaxInt64:
		return "maxint64"
	case v < 0:
		return "neg"
	case v == 0:
		return "zero"
	}
	return "pos"
}

// Expiry classification. nowMs is not known to the model; it only relies on
// 2^40 ms (2004) < now < 2^41 ms (2039).
const (
	nowLo    = int64(1) << 40
	nowHi    = int64(1) << 41
	farPast  = int64(1_000_000_000_000)    // 2001-09 in ms: anything at or before is long expired
	farAhead = int64(4_000_000_000_000)    // 2096-10 in ms: anything at or after never expires in a run
	relFar   = int64(100_000) * int64(1000) // relative: >= 100000 s ahead never expires in a run
)

// expiryOutcome: "invalid", "past", "future" or "" (not decided -> skip).
// sub describes the band for signatures.
func expiryOutcome(opt string, v int64) (outcome, sub string) {
	if v <= 0 {
		if v == 0 {
			return "invalid", "zero"
		}
		return "invalid", "negative"
	}
	sec := opt == "EX" || opt == "EXAT"
	rel := opt == "EX" || opt == "PX"
	if sec && v > math.MaxInt64/1000 {
		return "invalid", "seconds-overflow-ms"
	}
	ms := v
	if sec {
		ms = v * 1000
	}
	if rel {
		switch {
		case ms > math.MaxInt64-nowLo:
			return "invalid", "now+ttl-overflows"
		case ms > math.MaxInt64-nowHi:
			return "", "near-overflow"
		case ms >= relFar:
			if ms > math.MaxInt64/1_000_000 {
				return "future", "beyond-292-years"
			}
			return "future", "far"
		}
		return "", "near-now"
	}
	switch {
	case ms <= farPast:
		if ms < 1000 {
			return "past", "sub-second-epoch"
		}
		return "past", "far"
	case ms >= farAhead:
		if v == math.MaxInt64 || (sec && v == math.MaxInt64/1000) {
			return "future", "limit"
		}
		return "future", "far"
	}
	return "", "near-now"
}

func upper(b []byte) string { return strings.ToUpper(string(b)) }

func addClass(cs []string, c string) []string {
	for _, x := range cs {
		if x == c {
			return cs
		}
	}
	return append(cs, c)
}

func (m *model) get(k []byte) ([]byte, bool) {
	v, ok := m.kv[string(k)]
	return v, ok
}

// exec applies one command to the model and returns what Redis replies.
func (m *model) exec(args [][]byte) expect {
	if len(args) == 0 {
		return expect{skip: "empty command"}
	}
	cmd := upper(args[0])
	arity := func() expect { return expect{errs: []string{"arity"}, ctx: "argc=" + strconv.Itoa(len(args)-1)} }
	emptyKey := func(keys ...[]byte) bool {
		for _, k := range keys {
			if len(k) == 0 {
				return true
			}
		}
		return false
	}
	switch cmd {
	case "PING":
		switch len(args) {
		case 1:
			return expect{reply: redisx.Simple("PONG"), ctx: "argc=0"}
		case 2:
			if len(args[1]) == 0 {
				return expect{reply: redisx.Bulk(args[1]), ctx: "argc=1,empty"}
			}
			return expect{reply: redisx.Bulk(args[1]), ctx: "argc=1"}
		}
		return arity()
	case "ECHO":
		if len(args) != 2 {
			return arity()
		}
		return expect{reply: redisx.Bulk(args[1]), ctx: "-"}
	case "QUIT":
		if len(args) != 1 {
			return expect{skip: "QUIT with arguments"}
		}
		return expect{reply: redisx.Simple("OK"), closes: true, ctx: "-"}
	case "GET":
		if len(args) != 2 {
			return arity()
		}
		if emptyKey(args[1]) {
			return expect{skip: "empty key"}
		}
		v, ok := m.get(args[1])
		ctx := "stored=" + valueClass(v, ok)
		if !ok {
			return expect{reply: redisx.Nil(), ctx: ctx}
		}
		return expect{reply: redisx.Bulk(v), ctx: ctx}
	case "MGET":
		if len(args) < 2 {
			return arity()
		}
		if emptyKey(args[1:]...) {
			return expect{skip: "empty key"}
		}
		out := make([]redisx.Reply, 0, len(args)-1)
		classes := map[string]bool{}
		for _, k := range args[1:] {
			v, ok := m.get(k)
			classes[valueClass(v, ok)] = true
			if ok {
				out = append(out, redisx.Bulk(v))
			} else {
				out = append(out, redisx.Nil())
			}
		}
		ctx := "stored="
		for _, c := range []string{"absent", "empty", "blank", "int", "int-limit", "non-int"} {
			if classes[c] {
				ctx += c + "+"
			}
		}
		return expect{reply: redisx.Array(out), ctx: strings.TrimSuffix(ctx, "+")}
	case "EXISTS":
		if len(args) < 2 {
			return arity()
		}
		if emptyKey(args[1:]...) {
			return expect{skip: "empty key"}
		}
		n := int64(0)
		for _, k := range args[1:] {
			if _, ok := m.get(k); ok {
				n++
			}
		}
		return expect{reply: redisx.Int(n), ctx: "-"}
	case "DEL":
		if len(args) < 2 {
			return arity()
		}
		if emptyKey(args[1:]...) {
			return expect{skip: "empty key"}
		}
		n := int64(0)
		for _, k := range args[1:] {
			if _, ok := m.get(k); ok {
				n++
				delete(m.kv, string(k))
			}
		}
		return expect{reply: redisx.Int(n), ctx: "-", writes: args[1:]}
	case "MSET":
		if len(args) < 3 || len(args)%2 != 1 {
			return arity()
		}
		var keys [][]byte
		for i := 1; i < len(args); i += 2 {
			keys = append(keys, args[i])
		}
		if emptyKey(keys...) {
			return expect{skip: "empty key"}
		}
		for i := 1; i < len(args); i += 2 {
			m.kv[string(args[i])] = append([]byte{}, args[i+1]...)
		}
		return expect{reply: redisx.Simple("OK"), ctx: "-", writes: keys}
	case "INCR", "DECR", "INCRBY", "DECRBY":
		return m.execIncr(cmd, args)
	case "SET":
		return m.execSet(args)
	}
	return expect{skip: "command outside the property"}
}

func (m *model) execIncr(cmd string, args [][]byte) expect {
	withDelta := cmd == "INCRBY" || cmd == "DECRBY"
	if (withDelta && len(args) != 3) || (!withDelta && len(args) != 2) {
		return expect{errs: []string{"arity"}, ctx: "argc=" + strconv.Itoa(len(args)-1)}
	}
	if len(args[1]) == 0 {
		return expect{skip: "empty key"}
	}
	var errs []string
	delta := int64(1)
	dctx := "delta=one"
	deltaOK := true
	if withDelta {
		d, ok, amb := redisInt(args[2])
		switch {
		case amb:
			return expect{skip: "ambiguous integer lexeme"}
		case !ok:
			errs = addClass(errs, "not-integer")
			dctx = "delta=non-int"
			deltaOK = false
		default:
			delta = d
			dctx = "delta=" + intClass(d)
		}
	}
	cur, present := m.get(args[1])
	vc := valueClass(cur, present)
	if vc == "ambiguous-int" {
		return expect{skip: "ambiguous stored integer lexeme"}
	}
	ctx := "stored=" + vc + "," + dctx
	curv := int64(0)
	if present {
		v, ok, _ := redisInt(cur)
		if !ok {
			errs = addClass(errs, "not-integer")
		}
		curv = v
	}
	neg := cmd == "DECR" || cmd == "DECRBY"
	if deltaOK && cmd == "DECRBY" && delta == math.MinInt64 {
		// -delta is not representable: Redis refuses ("decrement would overflow").
		errs = addClass(errs, "overflow")
	}
	if len(errs) == 0 {
		d := delta
		if neg {
			d = -delta
		}
		if (d > 0 && curv > math.MaxInt64-d) || (d < 0 && curv < math.MinInt64-d) {
			errs = addClass(errs, "overflow")
		} else {
			nv := curv + d
			m.kv[string(args[1])] = []byte(strconv.FormatInt(nv, 10))
			return expect{reply: redisx.Int(nv), ctx: ctx, writes: args[1:2]}
		}
	}
	return expect{errs: errs, ctx: ctx, writes: args[1:2]}
}

func contains(cs []string, c string) bool {
	for _, x := range cs {
		if x == c {
			return true
		}
	}
	return false
}

func (m *model) execSet(args [][]byte) expect {
	if len(args) < 3 {
		return expect{errs: []string{"arity"}, ctx: "argc=" + strconv.Itoa(len(args)-1)}
	}
	if len(args[1]) == 0 {
		return expect{skip: "empty key"}
	}
	key, val := args[1], args[2]
	var errs []string
	nx, xx := false, false
	expOpt := ""
	var expVal []byte
	seen := map[string]bool{}
	for i := 3; i < len(args); {
		o := upper(args[i])
		switch o {
		case "NX", "XX":
			if seen[o] {
				return expect{skip: "repeated option"}
			}
			seen[o] = true
			if o == "NX" {
				nx = true
			} else {
				xx = true
			}
			if nx && xx {
				errs = addClass(errs, "syntax")
			}
			i++
		case "EX", "PX", "EXAT", "PXAT":
			if seen[o] {
				return expect{skip: "repeated option"}
			}
			seen[o] = true
			if i+1 >= len(args) {
				errs = addClass(errs, "syntax")
				i++
				continue
			}
			if expOpt != "" {
				errs = addClass(errs, "syntax")
			} else {
				expOpt, expVal = o, args[i+1]
			}
			i += 2
		default:
			if o == "KEEPTTL" || o == "GET" {
				return expect{skip: "option outside the property"}
			}
			errs = addClass(errs, "syntax")
			i++
		}
	}
	ctx := "opts="
	if nx {
		ctx += "NX"
	}
	if xx {
		ctx += "XX"
	}
	outcome := ""
	if expOpt != "" {
		v, ok, amb := redisInt(expVal)
		switch {
		case amb:
			return expect{skip: "ambiguous integer lexeme"}
		case !ok:
			errs = addClass(errs, "not-integer")
			ctx += "," + expOpt + ":non-int"
		default:
			var sub string
			outcome, sub = expiryOutcome(expOpt, v)
			if outcome == "" {
				return expect{skip: "expiry too close to now / to the overflow edge: " + sub}
			}
			ctx += "," + expOpt + ":" + outcome + ":" + sub
			if outcome == "invalid" {
				errs = addClass(errs, "invalid-expire")
			}
		}
	}
	if len(errs) > 0 {
		return expect{errs: errs, ctx: ctx}
	}
	_, present := m.get(key)
	if (nx && present) || (xx && !present) {
		return expect{reply: redisx.Nil(), ctx: ctx + ",cond=unmet"}
	}
	if nx || xx {
		ctx += ",cond=met"
	}
	if outcome == "past" {
		delete(m.kv, string(key))
	} else {
		m.kv[string(key)] = append([]byte{}, val...)
	}
	return expect{reply: redisx.Simple("OK"), ctx: ctx, writes: args[1:2]}
}
