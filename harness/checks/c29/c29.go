// Package c29: Redis gateway commands follow Redis semantics.
//
// The real nokv-redis binary (embedded backend, scratch directory, ephemeral
// TCP port) is driven black box by one client per case. Commands come from a
// grammar over a small key space; a reference model of the Redis subset
// (model.go, written from Redis' semantics) is updated in lock-step and every
// reply is compared by type and payload, error replies by class.
package c29

import (
	"fmt"
	"math"
	"math/rand"
	"sort"
	"strconv"
	"strings"
	"time"

	"verif/harness/internal/core"
	"verif/harness/internal/redisx"
)

const (
	cmdsPerSession = 500
	// A key is retired (replaced by a fresh name) before it could reach the
	// engine's default hot-key write limit (128 writes inside a sliding window):
	// the count is of commands, not of time, so no verdict depends on pacing.
	retireAfterWrites = 90
	watchdog          = 60 * time.Second
)

type session struct {
	c      *core.Case
	rng    *rand.Rand
	srv    *redisx.Server
	conn   *redisx.Conn
	m      *model
	keys   [][]byte
	writes map[string]int
	gen    int
	log    []string // recent commands, for replay detail
	pairs  map[string]struct{}
	cpairs map[string]struct{}
	dead   bool
	resync bool
}

var keyShapes = []string{"k%d", "key with space %d", "bin\x00\xff\r\n%d", "K%d", "a%d"}

func (s *session) freshKey(slot int) []byte {
	s.gen++
	return []byte(fmt.Sprintf(keyShapes[slot%len(keyShapes)], s.gen) + fmt.Sprintf(":c%d", s.c.Idx))
}

func (s *session) key() []byte { return s.keys[s.rng.Intn(len(s.keys))] }

func (s *session) noteWrites(ks [][]byte) {
	for _, k := range ks {
		s.writes[string(k)]++
	}
	for i, k := range s.keys {
		if s.writes[string(k)] >= retireAfterWrites {
			delete(s.m.kv, string(k))
			s.keys[i] = s.freshKey(i)
			s.c.Count("keys_retired_before_hot_limit", 1)
		}
	}
}

// retireAll gives the session a fresh key space (used after a mismatch, so
// that one divergence is reported once and the rest of the session is still
// judged against a model that agrees with the server).
func (s *session) retireAll() {
	for i := range s.keys {
		s.keys[i] = s.freshKey(i)
	}
	s.m.kv = map[string][]byte{}
}

var intLexemes = []string{
	"0", "1", "-1", "2", "10", "-10", "41", "1000000",
	"9223372036854775807", "9223372036854775806", "-9223372036854775808", "-9223372036854775807",
	"4611686018427387904", "-4611686018427387905",
}

var nonIntLexemes = []string{
	"", " ", "abc", "12abc", "1.5", "1e3", "0x10", " 12", "12 ", "9223372036854775808", "-9223372036854775809",
	"99999999999999999999999", "--1", "1-", "\x00", "١٢",
}

func (s *session) value() []byte {
	r := s.rng
	switch x := r.Intn(100); {
	case x < 35:
		return []byte(intLexemes[r.Intn(len(intLexemes))])
	case x < 55:
		return []byte(nonIntLexemes[r.Intn(len(nonIntLexemes))])
	case x < 62:
		return []byte(strconv.FormatInt(r.Int63()-r.Int63(), 10))
	case x < 90:
		n := r.Intn(40)
		b := make([]byte, n)
		for i := range b {
			b[i] = byte(r.Intn(256))
		}
		if _, _, amb := redisInt(b); amb {
			return []byte("bin")
		}
		return b
	case x < 97:
		return []byte(strings.Repeat("v\r\n$5\r\n", 1+r.Intn(600)))
	default:
		b := make([]byte, 20000+r.Intn(100000))
		for i := range b {
			b[i] = byte('a' + i%26)
		}
		return b
	}
}

func (s *session) delta() []byte {
	r := s.rng
	switch x := r.Intn(100); {
	case x < 60:
		return []byte(intLexemes[r.Intn(len(intLexemes))])
	case x < 75:
		return []byte(strconv.FormatInt(r.Int63()-r.Int63(), 10))
	default:
		return []byte(nonIntLexemes[r.Intn(len(nonIntLexemes))])
	}
}

func mixCase(r *rand.Rand, w string) []byte {
	b := []byte(w)
	switch r.Intn(4) {
	case 0:
		return []byte(strings.ToLower(w))
	case 1:
		for i := range b {
			if r.Intn(2) == 0 {
				b[i] = strings.ToLower(string(b[i]))[0]
			}
		}
	}
	return b
}

// expiry values: valid far future, valid far past (absolute only), and the
// invalid ones named by Redis (<= 0, overflow when converted to / added as
// milliseconds), always as canonical integers; plus non-integers.
func (s *session) expiryArg(opt string) []byte {
	r := s.rng
	i := func(v int64) []byte { return []byte(strconv.FormatInt(v, 10)) }
	if x := r.Intn(100); x < 10 {
		return []byte(nonIntLexemes[r.Intn(len(nonIntLexemes))])
	} else if x < 25 {
		return i([]int64{0, -1, -100, math.MinInt64, -9223372036854775807}[r.Intn(5)])
	}
	switch opt {
	case "EX":
		return i([]int64{100000, 1000000, 4000000000, 1 << 31, 9000000000,
			math.MaxInt64, math.MaxInt64/1000 + 1, math.MaxInt64 / 1000, math.MaxInt64 - 1}[r.Intn(9)])
	case "PX":
		return i([]int64{100000000, 1000000000000, 4000000000000, 9000000000000,
			math.MaxInt64, math.MaxInt64 - 1, math.MaxInt64 - (1 << 39)}[r.Intn(7)])
	case "EXAT":
		return i([]int64{1, 2, 1000, 1000000000, 946684800, // past
			4102444800, 40000000000, 1 << 40, math.MaxInt64 / 1000, // future, valid
			math.MaxInt64/1000 + 1, math.MaxInt64, math.MaxInt64 - 1}[r.Intn(12)])
	default: // PXAT
		return i([]int64{1, 999, 1000, 1001, 1000000, 946684800000, 1000000000000, // past
			4102444800000, 40000000000000, 1 << 50, math.MaxInt64, math.MaxInt64 - 1}[r.Intn(12)])
	}
}

var expOpts = []string{"EX", "PX", "EXAT", "PXAT"}

func (s *session) genSet() [][]byte {
	r := s.rng
	args := [][]byte{mixCase(r, "SET"), s.key(), s.value()}
	var toks [][][]byte
	switch x := r.Intn(100); {
	case x < 25:
	case x < 40:
		toks = append(toks, [][]byte{mixCase(r, "NX")})
	case x < 55:
		toks = append(toks, [][]byte{mixCase(r, "XX")})
	case x < 72:
		o := expOpts[r.Intn(4)]
		toks = append(toks, [][]byte{mixCase(r, o), s.expiryArg(o)})
	case x < 88:
		o := expOpts[r.Intn(4)]
		toks = append(toks, [][]byte{mixCase(r, o), s.expiryArg(o)}, [][]byte{mixCase(r, []string{"NX", "XX"}[r.Intn(2)])})
	case x < 91:
		toks = append(toks, [][]byte{[]byte("NX")}, [][]byte{[]byte("XX")})
	case x < 94:
		p := r.Perm(4)
		a, b := expOpts[p[0]], expOpts[p[1]]
		toks = append(toks, [][]byte{[]byte(a), s.expiryArg(a)}, [][]byte{[]byte(b), s.expiryArg(b)})
	case x < 96:
		toks = append(toks, [][]byte{[]byte(expOpts[r.Intn(4)])}) // option without its value
	case x < 98:
		toks = append(toks, [][]byte{[]byte([]string{"FOO", "N", "EXX", "100"}[r.Intn(4)])})
	default:
		return [][]byte{[]byte("SET"), s.key()} // arity
	}
	r.Shuffle(len(toks), func(i, j int) { toks[i], toks[j] = toks[j], toks[i] })
	for _, t := range toks {
		args = append(args, t...)
	}
	return args
}

func (s *session) keysN(max int) [][]byte {
	n := 1 + s.rng.Intn(max)
	out := make([][]byte, n)
	for i := range out {
		out[i] = s.key() // duplicates on purpose
	}
	return out
}

func (s *session) genCmd() [][]byte {
	r := s.rng
	b := func(x string) []byte { return []byte(x) }
	switch x := r.Intn(1000); {
	case x < 150:
		return [][]byte{mixCase(r, "GET"), s.key()}
	case x < 400:
		return s.genSet()
	case x < 460:
		return append([][]byte{mixCase(r, "DEL")}, s.keysN(3)...)
	case x < 520:
		return append([][]byte{mixCase(r, "MGET")}, s.keysN(6)...)
	case x < 580:
		args := [][]byte{mixCase(r, "MSET")}
		for _, k := range s.keysN(3) {
			args = append(args, k, s.value())
		}
		return args
	case x < 640:
		return append([][]byte{mixCase(r, "EXISTS")}, s.keysN(5)...)
	case x < 730:
		return [][]byte{mixCase(r, "INCR"), s.key()}
	case x < 800:
		return [][]byte{mixCase(r, "DECR"), s.key()}
	case x < 870:
		return [][]byte{mixCase(r, "INCRBY"), s.key(), s.delta()}
	case x < 940:
		return [][]byte{mixCase(r, "DECRBY"), s.key(), s.delta()}
	case x < 955:
		switch r.Intn(8) {
		case 0:
			return [][]byte{b("PING"), b("")}
		case 1:
			return [][]byte{b("PING"), b("a"), b("b")}
		case 2, 3:
			return [][]byte{mixCase(r, "PING"), s.value()}
		}
		return [][]byte{mixCase(r, "PING")}
	case x < 970:
		return [][]byte{mixCase(r, "ECHO"), s.value()}
	case x < 978:
		return [][]byte{mixCase(r, "QUIT")}
	default:
		// wrong arity
		switch r.Intn(9) {
		case 0:
			return [][]byte{b("GET")}
		case 1:
			return [][]byte{b("GET"), s.key(), s.key()}
		case 2:
			return [][]byte{b("MSET"), s.key(), s.value(), s.key()}
		case 3:
			return [][]byte{b("INCRBY"), s.key()}
		case 4:
			return [][]byte{b("INCR"), s.key(), b("1")}
		case 5:
			return [][]byte{b("DEL")}
		case 6:
			return [][]byte{b("ECHO")}
		case 7:
			return [][]byte{b("EXISTS")}
		}
		return [][]byte{b("DECRBY"), s.key(), b("1"), b("2")}
	}
}

func render(args [][]byte) string {
	var p []string
	for _, a := range args {
		p = append(p, redisx.Quote(a))
	}
	return strings.Join(p, " ")
}

func (s *session) remember(line string) {
	s.log = append(s.log, line)
	if len(s.log) > 60 {
		s.log = s.log[len(s.log)-60:]
	}
}

func (s *session) connect() bool {
	if s.conn != nil {
		s.conn.Close()
	}
	c, err := redisx.Dial(s.srv.Addr, watchdog)
	if err != nil {
		s.fail("connect", err)
		return false
	}
	s.conn = c
	return true
}

// fail handles a transport-level failure: a dead gateway process is an
// observed event (violation: a command sequence crashed the gateway);
// anything else (watchdog) is inconclusive.
func (s *session) fail(where string, err error) {
	s.dead = true
	if s.srv.WaitExit(3 * time.Second) {
		s.c.Violation("C29|gateway-exited|"+s.srv.DeathClass(), "the gateway process died while serving the session ("+where+")",
			map[string]any{"error": fmt.Sprint(err), "recent_commands": s.log, "gateway_log": s.srv.LogTail(6000)})
		return
	}
	s.c.Inconclusive(fmt.Sprintf("%s: %v", where, err))
}

// signature builds the canonical signature of a mismatch from what was
// observed: command family, wanted and observed reply shape, and the one
// structural feature of the command / stored value that the model's verdict
// hinged on (expiry band for SET, stored-value and delta class for the INCR
// family, stored-value class of the differing element for reads).
func signature(args [][]byte, e expect, got redisx.Reply, before map[string][]byte) string {
	cmd := upper(args[0])
	fam := cmd
	switch cmd {
	case "GET", "MGET":
		fam = "read"
	case "INCR", "DECR", "INCRBY", "DECRBY":
		fam = "incr"
	}
	want := wantShape(e)
	gotS := got.Shape()
	if d := payloadDiff(e, got); d != "" {
		gotS += ":" + d
	}
	wantErr, gotErr := len(e.errs) > 0, got.Kind == '-'
	if wantErr && !gotErr {
		gotS = "no-error"
	}
	if !wantErr && gotErr {
		want = "no-error"
	}
	cause := e.ctx
	switch fam {
	case "read":
		if cmd == "MGET" && got.Kind == '*' && !got.Null && e.reply.Kind == '*' && len(got.Elems) == len(e.reply.Elems) {
			for i := range got.Elems {
				if !redisx.Equal(got.Elems[i], e.reply.Elems[i]) {
					v, ok := before[string(args[1+i])]
					want, gotS, cause = e.reply.Elems[i].Shape(), got.Elems[i].Shape(), "stored="+valueClass(v, ok)
					if want == gotS {
						gotS += ":payload-differs"
					}
					break
				}
			}
		}
	case "incr":
		var special []string
		for _, p := range strings.Split(e.ctx, ",") {
			switch p {
			case "stored=empty", "stored=blank", "stored=non-int", "delta=minint64", "delta=maxint64", "delta=non-int":
				special = append(special, p)
			}
		}
		if len(special) > 0 {
			// one cause per signature: the stored value's class takes precedence
			cause = special[0]
			if wantErr && len(e.errs) > 1 {
				if strings.HasPrefix(cause, "stored=") || cause == "delta=non-int" {
					want = "err:not-integer"
				} else {
					want = "err:overflow"
				}
			}
		}
	case "SET":
		for _, p := range strings.Split(e.ctx, ",") {
			for _, o := range expOpts {
				if strings.HasPrefix(p, o+":") {
					cause = p
				}
			}
		}
	}
	return fmt.Sprintf("C29|%s|want=%s|got=%s|%s", fam, want, gotS, cause)
}

func wantShape(e expect) string {
	if len(e.errs) > 0 {
		cs := append([]string{}, e.errs...)
		sort.Strings(cs)
		return "err:" + strings.Join(cs, "/")
	}
	return e.reply.Shape()
}

func payloadDiff(e expect, got redisx.Reply) string {
	if len(e.errs) == 0 && e.reply.Kind == got.Kind && e.reply.Null == got.Null {
		switch got.Kind {
		case ':':
			return "value-differs"
		case '$', '+':
			return "payload-differs"
		case '*':
			if len(got.Elems) != len(e.reply.Elems) {
				return "length-differs"
			}
			return "element-differs"
		}
	}
	return ""
}

// judge compares one reply with the model's expectation. It returns false if
// the data may now differ from the model.
func (s *session) judge(args [][]byte, e expect, got redisx.Reply, before map[string][]byte) bool {
	cmd := upper(args[0])
	s.c.Count("evaluations", 1)
	ok := false
	if len(e.errs) > 0 {
		ok = got.Kind == '-' && contains(e.errs, redisx.ErrClass(got.Str))
	} else {
		ok = redisx.Equal(e.reply, got)
	}
	pair := cmd + " " + e.ctx + " -> " + got.Shape()
	s.pairs[cmd+"->"+got.Shape()] = struct{}{}
	s.c.Distinct("cmd_outcome", cmd+"->"+got.Shape())
	s.c.Distinct("cmd_context_outcome", pair)
	s.cpairs[pair] = struct{}{}
	if ok {
		return true
	}
	if got.Kind == '-' && redisx.ErrClass(got.Str) == "throttled" && len(e.writes) > 0 {
		// DESIGN §7: a hot-key throttled write is a failed write. Restore the model.
		s.resync = true
		s.c.Count("throttled_writes_accepted", 1)
		return true
	}
	sig := signature(args, e, got, before)
	want := e.reply.String()
	if len(e.errs) > 0 {
		want = "error of class " + strings.Join(e.errs, " or ")
	}
	s.c.Violation(sig, fmt.Sprintf("%s: Redis replies %s, the gateway replied %s", cmd, want, got.String()),
		map[string]any{"command": render(args), "resp_bytes": strconv.Quote(string(redisx.Encode(args...))), "want": want, "got": got.String(),
			"context": e.ctx, "recent_commands": append([]string{}, s.log...)})
	s.c.Count("mismatches", 1)
	return false
}

func snapshot(m map[string][]byte) map[string][]byte {
	out := make(map[string][]byte, len(m))
	for k, v := range m {
		out[k] = v
	}
	return out
}

// step sends a batch of commands (pipelined when len > 1) and judges the replies.
func (s *session) step(batch [][][]byte) {
	type pend struct {
		args   [][]byte
		e      expect
		before map[string][]byte
	}
	var ps []pend
	var wire []byte
	for _, args := range batch {
		before := snapshot(s.m.kv)
		e := s.m.exec(args)
		if e.skip != "" {
			s.c.Count("generated_but_not_judged", 1)
			s.c.Distinct("skip_reasons", e.skip)
			continue
		}
		ps = append(ps, pend{args, e, before})
		wire = append(wire, redisx.Encode(args...)...)
		if e.closes {
			break
		}
	}
	if len(ps) == 0 {
		return
	}
	if len(ps) > 1 {
		s.c.Count("pipelined_batches", 1)
	}
	if err := s.conn.Write(wire); err != nil {
		s.fail("write", err)
		return
	}
	diverged := false
	for _, p := range ps {
		got, err := s.conn.Read()
		s.remember(render(p.args))
		if err != nil {
			s.fail("read reply of "+render(p.args), err)
			return
		}
		s.log[len(s.log)-1] += "  => " + got.String()
		if diverged {
			// replies after a divergence inside one pipeline cannot be judged
			s.c.Count("unjudged_after_divergence", 1)
			continue
		}
		if !s.judge(p.args, p.e, got, p.before) {
			diverged = true
		}
		if p.e.closes {
			closed, extra, err := s.conn.ExpectClosed()
			switch {
			case err != nil:
				s.c.Inconclusive("QUIT: connection still open when the watchdog fired")
			case !closed || len(extra) > 0:
				s.c.Violation("C29|QUIT|connection-not-closed", "after QUIT the gateway must reply +OK and close the connection", map[string]any{"extra": strconv.Quote(string(extra))})
			default:
				s.c.Count("quit_closed", 1)
			}
			if !s.connect() {
				return
			}
		}
		s.noteWrites(p.e.writes)
	}
	if diverged || s.resync {
		s.resync = false
		s.retireAll()
	}
}

// sweep reads the whole key space back ("the resulting data match").
func (s *session) sweep() {
	for _, k := range s.keys {
		if s.dead {
			return
		}
		s.step([][][]byte{{[]byte("GET"), k}})
	}
	if s.dead {
		return
	}
	s.step([][][]byte{append([][]byte{[]byte("MGET")}, s.keys...)})
	if s.dead {
		return
	}
	s.step([][][]byte{append([][]byte{[]byte("EXISTS")}, s.keys...)})
}

// longTTLProbe: expiry values that Redis accepts as "centuries ahead" must not
// make the key disappear. The pause only gives a wrongly computed short expiry
// the chance to show; by the model the keys are present whatever the pause.
func (s *session) longTTLProbe() {
	type pr struct {
		opt string
		v   int64
	}
	probes := []pr{{"EX", 18_446_744_074}, {"PX", 18_446_744_073_710}, {"EX", 10_000_000_000}, {"PX", 9_300_000_000_000_000}, {"EX", 4_000_000_000}, {"EX", 17_446_744_074}}
	var keys [][]byte
	for i, p := range probes {
		k := []byte(fmt.Sprintf("ttlprobe%d:c%d", i, s.c.Idx))
		keys = append(keys, k)
		s.step([][][]byte{{[]byte("SET"), k, []byte("v" + strconv.Itoa(i)), []byte(p.opt), []byte(strconv.FormatInt(p.v, 10))}})
		if s.dead {
			return
		}
	}
	// TTL bookkeeping on overwrite: a SET without expire options clears the TTL
	// (also with XX), a SET with an expire option installs it. The first SET uses
	// a 1.5 s TTL; the check only concludes something when the second command was
	// answered as expected, and the pause below is a lower bound, so a slow
	// machine can only make the verdict easier, never wrong.
	do := func(args ...string) (redisx.Reply, bool) {
		bs := make([][]byte, len(args))
		for i, a := range args {
			bs[i] = []byte(a)
		}
		r, err := s.conn.Do(bs...)
		if err != nil {
			s.fail("ttl-overwrite probe", err)
			return r, false
		}
		return r, true
	}
	type ow struct {
		key, kind, want string // want "" = absent
		ok              bool
	}
	var ows []ow
	for _, kind := range []string{"plain-set-clears-ttl", "set-xx-clears-ttl", "set-px-installs-ttl", "set-get-like-mset-clears-ttl"} {
		k := fmt.Sprintf("ttlow-%s:c%d", kind, s.c.Idx)
		o := ow{key: k, kind: kind}
		switch kind {
		case "plain-set-clears-ttl":
			if _, ok := do("SET", k, "a", "PX", "1500"); !ok {
				return
			}
			r, ok := do("SET", k, "b")
			if !ok {
				return
			}
			o.want, o.ok = "b", r.Shape() == "simple:OK"
		case "set-xx-clears-ttl":
			if _, ok := do("SET", k, "a", "PX", "1500"); !ok {
				return
			}
			r, ok := do("SET", k, "b", "XX")
			if !ok {
				return
			}
			o.want, o.ok = "b", r.Shape() == "simple:OK" // nil reply: the key had already expired (stalled machine) -> no verdict
		case "set-px-installs-ttl":
			if _, ok := do("SET", k, "a"); !ok {
				return
			}
			r, ok := do("SET", k, "b", "PX", "1500")
			if !ok {
				return
			}
			o.want, o.ok = "", r.Shape() == "simple:OK"
		case "set-get-like-mset-clears-ttl":
			if _, ok := do("SET", k, "a", "PX", "1500"); !ok {
				return
			}
			r, ok := do("MSET", k, "b")
			if !ok {
				return
			}
			o.want, o.ok = "b", r.Shape() == "simple:OK"
		}
		ows = append(ows, o)
	}
	time.Sleep(2500 * time.Millisecond)
	for _, o := range ows {
		if !o.ok {
			s.c.Count("ttl_overwrite_probes_without_verdict", 1)
			continue
		}
		got, ok := do("GET", o.key)
		if !ok {
			return
		}
		s.c.Count("evaluations", 1)
		s.c.Count("ttl_overwrite_probes", 1)
		want := redisx.Nil()
		if o.want != "" {
			want = redisx.Bulk([]byte(o.want))
		}
		if !redisx.Equal(want, got) {
			s.c.Violation(fmt.Sprintf("C29|ttl-on-overwrite|%s|want=%s|got=%s", o.kind, want.Shape(), got.Shape()),
				fmt.Sprintf("%s: 2.5 s after the overwrite GET returned %s, expected %s (first TTL was 1.5 s)", o.kind, got.String(), want.String()), map[string]any{"key": o.key})
		}
	}
	for i, k := range keys {
		got, err := s.conn.Do([]byte("GET"), k)
		if err != nil {
			s.fail("long-ttl probe GET", err)
			return
		}
		s.c.Count("evaluations", 1)
		want := redisx.Bulk([]byte("v" + strconv.Itoa(i)))
		if !redisx.Equal(want, got) {
			_, sub := expiryOutcome(probes[i].opt, probes[i].v)
			s.c.Violation(fmt.Sprintf("C29|long-ttl|want=bulk|got=%s|%s:future:%s", got.Shape(), probes[i].opt, sub),
				fmt.Sprintf("SET k v %s %d (centuries ahead, accepted by Redis) replied OK but the key is gone or changed 2.5 s later", probes[i].opt, probes[i].v),
				map[string]any{"set": fmt.Sprintf("SET %s v%d %s %d", k, i, probes[i].opt, probes[i].v), "get_after_2.5s": got.String(), "want": want.String()})
		}
	}
	s.c.Count("long_ttl_probes", len(probes))
}

func run(c *core.Case) {
	dir := c.TempDir()
	srv, err := redisx.Start(dir, redisx.Opts{})
	if err != nil {
		c.Inconclusive("gateway start: " + err.Error())
		return
	}
	defer srv.Stop()
	s := &session{c: c, rng: c.Rng, srv: srv, m: newModel(), writes: map[string]int{}, pairs: map[string]struct{}{}, cpairs: map[string]struct{}{}}
	for i := 0; i < 5; i++ {
		s.keys = append(s.keys, s.freshKey(i))
	}
	if !s.connect() {
		return
	}
	defer func() {
		if s.conn != nil {
			s.conn.Close()
		}
	}()
	sent := 0
	for sent < cmdsPerSession && !s.dead {
		n := 1
		if s.rng.Intn(100) < 12 {
			n = 2 + s.rng.Intn(14)
		}
		var batch [][][]byte
		for i := 0; i < n; i++ {
			args := s.genCmd()
			if n > 1 && upper(args[0]) == "QUIT" {
				continue
			}
			batch = append(batch, args)
		}
		sent += len(batch)
		s.step(batch)
		if sent%100 < n && !s.dead {
			s.sweep()
		}
	}
	if !s.dead {
		s.sweep()
	}
	if !s.dead && c.Idx%4 == 0 {
		s.longTTLProbe()
	}
	if !s.dead && !srv.Alive() {
		s.fail("end of session", fmt.Errorf("process gone"))
	}
	// Non-triviality is measured: the session must have seen many different
	// (command, reply shape) pairs, among them an error reply, a nil for an
	// absent/expired key and an integer reply.
	var ps []string
	hasErr, hasNil, hasInt := false, false, false
	for p := range s.pairs {
		ps = append(ps, p)
		hasErr = hasErr || strings.Contains(p, "->err:")
		hasNil = hasNil || strings.HasSuffix(p, "->nil")
		hasInt = hasInt || strings.HasSuffix(p, "->int")
	}
	sort.Strings(ps)
	c.Max("cmd_outcome_pairs_in_one_session", len(ps))
	if len(ps) >= 20 && hasErr && hasNil && hasInt {
		var cps []string
		for p := range s.cpairs {
			cps = append(cps, p)
		}
		sort.Strings(cps)
		c.Nontrivial(strings.Join(cps, "|"))
	}
	c.Sample(map[string]any{"case": c.Idx, "commands_sent": sent, "distinct_cmd_outcome_pairs": len(ps), "last_commands": tail(s.log, 6)})
}

func tail(l []string, n int) []string {
	if len(l) > n {
		l = l[len(l)-n:]
	}
	return append([]string{}, l...)
}

func init() {
	core.Register(&core.Check{
		ID:    "C29",
		Level: "exploration",
		Rule: "case = one client session against a fresh nokv-redis process (embedded backend, scratch dir, TCP): 500 seeded commands over 5 live keys (binary / spaced names) drawn from a grammar over " +
			"GET, SET with every combination of NX/XX/EX/PX/EXAT/PXAT (valid far-future, far-past, <=0, non-integer, int64-limit and ms-overflow values, option without value, unknown token, NX+XX, two expire options, mixed case), " +
			"DEL/MGET/EXISTS with duplicate keys, MSET, INCR/DECR/INCRBY/DECRBY with stored values and deltas at +-2^63, non-integers, empty string; PING/ECHO/QUIT, wrong arity; 12% of steps are pipelined batches of 2-15 commands; " +
			"every reply is compared (type+payload, errors by class) with a Redis reference model and the key space is swept (GET, MGET, EXISTS) every ~100 commands and at the end; " +
			"a session is non-trivial iff it observed >=20 distinct (command, reply shape) pairs incl. an error, a nil and an integer; distinct = distinct sets of (command, structural context, reply shape)",
		Assumptions: []string{
			"only expiry instants decades in the past or in the future are used (2^40 ms < now < 2^41 ms); no sleeping across an expiry that the model has",
			"integer lexemes that Go's ParseInt accepts and Redis rejects (+5, 007, -0) are never judged; repeated identical options (EX 1 EX 2, NX NX) are not generated",
			"when a command carries several defects any of the corresponding error classes is accepted (the statement fixes no precedence)",
			"empty keys are not generated (the storage API rejects them)",
			"a key is replaced by a fresh one after 90 write commands so that the engine's default hot-key write throttle (128 writes per window) cannot trigger; a throttled write would be accepted as a failed write (DESIGN §7)",
			"embedded backend only; the raft backend is driven by C30 thorough",
		},
		NeedsBins: true,
		Cases: func(tier string) int {
			if tier == "thorough" {
				return 600
			}
			return 10
		},
		Procs: func(tier string) int {
			if tier == "thorough" {
				return 16
			}
			return 10
		},
		CaseTimeout: 5 * time.Minute,
		Run:         run,
		Finish: func(a *core.Agg) {
			a.FloorNontrivial(2)
			a.Floor("evaluations", int64(a.CasesEnded)*400)
			a.Floor("cmd_outcome", 30)
			a.Floor("quit_closed", 1)
			a.Floor("pipelined_batches", 10)
		},
	})
}
