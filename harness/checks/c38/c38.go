// Package c38: topology validation accepts exactly the well-formed configurations.
//
// Oracle: an independent predicate written from the property statement, compared
// with config.File.Validate over an exhaustively enumerated bounded domain.
package c38

import (
	"fmt"
	"strings"

	"github.com/feichai0017/NoKV/config"
	"verif/harness/internal/core"
)

var ids = []uint64{0, 1, 2}
var templates = []string{"", "x", "x{id}", "  "}

// defects returns the bitmask of defect classes named by the statement.
func defects(f *config.File) int {
	d := 0
	known := map[uint64]bool{}
	for _, s := range f.Stores {
		if s.StoreID == 0 {
			d |= 1
		}
		if known[s.StoreID] {
			d |= 2
		}
		known[s.StoreID] = true
	}
	for _, r := range f.Regions {
		if r.ID == 0 {
			d |= 4
		}
		if r.LeaderStoreID != 0 && !known[r.LeaderStoreID] {
			d |= 16
		}
		for _, p := range r.Peers {
			if p.StoreID == 0 || p.PeerID == 0 {
				d |= 8
			}
			if !known[p.StoreID] {
				d |= 16
			}
		}
	}
	for _, t := range []string{f.StoreWorkDirTemplate, f.StoreDockerWorkDirTemplate} {
		if strings.TrimSpace(t) != "" && !strings.Contains(t, "{id}") {
			d |= 32
		}
	}
	return d
}

func storeLists() [][]config.Store {
	out := [][]config.Store{nil}
	for _, a := range ids {
		out = append(out, []config.Store{{StoreID: a}})
	}
	for _, a := range ids {
		for _, b := range ids {
			out = append(out, []config.Store{{StoreID: a}, {StoreID: b}})
		}
	}
	return out
}

func peerLists(max int) [][]config.Peer {
	out := [][]config.Peer{nil}
	var singles []config.Peer
	for _, s := range ids {
		for _, p := range ids {
			singles = append(singles, config.Peer{StoreID: s, PeerID: p})
		}
	}
	for _, a := range singles {
		out = append(out, []config.Peer{a})
	}
	if max >= 2 {
		for _, a := range singles {
			for _, b := range singles {
				out = append(out, []config.Peer{a, b})
			}
		}
	}
	return out
}

func regions(maxPeers int) []config.Region {
	var out []config.Region
	for _, id := range ids {
		for _, leader := range []uint64{0, 1, 2, 3} {
			for _, pl := range peerLists(maxPeers) {
				out = append(out, config.Region{ID: id, LeaderStoreID: leader, Peers: pl})
			}
		}
	}
	return out
}

type tmplCombo struct{ host, docker string }

func combos() []tmplCombo {
	var out []tmplCombo
	for _, h := range templates {
		out = append(out, tmplCombo{h, ""})
	}
	for _, d := range templates[1:] {
		out = append(out, tmplCombo{"", d})
	}
	return out
}

func init() {
	sl := storeLists()
	cb := combos()
	core.Register(&core.Check{
		ID:         "C38",
		Level:      "exploration",
		Exhaustive: true,
		Rule: "exhaustive enumeration of config.File over store/region/peer IDs {0,1,2}, <=2 stores, <=2 regions (<=2 peers for one region, <=1 peer each for two), leader in {0..3}, " +
			"templates {\"\",\"x\",\"x{id}\",\"  \"} on either template field; one case = (store list, template combination); oracle = independent predicate from the statement; " +
			"non-trivial/distinct = distinct (defect-class bitmask, verdict) pairs observed; thorough adds seeded random larger topologies",
		Assumptions: []string{"leader_store_id 0 means 'unset' and a whitespace-only template means 'no template' (both accepted by the statement's wording 'without those defects')"},
		Cases: func(tier string) int {
			n := len(sl) * len(cb)
			if tier == "thorough" {
				n += 64
			}
			return n
		},
		Run: func(c *core.Case) {
			enumCases := len(sl) * len(cb)
			check := func(f *config.File) {
				d := defects(f)
				err := f.Validate()
				c.Count("evaluations", 1)
				verdict := "accept"
				if err != nil {
					verdict = "reject"
				}
				c.Nontrivial(fmt.Sprintf("%d/%s", d, verdict))
				c.Distinct("defect_masks", fmt.Sprint(d))
				if (d != 0) != (err != nil) {
					sig := fmt.Sprintf("C38|accepted-defect-mask-%d", d)
					if d == 0 {
						sig = "C38|rejected-well-formed"
					}
					c.Violation(sig, fmt.Sprintf("Validate()=%v but defect mask=%d", err, d), f)
				}
			}
			if c.Idx >= enumCases {
				// random larger topologies
				for i := 0; i < 20000; i++ {
					f := &config.File{}
					ns := c.Rng.Intn(6)
					for j := 0; j < ns; j++ {
						f.Stores = append(f.Stores, config.Store{StoreID: uint64(c.Rng.Intn(7))})
					}
					nr := c.Rng.Intn(5)
					for j := 0; j < nr; j++ {
						r := config.Region{ID: uint64(c.Rng.Intn(4)), LeaderStoreID: uint64(c.Rng.Intn(8))}
						np := c.Rng.Intn(4)
						for k := 0; k < np; k++ {
							r.Peers = append(r.Peers, config.Peer{StoreID: uint64(c.Rng.Intn(8)), PeerID: uint64(c.Rng.Intn(3))})
						}
						f.Regions = append(f.Regions, r)
					}
					f.StoreWorkDirTemplate = templates[c.Rng.Intn(4)]
					f.StoreDockerWorkDirTemplate = templates[c.Rng.Intn(4)]
					check(f)
				}
				return
			}
			stores := sl[c.Idx/len(cb)]
			tc := cb[c.Idx%len(cb)]
			r2 := regions(2)
			r1 := regions(1)
			mk := func(rs []config.Region) *config.File {
				return &config.File{Stores: stores, Regions: rs, StoreWorkDirTemplate: tc.host, StoreDockerWorkDirTemplate: tc.docker}
			}
			check(mk(nil))
			for _, r := range r2 {
				check(mk([]config.Region{r}))
			}
			for _, a := range r1 {
				for _, b := range r1 {
					check(mk([]config.Region{a, b}))
				}
			}
			if c.Idx == 17 {
				c.Sample(mk([]config.Region{r2[100]}))
			}
		},
		Finish: func(a *core.Agg) {
			a.Floor("evaluations", 1000000)
			a.FloorNontrivial(20)
		},
	})
	// nil receiver is part of the API surface
	var nilFile *config.File
	_ = nilFile
}
