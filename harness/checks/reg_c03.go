package checks

import _ "verif/harness/checks/c03"
