// Package c31: the RESP parser is total and allocation-bounded.
//
// The real nokv-redis binary runs with --metrics-addr and an address-space
// limit. Every frame is sent on its own TCP connection (possibly in several
// writes). Three monitors:
//
//   - liveness: after each frame the process is still running and a fresh
//     connection answers PING (process exit = violation; a PING watchdog =
//     inconclusive);
//   - allocation: memstats.TotalAlloc from /debug/vars before and after must
//     not grow by more than 16 x bytes sent + 1 MiB (+ the idle noise measured
//     on this process); an excess must repeat on a second attempt to count;
//   - fidelity: well-formed RESP arrays / inline commands must be parsed into
//     exactly their arguments, observed through ECHO and MSET+MGET replies.
package c31

import (
	"bytes"
	"fmt"
	"math/rand"
	"strconv"
	"strings"
	"time"

	"verif/harness/internal/core"
	"verif/harness/internal/redisx"
)

const (
	watchdog     = 60 * time.Second
	settle       = 150 * time.Millisecond // how long a hostile connection is left open for the server to react
	allocFactor  = 16
	allocSlack   = 1 << 20
	asHeadroom   = 3 << 30 // RLIMIT_AS = VmSize at start + 3 GiB
	framesPerRun = 25
)

type frame struct {
	kind  string // signature context: what the frame is
	wire  []byte
	cuts  []int // write boundaries (fragmentation)
	close bool  // hostile / truncated: the connection is closed by us after settle
	// well-formed frames: the arguments the gateway must see, and how to observe them
	args    [][]byte
	observe string // "echo" | "mset" | ""
}

func bulk(b []byte) []byte {
	return append(append([]byte("$"+strconv.Itoa(len(b))+"\r\n"), b...), '\r', '\n')
}

func randBytes(r *rand.Rand, n int) []byte {
	b := make([]byte, n)
	for i := range b {
		b[i] = byte(r.Intn(256))
	}
	return b
}

var hugeLens = []string{
	"262144", "16777216", "67108864", "268435456", "536870912", "1073741824", "2147483647", "2147483648", "4294967296",
	"1099511627776", "4611686018427387904", "9223372036854775807",
}

var garbageLens = []string{
	"9223372036854775808", "18446744073709551616", "99999999999999999999999999", "-1", "-2", "-9223372036854775808", "-2147483649",
	"", " ", "abc", "1a", "0x10", "+3", "1.5", "1e9", "\x00", "٣", "1 ", " 1",
}

// hostile frames: everything the quantifier of the property names.
func genHostile(r *rand.Rand) frame {
	switch r.Intn(12) {
	case 0: // huge array length, nothing follows
		return frame{kind: "array-length-huge", wire: []byte("*" + hugeLens[r.Intn(len(hugeLens))] + "\r\n"), close: true}
	case 1: // huge array length followed by a few real elements
		w := []byte("*" + hugeLens[r.Intn(len(hugeLens))] + "\r\n")
		for i := 0; i < 1+r.Intn(3); i++ {
			w = append(w, bulk(randBytes(r, r.Intn(10)))...)
		}
		return frame{kind: "array-length-huge", wire: w, close: true}
	case 2: // huge bulk length
		w := []byte("*2\r\n$4\r\nECHO\r\n$" + hugeLens[r.Intn(len(hugeLens))] + "\r\n")
		w = append(w, randBytes(r, r.Intn(64))...)
		return frame{kind: "bulk-length-huge", wire: w, close: true}
	case 3: // garbage / negative array length
		return frame{kind: "array-length-garbage", wire: []byte("*" + garbageLens[r.Intn(len(garbageLens))] + "\r\n$4\r\nPING\r\n"), close: true}
	case 4: // garbage / negative bulk length
		return frame{kind: "bulk-length-garbage", wire: []byte("*2\r\n$4\r\nECHO\r\n$" + garbageLens[r.Intn(len(garbageLens))] + "\r\nabc\r\n"), close: true}
	case 5: // truncated well-formed frame
		w := redisx.Encode([]byte("SET"), randBytes(r, 1+r.Intn(20)), randBytes(r, r.Intn(5000)))
		return frame{kind: "truncated", wire: w[:r.Intn(len(w))], close: true}
	case 6: // missing CRLF after a bulk / LF only / CR only
		v := [][]byte{
			[]byte("*1\r\n$4\r\nPINGxx*1\r\n$4\r\nPING\r\n"),
			[]byte("*1\n$4\nPING\n"),
			[]byte("*1\r$4\rPING\r"),
			[]byte("*1\r\n$4\r\nPING\n\r"),
			[]byte("*2\r\n$4\r\nECHO\r\n$3\r\nabcd\r\n"),
			[]byte("*1\r\n4\r\nPING\r\n"),
			[]byte("*1\r\n:4\r\n"),
			[]byte("*1\r\n*1\r\n$4\r\nPING\r\n"),
		}
		return frame{kind: "bad-terminator", wire: v[r.Intn(len(v))], close: true}
	case 7: // very long inline line, with or without terminator
		n := (64 << 10) << r.Intn(5) // 64 KiB .. 1 MiB
		w := bytes.Repeat([]byte{byte('a' + r.Intn(26))}, n)
		if n > 64<<10 {
			// The gateway keeps every command name it ever saw in its expvar
			// counters, which would make every later /debug/vars read (our
			// measuring channel) cost several times the name's size; lines
			// above 64 KiB therefore carry the bulk as an argument.
			copy(w, "ECHO ")
		}
		switch r.Intn(3) {
		case 0:
			w = append(w, '\r', '\n')
		case 1:
			w = append(w, '\n')
		}
		return frame{kind: "long-inline-line", wire: w, close: true}
	case 8: // long line inside a length field
		n := (64 << 10) << r.Intn(5)
		w := append([]byte("*"), bytes.Repeat([]byte("9"), n)...)
		if r.Intn(2) == 0 {
			w = append(w, '\r', '\n')
		}
		return frame{kind: "long-length-line", wire: w, close: true}
	case 9: // random bytes
		return frame{kind: "random-bytes", wire: randBytes(r, 1+r.Intn(4096)), close: true}
	case 10: // random bytes behind a RESP-looking prefix
		p := [][]byte{[]byte("*"), []byte("*3\r\n$"), []byte("$"), []byte("*1\r\n$5\r\n"), []byte("\r\n"), []byte("*0\r\n*-1\r\n\r\n")}
		return frame{kind: "random-after-prefix", wire: append(append([]byte{}, p[r.Intn(len(p))]...), randBytes(r, r.Intn(300))...), close: true}
	default: // many empty / null frames then nothing
		var w []byte
		for i := 0; i < 1+r.Intn(2000); i++ {
			w = append(w, [][]byte{[]byte("*0\r\n"), []byte("*-1\r\n"), []byte("\r\n")}[r.Intn(3)]...)
		}
		return frame{kind: "empty-frames", wire: w, close: true}
	}
}

func argBytes(r *rand.Rand, allowEmpty bool) []byte {
	switch x := r.Intn(100); {
	case x < 8 && allowEmpty:
		return []byte{}
	case x < 40:
		return randBytes(r, 1+r.Intn(24))
	case x < 55:
		return []byte(strings.Repeat("\r\n", 1+r.Intn(5)) + "$3\r\n*1\r\n")
	case x < 75:
		return randBytes(r, 4000+r.Intn(300)) // around the gateway's bufio size
	case x < 90:
		return randBytes(r, 1+r.Intn(70000))
	case x < 97:
		return bytes.Repeat([]byte{0}, 1+r.Intn(100))
	default:
		return randBytes(r, 1<<20)
	}
}

func fragment(r *rand.Rand, n int) []int {
	if n < 2 || r.Intn(2) == 0 {
		return nil
	}
	var cuts []int
	for i := 0; i < 1+r.Intn(6); i++ {
		cuts = append(cuts, 1+r.Intn(n-1))
	}
	return cuts
}

var inlineASCII = "abcdefghijklmnopqrstuvwxyzABCDEFGHIJKLMNOPQRSTUVWXYZ0123456789!#$%&()*+,-./:;<=>?@[]^_`{|}~"

// inline tokens: printable ASCII without quotes/backslash (Redis' inline
// parser treats those specially); optionally multi-byte UTF-8 letters.
func inlineToken(r *rand.Rand, unicode bool) []byte {
	n := 1 + r.Intn(12)
	var b []byte
	for i := 0; i < n; i++ {
		if unicode && r.Intn(3) == 0 {
			b = append(b, []string{"\u00e9", "\u00df", "\u4e2d", "\u00a0", "\u3000", "\u0085", "\u2003", "\U0001F600"}[r.Intn(8)]...)
		} else {
			b = append(b, inlineASCII[r.Intn(len(inlineASCII))])
		}
	}
	if b[0] == '*' {
		b[0] = 'x'
	}
	return b
}

func genWellFormed(r *rand.Rand, idx int, seq int) frame {
	switch r.Intn(10) {
	case 0, 1, 2: // ECHO with one arbitrary binary argument
		a := argBytes(r, true)
		w := redisx.Encode([]byte("ECHO"), a)
		return frame{kind: "array-echo", wire: w, cuts: fragment(r, len(w)), args: [][]byte{[]byte("ECHO"), a}, observe: "echo"}
	case 3, 4, 5: // MSET with n distinct binary keys and non-empty binary values, read back by MGET
		n := 1 + r.Intn(6)
		args := [][]byte{[]byte("MSET")}
		for i := 0; i < n; i++ {
			k := append([]byte(fmt.Sprintf("c31:%d:%d:%d:", idx, seq, i)), randBytes(r, r.Intn(16))...)
			v := argBytes(r, false)
			args = append(args, k, v)
		}
		w := redisx.Encode(args...)
		return frame{kind: "array-mset", wire: w, cuts: fragment(r, len(w)), args: args, observe: "mset"}
	case 6: // empty frames before a real one
		a := argBytes(r, true)
		w := append([]byte("*0\r\n\r\n*-1\r\n"), redisx.Encode([]byte("ECHO"), a)...)
		return frame{kind: "array-echo-after-empty-frames", wire: w, cuts: fragment(r, len(w)), args: [][]byte{[]byte("ECHO"), a}, observe: "echo"}
	case 7, 8: // inline ECHO, ASCII
		tok := inlineToken(r, false)
		kind := "inline-ascii"
		if r.Intn(4) == 0 {
			// a long line: around the 4 KiB and 64 KiB buffer sizes of typical line readers, and beyond
			n := []int{4070 + r.Intn(60), 8192 + r.Intn(100), 65500 + r.Intn(100), 100000 + r.Intn(50000)}[r.Intn(4)]
			long := make([]byte, n)
			for i := range long {
				long[i] = inlineASCII[r.Intn(len(inlineASCII))]
			}
			if long[0] == '*' {
				long[0] = 'x'
			}
			tok, kind = long, "inline-ascii-long-line"
		}
		seps := []string{" ", "  ", "\t", " \t "}
		w := []byte(strings.Repeat(" ", r.Intn(2)) + "ECHO" + seps[r.Intn(len(seps))] + string(tok) + strings.Repeat(" ", r.Intn(3)) + "\r\n")
		return frame{kind: kind, wire: w, cuts: fragment(r, len(w)), args: [][]byte{[]byte("ECHO"), tok}, observe: "echo"}
	default: // inline ECHO whose argument contains multi-byte UTF-8 (no ASCII white space)
		tok := inlineToken(r, true)
		w := []byte("ECHO " + string(tok) + "\r\n")
		kind := "inline-ascii"
		for _, c := range string(tok) {
			switch {
			case c == 0x85 || c == 0xa0 || c == 0x2003 || c == 0x3000:
				// not ASCII white space: to RESP these are ordinary argument bytes
				kind = "inline-utf8-with-non-ascii-space"
			case c >= 0x80 && kind == "inline-ascii":
				kind = "inline-utf8"
			}
		}
		return frame{kind: kind, wire: w, args: [][]byte{[]byte("ECHO"), tok}, observe: "echo"}
	}
}

type runner struct {
	c     *core.Case
	srv   *redisx.Server
	dir   string
	noise uint64 // measured idle TotalAlloc growth between two reads
	dead  bool
	sent  []string // kinds of the frames sent to the current process
}

func (r *runner) start() bool {
	srv, err := redisx.Start(r.c.TempDir(), redisx.Opts{Metrics: true, ASHeadroom: asHeadroom})
	if err != nil {
		r.c.Inconclusive("gateway start: " + err.Error())
		r.dead = true
		return false
	}
	r.srv = srv
	r.sent = nil
	// idle noise of this process: the largest TotalAlloc growth over a few
	// back-to-back reads with a PING connection in between.
	var prev redisx.MemStats
	for i := 0; i < 4; i++ {
		r.ping()
		ms, err := srv.ReadMemStats()
		if err != nil {
			r.c.Inconclusive("memstats: " + err.Error())
			r.dead = true
			return false
		}
		if i > 0 && ms.TotalAlloc-prev.TotalAlloc > r.noise {
			r.noise = ms.TotalAlloc - prev.TotalAlloc
		}
		prev = ms
	}
	r.c.Max("idle_totalalloc_noise_bytes", int(r.noise))
	return true
}

// ping opens a fresh connection and expects PONG. "exited" = process gone.
func (r *runner) ping() (ok bool, why string) {
	cn, err := redisx.Dial(r.srv.Addr, watchdog)
	if err != nil {
		return false, "dial: " + err.Error()
	}
	defer cn.Close()
	rep, err := cn.DoS("PING")
	if err != nil {
		return false, "PING: " + err.Error()
	}
	if rep.Kind != '+' || string(rep.Str) != "PONG" {
		return false, "PING answered " + rep.String()
	}
	return true, ""
}

func (r *runner) send(cn *redisx.Conn, f frame) error {
	prev := 0
	cuts := append([]int{}, f.cuts...)
	// sort cuts
	for i := range cuts {
		for j := i + 1; j < len(cuts); j++ {
			if cuts[j] < cuts[i] {
				cuts[i], cuts[j] = cuts[j], cuts[i]
			}
		}
	}
	for _, cpos := range cuts {
		if cpos <= prev || cpos >= len(f.wire) {
			continue
		}
		if err := cn.Write(f.wire[prev:cpos]); err != nil {
			return err
		}
		prev = cpos
	}
	return cn.Write(f.wire[prev:])
}

func hexHead(b []byte) string {
	if len(b) > 160 {
		return fmt.Sprintf("%s...(%d bytes)", strconv.Quote(string(b[:120])), len(b))
	}
	return strconv.Quote(string(b))
}

// attempt sends the frame once and returns the TotalAlloc growth, what the
// fidelity observation said ("" = fine) and whether the process survived.
func (r *runner) attempt(f frame) (delta uint64, fidelity string, got string, survived bool, inconclusive string) {
	m0, err := r.srv.ReadMemStats()
	if err != nil {
		if r.srv.WaitExit(2 * time.Second) {
			return 0, "", "", false, ""
		}
		return 0, "", "", true, "memstats before: " + err.Error()
	}
	cn, err := redisx.Dial(r.srv.Addr, watchdog)
	if err != nil {
		if r.srv.WaitExit(2 * time.Second) {
			return 0, "", "", false, ""
		}
		return 0, "", "", true, "dial: " + err.Error()
	}
	werr := r.send(cn, f)
	if f.observe == "" {
		// hostile: give the server the time to react (reply, close, or wait
		// for more input), then hang up.
		cn.Timeout = settle
		_, extra, _ := cn.ExpectClosed()
		got = hexHead(extra)
		cn.Close()
	} else if werr == nil {
		switch f.observe {
		case "echo":
			rep, err := cn.Read()
			switch {
			case err != nil:
				fidelity, got = "no-reply", err.Error()
			case rep.Kind != '$' || rep.Null || !bytes.Equal(rep.Str, f.args[1]):
				fidelity, got = "echo-differs:"+rep.Shape(), rep.String()
			}
		case "mset":
			rep, err := cn.Read()
			switch {
			case err != nil:
				fidelity, got = "no-reply", err.Error()
			case rep.Kind != '+':
				fidelity, got = "mset-refused:"+rep.Shape(), rep.String()
			default:
				q := [][]byte{[]byte("MGET")}
				for i := 1; i < len(f.args); i += 2 {
					q = append(q, f.args[i])
				}
				back, err := cn.Do(q...)
				switch {
				case err != nil:
					fidelity, got = "no-reply", err.Error()
				case back.Kind != '*' || len(back.Elems) != len(q)-1:
					fidelity, got = "mget-shape:"+back.Shape(), back.String()
				default:
					for i, e := range back.Elems {
						if e.Kind != '$' || e.Null || !bytes.Equal(e.Str, f.args[2+2*i]) {
							fidelity, got = "value-differs:"+e.Shape(), fmt.Sprintf("element %d: %s", i, e.String())
							break
						}
					}
				}
			}
		}
		cn.Close()
	} else {
		cn.Close()
	}
	if fidelity == "no-reply" {
		if r.srv.WaitExit(2 * time.Second) {
			return 0, "", got, false, ""
		}
		if strings.Contains(got, "watchdog") {
			return 0, "", got, true, "reply watchdog on a well-formed frame"
		}
	}
	ok, why := r.ping()
	if !ok {
		if r.srv.WaitExit(5 * time.Second) {
			return 0, fidelity, got, false, ""
		}
		return 0, fidelity, got, true, "fresh connection after the frame: " + why
	}
	m1, err := r.srv.ReadMemStats()
	if err != nil {
		if r.srv.WaitExit(2 * time.Second) {
			return 0, fidelity, got, false, ""
		}
		return 0, fidelity, got, true, "memstats after: " + err.Error()
	}
	return m1.TotalAlloc - m0.TotalAlloc, fidelity, got, true, ""
}

// control measures what the measuring procedure itself costs right now: the
// same window as attempt() (memstats, fresh PING connection, memstats) without
// any frame. (The cost of rendering /debug/vars depends on the process'
// history, e.g. the gateway's per-command counters keep every command name it
// ever saw, so it is re-measured before every frame.)
func (r *runner) control() (uint64, bool) {
	var worst uint64
	for i := 0; i < 2; i++ {
		m0, err := r.srv.ReadMemStats()
		if err != nil {
			return 0, false
		}
		if ok, _ := r.ping(); !ok {
			return 0, false
		}
		m1, err := r.srv.ReadMemStats()
		if err != nil {
			return 0, false
		}
		if d := m1.TotalAlloc - m0.TotalAlloc; d > worst {
			worst = d
		}
	}
	return worst, true
}

func (r *runner) bound(f frame, ctrl uint64) uint64 {
	sent := uint64(len(f.wire))
	if f.observe == "mset" {
		sent *= 2 // the values travel back once more through MGET
	}
	return allocFactor*sent + allocSlack + 4*r.noise + 2*ctrl
}

// culprit names the frame a process exit is attributed to. The process only
// ever received the frames in r.sent. A frame that does not itself declare a
// huge length cannot make the parser reserve memory, but the gateway may act
// on (or still hold the memory of) an earlier declared-length frame after the
// client hung up, so makeslice / out-of-memory exits are attributed to the
// most recent such frame when the current one is of another kind.
func (r *runner) culprit(current string) string {
	if strings.HasSuffix(current, "-huge") {
		return current
	}
	for i := len(r.sent) - 1; i >= 0; i-- {
		if strings.HasSuffix(r.sent[i], "-huge") {
			return r.sent[i]
		}
	}
	if current == "" && len(r.sent) > 0 {
		return "delayed-after:" + r.sent[len(r.sent)-1]
	}
	if current == "" {
		return "none-sent"
	}
	return current
}

func (r *runner) judge(f frame, seq int) {
	c := r.c
	c.Count("evaluations", 1)
	c.Count("frames."+f.kind, 1)
	c.Distinct("frame_kinds", f.kind)
	detail := func(extra map[string]any) map[string]any {
		d := map[string]any{"frame_kind": f.kind, "bytes_sent": len(f.wire), "frame_head": hexHead(f.wire), "write_boundaries": f.cuts}
		for k, v := range extra {
			d[k] = v
		}
		return d
	}
	ctrl, cok := r.control()
	if !cok {
		if r.srv.WaitExit(2 * time.Second) {
			// the process died between two frames: the only input it ever got
			// are the frames sent so far; attribute the exit to the most recent
			// declared-length frame (the server may act on it after the client
			// hung up), else to the last frame.
			r.dead = true
			c.Count("gateway_deaths", 1)
			culprit := r.culprit("")
			c.Violation(fmt.Sprintf("C31|process-death|%s|%s", culprit, r.srv.DeathClass()),
				"the gateway process died between two frames (after the frames listed)",
				map[string]any{"frames_sent_to_this_process": r.sent, "gateway_log": r.srv.LogTail(5000), "exit": fmt.Sprint(r.srv.WaitErr())})
			return
		}
		c.Inconclusive(fmt.Sprintf("frame %d: control measurement failed", seq))
		return
	}
	c.Max("max_control_window_totalalloc_bytes", int(ctrl))
	r.sent = append(r.sent, f.kind)
	delta, fid, got, survived, inc := r.attempt(f)
	if !survived {
		r.dead = true
		c.Count("gateway_deaths", 1)
		c.Violation(fmt.Sprintf("C31|process-death|%s|%s", r.culprit(f.kind), r.srv.DeathClass()),
			"the gateway process died after receiving the frame",
			detail(map[string]any{"frames_sent_to_this_process": r.sent, "gateway_log": r.srv.LogTail(5000), "exit": fmt.Sprint(r.srv.WaitErr())}))
		return
	}
	if inc != "" {
		c.Inconclusive(fmt.Sprintf("frame %d (%s): %s", seq, f.kind, inc))
		return
	}
	if fid != "" {
		c.Violation(fmt.Sprintf("C31|args-mismatch|%s", f.kind),
			"a well-formed frame was not parsed into exactly its arguments",
			detail(map[string]any{"observed": got, "how": fid, "args": len(f.args)}))
	} else if f.observe != "" {
		c.Count("wellformed_roundtrips_ok", 1)
	}
	c.Max("max_totalalloc_delta_bytes", int(delta))
	if b := r.bound(f, ctrl); delta > b {
		// The cost of the measuring window can change under our feet (the
		// gateway publishes what earlier frames left behind only seconds
		// later), so it is measured again now, and the excess counts only if
		// the same frame produces it again against the larger of the two.
		if ctrl2, ok := r.control(); ok && ctrl2 > ctrl {
			ctrl = ctrl2
			b = r.bound(f, ctrl)
			c.Max("max_control_window_totalalloc_bytes", int(ctrl))
		}
		delta2, _, _, survived2, inc2 := r.attempt(f)
		if !survived2 {
			r.dead = true
			c.Count("gateway_deaths", 1)
			c.Violation(fmt.Sprintf("C31|process-death|%s|%s", r.culprit(f.kind), r.srv.DeathClass()), "the gateway process died after receiving the frame (second attempt)", detail(map[string]any{"frames_sent_to_this_process": r.sent, "gateway_log": r.srv.LogTail(5000)}))
			return
		}
		if inc2 != "" {
			c.Inconclusive(fmt.Sprintf("frame %d (%s) second attempt: %s", seq, f.kind, inc2))
			return
		}
		if ctrl3, ok := r.control(); ok && ctrl3 > ctrl {
			ctrl = ctrl3
			b = r.bound(f, ctrl)
			c.Max("max_control_window_totalalloc_bytes", int(ctrl))
		}
		min := delta
		if delta2 < min {
			min = delta2
		}
		if min > b {
			c.Violation(fmt.Sprintf("C31|alloc-out-of-proportion|%s", f.kind),
				fmt.Sprintf("memstats.TotalAlloc grew by %d and %d bytes for %d bytes received (bound %d)", delta, delta2, len(f.wire), b),
				detail(map[string]any{"totalalloc_delta": []uint64{delta, delta2}, "bound": b, "idle_noise": r.noise, "control_window": ctrl}))
		} else {
			c.Count("alloc_excess_not_repeated", 1)
		}
	}
	if f.observe == "" {
		c.Count("hostile_frames_survived", 1)
	}
}

func run(c *core.Case) {
	r := &runner{c: c}
	if !r.start() {
		return
	}
	defer func() { r.srv.Stop() }()
	var kinds []string
	for seq := 0; seq < framesPerRun; seq++ {
		if r.dead {
			// the process died on the previous frame: continue on a new one so
			// that one defect does not hide the remaining frames
			r.srv.Stop()
			r.dead = false
			if !r.start() {
				return
			}
		}
		var f frame
		if c.Rng.Intn(100) < 60 {
			f = genHostile(c.Rng)
		} else {
			f = genWellFormed(c.Rng, c.Idx, seq)
		}
		kinds = append(kinds, f.kind)
		r.judge(f, seq)
	}
	if len(kinds) > 0 {
		c.Nontrivial(strings.Join(kinds, ","))
	}
	c.Sample(map[string]any{"case": c.Idx, "frames": kinds})
}

func init() {
	core.Register(&core.Check{
		ID:    "C31",
		Level: "exploration",
		Rule: "case = one fresh nokv-redis process (embedded backend, --metrics-addr, RLIMIT_AS = start size + 3 GiB) receiving 25 seeded frames, each on its own TCP connection, 60% hostile " +
			"(array/bulk length huge 2^20..2^63-1, > int64, negative, non-numeric; truncated frames; missing/half CRLF; nested/typed elements; 64 KiB-1 MiB lines with and without terminator; random bytes; thousands of empty frames) and 40% well-formed " +
			"(ECHO / MSET+MGET arrays with binary arguments incl. empty, CRLF-laden, ~4 KiB, up to 1 MiB, fragmented over several writes; inline commands with ASCII and multi-byte UTF-8 tokens, a quarter of the ASCII ones with a line of 4 KiB / 8 KiB / 64 KiB / 100-150 KiB); " +
			"after every frame: process alive, fresh connection answers PING, /debug/vars memstats.TotalAlloc delta <= 16 x bytes sent + 1 MiB + 4 x idle noise + 2 x the same window measured without a frame (before, between and after; excess must repeat on a second attempt), well-formed arguments come back byte-identical; " +
			"distinct = distinct sequences of frame kinds",
		Assumptions: []string{
			"allocation is observed through the binary's own expvar memstats (TotalAlloc is cumulative, so freed garbage still counts); allocation by background engine goroutines during a frame is part of the measurement, bounded by the measured idle noise",
			"a hostile connection is left open for 150 ms before the client hangs up; an allocation the server would only make later is not seen (can only miss, never false-alarm)",
			"inline commands avoid quotes and backslashes (Redis' inline parser gives them a meaning the statement does not cover)",
			"a PING/metrics watchdog (60 s) is inconclusive; only an observed process exit counts as a crash",
		},
		NeedsBins: true,
		Cases: func(tier string) int {
			if tier == "thorough" {
				return 200
			}
			return 16
		},
		Procs: func(tier string) int { return 16 },
		CaseTimeout: 10 * time.Minute,
		Run:         run,
		Finish: func(a *core.Agg) {
			a.FloorNontrivial(2)
			a.Floor("frame_kinds", 12)
			a.Floor("frames.array-length-huge", 5)
			a.Floor("frames.bulk-length-huge", 5)
			a.Floor("frames.truncated", 3)
		},
	})
}
