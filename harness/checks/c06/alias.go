package c06

import (
	"fmt"
	"sync"
	"unsafe"

	NoKV "github.com/feichai0017/NoKV"
	"github.com/feichai0017/NoKV/utils"
	"verif/harness/internal/core"
	"verif/harness/internal/dbx"
)

// Key-only iterators defer value-log reads to Item.ValueCopy. The probe below
// observes, on two throw-away databases, whether the buffers the iterators
// write fetched / copied values into are the engine's own memory (memtable
// arena, SST block): it compares the address of the slice an inline item
// exposed with the address of the buffer the next item's value was written to.
// When they coincide the iterator has overwritten engine memory; the databases
// are then abandoned without Close (their memory is no longer trustworthy) and
// the main datasets avoid the two situations that trigger the overwrite, so
// that one defect does not turn every later observation into noise.
var (
	aliasOnce         sync.Once
	aliasDB, aliasTxn bool
)

func aliasCfg() dbx.Config {
	return dbx.Config{Engine: "skiplist", ValueThreshold: 32, Buckets: 1, VlogFileSize: 1 << 20, ManifestRewrite: 64 << 20, Controlled: true, MemTableSize: 1 << 20, L0Tables: 1000}
}

func aliasProbe(c *core.Case) {
	aliasOnce.Do(func() {
		small := []byte("inline-8")
		big := dbx.Value("alias-probe|", 200)
		// ---- DB iterator: inline item, then ValueCopy of a value-log item ----
		if db, err := dbx.OpenCfg(aliasCfg(), c.TempDir()); err == nil {
			_ = db.Set([]byte("k1"), small)
			_ = db.Set([]byte("k2"), big)
			it := db.NewIterator(&utils.Options{IsAsc: true, OnlyUseKey: true})
			var p1, p2 *byte
			for it.Rewind(); it.Valid(); it.Next() {
				item, _ := it.Item().(*NoKV.Item)
				if item == nil {
					continue
				}
				e := item.Entry()
				switch string(e.Key) {
				case "k1":
					p1 = unsafe.SliceData(e.Value)
				case "k2":
					if _, verr := item.ValueCopy(nil); verr == nil {
						p2 = unsafe.SliceData(item.Entry().Value)
					}
				}
			}
			aliasDB = p1 != nil && p1 == p2
			if !aliasDB {
				_ = it.Close()
				_ = db.Close()
			}
		}
		// ---- transaction iterator: value-log item, then an inline item ----
		if db, err := dbx.OpenCfg(aliasCfg(), c.TempDir()); err == nil {
			_ = db.Update(func(t *NoKV.Txn) error {
				_ = t.Set([]byte("k1"), big)
				return t.Set([]byte("k2"), small)
			})
			t := db.NewTransaction(false)
			it := t.NewIterator(NoKV.IteratorOptions{KeyOnly: true})
			var p1, p2 *byte
			for it.Rewind(); it.Valid(); it.Next() {
				e := it.Item().Entry()
				switch string(e.Key) {
				case "k1":
					p1 = unsafe.SliceData(e.Value)
				case "k2":
					p2 = unsafe.SliceData(e.Value)
				}
			}
			aliasTxn = p1 != nil && p1 == p2
			if !aliasTxn {
				it.Close()
				t.Discard()
				_ = db.Close()
			}
		}
		c.Count("alias_probes", 1)
		if aliasDB {
			c.Violation("C06|valuecopy-overwrites-engine-memory|db-iterator,key-only",
				"key-only DB iterator: after an inline item, Item.ValueCopy of the next (value-log) item wrote the fetched value at the address of the previous item's value inside the memtable arena (item.valueBuf aliases entry.Value of the engine's entry)",
				map[string]any{"config": aliasCfg(), "steps": "Set k1 (8 bytes, inline), Set k2 (200 bytes, value log); NewIterator(OnlyUseKey); Rewind; Next; ValueCopy", "observed": fmt.Sprintf("address of k1's exposed value == address of the buffer holding k2's fetched value")})
		}
		if aliasTxn {
			c.Violation("C06|valuecopy-overwrites-engine-memory|txn-iterator,key-only",
				"key-only transaction iterator: materialising an inline value after a value-log item copies it over the engine's stored value pointer (it.entry.Value still aliases the memtable arena / SST block and is used as append destination)",
				map[string]any{"config": aliasCfg(), "steps": "commit {k1: 200 bytes (value log), k2: 8 bytes (inline)}; NewIterator(KeyOnly); Rewind; Next", "observed": "address of k1's exposed (encoded pointer) value == address of k2's value"})
		}
	})
}
