// Package c06: DB and transaction iterators return exactly the live snapshot in
// strictly monotone key order, honouring their options.
//
// Monitor: datasets are built on a real DB with the E-seq engine (client writes
// interleaved with rotation, flush, every compaction kind, value-log GC and
// close/reopen). Even cases use the plain API (all three column families) and
// probe DB.NewIterator; odd cases use transactions (several versions per key,
// deletes and long-expired entries shadowing older versions, year-2100
// expiries, snapshot-holding transactions with pending writes) and probe
// Txn.NewIterator / Txn.NewKeyIterator. A reference model computed from the
// writes gives, per option set and seek target, the list of live items; each
// probe (Rewind / Seek, Next to exhaustion or a few steps, re-positioning on
// the same iterator) is compared item by item: no item outside the model range
// (deleted, expired, out of bounds, outside the prefix, before the seek
// target, later than the snapshot), no required item missing, strict
// monotonicity, value equal to the point read of the same key.
package c06

import (
	"bytes"
	"errors"
	"fmt"
	"sort"
	"strings"
	"time"

	NoKV "github.com/feichai0017/NoKV"
	"github.com/feichai0017/NoKV/kv"
	"github.com/feichai0017/NoKV/utils"
	"verif/harness/internal/core"
	"verif/harness/internal/dbx"
)

const (
	farPast   = uint64(1)
	farFuture = uint64(4102444800) // 2100-01-01
	discard   = "!NoKV!discard"
)

type ck struct {
	cf  kv.ColumnFamily
	key []byte
}

func id(cf kv.ColumnFamily, key []byte) string { return string([]byte{byte(cf)}) + string(key) }

func cmpCK(acf kv.ColumnFamily, a []byte, bcf kv.ColumnFamily, b []byte) int {
	if acf != bcf {
		if acf < bcf {
			return -1
		}
		return 1
	}
	return bytes.Compare(a, b)
}

// ---------------------------------------------------------------------------
// reporting

type reporter struct {
	c      *core.Case
	seen   map[string]bool
	base   func() map[string]any // config, trace, layout: attached to the first violation of a case
	cfg    any                   // attached to every violation
	traced bool
}

func (r *reporter) v(sig, what string, extra map[string]any) {
	if r.seen[sig] {
		r.c.Count("repeat_violations_same_signature", 1)
		return
	}
	r.seen[sig] = true
	d := map[string]any{"config": r.cfg}
	if !r.traced {
		r.traced = true
		for k, v := range r.base() {
			d[k] = v
		}
	}
	for k, v := range extra {
		d[k] = v
	}
	r.c.Violation(sig, what, d)
}

func q(b []byte) string {
	if len(b) > 40 {
		return fmt.Sprintf("%q..(%d bytes)", b[:40], len(b))
	}
	return fmt.Sprintf("%q", b)
}

// ---------------------------------------------------------------------------
// observed items and model items

type obs struct {
	cf    kv.ColumnFamily
	key   []byte
	val   []byte
	ver   uint64
	verr  error
	noval bool // value not fetched (see alias.go)
}

// mitem is one item the model allows in a probe's range.
type mitem struct {
	cf       kv.ColumnFamily
	key      []byte
	val      []byte
	required bool
	// all-versions mode: the key's visible versions newest first.
	vers []mver
}

type mver struct {
	val      []byte
	dead     bool // tombstone or expired: must never be returned
	required bool
	pending  bool
}

// probeSpec describes the positioning of one probe step.
type probeStep struct {
	op     string // "initial", "rewind", "seek"
	target []byte
	steps  int // -1 = to exhaustion
}

// tieContext describes, from the engine's own per-source dump, whether the
// key's newest version is duplicated across sources ("imm+imm", "mem+l0f"...).
func sourceContext(env *dbx.Env, cf kv.ColumnFamily, key []byte) (newestIn string, tie string) {
	src := env.DB.VerifKeySources(cf, key)
	if len(src) == 0 {
		return "none", ""
	}
	var best uint64
	for _, s := range src {
		for _, e := range s.Entries {
			if e.Version > best {
				best = e.Version
			}
		}
	}
	var holders []string
	for _, s := range src {
		for _, e := range s.Entries {
			if e.Version == best {
				holders = append(holders, env.SourceClass(s))
				break
			}
		}
	}
	newestIn = "table"
	if len(holders) > 0 && (holders[0] == "mem" || holders[0] == "imm") {
		newestIn = "memtable"
	}
	if len(holders) > 1 {
		tie = strings.Join(holders, "+")
	}
	return newestIn, tie
}

// taintOf reports whether some version of the key is held by two table sources
// in a combination for which C01 recorded known findings (same-version ties in
// the ingest buffer / deeper levels, L0 compaction outputs).
func taintOf(env *dbx.Env, cf kv.ColumnFamily, key []byte) string {
	src := env.DB.VerifKeySources(cf, key)
	byVer := map[uint64][]string{}
	for _, s := range src {
		cl := env.SourceClass(s)
		if cl != "l0f" && cl != "l0c" && cl != "deep" {
			continue
		}
		seen := map[uint64]bool{}
		for _, e := range s.Entries {
			if !seen[e.Version] {
				seen[e.Version] = true
				byVer[e.Version] = append(byVer[e.Version], cl)
			}
		}
	}
	out := ""
	for _, classes := range byVer {
		if len(classes) < 2 {
			continue
		}
		deep, l0c := 0, 0
		for _, cl := range classes {
			if cl == "deep" {
				deep++
			}
			if cl == "l0c" {
				l0c++
			}
		}
		switch {
		case deep >= 2:
			return "ingest-buffer-tie"
		case l0c >= 1:
			out = "l0-compaction-output-tie"
		}
	}
	return out
}

// ---------------------------------------------------------------------------
// generic comparison of one probe step

type cmpCtx struct {
	r       *reporter
	iter    string // "db", "txn", "txn-allversions", "txn-keyiter"
	reverse bool
	optDesc string
	step    probeStep
	why     func(o obs) string // classifies an item outside the model range
	ctxOf   func(cf kv.ColumnFamily, key []byte) string
	allVers bool
	artSib  func(cf kv.ColumnFamily, key []byte) bool
	// artRel: the ART memtable is in use; reports whether a key is related to
	// the seek target in the way the ART ordering defect needs.
	artRel func(key []byte, others [][]byte) bool
	// related: the keys a Seek/bound/key-iterator compares stored keys with.
	related [][]byte
	// pendingRel reports whether key is a pending write of the iterating
	// transaction that is byte-prefix-related to another pending key or to one
	// of the related keys (cause class of the pending-writes ordering defect).
	pendingRel func(key []byte, related [][]byte) bool
	// detailOf gives per-key diagnostic detail that is not part of the signature.
	detailOf func(cf kv.ColumnFamily, key []byte) string
	tables   func() []string
	overlap  func() string
	// artProbe: ART memtable and a seek target / bound / key-iterator key of this
	// step is byte-prefix-related to some key of the dataset.
	artProbe bool
	// sink, when set, collects violations instead of reporting them (natural-mode retry).
	sink *[]pendingViolation
}

type pendingViolation struct {
	sig, what string
	extra     map[string]any
}

func (x *cmpCtx) dir() string {
	if x.reverse {
		return "rev"
	}
	return "fwd"
}

func (x *cmpCtx) report(rule, ctx string, cf kv.ColumnFamily, key []byte, what string, observed []obs, model []mitem) {
	ctx = strings.TrimSuffix(ctx, ",")
	sig := fmt.Sprintf("C06|%s|%s,%s,%s", rule, x.iter, x.dir(), ctx)
	switch {
	case x.artSib != nil && x.artSib(cf, key), x.artRel != nil && len(x.related) > 0 && x.artRel(key, x.related), x.artProbe:
		// ART memtable orders raw key bytes: byte-prefix-related keys are misplaced
		sig = "C06|wrong-scan|art-prefix-related-keys"
	case x.iter == "db" && strings.Contains(ctx, "same-version-in-two-immutables"):
		// the plain API reuses one version: two immutable memtables hold the key,
		// the iterator merges them oldest first while Get asks the newest first
		sig = "C06|older-write-returned|db,same-version-in-two-immutables"
	case x.overlap != nil && (rule == "order" || rule == "missing-key") && x.overlap() != "":
		// the tree itself is malformed: not an iterator defect
		sig = "C06|wrong-scan|level-tables-overlap"
		what += " [" + x.overlap() + "]"
	case x.pendingRel != nil && (x.pendingRel(key, x.related) || (rule == "order" && x.pendingRel(nil, x.related))):
		sig = "C06|wrong-scan|txn,pending-write-prefix-related-key"
	case x.iter == "txn" && x.reverse && ((rule == "value-mismatch-vs-get" && strings.HasPrefix(ctx, "older-version-returned")) || (rule == "extra-key" && strings.HasPrefix(ctx, "dead-newest-version-older-resurfaces"))):
		sig = "C06|wrong-version|txn,rev,older-visible-version-returned"
	}
	if x.r.seen[sig] {
		// already reported in this case: skip the (costly) rendering
		x.r.c.Count("repeat_violations_same_signature", 1)
		return
	}
	var os, ms []string
	for _, o := range observed {
		os = append(os, fmt.Sprintf("%s/%s ver=%d val=%s", o.cf, q(o.key), o.ver, q(head(o.val))))
	}
	for _, m := range model {
		s := fmt.Sprintf("%s/%s val=%s required=%v", m.cf, q(m.key), q(head(m.val)), m.required)
		if x.allVers {
			s = fmt.Sprintf("%s/%s versions(newest first)=[", m.cf, q(m.key))
			for _, v := range m.vers {
				switch {
				case v.dead:
					s += "DEAD "
				default:
					s += fmt.Sprintf("%s(req=%v) ", q(head(v.val)), v.required)
				}
			}
			s += "]"
		}
		ms = append(ms, s)
	}
	extra := map[string]any{"options": x.optDesc, "step": x.stepDesc(), "key": q(key), "cf": cf.String(), "observed": os, "model_range": ms, "unclassified_signature": fmt.Sprintf("C06|%s|%s,%s,%s", rule, x.iter, x.dir(), ctx)}
	if x.detailOf != nil {
		extra["key_sources"] = x.detailOf(cf, key)
	}
	if x.tables != nil && (rule == "order" || rule == "missing-key") {
		extra["tables"] = x.tables()
	}
	msg := fmt.Sprintf("%s iterator (%s) after %s: %s", x.iter, x.optDesc, x.stepDesc(), what)
	if x.sink != nil {
		*x.sink = append(*x.sink, pendingViolation{sig, msg, extra})
		return
	}
	x.r.v(sig, msg, extra)
}

func (x *cmpCtx) stepDesc() string {
	s := x.step.op
	if x.step.op == "seek" {
		s += "(" + q(x.step.target) + ")"
	}
	if x.step.steps < 0 {
		return s + " + Next to exhaustion"
	}
	return fmt.Sprintf("%s + %d Next", s, x.step.steps)
}

func head(b []byte) []byte {
	if len(b) > 18 {
		return b[:18]
	}
	return b
}

// compare judges the observed items of one probe step against the model range
// (model is sorted in iteration order). exhausted = the iterator became invalid.
// It returns false if anything was reported.
func (x *cmpCtx) compare(observed []obs, model []mitem, exhausted bool) bool {
	ok := true
	idx := map[string]int{}
	for i, m := range model {
		idx[id(m.cf, m.key)] = i
	}
	sign := 1
	if x.reverse {
		sign = -1
	}
	// strict monotonicity
	for i := 1; i < len(observed); i++ {
		a, b := observed[i-1], observed[i]
		c := cmpCK(a.cf, a.key, b.cf, b.key) * sign
		if x.allVers && c == 0 {
			// same key: forward = newer version first, reverse = older version first
			if (a.ver > b.ver) != !x.reverse || a.ver == b.ver {
				rule := "versions-not-descending"
				if a.ver == b.ver {
					rule = "duplicate-version"
				}
				x.report("order", rule, b.cf, b.key, fmt.Sprintf("key %s: version %d follows version %d", q(b.key), b.ver, a.ver), observed, model)
				ok = false
			}
			continue
		}
		if c >= 0 {
			rule := "out-of-order"
			if c == 0 {
				rule = "duplicate-key"
			}
			x.report("order", rule, b.cf, b.key, fmt.Sprintf("item %d %s/%s follows %s/%s", i, b.cf, q(b.key), a.cf, q(a.key)), observed, model)
			ok = false
		}
	}
	// every observed item must be in the model range
	seenKey := map[string][]obs{}
	var keyOrder []string
	for _, o := range observed {
		k := id(o.cf, o.key)
		if _, in := idx[k]; !in {
			x.report("extra-key", x.why(o)+","+x.ctxOf(o.cf, o.key), o.cf, o.key, fmt.Sprintf("returned %s/%s (value %s) which the model excludes: %s", o.cf, q(o.key), q(head(o.val)), x.why(o)), observed, model)
			ok = false
			continue
		}
		if _, dup := seenKey[k]; !dup {
			keyOrder = append(keyOrder, k)
		}
		seenKey[k] = append(seenKey[k], o)
	}
	// values
	for _, k := range keyOrder {
		m := model[idx[k]]
		os := seenKey[k]
		if !x.allVers {
			o := os[0]
			if o.noval {
				continue
			}
			if o.verr != nil {
				x.report("value-error", "valuecopy-failed,"+x.ctxOf(o.cf, o.key), o.cf, o.key, fmt.Sprintf("ValueCopy of %s failed: %v", q(o.key), o.verr), observed, model)
				ok = false
				continue
			}
			if !bytes.Equal(o.val, m.val) {
				kind := "other-value"
				for _, v := range m.vers {
					if !v.dead && bytes.Equal(v.val, o.val) {
						kind = "older-version-returned"
					}
				}
				x.report("value-mismatch-vs-get", kind+","+x.ctxOf(o.cf, o.key), o.cf, o.key, fmt.Sprintf("key %s: iterator value %s (%d bytes), point read %s (%d bytes)", q(o.key), q(head(o.val)), len(o.val), q(head(m.val)), len(m.val)), observed, model)
				ok = false
			}
			continue
		}
		// all versions: observed versions (normalised newest first) must be a
		// subsequence of the live model versions containing every required one.
		if x.reverse {
			rev := make([]obs, len(os))
			for i := range os {
				rev[len(os)-1-i] = os[i]
			}
			os = rev
		}
		// Values can repeat among the versions of one key (empty values, deletes), so first ask
		// whether ANY order-preserving assignment of the observed versions to live model versions
		// covers every required one; only if none exists is the greedy walk below used to name
		// what is wrong.
		{
			runEnded := exhausted || k != keyOrder[len(keyOrder)-1]
			clean := true
			for _, o := range os {
				if o.verr != nil {
					clean = false
				}
			}
			memo := map[[2]int]bool{}
			var feasible func(i, jj int) bool
			feasible = func(i, jj int) bool {
				if jj == len(m.vers) {
					return i == len(os)
				}
				key := [2]int{i, jj}
				if v, ok := memo[key]; ok {
					return v
				}
				v := m.vers[jj]
				res := false
				switch {
				case v.dead:
					res = feasible(i, jj+1)
				case i < len(os) && bytes.Equal(v.val, os[i].val) && feasible(i+1, jj+1):
					res = true
				case !v.required || !runEnded:
					res = feasible(i, jj+1)
				}
				memo[key] = res
				return res
			}
			if clean && feasible(0, 0) {
				continue
			}
		}
		matched := make([]bool, len(m.vers))
		j := 0
		for _, o := range os {
			if o.verr != nil {
				x.report("value-error", "valuecopy-failed,"+x.ctxOf(o.cf, o.key), o.cf, o.key, fmt.Sprintf("ValueCopy of %s version %d failed: %v", q(o.key), o.ver, o.verr), observed, model)
				ok = false
				continue
			}
			found := -1
			for jj := j; jj < len(m.vers); jj++ {
				if !m.vers[jj].dead && bytes.Equal(m.vers[jj].val, o.val) {
					found = jj
					break
				}
			}
			if found < 0 {
				kind := "unknown-version"
				for jj := 0; jj < len(m.vers); jj++ {
					if bytes.Equal(m.vers[jj].val, o.val) {
						if m.vers[jj].dead {
							kind = "expired-version"
						} else {
							kind = "version-repeated-or-misplaced"
						}
					}
				}
				if kind == "unknown-version" {
					kind = x.why(o)
				}
				x.report("extra-version", kind+","+x.ctxOf(o.cf, o.key), o.cf, o.key, fmt.Sprintf("key %s: returned version %d value %s which is not a live visible version at that position", q(o.key), o.ver, q(head(o.val))), observed, model)
				ok = false
				continue
			}
			matched[found] = true
			j = found + 1
		}
		// completeness for this key is only decidable when the key's run ended:
		// either exhausted, or a later key was observed.
		runEnded := exhausted || k != keyOrder[len(keyOrder)-1]
		if runEnded {
			for jj, v := range m.vers {
				if v.required && !matched[jj] {
					x.report("missing-version", "live-version,"+x.ctxOf(m.cf, m.key), m.cf, m.key, fmt.Sprintf("key %s: live visible version #%d (newest first) value %s not returned", q(m.key), jj, q(head(v.val))), observed, model)
					ok = false
					break
				}
			}
		}
	}
	// completeness over keys
	var last *obs
	if len(observed) > 0 {
		last = &observed[len(observed)-1]
	}
	for _, m := range model {
		if !m.required {
			continue
		}
		if _, in := seenKey[id(m.cf, m.key)]; in {
			continue
		}
		decidable := exhausted
		if !decidable && last != nil {
			decidable = cmpCK(m.cf, m.key, last.cf, last.key)*sign < 0
		}
		if !decidable {
			continue
		}
		x.report("missing-key", "live-key,"+x.ctxOf(m.cf, m.key), m.cf, m.key, fmt.Sprintf("live key %s/%s (value %s, %d bytes) is in range but was not returned", m.cf, q(m.key), q(head(m.val)), len(m.val)), observed, model)
		ok = false
	}
	return ok
}

// ---------------------------------------------------------------------------
// shared generators

func neighbours(rng interface{ Intn(int) int }, keys [][]byte) [][]byte {
	var out [][]byte
	for _, k := range keys {
		out = append(out, k)
		switch rng.Intn(4) {
		case 0:
			out = append(out, append(append([]byte(nil), k...), 0x00))
		case 1:
			if len(k) > 1 {
				out = append(out, k[:len(k)-1])
			}
		case 2:
			b := append([]byte(nil), k...)
			if b[len(b)-1] < 0xff {
				b[len(b)-1]++
				out = append(out, b)
			}
		}
	}
	out = append(out, []byte{0x00}, []byte{0xff, 0xff, 0xff}, []byte("0"), []byte("zzzz"))
	return out
}

func pickBounds(rng interface{ Intn(int) int }, cands [][]byte) (lower, upper []byte) {
	if rng.Intn(2) == 0 {
		return nil, nil
	}
	a := cands[rng.Intn(len(cands))]
	b := cands[rng.Intn(len(cands))]
	if bytes.Compare(a, b) > 0 {
		a, b = b, a
	}
	switch rng.Intn(3) {
	case 0:
		return a, nil
	case 1:
		return nil, b
	}
	return a, b
}

func inBounds(key, lower, upper []byte) bool {
	if len(lower) > 0 && bytes.Compare(key, lower) < 0 {
		return false
	}
	if len(upper) > 0 && bytes.Compare(key, upper) >= 0 {
		return false
	}
	return true
}

func genSteps(rng interface{ Intn(int) int }, targets [][]byte, rewindOnly bool) []probeStep {
	n := 1 + rng.Intn(3)
	var out []probeStep
	for i := 0; i < n; i++ {
		st := probeStep{steps: -1}
		if rng.Intn(5) < 2 {
			st.steps = rng.Intn(5)
		}
		switch r := rng.Intn(10); {
		case r < 4 || rewindOnly:
			st.op = "rewind"
		default:
			st.op = "seek"
			st.target = targets[rng.Intn(len(targets))]
		}
		out = append(out, st)
	}
	return out
}

func isKnownMaintErr(err error) bool {
	return errors.Is(err, utils.ErrNoRewrite) || errors.Is(err, utils.ErrRejected)
}

func sortMitems(ms []mitem, reverse bool) {
	sort.Slice(ms, func(i, j int) bool {
		c := cmpCK(ms[i].cf, ms[i].key, ms[j].cf, ms[j].key)
		if reverse {
			return c > 0
		}
		return c < 0
	})
}

// tableRanges lists the tables with their key ranges (diagnostic detail).
func tableRanges(env *dbx.Env) []string {
	var out []string
	if env.DB == nil {
		return out
	}
	for _, t := range env.DB.VerifLSM().VerifLayout().Tables {
		out = append(out, fmt.Sprintf("L%d ingest=%v shard=%d fid=%d [%q .. %q] prov=%s", t.Level, t.Ingest, t.Shard, t.Fid, t.MinKey, t.MaxKey, env.Prov[t.Fid]))
	}
	return out
}

// levelOverlap reports two non-ingest tables of one level >= 1 whose key ranges
// overlap (the level iterator concatenates tables assuming disjoint ranges).
func levelOverlap(env *dbx.Env) string {
	if env.DB == nil {
		return ""
	}
	type tr struct {
		fid      uint64
		min, max []byte
	}
	by := map[int][]tr{}
	for _, t := range env.DB.VerifLSM().VerifLayout().Tables {
		if t.Level >= 1 && !t.Ingest {
			by[t.Level] = append(by[t.Level], tr{t.Fid, t.MinKey, t.MaxKey})
		}
	}
	for lvl, ts := range by {
		for i := range ts {
			for j := range ts {
				if i != j && utils.CompareKeys(ts[i].min, ts[j].min) <= 0 && utils.CompareKeys(ts[i].max, ts[j].min) >= 0 {
					return fmt.Sprintf("L%d: table %d [%q..%q] overlaps table %d [%q..%q]", lvl, ts[i].fid, ts[i].min, ts[i].max, ts[j].fid, ts[j].min, ts[j].max)
				}
			}
		}
	}
	return ""
}

// settle waits (natural background compaction only) until no flush is pending
// and the tree shape stopped changing, so that probes observe a placement
// produced by background compaction rather than a compaction in flight. It is
// scheduling only; no verdict depends on it.
func settle(env *dbx.Env) {
	env.DB.VerifLSM().VerifWaitFlush(30 * time.Second)
	stable, last := 0, dbx.LayoutShape(env.DB)
	for i := 0; i < 400 && stable < 5; i++ {
		time.Sleep(5 * time.Millisecond)
		if cur := dbx.LayoutShape(env.DB); cur == last {
			stable++
		} else {
			stable, last = 0, cur
		}
	}
}

// runWithRetry executes a probe. Under natural background compaction a probe
// that reports something is repeated once with the background cycles paused
// and the tree settled: what persists is reported under its own signature,
// what disappears is reported as a transient wrong scan (an iterator created
// while a compaction was in flight did not return its snapshot).
func runWithRetry(c *core.Case, env *dbx.Env, rep *reporter, exec func(sink *[]pendingViolation)) {
	if env.Cfg.Controlled {
		exec(nil)
		return
	}
	var all, first []pendingViolation
	exec(&all)
	for _, v := range all {
		if rep.seen[v.sig] {
			c.Count("repeat_violations_same_signature", 1)
		} else {
			first = append(first, v)
		}
	}
	if len(first) == 0 {
		return // nothing new: no need to pay for the settled repetition
	}
	env.DB.VerifLSM().VerifSetCompactionPaused(true)
	settle(env)
	time.Sleep(50 * time.Millisecond)
	settle(env)
	var second []pendingViolation
	exec(&second)
	env.DB.VerifLSM().VerifSetCompactionPaused(false)
	if len(second) == 0 {
		c.Count("transient_wrong_scans", 1)
		extra := first[0].extra
		extra["first_attempt_signature"] = first[0].sig
		rep.v("C06|transient-wrong-scan|during-background-compaction", first[0].what+" -- the identical probe repeated with background compaction paused and settled returned exactly the model", extra)
		return
	}
	for _, v := range second {
		rep.v(v.sig, v.what, v.extra)
	}
}

func dbgDisagree(c *core.Case, what string) {
	c.Distinct("point_read_disagreement", what)
}

func run(c *core.Case) {
	aliasProbe(c)
	if c.Idx%2 == 0 {
		runPlain(c)
	} else {
		runTxn(c)
	}
}

var optionCounters = []string{"opt.reverse", "opt.forward", "opt.lower", "opt.upper", "opt.keyonly", "opt.prefix", "opt.allversions", "opt.keyiter", "op.seek", "op.rewind", "op.partial", "op.reposition"}

func init() {
	core.Register(&core.Check{
		ID:    "C06",
		Level: "exploration",
		Rule: "case = one dataset on a real DB under a drawn option set (skiplist/ART memtable, value threshold 32/1024, 1/3 vlog buckets, paused or natural background compaction) built by 30-90 client operations on 6-14 keys (byte-prefix pairs a/a\\x00/ab/a\\xff, key-07/key-070, 0x00/0xFF keys, one 180-byte key; value sizes {0,10,12,thr-1,thr,thr+1,4K,40K}) interleaved with maintenance actions " +
			"{rotate, rotate+flush, l0->base, l0->l0, ingest-drain, ingest-merge, level, vlog rewrite, RunValueLogGC, close/reopen}; even cases: plain Set/Del/SetCF/DelCF (40% of them in 3 CFs) probed through DB.NewIterator (forward/reverse x lower/upper bound x key-only+ValueCopy); odd cases: transactions with 1-4 writes each (sets, deletes, ExpiresAt=1, ExpiresAt=year 2100), up to 3 snapshot-holding transactions (read-only or with pending sets/deletes/expired entries) probed through Txn.NewIterator (reverse x bounds x prefix x key-only x all-versions) and Txn.NewKeyIterator; " +
			"after every maintenance action 4 probes and at the end >= 8 more (>= 40 per dataset when few actions were drawn): each probe is 1-3 positionings on one iterator (Rewind / Seek to a key, a neighbour (key+\\x00, truncated, successor) or an out-of-range key) each followed by Next to exhaustion or 0-4 steps; oracle = reference list from the model map (per snapshot): no item outside the range (deleted, expired, out of bounds, outside prefix, before the seek target, written after the snapshot), all required items present, strictly monotone order, value equals Get/Txn.Get (ValueCopy for key-only), per-version lists for all-versions / key iterators; " +
			"keys hit by C01's known same-version-tie layouts (measured with VerifKeySources) and the internal key !NoKV!discard are filtered from both sides; under natural background compaction a probe that reports something new is repeated once with compaction paused and settled (what disappears is reported as transient); a separate two-database probe per child process observes whether key-only iterators write into engine memory (address identity) and, if so, the main datasets avoid the two triggering situations; " +
			"non-trivial = at probe time some key had entries in >=2 sources and the dataset held a deleted or expired key; distinct = distinct operation traces",
		Assumptions: []string{
			"the DB iterator walks all column families in internal-key order (handleScan relies on it): datasets that populate the lock/write column families are probed with unbounded full scans only; bounds and Seek (which address default-CF user keys) are probed on default-CF datasets",
			"all-versions mode: versions older than a tombstone/expired version of the same key are allowed but not demanded; the committed version that may share the reading transaction's timestamp with a pending write of the same key is allowed but not demanded",
			"a transaction iterator must be positioned with Rewind or Seek before use (as in Badger); the position right after NewIterator is not asserted",
			"expiry uses only ExpiresAt=1 (expired) and year 2100 (live); no sleeping",
			"keys whose point read already disagrees with the model (C01/C02/C03 territory: ART sibling keys, Txn.Get of empty values stored in tables, value-log GC re-inserting old versions) are excluded from the comparison and counted (keys_skipped_point_read_disagrees_with_model)",
			"utils.Options.Prefix and IteratorOptions.SinceTs are not asserted (not part of the statement)",
		},
		CrashIsViolation: true,
		CaseTimeout:      20 * time.Minute, // generous: firing is "inconclusive", never a verdict
		Cases: func(tier string) int {
			if tier == "thorough" {
				return 2000
			}
			return 150
		},
		Run: run,
		Finish: func(a *core.Agg) {
			min := int64(40)
			if a.Tier == "thorough" {
				min = 800
			}
			a.FloorNontrivial(int(min))
			for _, k := range optionCounters {
				a.Floor(k, min*3)
			}
			a.Floor("probes.db", min*20)
			a.Floor("probes.txn", min*20)
			a.Floor("model.shadowing_tombstones", min)
			a.Floor("model.expired_entries", min/2)
			a.Floor("model.pending_writes", min/2)
			for _, k := range []string{"action.rotate-wait", "action.compact:l0", "action.reopen"} {
				a.Floor(k, min/4)
			}
			a.Floor("action.compact:ingest-drain", min/10)
			a.Floor("action.compact:ingest-merge", min/10)
		},
	})
}

var _ = NoKV.Open
