package c06

import (
	"bytes"
	"errors"
	"fmt"
	"strings"

	NoKV "github.com/feichai0017/NoKV"
	"github.com/feichai0017/NoKV/kv"
	"github.com/feichai0017/NoKV/utils"
	"verif/harness/internal/core"
	"verif/harness/internal/dbx"
)

// twrite is one write of a transaction (committed or pending).
type twrite struct {
	val []byte
	del bool
	exp uint64
}

func (w twrite) dead() bool { return w.del || w.exp == farPast }

// holder is an open transaction holding a snapshot.
type holder struct {
	txn     *NoKV.Txn
	snap    int // number of commits visible
	update  bool
	pending map[string]twrite
	name    string
}

// txnView is the validated model for one transaction.
type txnView struct {
	h       *holder
	keys    []mitem // every key with >= 1 visible version: vers newest first; val = newest if live
	liveNow map[string]bool
	skipped map[string]bool
}

func runTxn(c *core.Case) {
	rng := c.Rng
	cfg := dbx.RandomConfig(rng)
	env, err := dbx.NewEnv(cfg, c.TempDir(), c.Count)
	if err != nil {
		c.Violation("C06|open-failed|fresh", err.Error(), cfg)
		return
	}
	var holders []*holder
	closeHolders := func() {
		for _, h := range holders {
			h.txn.Discard()
		}
		holders = nil
	}
	defer func() {
		if env.DB != nil {
			closeHolders()
		}
		_ = env.Close()
	}()
	keys := dbx.KeyPool(rng, 6+rng.Intn(9))
	artSiblings := false
	if cfg.Engine == "art" {
		// The ART index orders raw key bytes (C01's known finding covers k / k+00
		// at one version); with real versions every byte-prefix pair is affected,
		// so half of the ART datasets avoid prefix-related keys altogether.
		if rng.Intn(2) == 0 {
			var kept [][]byte
			for _, k := range keys {
				if !dbx.HasPrefixSibling(k, kept) {
					kept = append(kept, k)
				}
			}
			keys = kept
		} else {
			artSiblings = true
		}
	}
	artSib := func(cf kv.ColumnFamily, key []byte) bool {
		return artSiblings && dbx.HasPrefixSibling(key, keys)
	}
	var artRel func(key []byte, others [][]byte) bool
	if cfg.Engine == "art" {
		artRel = dbx.HasPrefixSibling
	}
	// commit log: commits[i][key] = write
	var commits []map[string]twrite
	tainted := map[string]string{}
	thr := int(cfg.ValueThreshold)
	sizes := []int{10, 12, thr - 1, thr, thr + 1, 10, 4 << 10, 0, 40 << 10}
	rep := &reporter{c: c, seen: map[string]bool{}, cfg: cfg, base: func() map[string]any {
		return map[string]any{"config": cfg, "mode": "txn", "trace": env.Trace, "layout": dbx.LayoutShape(env.DB), "tables": tableRanges(env)}
	}}
	taintScan := func() {
		for _, k := range keys {
			if tainted[string(k)] == "" {
				if t := taintOf(env, kv.CFDefault, k); t != "" {
					tainted[string(k)] = t
					c.Count("keys_tainted_by_known_tie", 1)
				}
			}
		}
	}
	nontrivial, sawDead := false, false
	hasPtr := false // some written value went to the value log

	genWrite := func(tag string) twrite {
		switch r := rng.Intn(100); {
		case r < 22:
			return twrite{del: true}
		default:
			w := twrite{val: dbx.Value(tag, sizes[rng.Intn(len(sizes))])}
			if len(w.val) >= thr {
				hasPtr = true
			}
			if r < 34 {
				w.exp = farPast
			} else if r < 46 {
				w.exp = farFuture
			}
			return w
		}
	}
	apply := func(t *NoKV.Txn, key []byte, w twrite) error {
		if w.del {
			return t.Delete(key)
		}
		e := kv.NewEntry(key, w.val)
		e.ExpiresAt = w.exp
		return t.SetEntry(e)
	}

	// visible returns the versions of key visible to h, newest first.
	visible := func(h *holder, key []byte) []mver {
		var out []mver
		if w, ok := h.pending[string(key)]; ok {
			out = append(out, mver{val: w.val, dead: w.dead(), pending: true})
		}
		for i := h.snap - 1; i >= 0; i-- {
			if w, ok := commits[i][string(key)]; ok {
				out = append(out, mver{val: w.val, dead: w.dead()})
			}
		}
		return out
	}

	buildView := func(h *holder) *txnView {
		v := &txnView{h: h, liveNow: map[string]bool{}, skipped: map[string]bool{}}
		for _, k := range keys {
			if tainted[string(k)] != "" {
				v.skipped[string(k)] = true
				continue
			}
			vers := visible(h, k)
			item, gerr := h.txn.Get(k)
			c.Count("point_reads", 1)
			wantAbsent := len(vers) == 0 || vers[0].dead
			agree := false
			var got []byte
			switch {
			case gerr != nil && !errors.Is(gerr, utils.ErrKeyNotFound):
			case wantAbsent:
				agree = gerr != nil
			default:
				if gerr == nil {
					val, verr := item.ValueCopy(nil)
					got = append([]byte{}, val...)
					agree = verr == nil && bytes.Equal(got, vers[0].val)
				}
			}
			if !agree {
				v.skipped[string(k)] = true
				c.Count("keys_skipped_point_read_disagrees_with_model", 1)
				dbgDisagree(c, fmt.Sprintf("txn engine=%s sibling=%v empty=%v wantAbsent=%v err=%v sources=%s", cfg.Engine, artSib(kv.CFDefault, k), len(vers) > 0 && len(vers[0].val) == 0, wantAbsent, gerr, env.Summary(env.DB.VerifKeySources(kv.CFDefault, k))))
				continue
			}
			if len(vers) == 0 {
				continue
			}
			if len(env.DB.VerifKeySources(kv.CFDefault, k)) >= 2 {
				nontrivial = true
			}
			// requirement flags for all-versions mode
			deadSeen := false
			for i := range vers {
				if vers[i].dead {
					deadSeen = true
					continue
				}
				vers[i].required = !deadSeen
			}
			if vers[0].pending && len(vers) > 1 {
				// the newest committed version may share the reader's timestamp with the pending write
				vers[1].required = false
			}
			m := mitem{cf: kv.CFDefault, key: k, vers: vers}
			if !vers[0].dead {
				m.val = vers[0].val
				v.liveNow[string(k)] = true
			} else {
				sawDead = true
			}
			v.keys = append(v.keys, m)
		}
		return v
	}

	prefixes := func() [][]byte {
		out := [][]byte{[]byte("a"), []byte("a\x00"), []byte("k"), []byte("key-07"), []byte("\xff"), []byte("q"), []byte("L"), []byte("z"), []byte("nope")}
		for _, k := range keys {
			if len(k) > 1 && rng.Intn(3) == 0 {
				out = append(out, k[:1+rng.Intn(len(k)-1)])
			}
		}
		return out
	}

	probe := func(v *txnView) {
		h := v.h
		cands := neighbours(rng, keys)
		opt := NoKV.IteratorOptions{Reverse: rng.Intn(2) == 0, KeyOnly: rng.Intn(3) == 0}
		kind := "txn"
		var keyIterKey []byte
		switch r := rng.Intn(10); {
		case r < 2:
			kind = "txn-keyiter"
			keyIterKey = cands[rng.Intn(len(cands))]
		case r < 5:
			kind = "txn-allversions"
			opt.AllVersions = true
		}
		if kind != "txn-keyiter" {
			opt.LowerBound, opt.UpperBound = pickBounds(rng, cands)
			if rng.Intn(3) == 0 {
				ps := prefixes()
				opt.Prefix = ps[rng.Intn(len(ps))]
			}
		}
		if opt.KeyOnly && aliasTxn && hasPtr {
			// a key-only scan over mixed inline / value-log entries overwrites engine memory (alias.go)
			opt.KeyOnly = false
			c.Count("txn_keyonly_disabled_alias_hazard", 1)
		}
		allVers := kind != "txn"
		desc := fmt.Sprintf("%s reverse=%v keyOnly=%v allVersions=%v prefix=%s lower=%s upper=%s holder=%s", kind, opt.Reverse, opt.KeyOnly, allVers, q(opt.Prefix), q(opt.LowerBound), q(opt.UpperBound), h.name)
		if kind == "txn-keyiter" {
			desc += " key=" + q(keyIterKey)
		}
		c.Count("probes.txn", 1)
		c.Count("evaluations", 1)
		if opt.Reverse {
			c.Count("opt.reverse", 1)
		} else {
			c.Count("opt.forward", 1)
		}
		if len(opt.LowerBound) > 0 {
			c.Count("opt.lower", 1)
		}
		if len(opt.UpperBound) > 0 {
			c.Count("opt.upper", 1)
		}
		if opt.KeyOnly {
			c.Count("opt.keyonly", 1)
		}
		if len(opt.Prefix) > 0 {
			c.Count("opt.prefix", 1)
		}
		if kind == "txn-allversions" {
			c.Count("opt.allversions", 1)
		}
		if kind == "txn-keyiter" {
			c.Count("opt.keyiter", 1)
		}
		if len(h.pending) > 0 {
			c.Count("probes.txn_with_pending_writes", 1)
		}
		steps := genSteps(rng, cands, false)
		for si, st := range steps {
			if si > 0 {
				c.Count("op.reposition", 1)
			}
			switch st.op {
			case "rewind":
				c.Count("op.rewind", 1)
			case "seek":
				c.Count("op.seek", 1)
			}
			if st.steps >= 0 {
				c.Count("op.partial", 1)
			}
		}
		exec := func(sink *[]pendingViolation) {
			var it *NoKV.TxnIterator
			if kind == "txn-keyiter" {
				it = h.txn.NewKeyIterator(keyIterKey, opt)
			} else {
				it = h.txn.NewIterator(opt)
			}
			defer it.Close()
			for _, st := range steps {
				switch st.op {
				case "rewind":
					it.Rewind()
				case "seek":
					it.Seek(st.target)
				}
				var rng2 []mitem
				for _, m := range v.keys {
					if !inBounds(m.key, opt.LowerBound, opt.UpperBound) {
						continue
					}
					if kind == "txn-keyiter" {
						if !bytes.Equal(m.key, keyIterKey) {
							continue
						}
					} else if len(opt.Prefix) > 0 && !bytes.HasPrefix(m.key, opt.Prefix) {
						continue
					}
					if st.op == "seek" {
						cmp := bytes.Compare(m.key, st.target)
						if (!opt.Reverse && cmp < 0) || (opt.Reverse && cmp > 0) {
							continue
						}
					}
					mm := m
					if allVers {
						anyLive := false
						for _, vv := range m.vers {
							if !vv.dead {
								anyLive = true
							}
						}
						if !anyLive {
							continue
						}
						mm.required = false // per-version requirements decide
						for _, vv := range m.vers {
							if vv.required {
								mm.required = true
							}
						}
					} else {
						if !v.liveNow[string(m.key)] {
							continue
						}
						mm.required = true
					}
					rng2 = append(rng2, mm)
				}
				sortMitems(rng2, opt.Reverse)
				var observed []obs
				exhausted := false
				for n := 0; ; n++ {
					if !it.Valid() {
						exhausted = true
						break
					}
					item := it.Item()
					if item == nil || item.Entry() == nil {
						rep.v("C06|nil-item|"+kind, "transaction iterator is Valid but Item()/Entry() is nil", map[string]any{"options": desc})
						return
					}
					e := item.Entry()
					o := obs{cf: e.CF, key: append([]byte(nil), e.Key...), ver: e.Version}
					if opt.KeyOnly {
						val, verr := item.ValueCopy(nil)
						o.val, o.verr = append([]byte{}, val...), verr
					} else {
						o.val = append([]byte{}, e.Value...)
					}
					if string(o.key) != discard && !v.skipped[string(o.key)] {
						observed = append(observed, o)
					}
					c.Count("items_observed", 1)
					if st.steps >= 0 && n >= st.steps {
						break
					}
					it.Next()
				}
				var related [][]byte
				if st.op == "seek" {
					related = append(related, st.target)
				}
				if len(opt.LowerBound) > 0 {
					related = append(related, opt.LowerBound)
				}
				if len(opt.UpperBound) > 0 {
					related = append(related, opt.UpperBound)
				}
				if kind == "txn-keyiter" {
					related = append(related, keyIterKey)
				}
				artProbe := false
				if artRel != nil {
					for _, k := range keys {
						if artRel(k, related) {
							artProbe = true
						}
					}
				}
				x := &cmpCtx{r: rep, iter: kind, artProbe: artProbe, reverse: opt.Reverse, optDesc: desc, step: st, artSib: artSib, artRel: artRel, allVers: allVers, related: related, sink: sink, tables: func() []string { return tableRanges(env) }, overlap: func() string { return levelOverlap(env) },
					pendingRel: func(key []byte, related [][]byte) bool {
						var pend [][]byte
						for k := range h.pending {
							pend = append(pend, []byte(k))
						}
						if key == nil { // any pending key related to another pending key or a related key?
							for _, pk := range pend {
								if dbx.HasPrefixSibling(pk, pend) || dbx.HasPrefixSibling(pk, related) {
									return true
								}
							}
							return false
						}
						if _, ok := h.pending[string(key)]; !ok {
							return false
						}
						return dbx.HasPrefixSibling(key, pend) || dbx.HasPrefixSibling(key, related)
					},
					detailOf: func(cf kv.ColumnFamily, key []byte) string {
						in, tie := sourceContext(env, cf, key)
						_, pend := h.pending[string(key)]
						return fmt.Sprintf("newest-in=%s same-version-in=%s pending-write=%v sources=%s", in, tie, pend, env.Summary(env.DB.VerifKeySources(cf, key)))
					},
					why: func(o obs) string {
						if o.cf != kv.CFDefault {
							return "foreign-column-family"
						}
						known := false
						for _, k := range keys {
							if bytes.Equal(k, o.key) {
								known = true
							}
						}
						if !known {
							return "never-written"
						}
						vers := visible(h, o.key)
						switch {
						case len(vers) == 0:
							for i := h.snap; i < len(commits); i++ {
								if _, ok := commits[i][string(o.key)]; ok {
									return "written-after-snapshot"
								}
							}
							return "never-written"
						case !allVers && vers[0].dead:
							what := "deleted-key"
							if !vers[0].pending && h.snap > 0 {
								for i := h.snap - 1; i >= 0; i-- {
									if w, ok := commits[i][string(o.key)]; ok {
										if !w.del {
											what = "expired-key"
										}
										break
									}
								}
							} else if vers[0].pending && !h.pending[string(o.key)].del {
								what = "expired-key"
							}
							if vers[0].pending {
								what = "pending-" + what
							}
							for _, vv := range vers[1:] {
								if !vv.dead && bytes.Equal(vv.val, o.val) {
									return "dead-newest-version-older-resurfaces"
								}
							}
							return what
						case !inBounds(o.key, opt.LowerBound, opt.UpperBound):
							return "out-of-bounds"
						case kind == "txn-keyiter" && !bytes.Equal(o.key, keyIterKey):
							return "other-key-in-key-iterator"
						case len(opt.Prefix) > 0 && kind != "txn-keyiter" && !bytes.HasPrefix(o.key, opt.Prefix):
							return "outside-prefix"
						case st.op == "seek":
							cmp := bytes.Compare(o.key, st.target)
							if (!opt.Reverse && cmp < 0) || (opt.Reverse && cmp > 0) {
								return "before-seek-target"
							}
						}
						for i := h.snap; i < len(commits); i++ {
							if w, ok := commits[i][string(o.key)]; ok && bytes.Equal(w.val, o.val) && !w.del {
								return "version-written-after-snapshot"
							}
						}
						if allVers {
							return "no-live-version-visible"
						}
						return "unexplained"
					},
					ctxOf: func(cf kv.ColumnFamily, key []byte) string {
						s := ""
						vers := visible(h, key)
						if len(vers) > 0 && !vers[0].dead && len(vers[0].val) == 0 {
							s += "empty-value,"
						}
						return s
					}}
				x.compare(observed, rng2, exhausted)
			}
		}
		runWithRetry(c, env, rep, exec)
	}

	probes := func(n int) {
		if env.DB == nil {
			return
		}
		if !cfg.Controlled {
			settle(env)
		}
		taintScan()
		// a fresh read-only transaction plus every snapshot holder
		fresh := &holder{txn: env.DB.NewTransaction(false), snap: len(commits), name: "fresh-readonly"}
		hs := append([]*holder{fresh}, holders...)
		views := make([]*txnView, len(hs))
		for i, h := range hs {
			views[i] = buildView(h)
		}
		for i := 0; i < n; i++ {
			probe(views[rng.Intn(len(views))])
		}
		fresh.txn.Discard()
	}

	nOps := 30 + rng.Intn(40)
	if c.Thorough() {
		nOps = 40 + rng.Intn(80)
	}
	done := 0
	for i := 0; i < nOps; i++ {
		r := rng.Intn(100)
		switch {
		case r < 55:
			t := env.DB.NewTransaction(true)
			ws := map[string]twrite{}
			nw := 1 + rng.Intn(4)
			var recKeys []string
			failed := false
			for j := 0; j < nw; j++ {
				k := keys[rng.Intn(len(keys))]
				w := genWrite(fmt.Sprintf("%d.%d.%d|", c.Idx, len(commits), j))
				if werr := apply(t, k, w); werr != nil {
					if errors.Is(werr, utils.ErrTxnTooBig) || errors.Is(werr, utils.ErrHotKeyWriteThrottle) {
						continue
					}
					c.Inconclusive("txn write failed: " + werr.Error())
					failed = true
					break
				}
				ws[string(k)] = w
				what := "set"
				switch {
				case w.del:
					what = "del"
				case w.exp == farPast:
					what = "set-expired"
				case w.exp == farFuture:
					what = "set-2100"
				}
				recKeys = append(recKeys, fmt.Sprintf("%s %q (%d bytes)", what, k, len(w.val)))
			}
			if failed {
				t.Discard()
				return
			}
			if cerr := t.Commit(); cerr != nil {
				env.Trace = append(env.Trace, dbx.OpRec{Op: "commit-failed", Key: strings.Join(recKeys, "; "), Result: cerr.Error()})
				c.Inconclusive("commit failed: " + cerr.Error())
				return
			}
			if len(ws) == 0 {
				continue
			}
			// count shadowing before appending
			for k, w := range ws {
				for ci := len(commits) - 1; ci >= 0; ci-- {
					if old, ok := commits[ci][k]; ok {
						if w.dead() && !old.dead() {
							c.Count("model.shadowing_tombstones", 1)
						}
						break
					}
				}
				if w.exp == farPast {
					c.Count("model.expired_entries", 1)
				}
			}
			commits = append(commits, ws)
			env.Trace = append(env.Trace, dbx.OpRec{Op: "commit", Key: strings.Join(recKeys, "; "), Ver: uint64(len(commits))})
			c.Count("commits", 1)
		case r < 65:
			if len(holders) >= 3 {
				continue
			}
			h := &holder{snap: len(commits), update: rng.Intn(3) > 0, pending: map[string]twrite{}, name: fmt.Sprintf("holder@%d", len(commits))}
			h.txn = env.DB.NewTransaction(h.update)
			var recKeys []string
			if h.update {
				h.name += "+pending"
				for j := 0; j < 1+rng.Intn(4); j++ {
					k := keys[rng.Intn(len(keys))]
					w := genWrite(fmt.Sprintf("%d.p%d.%d|", c.Idx, len(commits), j))
					if werr := apply(h.txn, k, w); werr != nil {
						continue
					}
					h.pending[string(k)] = w
					c.Count("model.pending_writes", 1)
					recKeys = append(recKeys, fmt.Sprintf("%q del=%v exp=%d (%d bytes)", k, w.del, w.exp, len(w.val)))
				}
			}
			holders = append(holders, h)
			env.Trace = append(env.Trace, dbx.OpRec{Op: "open-" + h.name, Key: strings.Join(recKeys, "; ")})
		case r < 70:
			if len(holders) > 0 {
				j := rng.Intn(len(holders))
				holders[j].txn.Discard()
				env.Trace = append(env.Trace, dbx.OpRec{Op: "discard-" + holders[j].name})
				holders = append(holders[:j], holders[j+1:]...)
			}
		default:
			action := dbx.Actions[rng.Intn(len(dbx.Actions))]
			if !cfg.Controlled && action != "rotate-wait" && action != "reopen" {
				action = "rotate"
			}
			if action == "reopen" {
				closeHolders()
			}
			if strings.HasPrefix(action, "compact:") {
				env.DB.VerifLSM().VerifWaitFlush(30e9)
				env.NoteLayout("flush")
				taintScan()
			}
			res := env.Action(action)
			if res.Err != nil {
				if env.DB == nil {
					c.Violation("C06|reopen-failed", res.Err.Error(), map[string]any{"config": cfg, "trace": env.Trace})
					return
				}
				c.Count("maintenance_errors."+action, 1)
				if strings.Contains(res.Err.Error(), "flush did not finish") {
					// a stalled flush would make every later wait run into its timeout
					c.Inconclusive("flush of an immutable memtable did not finish within 30s after " + action)
					return
				}
			}
			c.Distinct("layout_shapes", dbx.LayoutShape(env.DB))
			probes(4)
			done += 4
		}
	}
	env.NoteLayout("flush")
	rest := 40 - done
	if rest < 8 {
		rest = 8
	}
	probes(rest)
	c.Count("datasets.txn", 1)
	c.Count("cases_engine_"+cfg.Engine, 1)
	if nontrivial && sawDead {
		var sb strings.Builder
		for _, t := range env.Trace {
			sb.WriteString(t.Op + t.Key + ";")
		}
		c.Nontrivial("txn|" + sb.String())
	}
	if c.Idx < 3 {
		c.Sample(map[string]any{"mode": "txn", "config": cfg, "ops": env.Trace})
	}
}

var _ = core.Register
