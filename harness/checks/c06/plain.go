package c06

import (
	"bytes"
	"errors"
	"fmt"
	"sort"
	"strings"

	NoKV "github.com/feichai0017/NoKV"
	"github.com/feichai0017/NoKV/kv"
	"github.com/feichai0017/NoKV/utils"
	"verif/harness/internal/core"
	"verif/harness/internal/dbx"
)

type pval struct {
	val     []byte
	deleted bool
	written bool
	writes  int
}

// plainView is the validated model at one point in time.
type plainView struct {
	live    []mitem         // live (cf,key) with the point-read value, unsorted
	dead    map[string]bool // written and deleted
	skipped map[string]bool // tainted or point read disagrees with the model
}

func runPlain(c *core.Case) {
	rng := c.Rng
	cfg := dbx.RandomConfig(rng)
	env, err := dbx.NewEnv(cfg, c.TempDir(), c.Count)
	if err != nil {
		c.Violation("C06|open-failed|fresh", err.Error(), cfg)
		return
	}
	defer env.Close()
	keys := dbx.KeyPool(rng, 6+rng.Intn(9))
	artSiblings := false
	if cfg.Engine == "art" {
		if rng.Intn(2) == 0 {
			var kept [][]byte
			for _, k := range keys {
				if !dbx.HasZeroSuffixSibling(k, kept) {
					kept = append(kept, k)
				}
			}
			keys = kept
		} else {
			artSiblings = true
		}
	}
	if !cfg.Controlled {
		for i := 0; i < 24; i++ {
			keys = append(keys, []byte(fmt.Sprintf("n-%03d", i)))
		}
	}
	multiCF := rng.Intn(5) < 2
	var cks []ck
	for _, k := range keys {
		cks = append(cks, ck{kv.CFDefault, k})
		if multiCF && rng.Intn(2) == 0 {
			cks = append(cks, ck{dbx.CFs[1+rng.Intn(2)], k})
		}
	}
	model := map[string]*pval{}
	for _, k := range cks {
		model[id(k.cf, k.key)] = &pval{}
	}
	thr := int(cfg.ValueThreshold)
	sizes := []int{10, 12, thr - 1, thr, thr + 1, 10, 4 << 10, 0, 40 << 10}
	tainted := map[string]string{}
	rep := &reporter{c: c, seen: map[string]bool{}, cfg: cfg, base: func() map[string]any {
		return map[string]any{"config": cfg, "mode": "plain", "multi_cf": multiCF, "trace": env.Trace, "layout": dbx.LayoutShape(env.DB), "tables": tableRanges(env)}
	}}
	artSib := func(cf kv.ColumnFamily, key []byte) bool {
		if !artSiblings {
			return false
		}
		var same [][]byte
		for _, o := range cks {
			if o.cf == cf {
				same = append(same, o.key)
			}
		}
		return dbx.HasZeroSuffixSibling(key, same)
	}
	var artRel func(key []byte, others [][]byte) bool
	if cfg.Engine == "art" {
		artRel = dbx.HasZeroSuffixSibling
	}
	taintScan := func() {
		for _, k := range cks {
			i := id(k.cf, k.key)
			if tainted[i] == "" {
				if t := taintOf(env, k.cf, k.key); t != "" {
					tainted[i] = t
					c.Count("keys_tainted_by_known_tie", 1)
				}
			}
		}
	}
	nontrivial := false
	sawDead := false
	tieCache := map[string]string{}
	immTie := map[string]bool{}

	buildView := func() *plainView {
		v := &plainView{dead: map[string]bool{}, skipped: map[string]bool{}}
		for _, k := range cks {
			i := id(k.cf, k.key)
			m := model[i]
			if tainted[i] != "" {
				v.skipped[i] = true
				continue
			}
			e, gerr := env.DB.GetCF(k.cf, k.key)
			c.Count("point_reads", 1)
			wantAbsent := !m.written || m.deleted
			agree := false
			switch {
			case gerr != nil && !errors.Is(gerr, utils.ErrKeyNotFound):
			case wantAbsent:
				agree = gerr != nil
			default:
				agree = gerr == nil && bytes.Equal(e.Value, m.val)
			}
			if !agree {
				v.skipped[i] = true
				c.Count("keys_skipped_point_read_disagrees_with_model", 1)
				dbgDisagree(c, fmt.Sprintf("engine=%s sibling=%v sources=%s", cfg.Engine, artSib(k.cf, k.key), env.Summary(env.DB.VerifKeySources(k.cf, k.key))))
				continue
			}
			src := env.DB.VerifKeySources(k.cf, k.key)
			if len(src) >= 2 {
				nontrivial = true
			}
			imms := 0
			for _, sc := range src {
				if sc.Kind == "imm" {
					imms++
				}
			}
			if imms >= 2 {
				immTie[i] = true // two not yet flushed immutable memtables hold this key
			}
			if wantAbsent {
				if m.written {
					v.dead[i] = true
					sawDead = true
				}
				continue
			}
			v.live = append(v.live, mitem{cf: k.cf, key: k.key, val: e.Value, required: true})
		}
		return v
	}

	userKeys := func() [][]byte {
		var out [][]byte
		seen := map[string]bool{}
		for _, k := range cks {
			if !seen[string(k.key)] {
				seen[string(k.key)] = true
				out = append(out, k.key)
			}
		}
		return out
	}

	probe := func(v *plainView) {
		db := env.DB
		cands := neighbours(rng, userKeys())
		opt := &utils.Options{IsAsc: rng.Intn(2) == 0, OnlyUseKey: rng.Intn(3) == 0}
		if !multiCF {
			// bounds and Seek address user keys of the default column family;
			// datasets that populate the other column families are only probed
			// with full scans (see Assumptions).
			opt.LowerBound, opt.UpperBound = pickBounds(rng, cands)
		}
		reverse := !opt.IsAsc
		desc := fmt.Sprintf("asc=%v keyOnly=%v lower=%s upper=%s", opt.IsAsc, opt.OnlyUseKey, q(opt.LowerBound), q(opt.UpperBound))
		c.Count("probes.db", 1)
		c.Count("evaluations", 1)
		if reverse {
			c.Count("opt.reverse", 1)
		} else {
			c.Count("opt.forward", 1)
		}
		if len(opt.LowerBound) > 0 {
			c.Count("opt.lower", 1)
		}
		if len(opt.UpperBound) > 0 {
			c.Count("opt.upper", 1)
		}
		if opt.OnlyUseKey {
			c.Count("opt.keyonly", 1)
		}
		steps := genSteps(rng, cands, multiCF)
		for si, st := range steps {
			if si > 0 {
				c.Count("op.reposition", 1)
			}
			switch st.op {
			case "rewind":
				c.Count("op.rewind", 1)
			case "seek":
				c.Count("op.seek", 1)
			}
			if st.steps >= 0 {
				c.Count("op.partial", 1)
			}
		}
		exec := func(sink *[]pendingViolation) {
			it := db.NewIterator(opt)
			defer func() { _ = it.Close() }()
			sawInline := false
			for _, st := range steps {
				switch st.op {
				case "rewind":
					it.Rewind()
				case "seek":
					it.Seek(st.target)
				}
				// model range for this step
				var rng2 []mitem
				for _, m := range v.live {
					if !inBounds(m.key, opt.LowerBound, opt.UpperBound) {
						continue
					}
					if st.op == "seek" {
						cmp := cmpCK(m.cf, m.key, kv.CFDefault, st.target)
						if (!reverse && cmp < 0) || (reverse && cmp > 0) {
							continue
						}
					}
					mm := m
					mm.required = true
					rng2 = append(rng2, mm)
				}
				sortMitems(rng2, reverse)
				var observed []obs
				exhausted := false
				for n := 0; ; n++ {
					if !it.Valid() {
						exhausted = true
						break
					}
					item := it.Item()
					if item == nil || item.Entry() == nil {
						rep.v("C06|nil-item|db,"+map[bool]string{true: "rev", false: "fwd"}[reverse], "DB iterator is Valid but Item()/Entry() is nil", map[string]any{"options": desc})
						return
					}
					e := item.Entry()
					o := obs{cf: e.CF, key: append([]byte(nil), e.Key...), ver: e.Version}
					if opt.OnlyUseKey {
						ni, _ := item.(*NoKV.Item)
						isPtr := e.Meta&kv.BitValuePointer != 0
						switch {
						case ni == nil || !isPtr:
							sawInline = true
							o.val = append([]byte{}, e.Value...)
							if ni != nil {
								val, verr := ni.ValueCopy(nil)
								o.val, o.verr = append([]byte{}, val...), verr
							}
						case aliasDB && sawInline:
							// ValueCopy would overwrite engine memory (alias.go)
							o.noval = true
							c.Count("valuecopy_skipped_alias_hazard", 1)
						default:
							val, verr := ni.ValueCopy(nil)
							o.val, o.verr = append([]byte{}, val...), verr
							c.Count("valuecopy_from_value_log", 1)
						}
					} else {
						o.val = append([]byte{}, e.Value...)
					}
					if string(o.key) != discard && !v.skipped[id(o.cf, o.key)] {
						observed = append(observed, o)
					}
					c.Count("items_observed", 1)
					if st.steps >= 0 && n >= st.steps {
						break
					}
					it.Next()
				}
				var related [][]byte
				if st.op == "seek" {
					related = append(related, st.target)
				}
				if len(opt.LowerBound) > 0 {
					related = append(related, opt.LowerBound)
				}
				if len(opt.UpperBound) > 0 {
					related = append(related, opt.UpperBound)
				}
				artProbe := false
				if artRel != nil {
					for _, k := range userKeys() {
						if artRel(k, related) {
							artProbe = true
						}
					}
				}
				x := &cmpCtx{r: rep, iter: "db", artProbe: artProbe, reverse: reverse, optDesc: desc, step: st, artSib: artSib, artRel: artRel, related: related, sink: sink, tables: func() []string { return tableRanges(env) }, overlap: func() string { return levelOverlap(env) },
					detailOf: func(cf kv.ColumnFamily, key []byte) string {
						in, tie := sourceContext(env, cf, key)
						return "newest-in=" + in + " same-version-in=" + tie + " sources=" + env.Summary(env.DB.VerifKeySources(cf, key))
					},
					why: func(o obs) string {
						i := id(o.cf, o.key)
						m := model[i]
						switch {
						case m == nil || !m.written:
							return "never-written"
						case v.dead[i]:
							if len(o.val) == 0 {
								return "deleted-key-with-empty-value"
							}
							return "deleted-key-with-old-value"
						case !inBounds(o.key, opt.LowerBound, opt.UpperBound):
							return "out-of-bounds"
						case st.op == "seek":
							return "before-seek-target"
						}
						return "unexplained"
					},
					ctxOf: func(cf kv.ColumnFamily, key []byte) string {
						tie, ok := tieCache[id(cf, key)]
						if !ok {
							_, tie = sourceContext(env, cf, key)
							tieCache[id(cf, key)] = tie
						}
						s := ""
						if strings.Count(tie, "imm") >= 2 || immTie[id(cf, key)] {
							s += "same-version-in-two-immutables,"
						}
						if m := model[id(cf, key)]; m != nil && m.written && !m.deleted && len(m.val) == 0 {
							s += "empty-value,"
						}
						return s
					}}
				x.compare(observed, rng2, exhausted)
			}
		}
		runWithRetry(c, env, rep, exec)
	}

	probes := func(n int) {
		if env.DB == nil {
			return
		}
		tieCache = map[string]string{} // per batch
		immTie = map[string]bool{}
		if !cfg.Controlled {
			settle(env)
		}
		taintScan()
		v := buildView()
		for i := 0; i < n; i++ {
			probe(v)
		}
		c.Max("live_keys", len(v.live))
	}

	pick := func() (ck, bool) {
		if cfg.Controlled {
			return cks[rng.Intn(len(cks))], true
		}
		for try := 0; try < 8; try++ {
			k := cks[rng.Intn(len(cks))]
			if !model[id(k.cf, k.key)].written {
				return k, true
			}
		}
		return ck{}, false
	}
	nOps := 30 + rng.Intn(30)
	if c.Thorough() {
		nOps = 40 + rng.Intn(60)
	}
	done := 0
	// "range-batched" datasets: contiguous key ranges are written once each and
	// pushed down separately, so the deepest level ends up with several
	// non-overlapping tables (the concatenating level iterator and its
	// table-selection on Seek are only exercised by such layouts).
	if cfg.Controlled && c.Idx%6 == 0 {
		var sorted []ck
		for _, k := range cks {
			if k.cf == kv.CFDefault {
				sorted = append(sorted, k)
			}
		}
		sort.Slice(sorted, func(i, j int) bool { return bytes.Compare(sorted[i].key, sorted[j].key) < 0 })
		groups := 2 + rng.Intn(2)
		for g := 0; g < groups && len(sorted) >= groups; g++ {
			part := sorted[g*len(sorted)/groups : (g+1)*len(sorted)/groups]
			for j, k := range part {
				sz := sizes[rng.Intn(len(sizes))]
				val := dbx.Value(fmt.Sprintf("%d.b%d.%d|", c.Idx, g, j), sz)
				if werr := env.DB.SetCF(k.cf, k.key, val); werr != nil {
					c.Inconclusive("Set failed: " + werr.Error())
					return
				}
				m := model[id(k.cf, k.key)]
				m.val, m.deleted, m.written = val, false, true
				m.writes++
				env.Trace = append(env.Trace, dbx.OpRec{Op: "set", CF: k.cf.String(), Key: fmt.Sprintf("%q", k.key), Size: sz})
			}
			for _, a := range []string{"rotate-wait", "compact:l0", "compact:ingest-drain"} {
				if res := env.Action(a); res.Err != nil {
					c.Inconclusive("maintenance failed: " + res.Err.Error())
					return
				}
			}
			c.Distinct("layout_shapes", dbx.LayoutShape(env.DB))
			probes(4)
			done += 4
		}
		mainTables := 0
		for _, t := range env.DB.VerifLSM().VerifLayout().Tables {
			if !t.Ingest && t.Level > 0 {
				mainTables++
			}
		}
		c.Max("sorted_run_tables_in_one_level", mainTables)
		c.Count("datasets.plain_range_batched", 1)
		nOps = 6
	}
	for i := 0; i < nOps; i++ {
		r := rng.Intn(100)
		switch {
		case r < 52:
			k, ok := pick()
			if !ok {
				continue
			}
			sz := sizes[rng.Intn(len(sizes))]
			val := dbx.Value(fmt.Sprintf("%d.%d|", c.Idx, i), sz)
			werr := env.DB.SetCF(k.cf, k.key, val)
			rec := dbx.OpRec{Op: "set", CF: k.cf.String(), Key: fmt.Sprintf("%q", k.key), Size: sz}
			if werr != nil {
				rec.Result = werr.Error()
				env.Trace = append(env.Trace, rec)
				if !errors.Is(werr, utils.ErrTxnTooBig) && !errors.Is(werr, utils.ErrHotKeyWriteThrottle) {
					c.Inconclusive("Set failed: " + werr.Error())
					return
				}
				continue
			}
			m := model[id(k.cf, k.key)]
			m.val, m.deleted, m.written = val, false, true
			m.writes++
			env.Trace = append(env.Trace, rec)
		case r < 70:
			k, ok := pick()
			if !ok {
				continue
			}
			var werr error
			if rng.Intn(2) == 0 {
				werr = env.DB.DelCF(k.cf, k.key)
			} else {
				werr = env.DB.SetCF(k.cf, k.key, nil)
			}
			rec := dbx.OpRec{Op: "del", CF: k.cf.String(), Key: fmt.Sprintf("%q", k.key)}
			if werr != nil {
				c.Inconclusive("Del failed: " + werr.Error())
				return
			}
			m := model[id(k.cf, k.key)]
			if m.written && !m.deleted {
				c.Count("model.shadowing_tombstones", 1)
			}
			m.deleted, m.written = true, true
			m.writes++
			env.Trace = append(env.Trace, rec)
		default:
			action := dbx.Actions[rng.Intn(len(dbx.Actions))]
			if !cfg.Controlled && action != "rotate-wait" && action != "reopen" {
				action = "rotate"
			}
			if strings.HasPrefix(action, "compact:") {
				env.DB.VerifLSM().VerifWaitFlush(30e9)
				env.NoteLayout("flush")
				taintScan()
			}
			res := env.Action(action)
			if res.Err != nil {
				if env.DB == nil {
					c.Violation("C06|reopen-failed", res.Err.Error(), map[string]any{"config": cfg, "trace": env.Trace})
					return
				}
				c.Count("maintenance_errors."+action, 1)
				if strings.Contains(res.Err.Error(), "flush did not finish") {
					// a stalled flush would make every later wait run into its timeout
					c.Inconclusive("flush of an immutable memtable did not finish within 30s after " + action)
					return
				}
			}
			c.Distinct("layout_shapes", dbx.LayoutShape(env.DB))
			probes(4)
			done += 4
		}
	}
	env.NoteLayout("flush")
	rest := 40 - done
	if rest < 8 {
		rest = 8
	}
	probes(rest)
	c.Count("datasets.plain", 1)
	c.Count("cases_engine_"+cfg.Engine, 1)
	if multiCF {
		c.Count("datasets.plain_multi_cf", 1)
	}
	if nontrivial && sawDead {
		var sb strings.Builder
		for _, t := range env.Trace {
			sb.WriteString(t.Op + t.CF + t.Key + ";")
		}
		c.Nontrivial("plain|" + sb.String())
	}
	if c.Idx < 2 {
		c.Sample(map[string]any{"mode": "plain", "config": cfg, "multi_cf": multiCF, "ops": env.Trace})
	}
}

var _ = core.Register
