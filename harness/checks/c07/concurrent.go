package c07

import (
	"fmt"
	"math/rand"
	"os"
	"sync"
	"sync/atomic"
	"time"

	"github.com/feichai0017/NoKV/kv"
	"github.com/feichai0017/NoKV/utils"
)

const (
	nWriters = 8
	nReaders = 4
	// a reader stops after this many passes and waits for the writers (a count, not a time budget)
	maxReaderPasses = 16
)

type concStats struct {
	evals      int
	passes     int
	overlapped int
	lost       int
}

// runConcurrent fills a fresh structure from nWriters goroutines while nReaders
// goroutines iterate, seek and search, then runs the sequential oracle on the
// quiescent structure.
//
// Reader rules (all decided from events, never from time): before each read the
// reader loads every writer's progress counter (incremented after each Add
// returned); the entries written before those counters are "must-see".
//   - every returned key was planned and carries a value written for it;
//   - consecutive keys are strictly increasing (descending: decreasing);
//   - no must-see key lies strictly between two consecutive returned keys, before
//     the first key of a full iteration / after its last, or between a Seek
//     target and the key it landed on;
//   - Search(k) of a must-see key returns a value written for k.
func runConcurrent(eng engine, arena int64, w *world, writes []write, rng *rand.Rand) ([]finding, concStats) {
	ix := eng.mk(arena)
	defer ix.DecrRef()

	// partition the writes; remember per entry all writes (acceptable while running)
	perWriter := make([][]int, nWriters)
	ownerOf := make([]int, len(w.ents)) // -1: several writers
	for i := range ownerOf {
		ownerOf[i] = -2
	}
	run := newState(w, writes) // state used by readers: everything may be present, any write acceptable
	for i := range writes {
		wr := rng.Intn(nWriters)
		perWriter[wr] = append(perWriter[wr], i)
		e := writes[i].e
		run.accept[e] = append(run.accept[e], i)
		switch ownerOf[e] {
		case -2:
			ownerOf[e] = wr
		case wr:
		default:
			ownerOf[e] = -1
		}
	}
	for i := range run.present {
		run.present[i] = true
	}
	allPresent := func(int) bool { return true }

	done := make([]atomic.Int64, nWriters)
	var stop atomic.Bool
	var mu sync.Mutex
	var out []finding
	var stats concStats
	addFinding := func(f finding) {
		mu.Lock()
		if len(out) < 64 {
			out = append(out, f)
		}
		mu.Unlock()
	}

	var wg, rg sync.WaitGroup
	start := make(chan struct{})
	writersDone := make(chan struct{})
	for r := 0; r < nReaders; r++ {
		rg.Add(1)
		rr := rand.New(rand.NewSource(rng.Int63()))
		go func(rr *rand.Rand) {
			defer rg.Done()
			<-start
			must := make([]bool, len(w.ents))
			pre := make([]int64, nWriters)
			evals, passes, overlapped := 0, 0, 0
			for last := false; ; {
				if passes >= maxReaderPasses {
					<-writersDone // enough concurrent passes: wait, then do the final one
				}
				if stop.Load() {
					last = true // one more pass on the complete structure
				}
				sum := int64(0)
				for i := range must {
					must[i] = false
				}
				for wi := range done {
					pre[wi] = done[wi].Load()
					sum += pre[wi]
					for _, x := range perWriter[wi][:pre[wi]] {
						must[writes[x].e] = true
					}
				}
				// mustBetween reports a must-see entry at a model position in (lo, hi).
				mustBetween := func(lo, hi int) *ent {
					for p := lo + 1; p < hi; p++ {
						if must[w.order[p]] {
							return &w.ents[w.order[p]]
						}
					}
					return nil
				}
				kind := rr.Intn(5)
				switch kind {
				case 0, 1, 2, 3:
					asc := kind%2 == 0
					full := kind < 2
					it := ix.NewIterator(&utils.Options{IsAsc: asc})
					dir := "ascending"
					if !asc {
						dir = "descending"
					}
					var target *ent
					prevPos := -1
					if !asc {
						prevPos = len(w.order)
					}
					if full {
						it.Rewind()
					} else {
						t := w.ents[rr.Intn(len(w.ents))]
						if rr.Intn(2) == 0 {
							ps := probesFor(&t)
							t = ps[rr.Intn(len(ps))]
						}
						target = &t
						it.Seek(t.ik)
						if asc {
							prevPos = w.lowerPos(target) - 1
						} else {
							prevPos = w.upperPos(target) + 1
						}
					}
					var prev *ent = target
					steps := 0
					limit := 12
					if full {
						limit = 4*len(w.ents) + 16
					}
					ended := false
					for ; steps < limit; steps++ {
						if !it.Valid() {
							ended = true
							break
						}
						o := run.observe(it)
						evals++
						if o.idx < 0 {
							addFinding(finding{rule: "concurrent-unknown-key", involved: []*ent{run.obsEnt(&o)}, pairOnly: false,
								what:   fmt.Sprintf("%s reader saw key %s that no writer inserts", dir, entStr(run.obsEnt(&o))),
								detail: map[string]any{"key_hex": fmt.Sprintf("%x", o.ik)}})
							break
						}
						cur := &w.ents[o.idx]
						pos := w.pos[o.idx]
						if !run.valueOK(o.idx, o.meta, o.exp, o.val) {
							addFinding(finding{rule: "concurrent-wrong-value", involved: []*ent{cur}, pairOnly: false,
								what:   fmt.Sprintf("%s reader saw a value for %s that no writer wrote for it", dir, entStr(cur)),
								detail: map[string]any{"value_head": string(o.val[:min(len(o.val), 24)]), "meta": o.meta, "expires": o.exp}})
						}
						bad := false
						if asc && pos <= prevPos || !asc && pos >= prevPos {
							// not strictly ordered (for a Seek target that is itself stored, equality with the target is fine)
							if !(prev == target && target != nil && cmpEnt(cur, target) == 0) {
								rule := "concurrent-iter-order"
								if prev == target && target != nil {
									rule = "concurrent-seek-before-target"
								}
								addFinding(finding{rule: rule, involved: []*ent{prev, cur}, pairOnly: prev != target,
									what:   fmt.Sprintf("%s reader got %s after %s, against the internal-key order", dir, entStr(cur), entStr(prev)),
									detail: map[string]any{"direction": dir, "seek_target": entStr(target), "step": steps}})
								bad = true
							}
						}
						if !bad {
							var skipped *ent
							if asc {
								skipped = mustBetween(prevPos, pos)
							} else {
								skipped = mustBetween(pos, prevPos)
							}
							if skipped != nil {
								addFinding(finding{rule: "concurrent-missing-key", involved: []*ent{prev, skipped, cur}, pairOnly: false,
									what:   fmt.Sprintf("%s reader went from %s to %s and skipped %s, whose Add had returned before the read began", dir, entStr(prev), entStr(cur), entStr(skipped)),
									detail: map[string]any{"direction": dir, "seek_target": entStr(target), "step": steps, "skipped_hex": fmt.Sprintf("%x", skipped.ik)}})
							}
						}
						if bad {
							break
						}
						prev, prevPos = cur, pos
						it.Next()
					}
					if ended {
						var skipped *ent
						if asc {
							skipped = mustBetween(prevPos, len(w.order))
						} else {
							skipped = mustBetween(-1, prevPos)
						}
						if skipped != nil {
							addFinding(finding{rule: "concurrent-missing-key", involved: []*ent{prev, skipped}, pairOnly: false,
								what:   fmt.Sprintf("%s reader ended after %s without returning %s, whose Add had returned before the read began", dir, entStr(prev), entStr(skipped)),
								detail: map[string]any{"direction": dir, "seek_target": entStr(target), "step": steps, "skipped_hex": fmt.Sprintf("%x", skipped.ik)}})
						}
					}
					_ = it.Close()
				default:
					for n := 0; n < 24; n++ {
						i := rr.Intn(len(w.ents))
						k := &w.ents[i]
						vs := ix.Search(k.ik)
						evals++
						empty := vs.Meta == 0 && vs.ExpiresAt == 0 && len(vs.Value) == 0
						if empty {
							if must[i] {
								addFinding(finding{rule: "concurrent-search-miss", involved: []*ent{k}, pairOnly: false,
									what:   fmt.Sprintf("Search(%s) found nothing although its Add had returned before the call", entStr(k)),
									detail: map[string]any{"probe_hex": fmt.Sprintf("%x", k.ik)}})
							}
							continue
						}
						e, _, ok := valueID(vs.Value)
						if !ok || e < 0 || e >= len(w.ents) || !run.valueOK(e, vs.Meta, vs.ExpiresAt, vs.Value) {
							addFinding(finding{rule: "concurrent-search-wrong-value", involved: []*ent{k}, pairOnly: false,
								what:   fmt.Sprintf("Search(%s) returned a value no writer wrote", entStr(k)),
								detail: map[string]any{"value_head": string(vs.Value[:min(len(vs.Value), 24)])}})
							continue
						}
						got := &w.ents[e]
						// while k is possibly absent an older version of the same user key is a correct answer
						if got != k && (must[i] || !sameUser(got, k) || got.v > k.v) {
							addFinding(finding{rule: "concurrent-search-mismatch", involved: []*ent{k, got}, pairOnly: false,
								what:   fmt.Sprintf("Search(%s) answered with the value of %s", entStr(k), entStr(got)),
								detail: map[string]any{"probe_hex": fmt.Sprintf("%x", k.ik), "must_see": must[i]}})
						}
					}
				}
				passes++
				after := int64(0)
				for wi := range done {
					after += done[wi].Load()
				}
				if after != sum {
					overlapped++
				}
				if last {
					break
				}
			}
			mu.Lock()
			stats.evals += evals
			stats.passes += passes
			stats.overlapped += overlapped
			mu.Unlock()
		}(rr)
	}
	for wi := 0; wi < nWriters; wi++ {
		wg.Add(1)
		go func(wi int) {
			defer wg.Done()
			<-start
			for _, x := range perWriter[wi] {
				wr := &writes[x]
				e := &w.ents[wr.e]
				ix.Add(&kv.Entry{Key: e.ik, Value: wr.val, Meta: wr.meta, ExpiresAt: wr.exp, Version: e.v})
				done[wi].Add(1)
			}
		}(wi)
	}
	tStart := time.Now()
	close(start)
	wg.Wait()
	tW := time.Since(tStart)
	stop.Store(true)
	close(writersDone)
	rg.Wait()
	tR := time.Since(tStart)
	defer func() {
		if os.Getenv("VERIF_C07_DEBUG") != "" {
			fmt.Fprintf(os.Stderr, "  concurrent %s: writers %v, readers done %v, total %v, passes %d\n", eng.name, tW, tR, time.Since(tStart), stats.passes)
		}
	}()

	// quiescent: everything must be there; an entry written by one writer holds its last write
	fin := newState(w, writes)
	for i := range fin.present {
		fin.present[i] = true
	}
	for wi := range perWriter {
		for _, x := range perWriter[wi] {
			e := writes[x].e
			if ownerOf[e] == wi {
				fin.accept[e] = append(fin.accept[e][:0], x) // program order: last one stays
			} else {
				fin.accept[e] = append(fin.accept[e], x)
			}
		}
	}
	// lost inserts: entries that the quiescent structure returns neither from a full
	// forward iteration nor from an exact Search
	lost := map[string]bool{}
	{
		seen := make([]bool, len(w.ents))
		it := ix.NewIterator(&utils.Options{IsAsc: true})
		n := 0
		for it.Rewind(); it.Valid() && n < 4*len(w.ents)+16; it.Next() {
			if i, ok := w.byIK[string(it.Item().Entry().Key)]; ok {
				seen[i] = true
			}
			n++
		}
		_ = it.Close()
		for i := range w.ents {
			if seen[i] {
				continue
			}
			vs := ix.Search(w.ents[i].ik)
			if e, _, ok := valueID(vs.Value); ok && e == i {
				continue
			}
			lost[string(w.ents[i].ik)] = true
		}
		stats.lost = len(lost)
	}
	readerFindings := len(out)
	out = append(out, fin.checkIter(ix, true)...)
	out = append(out, fin.checkIter(ix, false)...)
	step := 1 + len(w.ents)/120
	for i := 0; i < len(w.ents); i += step {
		k := &w.ents[i]
		out = append(out, fin.checkSearch(ix, k)...)
		out = append(out, fin.checkSeek(ix, k, true, 1)...)
		out = append(out, fin.checkSeek(ix, k, false, 1)...)
	}
	// A reader that missed a must-see key saw a lost insert if the key is still
	// lost now, or - when nothing else explains it - if the key was written more
	// than once (a later write put it back). A key written exactly once that a
	// reader missed but that is present now stays unexplained.
	rewritten := map[string]bool{}
	for e := range run.accept {
		if len(run.accept[e]) > 1 {
			rewritten[string(w.ents[e].ik)] = true
		}
	}
	for i := range out {
		out[i].resolve(w, allPresent, lost)
		if out[i].ctx == "" && i < readerFindings {
			out[i].resolve(w, allPresent, rewritten)
		}
		if out[i].ctx == "" && i < readerFindings {
			// a reader did not get a key whose Add had returned, the key was written
			// once and is present now: one canonical name for this family
			switch out[i].rule {
			case "concurrent-search-miss", "concurrent-search-mismatch", "concurrent-missing-key":
				out[i].ctx = "concurrent-transient-miss"
			}
		}
	}
	stats.evals += fin.evals
	return out, stats
}
