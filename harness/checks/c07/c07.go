// Package c07: both memtable engines behave as the same ordered map.
//
// utils.NewSkiplist and utils.NewART are driven directly with the same generated
// multisets of internal keys. The oracle is a sorted slice under an independent
// comparator written from the statement (column family and user key ascending,
// version descending): Search, forward / reverse iteration and Seek (+Next) of
// each engine are compared with it, first after sequential inserts, then on a
// fresh structure filled by 8 concurrent writers while 4 readers iterate, seek
// and search (readers must see strictly ordered keys, every key whose Add had
// returned before the read began, and only acceptable values). The children run
// the -race build; reports inside utils/art.go, utils/skiplist.go, utils/arena.go
// are violations.
package c07

import (
	"bytes"
	"crypto/sha256"
	"encoding/json"
	"fmt"
	"math/rand"
	"os"
	"os/exec"
	"runtime/pprof"
	"sort"
	"strconv"
	"strings"
	"time"

	"github.com/feichai0017/NoKV/kv"
	"github.com/feichai0017/NoKV/utils"
	"verif/harness/internal/core"
)

type seqPlan struct {
	w           *world
	writes      []write
	checkpoints map[int]bool // number of applied writes after which a full check runs
	probes      []ent
	seekSteps   int
	arena       int64
}

// runSequential inserts the writes in order into a fresh structure and runs the
// whole oracle at each checkpoint and at the end. It is a pure function of its
// inputs (the shrinker re-runs it).
func runSequential(eng engine, p *seqPlan) (out []finding, evals int, memSize int64) {
	ix := eng.mk(p.arena)
	defer ix.DecrRef()
	st := newState(p.w, p.writes)
	check := func() {
		from := len(out)
		out = append(out, st.checkIter(ix, true)...)
		out = append(out, st.checkIter(ix, false)...)
		for i := range p.probes {
			k := &p.probes[i]
			out = append(out, st.checkSearch(ix, k)...)
			out = append(out, st.checkSeek(ix, k, true, p.seekSteps)...)
			out = append(out, st.checkSeek(ix, k, false, p.seekSteps)...)
		}
		for i := from; i < len(out); i++ {
			out[i].resolve(p.w, st.isPresent, nil) // context from the entries stored at this moment
		}
	}
	for i := range p.writes {
		wr := &p.writes[i]
		e := &p.w.ents[wr.e]
		ix.Add(&kv.Entry{Key: e.ik, Value: wr.val, Meta: wr.meta, ExpiresAt: wr.exp, Version: e.v})
		st.apply(i)
		if p.checkpoints[i+1] && i+1 < len(p.writes) {
			check()
		}
	}
	check()
	return out, st.evals, ix.MemSize()
}

// shrink greedily removes entries while the engine still produces the given
// signature, and returns the smallest insertion sequence found.
func shrink(eng engine, ents []ent, writes []write, sig string, budget int) []string {
	type item struct {
		e ent
		w write
	}
	var items []item
	for _, wr := range writes {
		items = append(items, item{ents[wr.e], wr})
	}
	reproduces := func(its []item) bool {
		var es []ent
		idx := map[string]int{}
		var ws []write
		for _, it := range its {
			i, ok := idx[string(it.e.ik)]
			if !ok {
				i = len(es)
				idx[string(it.e.ik)] = i
				es = append(es, it.e)
			}
			ws = append(ws, mkWrite(i, len(ws), it.w.meta, it.w.exp, 0))
		}
		w := newWorld(es)
		var probes []ent
		for i := range es {
			probes = append(probes, probesFor(&es[i])...)
		}
		fs, _, _ := runSequential(eng, &seqPlan{w: w, writes: ws, probes: probes, seekSteps: 2, arena: 1 << 20})
		for i := range fs {
			if fs[i].signature(eng.name) == sig {
				return true
			}
		}
		return false
	}
	if !reproduces(items) {
		return nil
	}
	budget--
	chunk := len(items) / 2
	if chunk < 1 {
		chunk = 1
	}
	for budget > 0 {
		removed := false
		for start := 0; start < len(items) && budget > 0; {
			end := start + chunk
			if end > len(items) {
				end = len(items)
			}
			cand := append(append([]item{}, items[:start]...), items[end:]...)
			budget--
			if len(cand) > 0 && reproduces(cand) {
				items = cand
				removed = true
			} else {
				start = end
			}
		}
		if chunk == 1 && !removed {
			break
		}
		if chunk > 1 {
			chunk /= 2
		}
	}
	var desc []string
	for _, it := range items {
		desc = append(desc, fmt.Sprintf("Add %s (internal key %x)", it.e.String(), it.e.ik))
	}
	return desc
}

func describeEnts(ents []ent, max int) []string {
	var out []string
	for i := range ents {
		if i >= max {
			out = append(out, fmt.Sprintf("... %d more", len(ents)-max))
			break
		}
		out = append(out, fmt.Sprintf("%s %x", ents[i].String(), ents[i].ik))
	}
	return out
}

// sink receives what a case observes. In the case process it is the core.Case;
// in the skiplist worker process it is collected and printed as JSON.
type sink interface {
	Count(name string, n int)
	Max(name string, v int)
	Violation(signature, what string, detail any)
}

type memSink struct {
	Counts map[string]int `json:"counts"`
	Maxes  map[string]int `json:"maxes"`
	Viols  []memViol      `json:"violations"`
}

type memViol struct {
	Sig    string `json:"sig"`
	What   string `json:"what"`
	Detail any    `json:"detail"`
}

func (m *memSink) Count(name string, n int) { m.Counts[name] += n }
func (m *memSink) Max(name string, v int) {
	if v > m.Maxes[name] {
		m.Maxes[name] = v
	}
}
func (m *memSink) Violation(sig, what string, detail any) {
	m.Viols = append(m.Viols, memViol{sig, what, detail})
}

// casePlan is everything a case derives from its seed before touching an engine.
type casePlan struct {
	idx       int
	class     string
	ks        *keyset
	w         *world
	writes    []write
	probes    []ent
	cps       map[int]bool
	arena     int64
	concSeeds []int64 // one per engine
	cw        *world  // key set and writes of the concurrent phase (a subset for large cases)
	cwrites   []write
	zeroPairs int
	inverted  int
	thorough  bool
}

func buildPlan(seed int64, idx int, tier string) *casePlan {
	rng := rand.New(rand.NewSource(core.CaseSeed(seed, "C07", idx)))
	p := &casePlan{idx: idx, class: classes[idx%len(classes)], thorough: tier == "thorough"}
	large := idx%23 == 7
	p.ks = genKeyset(rng, p.class, large)
	p.w = newWorld(p.ks.ents)
	p.zeroPairs, p.inverted = patternStats(p.w)

	// writes: every entry once, ~15% twice (the later write must win), random order
	var order []int
	for i := range p.ks.ents {
		order = append(order, i)
		if rng.Intn(7) == 0 {
			order = append(order, i)
		}
	}
	rng.Shuffle(len(order), func(i, j int) { order[i], order[j] = order[j], order[i] })
	bigValues := (idx%29 == 3 || (large && rng.Intn(2) == 0)) && os.Getenv("VERIF_C07_NOBIG") == ""
	for seq, e := range order {
		pad := rng.Intn(40)
		if bigValues {
			// enough to fill two to three 1 MiB chunks, whatever the number of writes
			per := (2<<20 + rng.Intn(1<<20)) / len(order)
			if per < 300 {
				per = 300
			}
			if per > 6000 {
				per = 6000
			}
			pad = per/2 + rng.Intn(per)
		} else if rng.Intn(50) == 0 {
			pad = 70000 // larger than a uint16 length
		}
		exp := []uint64{0, 0, 1, 1 << 40, ^uint64(0)}[rng.Intn(5)]
		p.writes = append(p.writes, mkWrite(e, seq, byte(rng.Intn(256)), exp, pad))
	}
	p.arena = []int64{1 << 20, 1 << 20, 4096, 3 << 20, 0}[rng.Intn(5)]
	if idx%16 != 5 && p.arena == 0 {
		p.arena = 1 << 20 // default (64 MiB) arena only in 1/16 of the cases that draw it
	}

	// probes: neighbours of every entry, sampled down for large sets
	for i := range p.ks.ents {
		p.probes = append(p.probes, probesFor(&p.ks.ents[i])...)
	}
	for i := 0; i < 8; i++ {
		p.probes = append(p.probes, mkEnt(byte(rng.Intn(3)), randBytes(rng, 1+rng.Intn(6), alphabets[rng.Intn(len(alphabets))]), pickVersion(rng)))
	}
	maxProbes := 200
	if p.thorough {
		maxProbes = 500
	}
	if len(p.probes) > maxProbes {
		rng.Shuffle(len(p.probes), func(i, j int) { p.probes[i], p.probes[j] = p.probes[j], p.probes[i] })
		p.probes = p.probes[:maxProbes]
	}
	p.cps = map[int]bool{}
	if len(p.writes) <= 150 || p.thorough && len(p.writes) <= 400 {
		p.cps[1+rng.Intn(len(p.writes))] = true
	}
	for range engines {
		p.concSeeds = append(p.concSeeds, rng.Int63())
	}
	p.cw, p.cwrites = p.w, p.writes
	if len(p.writes) > maxConcurrentWrites {
		// the concurrent phase of a large case inserts the first maxConcurrentWrites writes only
		remap := map[int]int{}
		var ents []ent
		var cws []write
		for _, wr := range p.writes[:maxConcurrentWrites] {
			i, ok := remap[wr.e]
			if !ok {
				i = len(ents)
				remap[wr.e] = i
				ents = append(ents, p.ks.ents[wr.e])
			}
			nw := mkWrite(i, len(cws), wr.meta, wr.exp, 0)
			nw.val = append(nw.val, wr.val[bytes.IndexByte(wr.val, '|')+1:]...)
			cws = append(cws, nw)
		}
		p.cw, p.cwrites = newWorld(ents), cws
	}
	return p
}

// chunkSize mirrors the documented arena behaviour: chunks of min(arena, 64 MiB), at least 1 MiB.
func chunkSize(arena int64) int64 {
	if arena <= 0 || arena > 64<<20 {
		return 64 << 20
	}
	if arena < 1<<20 {
		return 1 << 20
	}
	return arena
}

// skiplistBytes is a generous estimate of what the writes occupy in a skiplist arena.
func (p *casePlan) skiplistBytes() int64 {
	n := int64(0)
	for i := range p.writes {
		n += int64(len(p.w.ents[p.writes[i].e].ik)+len(p.writes[i].val)) + 160
	}
	return n
}

// runEngine runs the sequential and the concurrent phase of one engine.
func runEngine(out sink, p *casePlan, ei int, arena int64, replay bool) {
	eng := engines[ei]
	seenSig := map[string]int{}
	report := func(phase string, fs []finding) {
		for i := range fs {
			f := &fs[i]
			sig := f.signature(eng.name)
			seenSig[sig]++
			out.Count("disagreements."+sig, 1)
			if seenSig[sig] > 1 {
				continue
			}
			d := map[string]any{"engine": eng.name, "phase": phase, "rule": f.rule, "class": p.class, "arena": arena,
				"entries": len(p.ks.ents), "zero_padding_pairs_in_set": p.zeroPairs, "inverted_pairs_in_set": p.inverted}
			for k, v := range f.detail {
				d[k] = v
			}
			if len(p.ks.ents) <= 48 {
				d["keyset"] = describeEnts(p.ks.ents, 48)
			}
			if phase == "sequential" && (f.ctx == "" || replay || os.Getenv("VERIF_C07_SHRINK") != "") && os.Getenv("VERIF_C07_NOSHRINK") == "" {
				d["minimal_insert_sequence"] = shrink(eng, p.ks.ents, p.writes, sig, 400)
			}
			out.Violation(sig, eng.name+": "+f.what, d)
		}
	}
	t0 := time.Now()
	lap := func(what string) {
		if os.Getenv("VERIF_C07_DEBUG") != "" {
			fmt.Fprintf(os.Stderr, "C07 case %d %s %s: %v\n", p.idx, what, eng.name, time.Since(t0))
			t0 = time.Now()
		}
	}
	sp := &seqPlan{w: p.w, writes: p.writes, checkpoints: p.cps, probes: p.probes, seekSteps: 2, arena: arena}
	fs, evals, mem := runSequential(eng, sp)
	lap("sequential")
	out.Count("evaluations", evals)
	out.Count("evaluations."+eng.name, evals)
	out.Count("sequential_runs."+eng.name, 1)
	if mem > chunkSize(arena) {
		out.Count("multi_chunk_arena_runs."+eng.name, 1)
	}
	report("sequential", fs)
	cfs, st := runConcurrent(eng, arena, p.cw, p.cwrites, rand.New(rand.NewSource(p.concSeeds[ei])))
	lap("concurrent")
	out.Count("evaluations", st.evals)
	out.Count("evaluations."+eng.name, st.evals)
	out.Count("concurrent_runs."+eng.name, 1)
	out.Count("reader_passes."+eng.name, st.passes)
	out.Count("reader_passes_overlapping_inserts."+eng.name, st.overlapped)
	out.Count("reader_passes_overlapping_inserts", st.overlapped)
	out.Count("entries_lost_after_concurrent_inserts."+eng.name, st.lost)
	report("concurrent", cfs)
}

const maxConcurrentWrites = 600

const skiplistWorker = "c07-skiplist-native-arena"

// The skiplist allocates its nodes truncated to their tower height; a node that
// lands within the last bytes of an arena chunk makes the -race build's pointer
// checker (checkptr) abort the whole process. A case whose skiplist would fill a
// chunk therefore runs the skiplist twice: in this process with an arena large
// enough to stay inside one chunk, and with the drawn arena size in a worker
// process whose death is attributed to exactly this case.
func runSkiplistWorker(c *core.Case, p *casePlan) (completed bool) {
	cmd := exec.Command(core.SelfExe(), "worker", skiplistWorker, strconv.FormatInt(c.Seed, 10), c.Tier, strconv.Itoa(c.Idx))
	var stdout, stderr bytes.Buffer
	cmd.Stdout, cmd.Stderr = &stdout, &stderr
	err := cmd.Run()
	c.Count("skiplist_native_arena_worker_runs", 1)
	var res memSink
	// a worker that completed prints its result; its exit status may still be
	// non-zero when the race detector reported something (reports are collected
	// from the GORACE log files by the runner)
	if jerr := json.Unmarshal(stdout.Bytes(), &res); jerr == nil && res.Counts != nil {
		for k, v := range res.Counts {
			c.Count(k, v)
		}
		for k, v := range res.Maxes {
			c.Max(k, v)
		}
		for _, v := range res.Viols {
			c.Violation(v.Sig, v.What, v.Detail)
		}
		return true
	}
	c.Count("skiplist_native_arena_worker_deaths", 1)
	reportWorkerDeath(c, err, stderr.String(), map[string]any{"engine": "skiplist", "arena": p.arena, "entries": len(p.ks.ents), "writes": len(p.writes),
		"estimated_arena_bytes": p.skiplistBytes()})
	return false
}

const chunkEndWorker = "c07-skiplist-chunk-end"

// chunkEndMain fills a skiplist with 1 MiB arena chunks with ~7 MiB of small
// entries (six chunk ends, each almost certainly with a truncated node in its
// last bytes) and checks it as an ordered map.
func chunkEndMain(args []string) int {
	const n = 100000
	sl := engines[0].mk(1 << 20)
	ents := make([]ent, n)
	for i := 0; i < n; i++ {
		j := (i*7919 + 13) % n // a fixed permutation
		ents[j] = mkEnt(0, []byte(fmt.Sprintf("key-%08d", j)), 1)
		sl.Add(&kv.Entry{Key: ents[j].ik, Value: []byte(strconv.Itoa(j)), Version: 1})
	}
	it := sl.NewIterator(&utils.Options{IsAsc: true})
	i := 0
	for it.Rewind(); it.Valid(); it.Next() {
		e := it.Item().Entry()
		if i >= n || !bytes.Equal(e.Key, ents[i].ik) || string(e.Value) != strconv.Itoa(i) {
			fmt.Printf("mismatch at position %d", i)
			return 0
		}
		i++
	}
	_ = it.Close()
	if i != n {
		fmt.Printf("iteration returned %d of %d entries", i, n)
		return 0
	}
	for i := 0; i < n; i += 7 {
		if string(sl.Search(ents[i].ik).Value) != strconv.Itoa(i) {
			fmt.Printf("Search missed entry %d", i)
			return 0
		}
	}
	fmt.Printf("ok chunks=%d", sl.MemSize()>>20+1)
	return 0
}

func runChunkEndProbe(c *core.Case) {
	cmd := exec.Command(core.SelfExe(), "worker", chunkEndWorker)
	var stdout, stderr bytes.Buffer
	cmd.Stdout, cmd.Stderr = &stdout, &stderr
	err := cmd.Run()
	c.Count("skiplist_chunk_end_probe_runs", 1)
	c.Count("evaluations", 1)
	out := stdout.String()
	if err == nil && strings.HasPrefix(out, "ok") {
		c.Count("skiplist_chunk_end_probe_passed", 1)
		return
	}
	if err == nil {
		c.Violation("C07|skiplist|chunk-end-probe-mismatch", "skiplist with 100000 small entries over several 1 MiB chunks: "+out, map[string]any{"engine": "skiplist"})
		return
	}
	reportWorkerDeath(c, err, stderr.String(), map[string]any{"engine": "skiplist", "arena": 1 << 20, "workload": "100000 sequential Adds of 12-byte user keys (fixed permutation), then full iteration"})
}

func reportWorkerDeath(c *core.Case, err error, tail string, detail map[string]any) {
	first := ""
	for _, l := range strings.Split(tail, "\n") {
		if strings.HasPrefix(l, "fatal error:") || strings.HasPrefix(l, "panic:") {
			first = l
			break
		}
	}
	if len(tail) > 6000 {
		tail = tail[:6000]
	}
	detail["exit"] = fmt.Sprint(err)
	detail["stderr_head"] = tail
	ptrCheck := strings.Contains(first, "checkptr") || strings.Contains(first, "found bad pointer in Go heap")
	if ptrCheck && strings.Contains(tail, "utils.(*Arena).getNode") {
		c.Count("skiplist_worker_deaths_checkptr", 1)
		c.Violation("C07|skiplist|checkptr-truncated-node-at-chunk-end",
			"skiplist: the race build's pointer checker aborted the process in Arena.getNode: a node truncated to its tower height lies at the end of an arena chunk, so *node extends past the allocation: "+first, detail)
		return
	}
	cls := strings.Map(func(r rune) rune {
		if r >= '0' && r <= '9' {
			return -1
		}
		return r
	}, first)
	if len(cls) > 80 {
		cls = cls[:80]
	}
	c.Violation("C07|skiplist|worker-death|"+cls, "skiplist worker process died: "+first, detail)
}

func workerMain(args []string) int {
	if len(args) != 3 {
		return 2
	}
	seed, _ := strconv.ParseInt(args[0], 10, 64)
	idx, _ := strconv.Atoi(args[2])
	p := buildPlan(seed, idx, args[1])
	res := &memSink{Counts: map[string]int{}, Maxes: map[string]int{}}
	runEngine(res, p, 0, p.arena, os.Getenv("VERIF_C07_SHRINK") != "")
	b, _ := json.Marshal(res)
	os.Stdout.Write(b)
	return 0
}

func run(c *core.Case) {
	if c.Idx == 0 {
		runChunkEndProbe(c)
	}
	p := buildPlan(c.Seed, c.Idx, c.Tier)
	ks, w := p.ks, p.w
	if pf := os.Getenv("VERIF_C07_PROF"); pf != "" {
		f, _ := os.Create(pf)
		_ = pprof.StartCPUProfile(f)
		defer func() { pprof.StopCPUProfile(); f.Close() }()
	}
	c.Count("keysets."+p.class, 1)
	c.Count("entries", len(ks.ents))
	c.Max("entries_per_keyset", len(ks.ents))
	c.Max("sibling_fanout_by_construction", ks.fanout)
	c.Max("versions_per_user_key", ks.maxVersions)
	switch {
	case p.zeroPairs == 0 && p.inverted == 0:
		c.Count("keysets_without_known_bad_patterns", 1)
		prefixPairs := 0
		for q := 0; q+1 < len(w.order); q++ {
			if prefixRelated(&w.ents[w.order[q]], &w.ents[w.order[q+1]]) {
				prefixPairs++
			}
		}
		if prefixPairs > 0 {
			c.Count("keysets_prefix_related_but_order_preserving", 1)
		}
	default:
		if p.zeroPairs > 0 {
			c.Count("keysets_with_zero_padding_pairs", 1)
		}
		if p.inverted > 0 {
			c.Count("keysets_with_inverted_prefix_pairs", 1)
		}
	}

	for ei, eng := range engines {
		arena := p.arena
		if eng.name == "skiplist" {
			if est := p.skiplistBytes(); 2*est > chunkSize(p.arena) {
				// stay well inside one chunk here; the drawn arena size runs in a worker
				arena = 1 << 20
				for arena < 4*est {
					arena *= 2
				}
				if runSkiplistWorker(c, p) {
					continue // the worker ran this engine with the drawn arena size
				}
			}
		}
		runEngine(c, p, ei, arena, c.Replay)
	}

	users := map[string]int{}
	multi := false
	for i := range ks.ents {
		k := string([]byte{ks.ents[i].cf}) + string(ks.ents[i].u)
		users[k]++
		if users[k] >= 2 {
			multi = true
		}
	}
	if len(users) >= 2 && multi {
		h := sha256.New()
		iks := make([]string, 0, len(ks.ents))
		for i := range ks.ents {
			iks = append(iks, string(ks.ents[i].ik))
		}
		sort.Strings(iks)
		for _, s := range iks {
			h.Write([]byte(s))
			h.Write([]byte{0xFF, 0x00, 0xFF})
		}
		c.Nontrivial(fmt.Sprintf("%x", h.Sum(nil)))
	}
	if c.Idx < 6 {
		c.Sample(map[string]any{"case": c.Idx, "class": p.class, "entries": len(ks.ents), "writes": len(p.writes), "arena": p.arena,
			"zero_padding_pairs": p.zeroPairs, "inverted_pairs": p.inverted, "first_keys": describeEnts(ks.ents, 6)})
	}
}

func init() {
	core.RegisterWorker(skiplistWorker, workerMain)
	core.RegisterWorker(chunkEndWorker, chunkEndMain)
	core.Register(&core.Check{
		ID:    "C07",
		Level: "exploration",
		Rule: "one case = one generated multiset of internal keys (class by case index: prefix-free random keys, shared-prefix fan-out 5..256, hundreds of versions per key, " +
			"prefix chains at the max version, prefix chains at ordinary versions, zero-suffix siblings, mixed; user keys 1..300 bytes over several alphabets incl. 0x00/0xFF; versions incl. 0 and MaxUint64; 3 column families) " +
			"inserted in random order with overwrites into utils.NewSkiplist and utils.NewART (arena 4 KiB..64 MiB), checked at a checkpoint and at the end, then inserted again by 8 concurrent writers with 4 concurrent readers; " +
			"oracle = sorted slice under an independent comparator; evaluations = Search/Seek/Next/iteration comparisons; non-trivial/distinct = distinct key sets with >=2 user keys and >=2 versions of one user key",
		Assumptions: []string{
			"user keys are 1..300 bytes (the public API rejects empty keys); Search's contract is 'value of the first entry >= key if it has the same user key' (utils doc comment and DESIGN §4)",
			"ValueStruct.Version is documented as not serialised and is not compared",
			"a reader running concurrently with inserts must see keys in strictly increasing (reverse: decreasing) internal-key order and every key whose Add returned before the read started",
		},
		Cases: func(tier string) int {
			if v, err := strconv.Atoi(os.Getenv("VERIF_C07_CASES")); err == nil && v > 0 {
				return v // debugging aid (planted-break runs); the floors will not be met
			}
			if tier == "thorough" {
				return 3000
			}
			return 320
		},
		Run:              run,
		Race:             true,
		RaceFiles:        []string{"utils/art.go", "utils/skiplist.go", "utils/arena.go"},
		CrashIsViolation: true,
		Finish: func(a *core.Agg) {
			min := int64(1)
			if a.Tier == "thorough" {
				min = 12 // 3000 cases against 320: the floors scale with a margin for the seed
			}
			a.Floor("keysets_without_known_bad_patterns", 100*min)
			a.Floor("keysets_prefix_related_but_order_preserving", 20*min)
			a.Floor("keysets_with_zero_padding_pairs", 10*min)
			a.Floor("keysets_with_inverted_prefix_pairs", 20*min)
			a.Floor("reader_passes_overlapping_inserts", 200*min)
			a.Floor("sibling_fanout_by_construction", 256)
			a.Floor("versions_per_user_key", 200)
			a.Floor("multi_chunk_arena_runs.art", 1)
			a.Floor("multi_chunk_arena_runs.skiplist", 1)
			a.FloorNontrivial(100)
		},
	})
}
