package c07

import (
	"bytes"
	"fmt"
	"strconv"

	"github.com/feichai0017/NoKV/kv"
	"github.com/feichai0017/NoKV/utils"
)

// index is the surface both memtable engines export.
type index interface {
	Add(*kv.Entry)
	Search([]byte) kv.ValueStruct
	NewIterator(*utils.Options) utils.Iterator
	MemSize() int64
	DecrRef()
}

type engine struct {
	name string
	mk   func(arena int64) index
}

var engines = []engine{
	{"skiplist", func(a int64) index { return utils.NewSkiplist(a) }},
	{"art", func(a int64) index { return utils.NewART(a) }},
}

// write is one Add call. The value starts with "<ent>.<seq>|" so that whatever
// an engine returns identifies the write (and therefore the key) it came from.
type write struct {
	e    int
	seq  int
	meta byte
	exp  uint64
	val  []byte
}

func mkWrite(e, seq int, meta byte, exp uint64, pad int) write {
	head := []byte(strconv.Itoa(e) + "." + strconv.Itoa(seq) + "|")
	val := make([]byte, len(head)+pad)
	copy(val, head)
	for i := len(head); i < len(val); i++ {
		val[i] = byte(e*31 + seq*7 + i)
	}
	return write{e: e, seq: seq, meta: meta, exp: exp, val: val}
}

func valueID(v []byte) (e, seq int, ok bool) {
	bar := bytes.IndexByte(v, '|')
	if bar <= 0 || bar > 24 {
		return 0, 0, false
	}
	dot := bytes.IndexByte(v[:bar], '.')
	if dot <= 0 {
		return 0, 0, false
	}
	e, err1 := strconv.Atoi(string(v[:dot]))
	seq, err2 := strconv.Atoi(string(v[dot+1 : bar]))
	return e, seq, err1 == nil && err2 == nil
}

// finding is one oracle rejection before it is turned into a violation.
type finding struct {
	rule     string // which oracle rule rejected
	involved []*ent // probe / expected / observed (or misplaced, missing) keys
	pairOnly bool   // see classify
	ctx      string // structural context, set by resolve ("" = none)
	what     string
	detail   map[string]any
}

// resolve names the structural context of the finding (see classify).
func (f *finding) resolve(w *world, present func(int) bool, lost map[string]bool) {
	f.ctx = classify(w, present, lost, f.involved, f.pairOnly)
}

func (f *finding) signature(eng string) string {
	if f.ctx != "" {
		return "C07|" + eng + "|" + f.ctx
	}
	return "C07|" + eng + "|" + f.rule
}

// state is the model of one structure: which entries it must hold and which
// writes are acceptable as their current value.
type state struct {
	w       *world
	writes  []write
	present []bool
	accept  [][]int // ent -> acceptable write indices (sequential: exactly the last one)
	evals   int
}

func newState(w *world, writes []write) *state {
	return &state{w: w, writes: writes, present: make([]bool, len(w.ents)), accept: make([][]int, len(w.ents))}
}

func (s *state) isPresent(i int) bool { return s.present[i] }

func (s *state) apply(wi int) {
	e := s.writes[wi].e
	s.present[e] = true
	s.accept[e] = append(s.accept[e][:0], wi)
}

// nextPresent returns the first present position >= p (len(order) if none).
func (s *state) nextPresent(p int) int {
	for p < len(s.w.order) && !s.present[s.w.order[p]] {
		p++
	}
	return p
}

func (s *state) prevPresent(p int) int {
	for p >= 0 && !s.present[s.w.order[p]] {
		p--
	}
	return p
}

func (s *state) entAt(p int) *ent {
	if p < 0 || p >= len(s.w.order) {
		return nil
	}
	return &s.w.ents[s.w.order[p]]
}

// valueOK checks a returned value against the acceptable writes of entry e.
func (s *state) valueOK(e int, meta byte, exp uint64, val []byte) bool {
	for _, wi := range s.accept[e] {
		wr := &s.writes[wi]
		if wr.meta == meta && wr.exp == exp && bytes.Equal(wr.val, val) {
			return true
		}
	}
	return false
}

func entStr(e *ent) string {
	if e == nil {
		return "<none>"
	}
	return e.String()
}

type obsItem struct {
	idx  int // ent index, -1 if unknown to the model
	ik   []byte
	meta byte
	exp  uint64
	val  []byte
}

func (s *state) observe(it utils.Iterator) obsItem {
	e := it.Item().Entry()
	// Key and Value point into the structure's arena, which is immutable once
	// written and lives until the structure is released: no copies needed.
	o := obsItem{idx: -1, ik: e.Key, meta: e.Meta, exp: e.ExpiresAt, val: e.Value}
	if i, ok := s.w.byIK[string(e.Key)]; ok {
		o.idx = i
	}
	return o
}

func (s *state) obsEnt(o *obsItem) *ent {
	if o == nil {
		return nil
	}
	if o.idx >= 0 {
		return &s.w.ents[o.idx]
	}
	p, _ := parseIK(o.ik)
	return &p
}

// checkIter compares a full iteration with the model order.
func (s *state) checkIter(ix index, asc bool) []finding {
	it := ix.NewIterator(&utils.Options{IsAsc: asc})
	var obs []obsItem
	limit := 4*len(s.w.ents) + 16
	for it.Rewind(); it.Valid(); it.Next() {
		obs = append(obs, s.observe(it))
		if len(obs) > limit {
			break
		}
	}
	_ = it.Close()
	s.evals++
	dir := "forward"
	if !asc {
		dir = "reverse"
	}
	var exp []int
	for _, i := range s.w.order {
		if s.present[i] {
			exp = append(exp, i)
		}
	}
	if !asc {
		for l, r := 0, len(exp)-1; l < r; l, r = l+1, r-1 {
			exp[l], exp[r] = exp[r], exp[l]
		}
	}
	same := len(obs) == len(exp)
	if same {
		for p := range obs {
			if obs[p].idx != exp[p] || !s.valueOK(exp[p], obs[p].meta, obs[p].exp, obs[p].val) {
				same = false
				break
			}
		}
	}
	if same {
		return nil
	}
	var out []finding
	seen := make(map[int]int)
	for p := range obs {
		o := &obs[p]
		if o.idx < 0 || !s.present[o.idx] {
			out = append(out, finding{rule: "iter-unknown-key", involved: []*ent{s.obsEnt(o)}, pairOnly: false,
				what:   fmt.Sprintf("%s iteration returned key %s that was never inserted", dir, entStr(s.obsEnt(o))),
				detail: map[string]any{"direction": dir, "position": p, "key_hex": fmt.Sprintf("%x", o.ik)}})
			continue
		}
		seen[o.idx]++
		if seen[o.idx] == 2 {
			out = append(out, finding{rule: "iter-duplicate-key", involved: []*ent{&s.w.ents[o.idx]}, pairOnly: false,
				what:   fmt.Sprintf("%s iteration returned key %s twice", dir, entStr(&s.w.ents[o.idx])),
				detail: map[string]any{"direction": dir, "position": p}})
		}
		if !s.valueOK(o.idx, o.meta, o.exp, o.val) {
			out = append(out, finding{rule: "iter-wrong-value", involved: []*ent{&s.w.ents[o.idx]}, pairOnly: false,
				what:   fmt.Sprintf("%s iteration returned a value for %s that is not its latest write", dir, entStr(&s.w.ents[o.idx])),
				detail: map[string]any{"direction": dir, "position": p, "value_head": string(o.val[:min(len(o.val), 24)]), "meta": o.meta, "expires": o.exp}})
		}
		if p > 0 && obs[p-1].idx >= 0 {
			a, b := &s.w.ents[obs[p-1].idx], &s.w.ents[o.idx]
			c := cmpEnt(a, b)
			if (asc && c >= 0) || (!asc && c <= 0) {
				out = append(out, finding{rule: "iter-order", involved: []*ent{a, b}, pairOnly: true,
					what:   fmt.Sprintf("%s iteration returned %s immediately before %s, against the internal-key order", dir, entStr(a), entStr(b)),
					detail: map[string]any{"direction": dir, "position": p, "first": entStr(a), "second": entStr(b)}})
			}
		}
	}
	for _, i := range exp {
		if seen[i] == 0 {
			out = append(out, finding{rule: "iter-missing-key", involved: []*ent{&s.w.ents[i]}, pairOnly: false,
				what:   fmt.Sprintf("%s iteration did not return inserted key %s", dir, entStr(&s.w.ents[i])),
				detail: map[string]any{"direction": dir, "missing": entStr(&s.w.ents[i])}})
		}
	}
	if len(out) == 0 {
		out = append(out, finding{rule: "iter-mismatch", what: dir + " iteration differs from the model in a way the analysis could not name",
			detail: map[string]any{"direction": dir, "observed": len(obs), "expected": len(exp)}})
	}
	return out
}

// checkSearch: Search(k) must return the value of the first entry >= k if that
// entry has k's user key, and the zero ValueStruct otherwise.
func (s *state) checkSearch(ix index, k *ent) []finding {
	vs := ix.Search(k.ik)
	s.evals++
	p := s.nextPresent(s.w.lowerPos(k))
	lb := s.entAt(p)
	var want *ent
	if lb != nil && sameUser(lb, k) {
		want = lb
	}
	gotEmpty := vs.Meta == 0 && vs.ExpiresAt == 0 && len(vs.Value) == 0
	var got *ent
	gotIdx := -1
	if !gotEmpty {
		if e, _, ok := valueID(vs.Value); ok && e >= 0 && e < len(s.w.ents) {
			got, gotIdx = &s.w.ents[e], e
		}
	}
	if want == nil && gotEmpty {
		return nil
	}
	if want != nil && got == want && s.valueOK(gotIdx, vs.Meta, vs.ExpiresAt, vs.Value) {
		return nil
	}
	rule := "search-mismatch"
	if want != nil && got == want {
		rule = "search-wrong-value"
	}
	return []finding{{rule: rule, involved: []*ent{k, lb, got}, pairOnly: false,
		what: fmt.Sprintf("Search(%s) answered %s, the model expects %s (first entry >= key: %s)", entStr(k), answerStr(got, gotEmpty), entStr(want), entStr(lb)),
		detail: map[string]any{"probe": entStr(k), "probe_hex": fmt.Sprintf("%x", k.ik), "expected": entStr(want), "observed": answerStr(got, gotEmpty),
			"observed_value_head": string(vs.Value[:min(len(vs.Value), 24)])}}}
}

func answerStr(e *ent, empty bool) string {
	if empty {
		return "<nothing>"
	}
	if e == nil {
		return "<unidentifiable value>"
	}
	return e.String()
}

// checkSeek: ascending Seek(k) lands on the first entry >= k, descending on the
// last entry <= k; the following Next calls continue in model order.
func (s *state) checkSeek(ix index, k *ent, asc bool, steps int) []finding {
	it := ix.NewIterator(&utils.Options{IsAsc: asc})
	defer it.Close()
	it.Seek(k.ik)
	s.evals++
	var p int
	if asc {
		p = s.nextPresent(s.w.lowerPos(k))
	} else {
		p = s.prevPresent(s.w.upperPos(k))
	}
	dir := "ascending"
	if !asc {
		dir = "descending"
	}
	prev := k
	for step := 0; step <= steps; step++ {
		want := s.entAt(p)
		var got *ent
		var o obsItem
		valid := it.Valid()
		if valid {
			o = s.observe(it)
			got = s.obsEnt(&o)
		}
		okKey := (want == nil && !valid) || (want != nil && valid && o.idx >= 0 && &s.w.ents[o.idx] == want)
		if !okKey {
			rule := "seek-mismatch"
			what := fmt.Sprintf("%s Seek(%s) landed on %s, the model expects %s", dir, entStr(k), entStr(got), entStr(want))
			if step > 0 {
				rule = "seek-next-mismatch"
				what = fmt.Sprintf("%s Seek(%s) then %d x Next: after %s came %s, the model expects %s", dir, entStr(k), step, entStr(prev), entStr(got), entStr(want))
			}
			return []finding{{rule: rule, involved: []*ent{prev, want, got}, pairOnly: false, what: what,
				detail: map[string]any{"direction": dir, "probe": entStr(k), "probe_hex": fmt.Sprintf("%x", k.ik), "step": step, "expected": entStr(want), "observed": entStr(got)}}}
		}
		if want == nil {
			return nil
		}
		if !s.valueOK(o.idx, o.meta, o.exp, o.val) {
			return []finding{{rule: "seek-wrong-value", involved: []*ent{want}, pairOnly: false,
				what:   fmt.Sprintf("%s Seek(%s) reached %s with a value that is not its latest write", dir, entStr(k), entStr(want)),
				detail: map[string]any{"probe": entStr(k), "step": step, "value_head": string(o.val[:min(len(o.val), 24)])}}}
		}
		if step == steps {
			break
		}
		prev = want
		it.Next()
		s.evals++
		if asc {
			p = s.nextPresent(p + 1)
		} else {
			p = s.prevPresent(p - 1)
		}
	}
	return nil
}

// probesFor lists lookup keys around an entry: the entry itself, neighbouring
// versions, the version extremes, and byte-level neighbours of the user key.
func probesFor(e *ent) []ent {
	out := []ent{*e}
	if e.v < ^uint64(0) {
		out = append(out, mkEnt(e.cf, e.u, e.v+1))
	}
	if e.v > 0 {
		out = append(out, mkEnt(e.cf, e.u, e.v-1))
	}
	out = append(out, mkEnt(e.cf, e.u, ^uint64(0)), mkEnt(e.cf, e.u, 0))
	ext0 := append(append([]byte{}, e.u...), 0x00)
	extF := append(append([]byte{}, e.u...), 0xFF)
	out = append(out, mkEnt(e.cf, ext0, ^uint64(0)), mkEnt(e.cf, extF, 0), mkEnt(e.cf, ext0, e.v))
	if len(e.u) > 1 {
		out = append(out, mkEnt(e.cf, e.u[:len(e.u)-1], e.v))
		flip := append([]byte{}, e.u...)
		flip[len(flip)-1] ^= 0x01
		out = append(out, mkEnt(e.cf, flip, e.v))
	}
	return out
}
