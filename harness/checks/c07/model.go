package c07

import (
	"bytes"
	"encoding/binary"
	"encoding/hex"
	"fmt"
	"math"
	"sort"
	"strconv"
)

// ent is one internal key as the statement describes it: (column family, user
// key, version). The byte encoding is produced here from the documented layout
// (0xFF 'C' 'F' cf | user key | big-endian(MaxUint64-version)), not through
// kv.InternalKey, so the oracle stays independent of the code under test.
type ent struct {
	cf byte
	u  []byte
	v  uint64
	ik []byte
}

func mkEnt(cf byte, u []byte, v uint64) ent {
	ik := make([]byte, 0, 4+len(u)+8)
	ik = append(ik, 0xFF, 'C', 'F', cf)
	ik = append(ik, u...)
	var ts [8]byte
	binary.BigEndian.PutUint64(ts[:], math.MaxUint64-v)
	ik = append(ik, ts[:]...)
	return ent{cf: cf, u: u, v: v, ik: ik}
}

// cmpEnt is the engine-independent order of the statement: column family and
// user key ascending, then version descending.
func cmpEnt(a, b *ent) int {
	if a.cf != b.cf {
		if a.cf < b.cf {
			return -1
		}
		return 1
	}
	if c := bytes.Compare(a.u, b.u); c != 0 {
		return c
	}
	switch {
	case a.v > b.v:
		return -1
	case a.v < b.v:
		return 1
	}
	return 0
}

func sameUser(a, b *ent) bool { return a.cf == b.cf && bytes.Equal(a.u, b.u) }

func (e *ent) String() string {
	return fmt.Sprintf("cf%d/%s@%s", e.cf, hexShort(e.u), verStr(e.v))
}

func verStr(v uint64) string {
	if v == math.MaxUint64 {
		return "max"
	}
	if v > math.MaxUint64-1024 {
		return "max-" + strconv.FormatUint(math.MaxUint64-v, 10)
	}
	return strconv.FormatUint(v, 10)
}

func hexShort(b []byte) string {
	if len(b) <= 24 {
		return hex.EncodeToString(b)
	}
	return fmt.Sprintf("%s..%s(len%d)", hex.EncodeToString(b[:10]), hex.EncodeToString(b[len(b)-10:]), len(b))
}

// parseIK decodes an internal key by the documented layout (used only to
// describe keys an engine returned that the model does not know).
func parseIK(ik []byte) (ent, bool) {
	if len(ik) < 12 || ik[0] != 0xFF || ik[1] != 'C' || ik[2] != 'F' {
		return ent{ik: append([]byte{}, ik...)}, false
	}
	v := math.MaxUint64 - binary.BigEndian.Uint64(ik[len(ik)-8:])
	return mkEnt(ik[3], append([]byte{}, ik[4:len(ik)-8]...), v), true
}

// ---- structural relations used only to *name* a disagreement (signature context) ----

// cmpRawPadded compares the raw internal-key bytes as if the shorter key were
// padded with 0x00 (0 = indistinguishable under zero padding).
func cmpRawPadded(a, b []byte) int {
	n := len(a)
	if len(b) < n {
		n = len(b)
	}
	if c := bytes.Compare(a[:n], b[:n]); c != 0 {
		return c
	}
	for _, x := range a[n:] {
		if x != 0 {
			return 1
		}
	}
	for _, x := range b[n:] {
		if x != 0 {
			return -1
		}
	}
	return 0
}

// zeroPadPair: the raw bytes of one internal key are a proper prefix of the
// other's and the longer key continues with a 0x00 byte - a radix tree that pads
// keys with 0x00 past their end cannot tell the two apart at that position. The
// simplest instance is k@max and k+"\x00"@max (one key followed only by zeros).
func zeroPadPair(a, b *ent) bool {
	s, l := a.ik, b.ik
	if len(s) > len(l) {
		s, l = l, s
	}
	return len(l) > len(s) && l[len(s)] == 0x00 && bytes.Equal(l[:len(s)], s)
}

// prefixRelated: same column family and one user key is a proper byte prefix
// of the other.
func prefixRelated(a, b *ent) bool {
	if a.cf != b.cf || len(a.u) == len(b.u) {
		return false
	}
	s, l := a.u, b.u
	if len(s) > len(l) {
		s, l = l, s
	}
	return bytes.Equal(l[:len(s)], s)
}

// invertedPair: prefix-related user keys whose raw byte order (a version byte
// of the shorter key compared against a key byte of the longer one) is the
// opposite of the internal-key order.
func invertedPair(a, b *ent) bool {
	if !prefixRelated(a, b) {
		return false
	}
	r := cmpRawPadded(a.ik, b.ik)
	return r != 0 && r != cmpEnt(a, b)
}

// world is the set of keys a structure may currently hold, in model order.
type world struct {
	ents  []ent
	order []int // ent indices sorted by cmpEnt
	pos   []int // ent index -> position in order
	byIK  map[string]int
}

func newWorld(ents []ent) *world {
	w := &world{ents: ents, byIK: make(map[string]int, len(ents))}
	w.order = make([]int, len(ents))
	for i := range ents {
		w.order[i] = i
		w.byIK[string(ents[i].ik)] = i
	}
	sort.Slice(w.order, func(i, j int) bool { return cmpEnt(&ents[w.order[i]], &ents[w.order[j]]) < 0 })
	w.pos = make([]int, len(ents))
	for p, i := range w.order {
		w.pos[i] = p
	}
	return w
}

// lowerPos returns the first position in order whose entry is >= k.
func (w *world) lowerPos(k *ent) int {
	return sort.Search(len(w.order), func(p int) bool { return cmpEnt(&w.ents[w.order[p]], k) >= 0 })
}

// upperPos returns the last position in order whose entry is <= k (or -1).
func (w *world) upperPos(k *ent) int {
	return sort.Search(len(w.order), func(p int) bool { return cmpEnt(&w.ents[w.order[p]], k) > 0 }) - 1
}

// classify names the structural context of a disagreement from the keys it
// involves: the probe key, the expected answer and the observed answer (for
// iteration: the misplaced / missing keys). present lists the stored entries;
// lost (concurrent phase only) is the set of internal keys that, after all
// writers had finished, were returned neither by a full iteration nor by an
// exact Search although their Add had returned.
//
//	zero-padding-collision    one of the involved keys forms a zeroPadPair with a stored key
//	concurrent-lost-insert    one of the involved keys is in the lost set
//	order-prefix-related-keys one of the involved keys forms an inverted pair (see invertedPair)
//	                          with another involved key or a stored key
//	""                        none of these: the disagreement has no known structural explanation
//
// pairOnly restricts the last rule to pairs among the involved keys (used for
// iteration order, where the two adjacent keys themselves must be the pair).
func classify(w *world, present func(i int) bool, lost map[string]bool, involved []*ent, pairOnly bool) string {
	for _, x := range involved {
		if x == nil {
			continue
		}
		for i := range w.ents {
			if present(i) && zeroPadPair(x, &w.ents[i]) {
				return "zero-padding-collision"
			}
		}
		for _, y := range involved {
			if y != nil && zeroPadPair(x, y) {
				return "zero-padding-collision"
			}
		}
	}
	for _, x := range involved {
		if x != nil && lost[string(x.ik)] {
			return "concurrent-lost-insert"
		}
	}
	for _, x := range involved {
		if x == nil {
			continue
		}
		for _, y := range involved {
			if y != nil && invertedPair(x, y) {
				return "order-prefix-related-keys"
			}
		}
		if pairOnly {
			continue
		}
		for i := range w.ents {
			if present(i) && invertedPair(x, &w.ents[i]) {
				return "order-prefix-related-keys"
			}
		}
	}
	return ""
}

// patternStats measures which known-bad structural patterns a key set contains:
// zero-padding pairs and pairs whose raw byte order differs from the model order.
func patternStats(w *world) (zeroPairs, inverted int) {
	idx := make([]int, len(w.ents))
	for i := range idx {
		idx[i] = i
	}
	// In plain byte order a key is immediately followed by its extensions, the
	// ones continuing with 0x00 first; so adjacent pairs reveal both patterns.
	sort.Slice(idx, func(i, j int) bool { return bytes.Compare(w.ents[idx[i]].ik, w.ents[idx[j]].ik) < 0 })
	for p := 0; p+1 < len(idx); p++ {
		a, b := &w.ents[idx[p]], &w.ents[idx[p+1]]
		if zeroPadPair(a, b) {
			zeroPairs++
		} else if cmpEnt(a, b) > 0 {
			inverted++
		}
	}
	return
}
