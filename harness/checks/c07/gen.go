package c07

import (
	"bytes"
	"encoding/binary"
	"math"
	"math/rand"
	"sort"
)

// Key-set classes. The class only steers generation; which structural patterns a
// key set really contains is measured afterwards (patternStats).
var classes = []string{
	"clean-random",       // prefix-free user keys, arbitrary versions
	"clean-fanout",       // equal-length keys sharing a prefix with 5..256 distinct next bytes
	"prefix-maxver",      // prefix chains, every version = MaxUint64, no all-zero suffixes
	"prefix-anyver",      // prefix chains with ordinary versions
	"zero-suffix",        // k, k+0x00.. siblings (and the equivalent pairs at other versions)
	"mixed",              // all of the above in one set
	"clean-random",       // weight
	"prefix-maxver",      // weight
	"clean-manyversions", // few prefix-free keys with hundreds of versions each
	"mixed",
}

var alphabets = [][]byte{
	nil, // all 256 byte values
	{0x00, 0xFF},
	{'a', 'b'},
	{0x00, 0x01, 0xFE, 0xFF, 'a'},
	{0xFF},
}

func randLen(rng *rand.Rand) int {
	switch r := rng.Intn(20); {
	case r < 12:
		return 1 + rng.Intn(8)
	case r < 18:
		return 9 + rng.Intn(32)
	case r < 19:
		return 41 + rng.Intn(200)
	default:
		return 241 + rng.Intn(60) // up to 300
	}
}

func randBytes(rng *rand.Rand, n int, alpha []byte) []byte {
	b := make([]byte, n)
	for i := range b {
		if alpha == nil {
			b[i] = byte(rng.Intn(256))
		} else {
			b[i] = alpha[rng.Intn(len(alpha))]
		}
	}
	return b
}

func pickVersion(rng *rand.Rand) uint64 {
	switch rng.Intn(12) {
	case 0:
		return 0
	case 1:
		return 1
	case 2, 3:
		return uint64(rng.Intn(1000))
	case 4:
		return []uint64{255, 256, 511, 65535, 65536, 1 << 24}[rng.Intn(6)]
	case 5:
		return 1<<32 + uint64(rng.Intn(1<<20))
	case 6:
		return rng.Uint64()
	case 7:
		return math.MaxUint64 - 1
	case 8:
		return math.MaxUint64
	case 9:
		return math.MaxUint64 - uint64(rng.Intn(70000))
	default:
		return 1_700_000_000_000_000_000 + uint64(rng.Intn(1<<30)) // timestamp-like
	}
}

func encVer(v uint64) []byte {
	var b [8]byte
	binary.BigEndian.PutUint64(b[:], math.MaxUint64-v)
	return b[:]
}

type ukey struct {
	cf byte
	u  []byte
}

// prefixFree drops every key that is a proper prefix of another key of the same cf.
func prefixFree(keys []ukey) []ukey {
	sort.Slice(keys, func(i, j int) bool {
		if keys[i].cf != keys[j].cf {
			return keys[i].cf < keys[j].cf
		}
		return bytes.Compare(keys[i].u, keys[j].u) < 0
	})
	var out []ukey
	for i, k := range keys {
		if i+1 < len(keys) && keys[i+1].cf == k.cf && bytes.HasPrefix(keys[i+1].u, k.u) {
			continue // equal or proper prefix of the next key
		}
		out = append(out, k)
	}
	return out
}

func allZero(b []byte) bool {
	for _, x := range b {
		if x != 0 {
			return false
		}
	}
	return true
}

type keyset struct {
	class       string
	ents        []ent
	fanout      int // largest number of distinct next bytes below one shared prefix, by construction
	maxVersions int
}

type builder struct {
	rng  *rand.Rand
	seen map[string]bool
	ks   *keyset
}

func (b *builder) add(cf byte, u []byte, v uint64) {
	e := mkEnt(cf, u, v)
	if b.seen[string(e.ik)] || len(u) == 0 || len(u) > 300 {
		return
	}
	b.seen[string(e.ik)] = true
	b.ks.ents = append(b.ks.ents, e)
}

func (b *builder) cf() byte { return byte(b.rng.Intn(3)) }

func (b *builder) versions(cf byte, u []byte, n int, pick func() uint64) {
	for i := 0; i < n; i++ {
		b.add(cf, u, pick())
	}
	if n > b.ks.maxVersions {
		b.ks.maxVersions = n
	}
}

func (b *builder) cleanRandom(nUser int) {
	rng := b.rng
	alpha := alphabets[rng.Intn(len(alphabets))]
	var keys []ukey
	for i := 0; i < nUser; i++ {
		keys = append(keys, ukey{b.cf(), randBytes(rng, randLen(rng), alpha)})
	}
	for _, k := range prefixFree(keys) {
		b.versions(k.cf, k.u, 1+rng.Intn(5), func() uint64 { return pickVersion(rng) })
	}
}

func (b *builder) manyVersions(nUser int) {
	rng := b.rng
	var keys []ukey
	for i := 0; i < nUser; i++ {
		keys = append(keys, ukey{b.cf(), randBytes(rng, randLen(rng), nil)})
	}
	for _, k := range prefixFree(keys) {
		n := 40 + rng.Intn(400)
		base := pickVersion(rng)
		stride := uint64(1)
		if rng.Intn(3) == 0 {
			stride = uint64(1 + rng.Intn(300))
		}
		i := uint64(0)
		b.versions(k.cf, k.u, n, func() uint64 { i++; return base + i*stride }) // may wrap: still a valid version
	}
}

func (b *builder) fanout() {
	rng := b.rng
	f := []int{5, 17, 49, 120, 256}[rng.Intn(5)]
	cf := b.cf()
	prefix := randBytes(rng, rng.Intn(20), nil)
	tail := rng.Intn(4)
	perm := rng.Perm(256)[:f]
	for _, nb := range perm {
		u := append(append(append([]byte{}, prefix...), byte(nb)), randBytes(rng, tail, nil)...)
		b.versions(cf, u, 1+rng.Intn(2), func() uint64 { return pickVersion(rng) })
	}
	if f > b.ks.fanout {
		b.ks.fanout = f
	}
}

// chains adds groups of prefix-related user keys. maxOnly: all versions are
// MaxUint64 and no suffix consists only of 0x00 bytes.
func (b *builder) chains(groups int, maxOnly bool) {
	rng := b.rng
	for g := 0; g < groups; g++ {
		cf := b.cf()
		base := randBytes(rng, 1+rng.Intn(6), alphabets[rng.Intn(len(alphabets))])
		members := [][]byte{base}
		for i, n := 0, 1+rng.Intn(5); i < n; i++ {
			parent := members[rng.Intn(len(members))]
			var suf []byte
			switch rng.Intn(5) {
			case 0:
				suf = []byte{0xFF}
			case 1:
				suf = []byte{byte('a' + rng.Intn(3))}
			case 2:
				suf = randBytes(rng, 1+rng.Intn(3), []byte{0x00, 0x01, 0xFF})
			case 3:
				suf = randBytes(rng, 1+rng.Intn(12), nil)
			default:
				suf = encVer(pickVersion(rng))[:1+rng.Intn(8)] // looks like the start of a version suffix
			}
			if maxOnly && allZero(suf) {
				suf[len(suf)-1] = 0x01
			}
			members = append(members, append(append([]byte{}, parent...), suf...))
		}
		for _, u := range members {
			if maxOnly {
				b.add(cf, u, math.MaxUint64)
			} else {
				b.versions(cf, u, 1+rng.Intn(3), func() uint64 { return pickVersion(rng) })
			}
		}
	}
}

// zeroSuffix adds pairs of internal keys where one equals the other followed
// only by 0x00 bytes.
func (b *builder) zeroSuffix(groups int) {
	rng := b.rng
	for g := 0; g < groups; g++ {
		cf := b.cf()
		base := randBytes(rng, 1+rng.Intn(5), alphabets[rng.Intn(len(alphabets))])
		if rng.Intn(4) == 0 {
			// padded-prefix form: base@max is a raw prefix of (base+0x00*j)@(max-r) and the longer key goes on with 0x00
			j := 3 + rng.Intn(4)
			b.add(cf, base, math.MaxUint64)
			u := append(append([]byte{}, base...), make([]byte, j)...)
			b.add(cf, u, math.MaxUint64-uint64(1+rng.Intn(60000)))
			b.add(cf, u, math.MaxUint64-uint64(rng.Intn(3)))
			continue
		}
		if rng.Intn(3) > 0 {
			// the common form: k and k+0x00.. at the maximal version (what the plain API writes)
			b.add(cf, base, math.MaxUint64)
			u := base
			for i, n := 0, 1+rng.Intn(3); i < n; i++ {
				u = append(append([]byte{}, u...), 0x00)
				b.add(cf, u, math.MaxUint64)
			}
			if rng.Intn(2) == 0 {
				b.add(cf, append(append([]byte{}, u...), 0x01), math.MaxUint64)
			}
			continue
		}
		// general form: (u, v) and (u + enc(v)[:k], v') with enc(v') = enc(v)[k:] + 0x00*k
		v := pickVersion(rng)
		k := 1 + rng.Intn(8)
		e := encVer(v)
		u2 := append(append([]byte{}, base...), e[:k]...)
		e2 := append(append([]byte{}, e[k:]...), make([]byte, k)...)
		v2 := math.MaxUint64 - binary.BigEndian.Uint64(e2)
		b.add(cf, base, v)
		b.add(cf, u2, v2)
	}
}

func genKeyset(rng *rand.Rand, class string, large bool) *keyset {
	ks := &keyset{class: class}
	b := &builder{rng: rng, seen: map[string]bool{}, ks: ks}
	n := 2 + rng.Intn(40)
	if large {
		n = 150 + rng.Intn(250)
	}
	switch class {
	case "clean-random":
		b.cleanRandom(n)
	case "clean-manyversions":
		b.manyVersions(1 + rng.Intn(4))
		b.cleanRandom(rng.Intn(6))
	case "clean-fanout":
		b.fanout()
		if rng.Intn(2) == 0 {
			b.fanout()
		}
	case "prefix-maxver":
		b.chains(1+n/6, true)
	case "prefix-anyver":
		b.chains(1+rng.Intn(3), false)
		b.cleanRandom(n / 2)
	case "zero-suffix":
		b.zeroSuffix(1 + rng.Intn(3))
		b.cleanRandom(n / 2)
	default: // mixed
		b.cleanRandom(n / 2)
		b.chains(1+rng.Intn(3), rng.Intn(2) == 0)
		if rng.Intn(3) == 0 {
			b.zeroSuffix(1)
		}
		if rng.Intn(3) == 0 {
			b.fanout()
		}
		if rng.Intn(4) == 0 {
			b.manyVersions(1)
		}
	}
	if len(ks.ents) == 0 {
		b.add(0, []byte("k"), 1)
	}
	return ks
}
