package hist

import (
	"errors"
	"fmt"
	"math/rand"
	"runtime"
	"strings"
	"sync"
	"time"

	NoKV "github.com/feichai0017/NoKV"
	"github.com/feichai0017/NoKV/utils"
)

// PlannedOp is one operation of a planned transaction.
type PlannedOp struct {
	Kind    OpKind `json:"kind"`
	Key     string `json:"key,omitempty"`
	Size    int    `json:"size,omitempty"`
	Reverse bool   `json:"reverse,omitempty"`
	HasSeek bool   `json:"has_seek,omitempty"`
	Yield   bool   `json:"yield,omitempty"`
}

// TxnPlan is a planned transaction (drawn from the case PRNG before the
// goroutines start, so the case list is a function of the seed only).
type TxnPlan struct {
	Update bool        `json:"update"`
	Ops    []PlannedOp `json:"ops"`
	End    string      `json:"end"` // commit | commitwith | discard
	// FillUntilTooBig: after Ops, keep adding Sets of FillSize bytes on fresh
	// keys of FillKeys until Set reports an error (C04: batch limits), then end.
	FillUntilTooBig bool     `json:"fill_until_too_big,omitempty"`
	FillSize        int      `json:"fill_size,omitempty"`
	FillKeys        []string `json:"fill_keys,omitempty"`
	FillHalvings    int      `json:"fill_halvings,omitempty"`
}

// PlanParams steers DrawPlan.
type PlanParams struct {
	Keys        []string
	Sizes       []int
	PReadOnly   int // percent
	PDiscard    int
	PCommitWith int
	PScan       int // percent of read operations that are scans
	MaxOps      int
	BlindWrites bool // no reads (transactions racing Close)
	PFill       int  // percent of update transactions that fill up to the batch limit
	FillSize    int
	FillKeys    []string
}

// note: FillHalvings is drawn per transaction in DrawPlan (0..6).

// DrawPlan draws one transaction.
func DrawPlan(rng *rand.Rand, p PlanParams) TxnPlan {
	t := TxnPlan{Update: rng.Intn(100) >= p.PReadOnly}
	if p.BlindWrites {
		t.Update = true
	}
	n := 1 + rng.Intn(p.MaxOps)
	wrote := false
	for i := 0; i < n; i++ {
		key := p.Keys[rng.Intn(len(p.Keys))]
		op := PlannedOp{Key: key, Yield: rng.Intn(3) == 0}
		r := rng.Intn(100)
		switch {
		case p.BlindWrites || (t.Update && r < 45):
			if wrote && rng.Intn(5) == 0 {
				op.Kind = OpDel
			} else {
				// the first write of a transaction is always a Set: its unique
				// value identifies the commit version in the final dump
				op.Kind = OpSet
				op.Size = p.Sizes[rng.Intn(len(p.Sizes))]
				wrote = true
			}
		case rng.Intn(100) < p.PScan:
			op.Kind = OpScan
			op.Reverse = rng.Intn(3) == 0
			op.HasSeek = rng.Intn(3) == 0
		default:
			op.Kind = OpGet
		}
		t.Ops = append(t.Ops, op)
	}
	switch r := rng.Intn(100); {
	case r < p.PDiscard:
		t.End = "discard"
	case r < p.PDiscard+p.PCommitWith:
		t.End = "commitwith"
	default:
		t.End = "commit"
	}
	if t.Update && p.PFill > 0 && rng.Intn(100) < p.PFill {
		t.FillUntilTooBig, t.FillSize, t.FillKeys = true, p.FillSize+rng.Intn(40), p.FillKeys
		t.FillHalvings = rng.Intn(7)
		if t.End == "discard" {
			t.End = "commit"
		}
	}
	return t
}

// TxnRecorder collects transaction records.
type TxnRecorder struct {
	Clock *Clock
	mu    sync.Mutex
	recs  []*TxnRec
	next  int
}

// NewTxnRecorder creates a recorder on a fresh clock.
func NewTxnRecorder() *TxnRecorder { return &TxnRecorder{Clock: NewClock()} }

// Txns returns the records (call after all clients finished).
func (r *TxnRecorder) Txns() []*TxnRec {
	r.mu.Lock()
	defer r.mu.Unlock()
	return append([]*TxnRec(nil), r.recs...)
}

func (r *TxnRecorder) newRec(client int, phase string, update bool) *TxnRec {
	r.mu.Lock()
	defer r.mu.Unlock()
	t := &TxnRec{ID: r.next, Client: client, Phase: phase, Update: update}
	r.next++
	r.recs = append(r.recs, t)
	return t
}

// ClassifyTxnErr maps an error of Set/Delete/Commit to a class; the classes
// conflict, too-big, throttled and closed are the property's "nothing becomes
// visible" errors.
func ClassifyTxnErr(err error) string {
	switch {
	case err == nil:
		return ""
	case errors.Is(err, utils.ErrConflict):
		return "conflict"
	case errors.Is(err, utils.ErrTxnTooBig):
		return "too-big"
	case errors.Is(err, utils.ErrHotKeyWriteThrottle):
		return "throttled"
	case errors.Is(err, utils.ErrBlockedWrites), errors.Is(err, utils.ErrDBClosed):
		return "closed"
	}
	return "other"
}

// CallbackWatchdog bounds the wait for a CommitWith callback (firing leaves
// the transaction open and is reported by the caller as inconclusive).
var CallbackWatchdog = 90 * time.Second

// RunTxn executes one planned transaction against db and records it. A panic
// raised on the calling goroutine by an API call is recovered: the transaction
// stays open and carries the panic text.
func (r *TxnRecorder) RunTxn(db *NoKV.DB, client int, phase string, plan TxnPlan) (rec *TxnRec) {
	rec = r.newRec(client, phase, plan.Update)
	clk := r.Clock
	defer func() {
		if p := recover(); p != nil {
			rec.Panicked = true
			rec.Status = TxnOpen
			rec.Err = fmt.Sprintf("panic: %v", p)
			rec.ErrClass = "panic"
			if rec.EndRet == 0 {
				rec.EndRet = clk.Now()
			}
		}
	}()
	rec.Status = TxnOpen // until an end event says otherwise
	rec.BeginCall = clk.Now()
	txn := db.NewTransaction(plan.Update)
	rec.BeginRet = clk.Now()
	rec.ReadTs = txn.ReadTs()
	seq := 0
	doSet := func(key string, size int) string {
		id := fmt.Sprintf("T%d.%d", rec.ID, seq)
		seq++
		err := txn.Set([]byte(key), ValueOf(id, size))
		op := TxnOp{Kind: OpSet, Key: key, Val: id}
		if err != nil {
			op.Err = ClassifyTxnErr(err) + ": " + err.Error()
		}
		rec.Ops = append(rec.Ops, op)
		return op.Err
	}
	for _, p := range plan.Ops {
		switch p.Kind {
		case OpSet:
			doSet(p.Key, p.Size)
		case OpDel:
			err := txn.Delete([]byte(p.Key))
			op := TxnOp{Kind: OpDel, Key: p.Key}
			if err != nil {
				op.Err = ClassifyTxnErr(err) + ": " + err.Error()
			}
			rec.Ops = append(rec.Ops, op)
		case OpGet:
			op := TxnOp{Kind: OpGet, Key: p.Key}
			item, err := txn.Get([]byte(p.Key))
			switch {
			case err == nil:
				v, verr := item.ValueCopy(nil)
				if verr != nil {
					op.Err = "value: " + verr.Error()
				} else {
					op.Val = IDOf(v)
					op.Version = item.Entry().Version
				}
			case errors.Is(err, utils.ErrKeyNotFound):
			default:
				op.Err = err.Error()
			}
			rec.Ops = append(rec.Ops, op)
		case OpScan:
			op := TxnOp{Kind: OpScan, Reverse: p.Reverse, HasSeek: p.HasSeek, Seek: p.Key}
			it := txn.NewIterator(NoKV.IteratorOptions{Reverse: p.Reverse})
			if p.HasSeek {
				it.Seek([]byte(p.Key))
			} else {
				it.Rewind()
			}
			for ; it.Valid(); it.Next() {
				e := it.Item().Entry()
				if strings.HasPrefix(string(e.Key), internalPrefix) {
					continue
				}
				v, verr := it.Item().ValueCopy(nil)
				if verr != nil {
					op.Err = "value: " + verr.Error()
					break
				}
				op.Items = append(op.Items, ScanItem{Key: string(e.Key), Val: IDOf(v), Version: e.Version})
			}
			op.Complete = op.Err == ""
			it.Close()
			rec.Ops = append(rec.Ops, op)
		}
		if p.Yield {
			runtime.Gosched()
		}
	}
	if plan.FillUntilTooBig {
		// approach the batch limit: after a rejected Set retry with half the
		// size (at most FillHalvings times), so that the transaction ends up
		// within a few bytes of the limit — Commit's own size check (which
		// counts the longer internal keys) then rejects some of them.
		size, halvings := plan.FillSize, 0
		for _, k := range plan.FillKeys {
			if e := doSet(k, size); e != "" {
				if halvings >= plan.FillHalvings || size < 16 {
					break
				}
				halvings++
				size /= 2
			}
		}
	}
	finish := func(err error) {
		rec.EndRet = clk.Now()
		cls := ClassifyTxnErr(err)
		switch cls {
		case "":
			rec.Status = TxnCommitted
		case "other":
			rec.Status, rec.Err, rec.ErrClass = TxnOpen, err.Error(), cls
		default:
			rec.Status, rec.Err, rec.ErrClass = TxnFailed, err.Error(), cls
		}
	}
	rec.End = plan.End
	switch plan.End {
	case "discard":
		rec.EndCall = clk.Now()
		txn.Discard()
		rec.EndRet = clk.Now()
		rec.Status = TxnDiscarded
	case "commitwith":
		done := make(chan error, 1)
		var at int64
		rec.EndCall = clk.Now()
		txn.CommitWith(func(err error) {
			at = clk.Now()
			done <- err
		})
		select {
		case err := <-done:
			finish(err)
			rec.EndRet = at
		case <-time.After(CallbackWatchdog):
			rec.Status, rec.Err, rec.ErrClass = TxnOpen, "CommitWith callback not invoked within the watchdog", "watchdog"
			rec.EndRet = clk.Now()
		}
	default:
		rec.EndCall = clk.Now()
		err := txn.Commit()
		finish(err)
	}
	return rec
}

// RunPlans runs one goroutine per client, each executing its planned
// transactions in order; all goroutines start together.
func (r *TxnRecorder) RunPlans(db *NoKV.DB, phase string, firstClient int, perClient [][]TxnPlan, afterEach func(rec *TxnRec) (stop bool)) {
	var wg sync.WaitGroup
	var start sync.WaitGroup
	start.Add(1)
	for ci, plans := range perClient {
		wg.Add(1)
		go func(client int, plans []TxnPlan) {
			defer wg.Done()
			start.Wait()
			for _, p := range plans {
				rec := r.RunTxn(db, client, phase, p)
				if afterEach != nil && afterEach(rec) {
					return
				}
			}
		}(firstClient+ci, plans)
	}
	start.Done()
	wg.Wait()
}
