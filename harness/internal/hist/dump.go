package hist

import (
	"bytes"
	"fmt"
	"sort"
	"strings"

	NoKV "github.com/feichai0017/NoKV"
	"github.com/feichai0017/NoKV/kv"
	"github.com/feichai0017/NoKV/utils"
)

// ValueOf builds a value of (at least) the given size that starts with "<id>|".
func ValueOf(id string, size int) []byte {
	head := id + "|"
	if size < len(head) {
		size = len(head)
	}
	b := make([]byte, size)
	for i := range b {
		b[i] = head[i%len(head)]
	}
	return b
}

// IDOf extracts the id from a value written by ValueOf; a value that does not
// carry one is rendered as "?<hex head>/<len>" (it can then never match a write).
func IDOf(v []byte) string {
	if i := bytes.IndexByte(v, '|'); i > 0 {
		return string(v[:i])
	}
	h := v
	if len(h) > 12 {
		h = h[:12]
	}
	return fmt.Sprintf("?%x/%d", h, len(v))
}

const internalPrefix = "!NoKV!"

// DumpAllVersions lists every stored version of every user key of the default
// column family. The structure (key, version, tombstone) comes from the public
// DB.NewInternalIterator over all memtables and tables; values that live in the
// value log are resolved through the VerifKeySources hook (the internal iterator
// only yields the pointer). Both paths must agree on the set of (key, version).
func DumpAllVersions(db *NoKV.DB, label string) *Dump {
	d := &Dump{Label: label, Keys: map[string][]VersionRec{}}
	type kvv struct {
		key string
		ver uint64
	}
	seen := map[kvv]VersionRec{}
	needResolve := map[string]bool{}
	it := db.NewInternalIterator(&utils.Options{IsAsc: true})
	for it.Rewind(); it.Valid(); it.Next() {
		item := it.Item()
		if item == nil || item.Entry() == nil {
			continue
		}
		e := item.Entry()
		cf, uk, ts := kv.SplitInternalKey(e.Key)
		if cf != kv.CFDefault || strings.HasPrefix(string(uk), internalPrefix) {
			continue
		}
		rec := VersionRec{Version: ts}
		switch {
		case e.Meta&kv.BitDelete != 0:
			rec.Deleted = true
		case e.Meta&kv.BitValuePointer != 0:
			rec.Val = "\x00ptr"
			needResolve[string(uk)] = true
		default:
			rec.Val = IDOf(e.Value)
		}
		k := kvv{string(uk), ts}
		if old, dup := seen[k]; dup {
			if old != rec {
				d.Anomalies = append(d.Anomalies, fmt.Sprintf("key %q version %d is stored twice with different contents (%+v / %+v)", k.key, ts, old, rec))
			}
			continue
		}
		seen[k] = rec
	}
	_ = it.Close()
	keys := map[string]bool{}
	for k := range seen {
		keys[k.key] = true
	}
	for key := range keys {
		hook := map[uint64]VersionRec{}
		for _, s := range db.VerifKeySources(kv.CFDefault, []byte(key)) {
			for _, en := range s.Entries {
				rec := VersionRec{Version: en.Version}
				switch {
				case en.Meta&kv.BitDelete != 0:
					rec.Deleted = true
				case en.Err != "":
					rec.Val = "?unreadable:" + en.Err
				default:
					rec.Val = IDOf(en.Value)
				}
				if old, dup := hook[en.Version]; dup && old != rec {
					d.Anomalies = append(d.Anomalies, fmt.Sprintf("key %q version %d is held by two sources with different contents (%+v / %+v)", key, en.Version, old, rec))
				}
				hook[en.Version] = rec
			}
		}
		for ver, hrec := range hook {
			irec, ok := seen[kvv{key, ver}]
			if !ok {
				d.Anomalies = append(d.Anomalies, fmt.Sprintf("key %q version %d is held by a table/memtable but not returned by NewInternalIterator", key, ver))
				seen[kvv{key, ver}] = hrec
				continue
			}
			if irec.Val == "\x00ptr" {
				seen[kvv{key, ver}] = hrec
			} else if irec != hrec {
				d.Anomalies = append(d.Anomalies, fmt.Sprintf("key %q version %d: NewInternalIterator yields %+v, the sources hold %+v", key, ver, irec, hrec))
			}
		}
		for k, rec := range seen {
			if k.key == key {
				// (the hook finds a key's entries with a table Seek, which has a
				// known defect at block boundaries, so "the iterator returned a
				// version the hook did not list" is not held against the engine here)
				if rec.Val == "\x00ptr" {
					// resolve through the public versioned read (exact-version lookup)
					if e, err := db.GetVersionedEntry(kv.CFDefault, []byte(key), k.ver); err == nil && e != nil && e.Version == k.ver && e.Meta&kv.BitDelete == 0 {
						rec.Val = IDOf(e.Value)
						seen[k] = rec
					} else {
						d.Anomalies = append(d.Anomalies, fmt.Sprintf("key %q version %d: value pointer could not be resolved", key, k.ver))
					}
				}
			}
		}
	}
	for k, rec := range seen {
		d.Keys[k.key] = append(d.Keys[k.key], rec)
	}
	for k := range d.Keys {
		vs := d.Keys[k]
		sort.Slice(vs, func(i, j int) bool { return vs[i].Version > vs[j].Version })
	}
	return d
}
