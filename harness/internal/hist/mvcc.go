package hist

import (
	"fmt"
	"sort"
	"strings"
)

// ---------------------------------------------------------------------------
// Transactional histories

// TxnStatus is the recorded outcome of a transaction.
type TxnStatus uint8

const (
	TxnCommitted TxnStatus = iota // Commit / CommitWith callback reported nil
	TxnFailed                     // reported one of the property's errors: nothing may become visible
	TxnDiscarded                  // Discard called (or never committed)
	TxnOpen                       // outcome unknown (cut off by Close, unexpected error, panic)
)

func (s TxnStatus) String() string {
	return [...]string{"committed", "failed", "discarded", "open"}[s]
}

// OpKind is the kind of a transactional operation.
type OpKind uint8

const (
	OpGet OpKind = iota
	OpSet
	OpDel
	OpScan
)

func (k OpKind) String() string { return [...]string{"get", "set", "del", "scan"}[k] }

// ScanItem is one item returned by an iterator.
type ScanItem struct {
	Key     string `json:"k"`
	Val     string `json:"v"`
	Version uint64 `json:"ver"`
}

// TxnOp is one operation inside a transaction.
type TxnOp struct {
	Kind OpKind `json:"kind"`
	Key  string `json:"key,omitempty"`
	// Val: id written (OpSet) or id read (OpGet, "" = not found).
	Val     string `json:"val,omitempty"`
	Version uint64 `json:"version,omitempty"` // version carried by the item read
	// Err: for OpSet/OpDel a non-empty Err means the write was rejected and is
	// NOT pending; for OpGet/OpScan it means the read reported an error other
	// than not-found (the read is then not checked).
	Err string `json:"err,omitempty"`
	// scans
	Reverse  bool       `json:"reverse,omitempty"`
	Seek     string     `json:"seek,omitempty"`
	HasSeek  bool       `json:"has_seek,omitempty"`
	Items    []ScanItem `json:"items,omitempty"`
	Complete bool       `json:"complete,omitempty"` // iterated until Valid() was false
}

// TxnRec is the record of one transaction.
type TxnRec struct {
	ID        int       `json:"id"`
	Client    int       `json:"client"`
	Phase     string    `json:"phase"` // "main", "tail" (racing Close), "after-reopen"
	Update    bool      `json:"update"`
	ReadTs    uint64    `json:"read_ts"`
	BeginCall int64     `json:"begin_call"`
	BeginRet  int64     `json:"begin_ret"`
	Ops       []TxnOp   `json:"ops"`
	End       string    `json:"end"` // "commit", "commitwith", "discard"
	EndCall   int64     `json:"end_call"`
	EndRet    int64     `json:"end_ret"`
	Status    TxnStatus `json:"status"`
	Err       string    `json:"err,omitempty"`
	ErrClass  string    `json:"err_class,omitempty"`
	Panicked  bool      `json:"panicked,omitempty"`
}

// VersionRec is one stored version of a key.
type VersionRec struct {
	Version uint64 `json:"version"`
	Val     string `json:"val"`
	Deleted bool   `json:"deleted,omitempty"`
}

// Dump is the complete version order of every key (newest first).
type Dump struct {
	Label string                  `json:"label"`
	Keys  map[string][]VersionRec `json:"keys"`
	// Anomalies found while dumping (same version stored with two different
	// values, the two dump paths disagreeing).
	Anomalies []string `json:"anomalies,omitempty"`
}

// VisibleAt returns the newest version <= ts (ok=false: none or tombstone).
func (d *Dump) VisibleAt(key string, ts uint64) (VersionRec, bool) {
	for _, v := range d.Keys[key] {
		if v.Version <= ts {
			if v.Deleted {
				return v, false
			}
			return v, true
		}
	}
	return VersionRec{}, false
}

// MVCCFinding is one rule violation.
type MVCCFinding struct {
	Rule    string         `json:"rule"`    // R-snap, R-rr, R-atomic, R-fail, R-mono, R-conflict
	Context string         `json:"context"` // canonical, computed from what was observed
	What    string         `json:"what"`
	Detail  map[string]any `json:"detail,omitempty"`
}

// MVCCStats are the measured properties of a checked history.
type MVCCStats struct {
	Txns                 int
	Committed            int
	CommittedWithWrites  int
	Failed               map[string]int
	Discarded            int
	Open                 int
	ReadsChecked         int
	OwnWriteReads        int
	ScansChecked         int
	ScanItemsChecked     int
	ReadErrors           int
	VersionFieldMismatch int
	// RWOverlap: committed read-write transactions with a non-empty read set whose
	// lifetime overlapped (by the recorded stamps) the lifetime of another
	// committed transaction that wrote one of the keys they read.
	RWOverlap int
	// ConflictsJustified: transactions that failed with a conflict error and for
	// which a committed writer of one of their read keys with ts > readTs exists.
	ConflictsJustified int
	ConflictsSpurious  int
	// SnapshotsBehind: reads that had to return an older version because a newer
	// one (ts > readTs) already existed in the final dump — the non-trivial reads.
	ReadsWithNewerVersion int
	MonoPairsChecked      int
	ConflictKeysChecked   int
	DistinctCommitTs      int
}

const del = "\x00DEL"

type txnView struct {
	rec        *TxnRec
	pending    map[string]string // final pending write per key (val id or del)
	superseded []string          // value ids overwritten inside the transaction or rejected
	ts         uint64            // commit version found in the dump (0 = none)
	present    int
	readKeys   map[string]bool // keys read from the database (not served by own writes)
}

// CheckMVCC applies the rules R-snap, R-rr, R-atomic, R-fail, R-mono and
// R-conflict. final is the complete version dump taken at the very end (after
// reopen when the history has one); live, if non-nil, is a dump taken on the
// live database before Close (R-atomic / R-fail are evaluated on both).
// detectConflicts tells whether R-conflict applies.
func CheckMVCC(txns []*TxnRec, final, live *Dump, detectConflicts bool) ([]MVCCFinding, MVCCStats) {
	var out []MVCCFinding
	st := MVCCStats{Failed: map[string]int{}}
	add := func(rule, ctx, what string, detail map[string]any) {
		if len(out) < 50 {
			out = append(out, MVCCFinding{Rule: rule, Context: ctx, What: what, Detail: detail})
		}
	}
	// ---- index writers ----
	type wref struct {
		txn int
		key string
	}
	writer := map[string]wref{}
	views := make([]*txnView, len(txns))
	for i, t := range txns {
		v := &txnView{rec: t, pending: map[string]string{}, readKeys: map[string]bool{}}
		views[i] = v
		for _, op := range t.Ops {
			switch op.Kind {
			case OpSet:
				writer[op.Val] = wref{i, op.Key}
				if op.Err != "" {
					v.superseded = append(v.superseded, op.Val)
					continue
				}
				if old, ok := v.pending[op.Key]; ok && old != del {
					v.superseded = append(v.superseded, old)
				}
				v.pending[op.Key] = op.Val
			case OpDel:
				if op.Err != "" {
					continue
				}
				if old, ok := v.pending[op.Key]; ok && old != del {
					v.superseded = append(v.superseded, old)
				}
				v.pending[op.Key] = del
			}
		}
		st.Txns++
		switch t.Status {
		case TxnCommitted:
			st.Committed++
			if len(v.pending) > 0 {
				st.CommittedWithWrites++
			}
		case TxnFailed:
			st.Failed[t.ErrClass]++
		case TxnDiscarded:
			st.Discarded++
		default:
			st.Open++
		}
	}

	// ---- R-atomic / R-fail on a dump ----
	checkDump := func(d *Dump, label string, assignTs bool) {
		if d == nil {
			return
		}
		for _, a := range d.Anomalies {
			add("R-atomic", "dump-anomaly|"+label, a, nil)
		}
		versionsOf := map[int]map[uint64]int{} // txn -> version -> #values found
		found := map[string]uint64{}           // value id -> version
		tomb := map[string]map[uint64]bool{}   // key -> versions holding a tombstone
		for key, vs := range d.Keys {
			for _, v := range vs {
				if v.Deleted {
					if tomb[key] == nil {
						tomb[key] = map[uint64]bool{}
					}
					tomb[key][v.Version] = true
					continue
				}
				w, ok := writer[v.Val]
				if !ok {
					add("R-atomic", "unwritten-value|"+label, fmt.Sprintf("key %q holds value %q at version %d that no transaction of the history wrote", key, v.Val, v.Version), nil)
					continue
				}
				if w.key != key {
					add("R-atomic", "value-under-wrong-key|"+label, fmt.Sprintf("value %q written to %q by txn %d is stored under key %q", v.Val, w.key, txns[w.txn].ID, key), nil)
					continue
				}
				if prev, dup := found[v.Val]; dup && prev != v.Version {
					add("R-atomic", "value-at-two-versions|"+label, fmt.Sprintf("value %q of txn %d is stored at versions %d and %d", v.Val, txns[w.txn].ID, prev, v.Version), nil)
				}
				found[v.Val] = v.Version
				if versionsOf[w.txn] == nil {
					versionsOf[w.txn] = map[uint64]int{}
				}
				versionsOf[w.txn][v.Version]++
			}
		}
		usedTomb := map[string]map[uint64]bool{}
		for i, v := range views {
			t := v.rec
			if !assignTs && t.Phase != "main" {
				continue // the live dump is taken before Close: later transactions cannot be in it
			}
			var finals, dels []string
			for k, val := range v.pending {
				if val == del {
					dels = append(dels, k)
				} else {
					finals = append(finals, val)
				}
			}
			sort.Strings(finals)
			sort.Strings(dels)
			nPresent := 0
			for _, val := range finals {
				if _, ok := found[val]; ok {
					nPresent++
				}
			}
			var supPresent []string
			for _, val := range v.superseded {
				if _, ok := found[val]; ok {
					supPresent = append(supPresent, val)
				}
			}
			vers := versionsOf[i]
			var c uint64
			for ver := range vers {
				if ver > c {
					c = ver
				}
			}
			detail := func() map[string]any {
				return map[string]any{"txn": t, "dump": label, "versions_found": fmt.Sprint(vers)}
			}
			if len(supPresent) > 0 {
				add("R-atomic", "overwritten-or-rejected-write-visible|"+label, fmt.Sprintf("txn %d: values %v were overwritten inside the transaction or rejected by Set, yet they are stored", t.ID, supPresent), detail())
			}
			switch t.Status {
			case TxnCommitted, TxnOpen:
				if t.Status == TxnOpen && nPresent == 0 && len(supPresent) == 0 {
					// nothing became visible; tombstones cannot be told apart, fine
					break
				}
				if nPresent != len(finals) {
					ctx := "committed-write-missing|"
					if t.Status == TxnOpen {
						ctx = "partially-visible|" + t.ErrClass + "|"
					}
					add("R-atomic", ctx+label, fmt.Sprintf("txn %d (%s): %d of its %d pending values are stored", t.ID, t.Status, nPresent, len(finals)), detail())
					break
				}
				if len(vers) > 1 {
					add("R-atomic", "split-versions|"+label, fmt.Sprintf("txn %d: its writes are stored at %d different versions %v", t.ID, len(vers), vers), detail())
					break
				}
				if len(finals) == 0 {
					break // delete-only or empty: commit version not identifiable
				}
				for _, k := range dels {
					if !tomb[k][c] {
						add("R-atomic", "committed-delete-missing|"+label, fmt.Sprintf("txn %d committed at version %d but its delete of %q is not stored at that version", t.ID, c, k), detail())
					} else {
						if usedTomb[k] == nil {
							usedTomb[k] = map[uint64]bool{}
						}
						usedTomb[k][c] = true
					}
				}
				if assignTs {
					v.ts, v.present = c, nPresent
				}
			default: // failed, discarded
				if nPresent > 0 {
					ctx := t.ErrClass
					if t.Status == TxnDiscarded {
						ctx = "discarded"
					}
					add("R-fail", ctx+"|"+label, fmt.Sprintf("txn %d ended with %s (%s) but %d of its values are stored (at versions %v)", t.ID, t.Status, t.Err, nPresent, vers), detail())
				}
			}
		}
		for key, vs := range tomb {
			for ver := range vs {
				if usedTomb[key][ver] {
					continue
				}
				// a tombstone that no committed transaction with an identified commit
				// version explains: a delete-only transaction may own it.
				explained := false
				for _, v := range views {
					if v.pending[key] != del {
						continue
					}
					if (v.rec.Status == TxnCommitted || v.rec.Status == TxnOpen) && v.ts == 0 {
						explained = true
					}
				}
				if !explained {
					add("R-fail", "unexplained-tombstone|"+label, fmt.Sprintf("key %q holds a tombstone at version %d that no committed transaction explains", key, ver), nil)
				}
			}
		}
	}
	checkDump(final, final.Label, true)
	if live != nil {
		checkDump(live, live.Label, false)
	}

	// ---- commit versions are distinct ----
	byTs := map[uint64]int{}
	for i, v := range views {
		if v.ts == 0 {
			continue
		}
		if j, dup := byTs[v.ts]; dup {
			add("R-mono", "duplicate-commit-version", fmt.Sprintf("txns %d and %d both committed at version %d", txns[j].ID, txns[i].ID, v.ts), map[string]any{"a": txns[j], "b": txns[i]})
		}
		byTs[v.ts] = i
	}
	st.DistinctCommitTs = len(byTs)

	statusOfVal := func(val string) (string, *txnView) {
		w, ok := writer[val]
		if !ok {
			return "unwritten-value", nil
		}
		return "", views[w.txn]
	}

	// all keys known
	keyset := map[string]bool{}
	for k := range final.Keys {
		keyset[k] = true
	}
	for _, v := range views {
		for k := range v.pending {
			keyset[k] = true
		}
	}
	var allKeys []string
	for k := range keyset {
		allKeys = append(allKeys, k)
	}
	sort.Strings(allKeys)

	// ---- R-snap, R-rr ----
	for _, v := range views {
		t := v.rec
		pend := map[string]string{}
		lastSeen := map[string]string{}
		hasSeen := map[string]bool{}
		expect := func(key string) (val string, ver uint64, own bool) {
			if p, ok := pend[key]; ok {
				if p == del {
					return "", t.ReadTs, true
				}
				return p, t.ReadTs, true
			}
			rec, ok := final.VisibleAt(key, t.ReadTs)
			if !ok {
				return "", rec.Version, false
			}
			return rec.Val, rec.Version, false
		}
		classify := func(got, want string, own bool, key string) string {
			if own {
				return "own-pending-write-not-observed"
			}
			if got == "" {
				return "visible-version-not-observed"
			}
			cls, w := statusOfVal(got)
			if w == nil {
				return cls
			}
			switch {
			case w.rec.Status == TxnFailed || w.rec.Status == TxnDiscarded:
				return "value-of-" + w.rec.Status.String() + "-txn-observed"
			case w.ts == 0:
				return "value-not-in-final-dump-observed"
			case w.ts > t.ReadTs:
				return "newer-than-read-ts-observed"
			case want == "":
				return "deleted-or-absent-key-observed"
			default:
				return "older-version-observed"
			}
		}
		for oi, op := range t.Ops {
			switch op.Kind {
			case OpSet:
				if op.Err == "" {
					pend[op.Key] = op.Val
					delete(hasSeen, op.Key)
				}
			case OpDel:
				if op.Err == "" {
					pend[op.Key] = del
					delete(hasSeen, op.Key)
				}
			case OpGet:
				if op.Err != "" {
					st.ReadErrors++
					continue
				}
				want, wver, own := expect(op.Key)
				st.ReadsChecked++
				if own {
					st.OwnWriteReads++
				} else {
					v.readKeys[op.Key] = true
					if vs := final.Keys[op.Key]; len(vs) > 0 && vs[0].Version > t.ReadTs {
						st.ReadsWithNewerVersion++
					}
				}
				if op.Val != want {
					cls := classify(op.Val, want, own, op.Key)
					if !own && (cls == "older-version-observed" || cls == "visible-version-not-observed") {
						// Exactly what an older snapshot would have shown. Told apart by
						// the recorded stamps: was the commit that should have been seen
						// still in flight when this transaction began, or had its Commit
						// returned before this transaction was even started?
						cls = "concurrent-commit-at-or-below-read-ts-not-observed"
						if w, ok := writer[want]; ok && want != "" {
							wr := txns[w.txn]
							if wr.Status == TxnCommitted && wr.EndRet < t.BeginCall {
								cls = "version-committed-before-begin-not-observed"
							}
						}
					}
					add("R-snap", "get|"+cls, fmt.Sprintf("txn %d (read ts %d) Get(%q) returned %s, expected %s", t.ID, t.ReadTs, op.Key, show(op.Val), show(want)),
						map[string]any{"txn": t, "op_index": oi, "key_versions": final.Keys[op.Key], "expected_version": wver})
				} else if op.Val != "" && op.Version != wver {
					st.VersionFieldMismatch++
				}
				if !own {
					if hasSeen[op.Key] && lastSeen[op.Key] != op.Val {
						add("R-rr", "get", fmt.Sprintf("txn %d read key %q twice and got %s then %s", t.ID, op.Key, show(lastSeen[op.Key]), show(op.Val)), map[string]any{"txn": t, "op_index": oi})
					}
					hasSeen[op.Key], lastSeen[op.Key] = true, op.Val
				}
			case OpScan:
				if op.Err != "" {
					st.ReadErrors++
					continue
				}
				st.ScansChecked++
				flaggedScan := false
				// expected sequence
				var exp []ScanItem
				keys := append([]string(nil), allKeys...)
				if op.Reverse {
					sort.Sort(sort.Reverse(sort.StringSlice(keys)))
				}
				for _, k := range keys {
					if op.HasSeek {
						if !op.Reverse && k < op.Seek {
							continue
						}
						if op.Reverse && k > op.Seek {
							continue
						}
					}
					val, ver, _ := expect(k)
					if val == "" {
						continue
					}
					exp = append(exp, ScanItem{Key: k, Val: val, Version: ver})
				}
				n := len(op.Items)
				if op.Complete && n != len(exp) || n > len(exp) {
					n = -1
				}
				bad := ""
				if n >= 0 {
					for i := 0; i < n; i++ {
						g, w := op.Items[i], exp[i]
						st.ScanItemsChecked++
						if g.Key != w.Key {
							bad = "sequence"
							break
						}
						if g.Val != w.Val {
							_, own := pend[g.Key]
							bad = classify(g.Val, w.Val, own, g.Key)
							break
						}
					}
				} else {
					// which way does it differ?
					got := map[string]string{}
					for _, g := range op.Items {
						got[g.Key] = g.Val
					}
					want := map[string]string{}
					for _, w := range exp {
						want[w.Key] = w.Val
					}
					for _, g := range op.Items {
						if _, ok := want[g.Key]; !ok {
							bad = "deleted-or-absent-key-returned"
						}
					}
					if bad == "" {
						for _, w := range exp {
							if _, ok := got[w.Key]; !ok {
								bad = "visible-key-not-returned"
							}
						}
					}
					if bad == "" {
						bad = "sequence"
					}
				}
				if bad != "" {
					// Canonical classes for the defects known on this code base (they
					// are computed from the observed result, never assumed):
					//  known iterator defects - forward: a tombstone is skipped and the
					//    next older version of the key is returned instead of hiding it;
					//    reverse: the first (= oldest) live version of every key is returned;
					//  late visibility - the result is exactly what an older snapshot
					//    (some ts < read ts) would have shown.
					seqAt := func(rts uint64, defect bool) []ScanItem {
						var out []ScanItem
						for _, k := range keys {
							if op.HasSeek && (!op.Reverse && k < op.Seek || op.Reverse && k > op.Seek) {
								continue
							}
							var vs []VersionRec
							if p, ok := pend[k]; ok {
								vs = append(vs, VersionRec{Version: t.ReadTs, Val: p, Deleted: p == del})
							}
							for _, v := range final.Keys[k] {
								// a committed version at exactly the read ts has the same
								// internal key as the pending write and is shadowed by it
								if v.Version < rts || v.Version == rts && (len(vs) == 0 || rts != t.ReadTs) {
									vs = append(vs, v)
								}
							}
							var pick *VersionRec
							for i := range vs {
								if vs[i].Deleted {
									if !defect {
										break
									}
									continue
								}
								pick = &vs[i]
								if !(defect && op.Reverse) {
									break
								}
							}
							if pick != nil {
								out = append(out, ScanItem{Key: k, Val: pick.Val})
							}
						}
						return out
					}
					matches := func(pred []ScanItem) bool {
						same := len(pred) == len(op.Items) || !op.Complete && len(op.Items) <= len(pred)
						for i := 0; same && i < len(op.Items); i++ {
							same = op.Items[i].Key == pred[i].Key && op.Items[i].Val == pred[i].Val
						}
						return same
					}
					defectName := "tombstone-skipped-older-version-returned"
					if op.Reverse {
						defectName = "oldest-live-version-of-each-key-returned"
					}
					pred := seqAt(t.ReadTs, true)
					switch {
					case matches(pred):
						bad = defectName
					default:
						for back := uint64(1); back <= t.ReadTs && back <= 64; back++ {
							if matches(seqAt(t.ReadTs-back, false)) {
								bad = "matches-older-snapshot"
								break
							}
							if matches(seqAt(t.ReadTs-back, true)) {
								bad = defectName + "+matches-older-snapshot"
								break
							}
						}
					}
					if op.HasSeek && bad != defectName && !strings.HasPrefix(bad, defectName) && bad != "matches-older-snapshot" {
						// Seek defect: a table whose Seek fell between two blocks drops
						// out of the merge, so some keys are missing / shown at an older
						// version while every returned item is still one that the snapshot
						// (or the known tombstone defect) explains for some ts <= read ts.
						explained := true
						for _, g := range op.Items {
							okItem := false
							for _, v := range final.Keys[g.Key] {
								if v.Version <= t.ReadTs && !v.Deleted && v.Val == g.Val {
									okItem = true
								}
							}
							if p, own := pend[g.Key]; own && p == g.Val {
								okItem = true
							}
							explained = explained && okItem
						}
						if explained {
							bad = "after-seek|keys-missing-or-at-older-committed-version"
						} else {
							bad = "after-seek|" + bad
						}
					}
					flaggedScan = true
					dir := "forward"
					if op.Reverse {
						dir = "reverse"
					}
					add("R-snap", "scan-"+dir+"|"+bad, fmt.Sprintf("txn %d (read ts %d) iterator returned %v, expected %v", t.ID, t.ReadTs, op.Items, exp), map[string]any{"txn": t, "op_index": oi, "expected": exp, "known_defect_prediction": pred, "all_versions": final.Keys})
				}
				for _, g := range op.Items {
					if _, own := pend[g.Key]; own {
						continue
					}
					v.readKeys[g.Key] = true
					if flaggedScan {
						continue // already reported under R-snap; do not report the same items again under R-rr
					}
					if hasSeen[g.Key] && lastSeen[g.Key] != g.Val {
						add("R-rr", "scan", fmt.Sprintf("txn %d read key %q twice and got %s then %s", t.ID, g.Key, show(lastSeen[g.Key]), show(g.Val)), map[string]any{"txn": t, "op_index": oi})
					}
					hasSeen[g.Key], lastSeen[g.Key] = true, g.Val
				}
			}
		}
	}

	// ---- R-mono: Commit(A) returned before Commit(B) was called => ts(A) < ts(B) ----
	var withTs []*txnView
	for _, v := range views {
		if v.ts != 0 {
			withTs = append(withTs, v)
		}
	}
	byCall := append([]*txnView(nil), withTs...)
	sort.Slice(byCall, func(i, j int) bool { return byCall[i].rec.EndCall < byCall[j].rec.EndCall })
	var byRet []*txnView
	for _, v := range withTs {
		if v.rec.Status == TxnCommitted {
			byRet = append(byRet, v)
		}
	}
	sort.Slice(byRet, func(i, j int) bool { return byRet[i].rec.EndRet < byRet[j].rec.EndRet })
	var maxV *txnView
	ri := 0
	for _, b := range byCall {
		for ri < len(byRet) && byRet[ri].rec.EndRet < b.rec.EndCall {
			if maxV == nil || byRet[ri].ts > maxV.ts {
				maxV = byRet[ri]
			}
			ri++
		}
		if maxV != nil {
			st.MonoPairsChecked++
			if maxV.ts >= b.ts && maxV != b {
				ctx := "same-session"
				if maxV.rec.Phase != b.rec.Phase && b.rec.Phase == "after-reopen" {
					ctx = "across-reopen"
				}
				add("R-mono", "later-commit-got-smaller-version|"+ctx, fmt.Sprintf("txn %d committed at version %d and returned at %d; txn %d called commit at %d and got version %d", maxV.rec.ID, maxV.ts, maxV.rec.EndRet, b.rec.ID, b.rec.EndCall, b.ts),
					map[string]any{"earlier": maxV.rec, "later": b.rec})
			}
		}
	}

	// ---- R-conflict ----
	if detectConflicts {
		for _, v := range views {
			t := v.rec
			if !t.Update || len(v.readKeys) == 0 {
				continue
			}
			if t.Status == TxnCommitted && v.ts != 0 {
				overl := false
				for k := range v.readKeys {
					st.ConflictKeysChecked++
					for _, ver := range final.Keys[k] {
						if ver.Version > t.ReadTs && ver.Version < v.ts {
							wid := -1
							if j, ok := byTs[ver.Version]; ok {
								wid = txns[j].ID
							}
							add("R-conflict", "committed-despite-intervening-write", fmt.Sprintf("txn %d read key %q at read ts %d and committed at version %d although txn %d committed a write to it at version %d", t.ID, k, t.ReadTs, v.ts, wid, ver.Version),
								map[string]any{"txn": t, "key_versions": final.Keys[k]})
						}
						if j, ok := byTs[ver.Version]; ok && j >= 0 && views[j] != v {
							w := views[j].rec
							if w.BeginCall <= t.EndRet && t.BeginCall <= w.EndRet {
								overl = true
							}
						}
					}
				}
				if overl {
					st.RWOverlap++
				}
			}
			if t.Status == TxnFailed && t.ErrClass == "conflict" {
				just := false
				for k := range v.readKeys {
					if vs := final.Keys[k]; len(vs) > 0 && vs[0].Version > t.ReadTs {
						just = true
					}
				}
				if just {
					st.ConflictsJustified++
				} else {
					st.ConflictsSpurious++
				}
			}
		}
	}
	return out, st
}

func show(v string) string {
	if v == "" {
		return "not-found"
	}
	return fmt.Sprintf("%q", v)
}
