// Package hist is the concurrent-history engine (E-hist) of the harness: client
// goroutines call the public API of a real database through a recorder that
// stamps a call event before and a return event after every call, both from one
// monotonic clock; the recorded histories are judged offline — register
// histories (plain Set/Del/Get) by porcupine with a per-key register model,
// transactional histories by the MVCC checker in mvcc.go.
//
// Conventions shared by both checkers:
//   - an operation whose outcome is unknown (cut off by Close, an error that is
//     not one of the "had no effect" errors of the property) stays OPEN: it may
//     take effect at any time after its call, or never;
//   - an operation that reported one of the property's "no effect" errors is
//     FAILED: nothing it wrote may ever be observed;
//   - every written value carries a unique id, so a read names the write it saw.
package hist

import (
	"fmt"
	"sort"
	"strings"
	"sync"
	"time"

	"github.com/anishathalye/porcupine"
)

// Clock is the single monotonic clock of a history.
type Clock struct{ start time.Time }

// NewClock starts a clock.
func NewClock() *Clock { return &Clock{start: time.Now()} }

// Now returns nanoseconds since the clock started (monotonic).
func (c *Clock) Now() int64 { return int64(time.Since(c.start)) }

// Status of a recorded operation.
type Status uint8

const (
	OK     Status = iota // returned success
	Failed               // returned a "no effect" error of the property
	Open                 // outcome unknown: may take effect later or never
)

func (s Status) String() string { return [...]string{"ok", "failed", "open"}[s] }

// RegKind is the kind of a register operation.
type RegKind uint8

const (
	RegSet RegKind = iota
	RegDel
	RegGet
)

func (k RegKind) String() string { return [...]string{"set", "del", "get"}[k] }

// RegOp is one call of the plain API on one key.
type RegOp struct {
	Client int     `json:"client"`
	Kind   RegKind `json:"kind"`
	Key    string  `json:"key"`
	// Val is the unique id written (RegSet) or the id read (RegGet, "" = absent).
	Val    string `json:"val"`
	Status Status `json:"status"`
	Err    string `json:"err,omitempty"`
	Call   int64  `json:"call"`
	Ret    int64  `json:"ret"`
	// Panicked: the call panicked on the calling goroutine (recovered by the recorder).
	Panicked bool `json:"panicked,omitempty"`
}

func (o RegOp) String() string {
	s := fmt.Sprintf("c%d %s(%s", o.Client, o.Kind, o.Key)
	if o.Kind == RegSet {
		s += "," + o.Val
	}
	s += ")"
	if o.Kind == RegGet && o.Status == OK {
		if o.Val == "" {
			s += "->absent"
		} else {
			s += "->" + o.Val
		}
	}
	if o.Status != OK {
		s += " " + o.Status.String() + ":" + o.Err
	}
	return fmt.Sprintf("%s [%d,%d]", s, o.Call, o.Ret)
}

// RegRecorder collects register operations; every client goroutine owns one
// RegClient so that recording takes no shared lock on the hot path.
type RegRecorder struct {
	Clock   *Clock
	mu      sync.Mutex
	clients []*RegClient
}

// NewRegRecorder creates a recorder on a fresh clock.
func NewRegRecorder() *RegRecorder { return &RegRecorder{Clock: NewClock()} }

// RegClient is the per-goroutine recording handle.
type RegClient struct {
	id  int
	clk *Clock
	ops []RegOp
}

// Client returns a new client handle.
func (r *RegRecorder) Client() *RegClient {
	r.mu.Lock()
	defer r.mu.Unlock()
	c := &RegClient{id: len(r.clients), clk: r.Clock}
	r.clients = append(r.clients, c)
	return c
}

// Do records one operation: the call stamp is taken before fn runs, the
// return stamp after it returned. fn reports the status, the value read (for
// gets) and the error text.
func (c *RegClient) Do(kind RegKind, key, val string, fn func() (st Status, read string, err string)) RegOp {
	op := RegOp{Client: c.id, Kind: kind, Key: key, Val: val}
	var (
		st      Status
		read, e string
	)
	func() {
		// A panic raised on the calling goroutine by the API call is an
		// outcome of the call: the operation stays open (unknown effect) and
		// carries the panic text; the caller decides what that means.
		defer func() {
			if r := recover(); r != nil {
				st, read, e = Open, "", fmt.Sprintf("panic: %v", r)
				op.Panicked = true
			}
		}()
		op.Call = c.clk.Now()
		st, read, e = fn()
	}()
	op.Ret = c.clk.Now()
	op.Status, op.Err = st, e
	if kind == RegGet {
		op.Val = read
	}
	c.ops = append(c.ops, op)
	return op
}

// Ops returns all recorded operations sorted by call time. Must be called
// after the client goroutines have finished.
func (r *RegRecorder) Ops() []RegOp {
	r.mu.Lock()
	defer r.mu.Unlock()
	var out []RegOp
	for _, c := range r.clients {
		out = append(out, c.ops...)
	}
	sort.SliceStable(out, func(i, j int) bool { return out[i].Call < out[j].Call })
	return out
}

// ---------------------------------------------------------------------------
// checking

// RegVerdict is the outcome of checking one key.
type RegVerdict uint8

const (
	RegLinearizable RegVerdict = iota
	RegIllegal
	RegUnknown // checker timeout: inconclusive
)

// RegFinding describes a non-linearizable key.
type RegFinding struct {
	Key string `json:"key"`
	// Class is the canonical reason found by the structural pre-analysis
	// ("failed-write-visible", "unwritten-value", "future-read", "stale-read",
	// "lost-write", "resurrected-delete") or "other" when only porcupine's
	// search rejects the history.
	Class string `json:"class"`
	// ErrClass is the error class of the failed write for failed-write-visible.
	ErrClass string   `json:"err_class,omitempty"`
	What     string   `json:"what"`
	Ops      []string `json:"ops"`
}

// RegResult is the outcome of checking a whole history.
type RegResult struct {
	KeysChecked   int
	OpsChecked    int
	Findings      []RegFinding
	Unknown       []string // keys whose check timed out
	OverlapReads  int      // reads that overlapped a write of the same key
	OverlapWrites int      // writes that overlapped another write of the same key
}

type regIn struct {
	kind RegKind
	val  string
}

// registerModel: state = current value id ("" = absent).
var registerModel = porcupine.Model{
	Init: func() interface{} { return "" },
	Step: func(state, input, output interface{}) (bool, interface{}) {
		in := input.(regIn)
		cur := state.(string)
		switch in.kind {
		case RegSet:
			return true, in.val
		case RegDel:
			return true, ""
		default:
			return output.(string) == cur, cur
		}
	},
	Equal: func(a, b interface{}) bool { return a.(string) == b.(string) },
	DescribeOperation: func(input, output interface{}) string {
		in := input.(regIn)
		if in.kind == RegGet {
			return fmt.Sprintf("get->%q", output)
		}
		return fmt.Sprintf("%s %q", in.kind, in.val)
	},
}

// ErrClassOf reduces an error text to a short stable class.
func ErrClassOf(e string) string {
	l := strings.ToLower(e)
	switch {
	case e == "":
		return "none"
	case strings.Contains(l, "hot key write throttle") || strings.Contains(l, "throttle"):
		return "throttled"
	case strings.Contains(l, "too big") || strings.Contains(l, "too large"):
		return "too-big"
	case strings.Contains(l, "conflict"):
		return "conflict"
	case strings.Contains(l, "blocked") || strings.Contains(l, "closed"):
		return "closed"
	case strings.Contains(l, "discarded"):
		return "discarded"
	case strings.Contains(l, "not found"):
		return "not-found"
	}
	return "other"
}

// CheckRegister checks a plain-API history key by key. Failed operations are
// dropped (they must have no effect: if one had, a read names its value and
// the history is rejected); open operations get a return stamp after every
// other event. perKeyTimeout bounds porcupine's search per key (Unknown =
// inconclusive, never a verdict).
func CheckRegister(ops []RegOp, perKeyTimeout time.Duration) RegResult {
	var res RegResult
	byKey := map[string][]RegOp{}
	var end int64
	for _, o := range ops {
		byKey[o.Key] = append(byKey[o.Key], o)
		if o.Ret > end {
			end = o.Ret
		}
		if o.Call > end {
			end = o.Call
		}
	}
	end++
	keys := make([]string, 0, len(byKey))
	for k := range byKey {
		keys = append(keys, k)
	}
	sort.Strings(keys)
	for _, k := range keys {
		kops := byKey[k]
		res.KeysChecked++
		var pops []porcupine.Operation
		var eff []RegOp // operations that take part in the check
		for _, o := range kops {
			switch {
			case o.Kind == RegGet && o.Status != OK:
				continue // a read that reported an error says nothing
			case o.Kind != RegGet && o.Status == Failed:
				continue
			}
			if o.Status == Open {
				o.Ret = end
			}
			eff = append(eff, o)
			var out interface{}
			if o.Kind == RegGet {
				out = o.Val
			}
			pops = append(pops, porcupine.Operation{ClientId: o.Client, Input: regIn{o.Kind, o.Val}, Call: o.Call, Output: out, Return: o.Ret})
		}
		res.OpsChecked += len(eff)
		for i, a := range eff {
			for j, b := range eff {
				if i == j || b.Kind == RegGet {
					continue
				}
				if a.Call <= b.Ret && b.Call <= a.Ret {
					if a.Kind == RegGet {
						res.OverlapReads++
					} else if i < j {
						res.OverlapWrites++
					}
					break
				}
			}
		}
		// structural pre-analysis first: it gives the canonical class
		if f := classifyRegister(k, kops, eff); f != nil {
			res.Findings = append(res.Findings, *f)
			continue
		}
		switch porcupine.CheckOperationsTimeout(registerModel, pops, perKeyTimeout) {
		case porcupine.Ok:
		case porcupine.Unknown:
			res.Unknown = append(res.Unknown, k)
		default:
			f := RegFinding{Key: k, Class: "other", What: "porcupine found no linearization of the history of this key"}
			for _, o := range kops {
				f.Ops = append(f.Ops, o.String())
			}
			res.Findings = append(res.Findings, f)
		}
	}
	return res
}

// classifyRegister looks for the simple, always-sound refutations of
// linearizability; each is a sufficient condition (never a false alarm):
//
//	unwritten-value      a read returned an id that no write of the key carries
//	failed-write-visible a read returned the id of a write that reported a no-effect error
//	future-read          a read returned the id of a write called after the read returned
//	stale-read           a read returned id v although another successful write/delete W'
//	                     began after write(v) returned and returned before the read was called
//	lost-write           a read returned absent although a successful set returned before the
//	                     read was called and no delete (successful or open) was called at all
//	                     before the read returned
func classifyRegister(key string, all, eff []RegOp) *RegFinding {
	writer := map[string]RegOp{}
	for _, o := range all {
		if o.Kind == RegSet {
			writer[o.Val] = o
		}
	}
	mk := func(class, errc, what string, involved ...RegOp) *RegFinding {
		f := &RegFinding{Key: key, Class: class, ErrClass: errc, What: what}
		for _, o := range involved {
			f.Ops = append(f.Ops, o.String())
		}
		f.Ops = append(f.Ops, "--- full history of the key ---")
		for _, o := range all {
			f.Ops = append(f.Ops, o.String())
		}
		return f
	}
	for _, r := range eff {
		if r.Kind != RegGet {
			continue
		}
		if r.Val == "" {
			// lost-write
			anyDel := false
			var done *RegOp
			for i, w := range eff {
				if w.Kind == RegDel && w.Call <= r.Ret {
					anyDel = true
				}
				if w.Kind == RegSet && w.Status == OK && w.Ret < r.Call && done == nil {
					done = &eff[i]
				}
			}
			if !anyDel && done != nil {
				return mk("lost-write", "", fmt.Sprintf("Get(%s) returned not-found although %s had returned success before and the key was never deleted", key, done.String()), r, *done)
			}
			continue
		}
		w, ok := writer[r.Val]
		if !ok {
			return mk("unwritten-value", "", fmt.Sprintf("Get(%s) returned a value (%q) that no Set of this history wrote to this key", key, r.Val), r)
		}
		if w.Status == Failed {
			return mk("failed-write-visible", ErrClassOf(w.Err), fmt.Sprintf("Get(%s) returned the value of a Set that reported error %q", key, w.Err), r, w)
		}
		if w.Call > r.Ret {
			return mk("future-read", "", fmt.Sprintf("Get(%s) returned the value of a Set that was called after the Get returned", key), r, w)
		}
		if w.Status != OK {
			continue // open writer: no return stamp to reason with
		}
		for _, w2 := range eff {
			if w2.Kind == RegGet || w2.Status != OK || w2.Val == r.Val && w2.Kind == RegSet {
				continue
			}
			if w2.Call > w.Ret && w2.Ret < r.Call {
				return mk("stale-read", "", fmt.Sprintf("Get(%s) returned %q although %s began after that write returned and finished before the Get was called", key, r.Val, w2.String()), r, w, w2)
			}
		}
	}
	return nil
}
