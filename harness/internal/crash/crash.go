// Package crash is the process-crash enumeration engine (E-crash) for the
// embedded DB: a worker child runs a seeded single-writer workload through a
// FaultFS hook that counts durability-relevant file operations and SIGKILLs the
// process before operation N (or right after step k was acknowledged); a
// verifier child reopens the directory, dumps the visible contents, optionally
// runs maintenance actions and dumps again. The parent holds the model.
package crash

import (
	"bufio"
	"bytes"
	"encoding/json"
	"errors"
	"fmt"
	"math/rand"
	"os"
	"os/exec"
	"path/filepath"
	"sort"
	"strconv"
	"strings"
	"sync/atomic"
	"syscall"
	"time"

	NoKV "github.com/feichai0017/NoKV"
	"github.com/feichai0017/NoKV/kv"
	"github.com/feichai0017/NoKV/utils"
	"github.com/feichai0017/NoKV/vfs"
	"verif/harness/internal/core"
	"verif/harness/internal/dbx"
)

// Workload is a deterministic single-writer workload.
type Workload struct {
	Seed    int64  `json:"seed"`
	Mode    string `json:"mode"`    // "plain" (each key written once) | "txn"
	Variant string `json:"variant"` // "compaction" (L0 limit 2, no GC) | "gc" (GC steps, no L0->ingest moves)
	Sync    bool   `json:"sync"`
	Engine  string `json:"engine"`
	NSteps  int    `json:"nsteps"`
	// SlowTables makes the worker's file system slow for table files (120 ms per table-file
	// creation), so that sealed memtables pile up behind the flush and the crash image holds
	// several WAL segments. A perturbation only: it changes no outcome.
	SlowTables bool `json:"slow_tables,omitempty"`
}

// KV is one write of a step (Del when Value is nil).
type KV struct {
	Key   string `json:"k"`
	Value string `json:"v,omitempty"` // value id; the stored value is the id padded to Size
	Size  int    `json:"s,omitempty"`
	Del   bool   `json:"d,omitempty"`
}

// Step is one client call.
type Step struct {
	Kind   string `json:"kind"` // "set" | "txn" | "gc"
	Writes []KV   `json:"w,omitempty"`
}

// Steps generates the step list.
func (w Workload) Steps() []Step {
	rng := rand.New(rand.NewSource(w.Seed))
	var steps []Step
	sizes := []int{12, 24, 31, 32, 33, 200, 3000}
	nkeys := 10
	for i := 0; i < w.NSteps; i++ {
		if w.Variant == "gc" && i > 0 && i%9 == 8 {
			steps = append(steps, Step{Kind: "gc"})
			continue
		}
		if w.Mode == "plain" {
			k := fmt.Sprintf("p-%04d", i)
			steps = append(steps, Step{Kind: "set", Writes: []KV{{Key: k, Value: fmt.Sprintf("%d.%d.0|", w.Seed, i), Size: sizes[rng.Intn(len(sizes))]}}})
			continue
		}
		n := 1 + rng.Intn(3)
		st := Step{Kind: "txn"}
		used := map[string]bool{}
		for j := 0; j < n; j++ {
			k := fmt.Sprintf("t-%02d", rng.Intn(nkeys))
			if used[k] {
				continue
			}
			used[k] = true
			if rng.Intn(5) == 0 {
				st.Writes = append(st.Writes, KV{Key: k, Del: true})
			} else {
				st.Writes = append(st.Writes, KV{Key: k, Value: fmt.Sprintf("%d.%d.%d|", w.Seed, i, j), Size: sizes[rng.Intn(len(sizes))]})
			}
		}
		steps = append(steps, st)
	}
	return steps
}

// Keys returns the key universe of the workload.
func (w Workload) Keys() []string {
	seen := map[string]bool{}
	var out []string
	for _, s := range w.Steps() {
		for _, kvp := range s.Writes {
			if !seen[kvp.Key] {
				seen[kvp.Key] = true
				out = append(out, kvp.Key)
			}
		}
	}
	sort.Strings(out)
	return out
}

// Options returns the DB options of the workload.
func (w Workload) Options(dir string) *NoKV.Options {
	cfg := dbx.Config{Engine: w.Engine, ValueThreshold: 32, Buckets: 1, VlogFileSize: 8 << 10, ManifestRewrite: 512,
		MemTableSize: 2 << 10, L0Tables: 2, SyncWrites: w.Sync, DetectConflicts: w.Mode == "txn"}
	if w.Variant == "gc" {
		cfg.L0Tables = 1000
		// hot/cold value-log routing: keys overwritten three times move to the
		// hot bucket, so GC meets keys whose newer version lives in another bucket
		cfg.Buckets = 3
		cfg.HotRing = true
	}
	o := cfg.Options(dir)
	o.NumCompactors = 1
	return o
}

// StoredValue renders the bytes stored for a write.
func StoredValue(kvp KV) []byte { return dbx.Value(kvp.Value, kvp.Size) }

// ---------------------------------------------------------------------------
// fault hook

// Classify maps a path to a file class.
func Classify(path string) string {
	base := filepath.Base(path)
	switch {
	case strings.HasSuffix(base, ".wal"):
		return "wal"
	case strings.HasSuffix(base, ".sst"):
		return "sst"
	case strings.HasSuffix(base, ".vlog"):
		return "vlog"
	case strings.HasPrefix(base, "MANIFEST"):
		return "manifest"
	case strings.HasPrefix(base, "CURRENT"):
		return "current"
	case base == "LOCK":
		return "lock"
	case strings.Contains(path, "/vlog"):
		return "vlogdir"
	}
	return "other"
}

// Durable reports whether an op changes what a crash would leave behind.
func Durable(op vfs.Op) bool {
	switch op {
	case vfs.OpFileWrite, vfs.OpFileSync, vfs.OpFileTrunc, vfs.OpTruncate, vfs.OpRename, vfs.OpRemove, vfs.OpWriteFile, vfs.OpOpenFile, vfs.OpRemoveAll, vfs.OpMkdirAll:
		return true
	}
	return false
}

// Counter is the FaultFS hook state.
type Counter struct {
	n      atomic.Int64
	KillAt int64
	hist   map[string][]int64
	histMu chan struct{}
}

// NewCounter creates a hook state; killAt 0 = never kill (dry run).
func NewCounter(killAt int64) *Counter {
	c := &Counter{KillAt: killAt, hist: map[string][]int64{}, histMu: make(chan struct{}, 1)}
	c.histMu <- struct{}{}
	return c
}

// Hook is the vfs.Hook.
func (c *Counter) Hook(op vfs.Op, path string) error {
	if !Durable(op) {
		return nil
	}
	n := c.n.Add(1)
	if c.KillAt > 0 && n == c.KillAt {
		_ = syscall.Kill(os.Getpid(), syscall.SIGKILL)
		select {} // never returns
	}
	if c.KillAt == 0 {
		<-c.histMu
		k := string(op) + "|" + Classify(path)
		if len(c.hist[k]) < 4000 {
			c.hist[k] = append(c.hist[k], n)
		}
		c.histMu <- struct{}{}
	}
	return nil
}

// Result returns the dry-run histogram.
func (c *Counter) Result() DryResult { return DryResult{Total: c.n.Load(), Strata: c.hist} }

// DryResult is what the dry run reports.
type DryResult struct {
	Total  int64              `json:"total"`
	Strata map[string][]int64 `json:"strata"`
}

// ---------------------------------------------------------------------------
// worker: crashdb <dir> <acklog> <workload.json> <killAt> <afterStep> <dryOut>

func ackLine(f *os.File, s string) { _, _ = f.Write([]byte(s + "\n")) }

func workerMain(args []string) int {
	if len(args) < 6 {
		return 2
	}
	dir, ackPath := args[0], args[1]
	var w Workload
	if err := json.Unmarshal([]byte(args[2]), &w); err != nil {
		fmt.Fprintln(os.Stderr, err)
		return 2
	}
	killAt, _ := strconv.ParseInt(args[3], 10, 64)
	afterStep, _ := strconv.Atoi(args[4])
	dryOut := args[5]
	ack, err := os.OpenFile(ackPath, os.O_CREATE|os.O_WRONLY|os.O_APPEND, 0o644)
	if err != nil {
		return 2
	}
	ctr := NewCounter(killAt)
	o := w.Options(dir)
	hook := ctr.Hook
	if w.SlowTables {
		hook = func(op vfs.Op, path string) error {
			if op == vfs.OpOpenFile && Classify(path) == "sst" {
				time.Sleep(120 * time.Millisecond)
			}
			return ctr.Hook(op, path)
		}
	}
	o.FS = vfs.NewFaultFS(vfs.OSFS{}, hook)
	db := NoKV.Open(o)
	ackLine(ack, "OPENED")
	for i, st := range w.Steps() {
		ackLine(ack, fmt.Sprintf("CALL %d", i))
		var err error
		switch st.Kind {
		case "set":
			kvp := st.Writes[0]
			err = db.Set([]byte(kvp.Key), StoredValue(kvp))
		case "txn":
			txn := db.NewTransaction(true)
			for _, kvp := range st.Writes {
				if kvp.Del {
					err = txn.Delete([]byte(kvp.Key))
				} else {
					err = txn.Set([]byte(kvp.Key), StoredValue(kvp))
				}
				if err != nil {
					break
				}
			}
			if err == nil {
				err = txn.Commit()
			} else {
				txn.Discard()
			}
		case "gc":
			gerr := db.RunValueLogGC(0.01)
			if gerr != nil && !errors.Is(gerr, utils.ErrNoRewrite) && !errors.Is(gerr, utils.ErrRejected) {
				ackLine(ack, fmt.Sprintf("NOTE %d gc: %v", i, gerr))
			}
		}
		if err != nil {
			ackLine(ack, fmt.Sprintf("ERR %d %v", i, err))
		} else {
			ackLine(ack, fmt.Sprintf("ACK %d", i))
		}
		if afterStep >= 0 && i == afterStep {
			_ = syscall.Kill(os.Getpid(), syscall.SIGKILL)
			select {}
		}
	}
	ackLine(ack, "CLOSING")
	if err := db.Close(); err != nil {
		ackLine(ack, "CLOSEERR "+err.Error())
	}
	ackLine(ack, "DONE")
	if dryOut != "" && killAt == 0 {
		b, _ := json.Marshal(DryResult{Total: ctr.n.Load(), Strata: ctr.hist})
		_ = os.WriteFile(dryOut, b, 0o644)
	}
	return 0
}

// ---------------------------------------------------------------------------
// verifier: crashverify <dir> <workload.json> <out.json> <maintenance: none|compaction|gc>

// Dump is the visible contents through the read APIs.
type Dump struct {
	Get      map[string]string `json:"get"`      // key -> value head+len, "" absent
	Iter     []string          `json:"iter"`     // "key=head" in iteration order
	Errors   []string          `json:"errors"`   // read errors
	Versions map[string]uint64 `json:"versions"` // txn mode: version of the visible entry
}

// VerifyResult is the verifier's output.
type VerifyResult struct {
	OpenError   string   `json:"open_error,omitempty"`
	First       *Dump    `json:"first,omitempty"`
	Second      *Dump    `json:"second,omitempty"`
	Actions     []string `json:"actions,omitempty"`
	ActionError string   `json:"action_error,omitempty"`
	Layout      string   `json:"layout,omitempty"`
}

func headLen(v []byte) string {
	h := v
	if i := bytes.IndexByte(v, '|'); i >= 0 && i < 40 {
		h = v[:i+1]
	} else if len(h) > 24 {
		h = h[:24]
	}
	return fmt.Sprintf("%s#%d", h, len(v))
}

func dumpDB(db *NoKV.DB, w Workload) *Dump {
	d := &Dump{Get: map[string]string{}, Versions: map[string]uint64{}}
	keys := w.Keys()
	if w.Mode == "plain" {
		for _, k := range keys {
			e, err := db.Get([]byte(k))
			switch {
			case err == nil:
				d.Get[k] = headLen(e.Value)
			case errors.Is(err, utils.ErrKeyNotFound):
				d.Get[k] = ""
			default:
				d.Get[k] = "ERR"
				d.Errors = append(d.Errors, fmt.Sprintf("Get(%s): %v", k, err))
			}
		}
		it := db.NewIterator(&utils.Options{IsAsc: true})
		for it.Rewind(); it.Valid(); it.Next() {
			e := it.Item().Entry()
			if bytes.HasPrefix(e.Key, []byte("!NoKV!")) {
				continue
			}
			d.Iter = append(d.Iter, fmt.Sprintf("%s=%s", e.Key, headLen(e.Value)))
		}
		_ = it.Close()
		return d
	}
	txn := db.NewTransaction(false)
	defer txn.Discard()
	for _, k := range keys {
		item, err := txn.Get([]byte(k))
		switch {
		case err == nil:
			v, verr := item.ValueCopy(nil)
			if verr != nil {
				d.Get[k] = "ERR"
				d.Errors = append(d.Errors, fmt.Sprintf("Get(%s).ValueCopy: %v", k, verr))
			} else {
				d.Get[k] = headLen(v)
				d.Versions[k] = item.Entry().Version
			}
		case errors.Is(err, utils.ErrKeyNotFound):
			d.Get[k] = ""
		default:
			d.Get[k] = "ERR"
			d.Errors = append(d.Errors, fmt.Sprintf("Get(%s): %v", k, err))
		}
	}
	it := txn.NewIterator(NoKV.IteratorOptions{})
	for it.Rewind(); it.Valid(); it.Next() {
		item := it.Item()
		key := item.Entry().Key
		if bytes.HasPrefix(key, []byte("!NoKV!")) {
			continue
		}
		v, verr := item.ValueCopy(nil)
		if verr != nil {
			d.Errors = append(d.Errors, fmt.Sprintf("iter(%s).ValueCopy: %v", key, verr))
			d.Iter = append(d.Iter, fmt.Sprintf("%s=ERR", key))
			continue
		}
		d.Iter = append(d.Iter, fmt.Sprintf("%s=%s", key, headLen(v)))
	}
	it.Close()
	return d
}

func verifyMain(args []string) int {
	if len(args) < 4 {
		return 2
	}
	dir, outPath, maint := args[0], args[2], args[3]
	var w Workload
	if err := json.Unmarshal([]byte(args[1]), &w); err != nil {
		return 2
	}
	res := VerifyResult{}
	write := func() int {
		b, _ := json.Marshal(res)
		_ = os.WriteFile(outPath, b, 0o644)
		return 0
	}
	o := w.Options(dir)
	db, err := dbx.Open(o)
	if err != nil {
		res.OpenError = err.Error()
		return write()
	}
	db.VerifLSM().VerifSetCompactionPaused(true)
	res.First = dumpDB(db, w)
	res.Layout = dbx.LayoutShape(db)
	if maint != "none" {
		cfg := dbx.Config{Controlled: true}
		env := &dbx.Env{Cfg: cfg, Dir: dir, DB: db, Prov: map[uint64]string{}, Count: func(string, int) {}}
		var actions []string
		if maint == "compaction" {
			actions = []string{"rotate-wait", "compact:l0", "compact:ingest-drain", "gc", "rotate-wait"}
		} else {
			actions = []string{"rotate-wait", "gc", "rotate-wait", "gc-public"}
		}
		for _, a := range actions {
			r := dbx.DoAction(db, a)
			tag := a
			if r.Effect {
				tag += ":effect"
			}
			res.Actions = append(res.Actions, tag)
			if r.Err != nil && res.ActionError == "" {
				res.ActionError = a + ": " + r.Err.Error()
			}
		}
		_ = env
		// close / reopen
		if err := db.Close(); err != nil {
			res.ActionError = "close: " + err.Error()
		}
		db, err = dbx.Open(w.Options(dir))
		if err != nil {
			res.OpenError = "reopen after maintenance: " + err.Error()
			return write()
		}
		res.Actions = append(res.Actions, "reopen")
		res.Second = dumpDB(db, w)
	}
	_ = db.Close()
	return write()
}

// crashagain <dir> <workload.json> <out.json> <killAt>: second crash without client writes. The
// crash image is reopened on a counting FaultFS; the visible contents are dumped as soon as Open
// returns (out.json), then recovery's background flushes / compactions go on until the killAt-th
// durable file operation after the dump kills it, or, failing that, until the flush queue is
// empty and the process kills itself. The database is never closed.
func againMain(args []string) int {
	if len(args) < 4 {
		return 2
	}
	dir, outPath := args[0], args[2]
	var w Workload
	if err := json.Unmarshal([]byte(args[1]), &w); err != nil {
		return 2
	}
	killAt, _ := strconv.ParseInt(args[3], 10, 64)
	res := VerifyResult{}
	write := func() {
		b, _ := json.Marshal(res)
		_ = os.WriteFile(outPath+".tmp", b, 0o644)
		_ = os.Rename(outPath+".tmp", outPath)
	}
	ctr := NewCounter(killAt)
	ctr.hist = nil
	var armed atomic.Bool // operations are counted from the moment the first dump is on disk
	o := w.Options(dir)
	o.FS = vfs.NewFaultFS(vfs.OSFS{}, func(op vfs.Op, path string) error {
		if !Durable(op) || !armed.Load() {
			return nil
		}
		if n := ctr.n.Add(1); n == ctr.KillAt {
			_ = syscall.Kill(os.Getpid(), syscall.SIGKILL)
			select {}
		}
		return nil
	})
	db, err := dbx.Open(o)
	if err != nil {
		res.OpenError = err.Error()
		write()
		return 0
	}
	res.Layout = dbx.LayoutShape(db) // right after Open: "imm:n" = recovered memtables waiting for their flush
	res.First = dumpDB(db, w)
	res.Actions = []string{fmt.Sprintf("crash-again@%d", killAt)}
	write()
	armed.Store(true)
	db.VerifLSM().VerifWaitFlush(20 * time.Second)
	time.Sleep(20 * time.Millisecond)
	_ = syscall.Kill(os.Getpid(), syscall.SIGKILL)
	select {}
}

// RunAgain runs the crashagain child and returns what it wrote before it died.
func RunAgain(dir string, w Workload, killAt int64, scratch string) (VerifyResult, error) {
	wj, _ := json.Marshal(w)
	out := filepath.Join(scratch, fmt.Sprintf("again-%d.json", time.Now().UnixNano()))
	defer os.Remove(out)
	defer os.Remove(out + ".tmp")
	cmd := exec.Command(core.SelfExe(), "worker", "crashagain", dir, string(wj), out, strconv.FormatInt(killAt, 10))
	var buf bytes.Buffer
	cmd.Stdout = &buf
	cmd.Stderr = &buf
	if err := cmd.Start(); err != nil {
		return VerifyResult{}, err
	}
	done := make(chan error, 1)
	go func() { done <- cmd.Wait() }()
	select {
	case <-done:
	case <-time.After(3 * time.Minute):
		_ = cmd.Process.Kill()
		<-done
		return VerifyResult{}, errors.New("crash-again watchdog (3m) fired")
	}
	var res VerifyResult
	b, rerr := os.ReadFile(out)
	if rerr != nil {
		return res, nil // killed before the dump was complete
	}
	if err := json.Unmarshal(b, &res); err != nil {
		return res, err
	}
	return res, nil
}

func init() {
	core.RegisterWorker("crashdb", workerMain)
	core.RegisterWorker("crashverify", verifyMain)
	core.RegisterWorker("crashagain", againMain)
}

// ---------------------------------------------------------------------------
// parent side

// AckLog is the parsed ack log.
type AckLog struct {
	Opened bool
	Called int // number of CALL lines
	Acked  []bool
	Errs   map[int]string
	Done   bool
	Closing bool
}

// ReadAckLog parses the worker's ack log.
func ReadAckLog(path string) AckLog {
	var a AckLog
	a.Errs = map[int]string{}
	f, err := os.Open(path)
	if err != nil {
		return a
	}
	defer f.Close()
	sc := bufio.NewScanner(f)
	for sc.Scan() {
		parts := strings.SplitN(sc.Text(), " ", 3)
		switch parts[0] {
		case "OPENED":
			a.Opened = true
		case "CALL":
			a.Called++
			a.Acked = append(a.Acked, false)
		case "ACK":
			if i, err := strconv.Atoi(parts[1]); err == nil && i < len(a.Acked) {
				a.Acked[i] = true
			}
		case "ERR":
			if i, err := strconv.Atoi(parts[1]); err == nil {
				msg := ""
				if len(parts) > 2 {
					msg = parts[2]
				}
				a.Errs[i] = msg
			}
		case "CLOSING":
			a.Closing = true
		case "DONE":
			a.Done = true
		}
	}
	return a
}

// NumAcked returns the number of leading steps that completed (ACK or ERR).
func (a AckLog) NumAcked() int {
	n := 0
	for i := 0; i < a.Called; i++ {
		if a.Acked[i] {
			n = i + 1
		} else if _, ok := a.Errs[i]; ok {
			n = i + 1
		}
	}
	return n
}

// RunWorker runs the worker; killAt 0 and afterStep -1 = dry run to completion.
func RunWorker(dir, ackPath string, w Workload, killAt int64, afterStep int, dryOut string) (exitErr error, stderr string) {
	wj, _ := json.Marshal(w)
	cmd := exec.Command(core.SelfExe(), "worker", "crashdb", dir, ackPath, string(wj), strconv.FormatInt(killAt, 10), strconv.Itoa(afterStep), dryOut)
	var buf bytes.Buffer
	cmd.Stdout = &buf
	cmd.Stderr = &buf
	done := make(chan error, 1)
	if err := cmd.Start(); err != nil {
		return err, ""
	}
	go func() { done <- cmd.Wait() }()
	select {
	case err := <-done:
		return err, tail(buf.String())
	case <-time.After(3 * time.Minute):
		_ = cmd.Process.Signal(syscall.SIGQUIT)
		select {
		case <-done:
		case <-time.After(5 * time.Second):
			_ = cmd.Process.Kill()
			<-done
		}
		return errors.New("worker watchdog (3m) fired"), tail(buf.String())
	}
}

func tail(s string) string {
	if len(s) > 6000 {
		return s[:3000] + "\n...\n" + s[len(s)-3000:]
	}
	return s
}

// RunVerifier runs the verifier child.
func RunVerifier(dir string, w Workload, maint string, scratch string) (VerifyResult, error) {
	wj, _ := json.Marshal(w)
	out := filepath.Join(scratch, fmt.Sprintf("verify-%d.json", time.Now().UnixNano()))
	cmd := exec.Command(core.SelfExe(), "worker", "crashverify", dir, string(wj), out, maint)
	var buf bytes.Buffer
	cmd.Stdout = &buf
	cmd.Stderr = &buf
	done := make(chan error, 1)
	if err := cmd.Start(); err != nil {
		return VerifyResult{}, err
	}
	go func() { done <- cmd.Wait() }()
	var werr error
	select {
	case werr = <-done:
	case <-time.After(3 * time.Minute):
		_ = cmd.Process.Kill()
		<-done
		return VerifyResult{}, errors.New("verifier watchdog (3m) fired")
	}
	var res VerifyResult
	b, rerr := os.ReadFile(out)
	_ = os.Remove(out)
	if rerr != nil {
		return res, fmt.Errorf("verifier died without output (%v): %s", werr, tail(buf.String()))
	}
	if err := json.Unmarshal(b, &res); err != nil {
		return res, err
	}
	return res, nil
}

// ModelAfter returns the visible state after the first p steps.
func ModelAfter(steps []Step, p int, errs map[int]string) map[string]string {
	m := map[string]string{}
	for i := 0; i < p && i < len(steps); i++ {
		if _, failed := errs[i]; failed {
			continue
		}
		for _, kvp := range steps[i].Writes {
			if kvp.Del {
				m[kvp.Key] = ""
			} else {
				m[kvp.Key] = headLen(StoredValue(kvp))
			}
		}
	}
	return m
}

// MatchPrefix finds p in [lo,hi] such that the dump's point reads equal the
// model after p steps; returns -1 if none.
func MatchPrefix(get map[string]string, keys []string, steps []Step, lo, hi int, errs map[int]string) int {
	for p := hi; p >= lo; p-- {
		m := ModelAfter(steps, p, errs)
		ok := true
		for _, k := range keys {
			if get[k] != m[k] {
				ok = false
				break
			}
		}
		if ok {
			return p
		}
	}
	return -1
}

// var _ = kv.CFDefault
var _ = kv.CFDefault

// ---------------------------------------------------------------------------
// crash-point planning and execution shared by C09/C10/C11

// Point is one crash point.
type Point struct {
	KillAt    int64  // ordinal of the durable file operation before which the process dies (0 = none)
	AfterStep int    // kill right after ACK of this step (-1 = none)
	Stratum   string // "op|class" or "after-step"
}

// Plan runs the dry run and selects this chunk's crash points.
func Plan(c *core.Case, w Workload, chunk, chunks int, perStratum int, uniform int) ([]Point, DryResult, error) {
	dir := c.TempDir()
	defer os.RemoveAll(dir)
	ack := filepath.Join(dir, "..", fmt.Sprintf("ack-dry-%d-%d", c.Idx, time.Now().UnixNano()))
	defer os.Remove(ack)
	dry := filepath.Join(dir, "..", fmt.Sprintf("dry-%d-%d.json", c.Idx, time.Now().UnixNano()))
	defer os.Remove(dry)
	err, stderr := RunWorker(dir, ack, w, 0, -1, dry)
	if err != nil {
		return nil, DryResult{}, fmt.Errorf("dry run failed: %v: %s", err, stderr)
	}
	var dr DryResult
	b, rerr := os.ReadFile(dry)
	if rerr != nil {
		return nil, dr, rerr
	}
	if err := json.Unmarshal(b, &dr); err != nil {
		return nil, dr, err
	}
	var names []string
	for k := range dr.Strata {
		names = append(names, k)
	}
	sort.Strings(names)
	seen := map[int64]bool{}
	var pts []Point
	add := func(n int64, s string) {
		if n <= 0 || seen[n] {
			return
		}
		seen[n] = true
		pts = append(pts, Point{KillAt: n, AfterStep: -1, Stratum: s})
	}
	for _, name := range names {
		ords := dr.Strata[name]
		if len(ords) == 0 {
			continue
		}
		if perStratum >= len(ords) {
			for _, n := range ords {
				add(n, name)
			}
			continue
		}
		for j := 0; j < perStratum; j++ {
			idx := 0
			if perStratum > 1 {
				idx = j * (len(ords) - 1) / (perStratum - 1)
			}
			add(ords[idx], name)
		}
	}
	// uniform extra points, attributed to their stratum
	ordStratum := map[int64]string{}
	for name, ords := range dr.Strata {
		for _, n := range ords {
			ordStratum[n] = name
		}
	}
	for j := 0; j < uniform; j++ {
		n := 1 + c.Rng.Int63n(dr.Total)
		s := ordStratum[n]
		if s == "" {
			s = "unclassified"
		}
		add(n, s)
	}
	// the window "value-log segment created by rotation, manifest does not know
	// it yet, WAL may already point into it": the operations right after every
	// creation of a value-log segment.
	if ords := dr.Strata["open_file|vlog"]; len(ords) > 0 {
		for _, n := range ords {
			for d := int64(1); d <= 6; d++ {
				if n+d <= dr.Total && !seen[n+d] {
					seen[n+d] = true
					pts = append(pts, Point{KillAt: n + d, AfterStep: -1, Stratum: "within-6-ops-after-vlog-segment-create"})
				}
			}
		}
	}
	// the flush / compaction hand-over "table file complete -> manifest edit(s) -> WAL segment or
	// input tables removed": every operation in the window after the first, the middle and the
	// last table creation, and the two operations around the first and last WAL segment removal
	// (a change in the order of these steps only shows between two particular operations).
	pick3 := func(ords []int64) []int64 {
		if len(ords) <= 3 {
			return ords
		}
		return []int64{ords[0], ords[len(ords)/2], ords[len(ords)-1]}
	}
	for _, n := range pick3(dr.Strata["open_file|sst"]) {
		for d := int64(1); d <= 10; d++ {
			if n+d <= dr.Total && !seen[n+d] {
				seen[n+d] = true
				pts = append(pts, Point{KillAt: n + d, AfterStep: -1, Stratum: "within-10-ops-after-table-create"})
			}
		}
	}
	if ords := dr.Strata["remove|wal"]; len(ords) > 0 {
		for _, n := range []int64{ords[0], ords[len(ords)-1]} {
			for _, d := range []int64{-2, -1, 1, 2} {
				if m := n + d; m >= 1 && m <= dr.Total && !seen[m] {
					seen[m] = true
					pts = append(pts, Point{KillAt: m, AfterStep: -1, Stratum: "around-wal-segment-removal"})
				}
			}
		}
	}
	nsteps := len(w.Steps())
	for k := 0; k < nsteps; k += max(1, nsteps/8) {
		pts = append(pts, Point{AfterStep: k, Stratum: "after-step"})
	}
	var mine []Point
	for i, p := range pts {
		if i%chunks == chunk {
			mine = append(mine, p)
		}
	}
	return mine, dr, nil
}

// Outcome of one crash point.
type Outcome struct {
	Point  Point
	Died   bool // the worker was killed (the crash point was reached)
	Ack    AckLog
	Verify VerifyResult
	Err    error // infrastructure error (inconclusive)
	Stderr string
}

// RunPoint executes one crash point and the verifier.
func RunPoint(c *core.Case, w Workload, p Point, maint string) Outcome {
	dir := c.TempDir()
	defer os.RemoveAll(dir)
	ack := dir + ".ack"
	defer os.Remove(ack)
	out := Outcome{Point: p}
	if strings.HasPrefix(maint, "crash-again@") {
		w.SlowTables = true
	}
	werr, stderr := RunWorker(dir, ack, w, p.KillAt, p.AfterStep, "")
	out.Stderr = stderr
	out.Ack = ReadAckLog(ack)
	if werr != nil {
		var ee *exec.ExitError
		if errors.As(werr, &ee) {
			if ws, ok := ee.Sys().(syscall.WaitStatus); ok && ws.Signaled() && ws.Signal() == syscall.SIGKILL {
				out.Died = true
			}
		}
		if !out.Died {
			out.Err = fmt.Errorf("worker failed without being killed: %v: %s", werr, stderr)
			return out
		}
	}
	if strings.HasPrefix(maint, "crash-again@") {
		k, _ := strconv.ParseInt(strings.TrimPrefix(maint, "crash-again@"), 10, 64)
		first, aerr := RunAgain(dir, w, k, filepath.Dir(dir))
		if aerr != nil {
			out.Err = aerr
			return out
		}
		if first.OpenError != "" {
			out.Verify = first
			return out
		}
		vr, verr := RunVerifier(dir, w, "none", filepath.Dir(dir))
		if verr != nil {
			out.Err = verr
			return out
		}
		acts := first.Actions
		for _, f := range strings.Fields(first.Layout) {
			if strings.HasPrefix(f, "imm:") {
				acts = append(acts, f)
			}
		}
		out.Verify = VerifyResult{First: first.First, Second: vr.First, Actions: append(acts, "reopen"), Layout: vr.Layout}
		if vr.OpenError != "" {
			out.Verify.OpenError = "reopen after maintenance: " + vr.OpenError
		}
		return out
	}
	vr, verr := RunVerifier(dir, w, maint, filepath.Dir(dir))
	if verr != nil {
		out.Err = verr
		return out
	}
	out.Verify = vr
	return out
}

// Workloads returns the fixed workload list of a tier.
func Workloads(seed int64, tier string, syncModes []bool) []Workload {
	var out []Workload
	n := 40
	reps := 1
	if len(syncModes) == 1 {
		reps = 2
	}
	if tier == "thorough" {
		n = 70
		reps = 3 * reps
	}
	id := int64(0)
	for r := 0; r < reps; r++ {
		for _, mode := range []string{"txn", "plain"} {
			for _, variant := range []string{"compaction", "gc"} {
				for _, s := range syncModes {
					id++
					eng := "skiplist"
					if (id+int64(r))%3 == 0 {
						eng = "art"
					}
					out = append(out, Workload{Seed: seed*1000 + id, Mode: mode, Variant: variant, Sync: s, Engine: eng, NSteps: n})
				}
			}
		}
	}
	return out
}

// crashrepro <workload.json> <killAt> <afterStep> <dir>: run one crash point in
// <dir> (kept) and print ack log summary + verifier result. Debug helper.
func reproMain(args []string) int {
	if len(args) < 4 {
		return 2
	}
	var w Workload
	if err := json.Unmarshal([]byte(args[0]), &w); err != nil {
		fmt.Println(err)
		return 2
	}
	killAt, _ := strconv.ParseInt(args[1], 10, 64)
	afterStep, _ := strconv.Atoi(args[2])
	dir := args[3]
	_ = os.RemoveAll(dir)
	_ = os.MkdirAll(dir, 0o755)
	ack := dir + ".ack"
	_ = os.Remove(ack)
	werr, stderr := RunWorker(dir, ack, w, killAt, afterStep, "")
	a := ReadAckLog(ack)
	fmt.Printf("worker: %v acked=%d called=%d\n", werr, a.NumAcked(), a.Called)
	if len(stderr) > 0 {
		fmt.Println(tail(stderr))
	}
	vr, verr := RunVerifier(dir, w, "none", filepath.Dir(dir))
	b, _ := json.MarshalIndent(vr, "", " ")
	fmt.Println(string(b), verr)
	return 0
}

func init() { core.RegisterWorker("crashrepro", reproMain) }
