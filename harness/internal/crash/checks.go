package crash

import (
	"fmt"
	"sort"
	"strings"

	"verif/harness/internal/core"
)

// Oracle selects which property's rules are applied to an outcome.
type Oracle struct {
	ID        string
	SyncModes []bool
	Maint     bool // run maintenance after recovery (C11)
}

func diffSummary(get, model map[string]string, keys []string) string {
	var parts []string
	for _, k := range keys {
		if get[k] != model[k] {
			parts = append(parts, fmt.Sprintf("%s: got %q want %q", k, get[k], model[k]))
		}
		if len(parts) >= 6 {
			break
		}
	}
	return strings.Join(parts, "; ")
}

func iterAgrees(d *Dump) string {
	seen := map[string]string{}
	prev := ""
	for _, kvs := range d.Iter {
		i := strings.IndexByte(kvs, '=')
		if i < 0 {
			continue
		}
		k, v := kvs[:i], kvs[i+1:]
		if prev != "" && k <= prev {
			return fmt.Sprintf("iteration not strictly increasing at %q after %q", k, prev)
		}
		prev = k
		seen[k] = v
	}
	for k, v := range d.Get {
		if v == "" {
			if iv, ok := seen[k]; ok {
				return fmt.Sprintf("iterator yields %q=%q but Get says absent", k, iv)
			}
			continue
		}
		if iv, ok := seen[k]; !ok {
			return fmt.Sprintf("Get(%q)=%q but iterator does not yield it", k, v)
		} else if iv != v {
			return fmt.Sprintf("Get(%q)=%q but iterator yields %q", k, v, iv)
		}
	}
	return ""
}

// RunCase is the Run function shared by C09/C10/C11: a case is (workload, chunk).
func (o Oracle) RunCase(c *core.Case, chunks, perStratum, uniform int) {
	wls := Workloads(c.Seed, c.Tier, o.SyncModes)
	w := wls[c.Idx/chunks]
	chunk := c.Idx % chunks
	pts, dr, err := Plan(c, w, chunk, chunks, perStratum, uniform)
	if err != nil {
		// a dry run that cannot complete contradicts C09/C10 only if it is the
		// engine failing; report as violation of "operations succeed"? No: the
		// properties are about crashes; keep it inconclusive but visible.
		c.Inconclusive(err.Error())
		return
	}
	c.Max("file_ops_in_dry_run", int(dr.Total))
	for name, ords := range dr.Strata {
		c.Distinct("strata_seen_in_dry_runs", name)
		_ = ords
	}
	steps := w.Steps()
	keys := w.Keys()
	maint := "none"
	if o.Maint {
		maint = w.Variant
	}
	wname := fmt.Sprintf("%s/%s/sync=%v/%s", w.Mode, w.Variant, w.Sync, w.Engine)
	if chunk == 0 && c.Idx/chunks < 2 {
		c.Sample(map[string]any{"workload": w, "first_steps": steps[:min(4, len(steps))], "file_ops": dr.Total, "points_in_chunk": len(pts)})
	}
	baseMaint := maint
	for pi, p := range pts {
		maint := baseMaint
		pm := maint
		if o.Maint && pi%3 == 2 {
			// every third point: no maintenance calls, but a second crash while recovery's
			// own background flushes / compactions run (no client writes in between)
			maint = "crash-again"
			pm = fmt.Sprintf("crash-again@%d", 1+(p.KillAt*7+int64(pi)*13+int64(c.Idx))%30)
		}
		out := RunPoint(c, w, p, pm)
		c.Count("evaluations", 1)
		if out.Err != nil {
			c.Inconclusive(fmt.Sprintf("%s point %+v: %v", wname, p, out.Err))
			continue
		}
		if !out.Died {
			// ordinal not reached in this run (background timing differs): the
			// run completed and closed cleanly; still a valid (clean-close) case.
			c.Count("points_not_reached_clean_close", 1)
		} else {
			c.Count("crashes_executed", 1)
			c.Count("crash."+p.Stratum, 1)
			c.Nontrivial(wname + "|" + p.Stratum + "|" + fmt.Sprint(out.Ack.NumAcked() < len(steps)))
		}
		acked, called := out.Ack.NumAcked(), out.Ack.Called
		if !out.Died {
			acked, called = len(steps), len(steps)
		}
		detail := func(extra map[string]any) map[string]any {
			m := map[string]any{"workload": w, "point": p, "died": out.Died, "acked_steps": acked, "called_steps": called, "layout_after_reopen": out.Verify.Layout}
			for k, v := range extra {
				m[k] = v
			}
			return m
		}
		ctx := "crash=" + p.Stratum
		if out.Verify.OpenError != "" {
			if o.ID == "C11" && strings.HasPrefix(out.Verify.OpenError, "reopen after maintenance") {
				c.Violation("C11|reopen-failed-after-maintenance|"+ctx, out.Verify.OpenError, detail(nil))
			} else if o.ID != "C11" {
				c.Violation(o.ID+"|reopen-failed|"+ctx, "reopening the directory after the crash failed: "+out.Verify.OpenError, detail(nil))
			}
			continue
		}
		first := out.Verify.First
		if first == nil && maint == "crash-again" {
			c.Count("second_crash_before_first_dump_was_complete", 1)
			continue
		}
		if first == nil {
			c.Inconclusive("verifier produced no dump")
			continue
		}
		if maint == "crash-again" {
			c.Count("second_crashes_executed", 1)
			for _, a := range out.Verify.Actions {
				if strings.HasPrefix(a, "imm:") {
					c.Count("second_crashes_with_recovered_memtables_waiting."+a, 1)
				}
			}
		}
		switch o.ID {
		case "C09":
			// every acknowledged write/transaction present with its exact value:
			// per key, the recovered value is the one of the last acknowledged
			// step that wrote it, or of the one later step that was called but
			// not acknowledged when the process died.
			wantAcked := ModelAfter(steps, acked, out.Ack.Errs)
			wantCalled := ModelAfter(steps, called, out.Ack.Errs)
			var bad []string
			for _, k := range keys {
				if g := first.Get[k]; g != wantAcked[k] && g != wantCalled[k] {
					bad = append(bad, fmt.Sprintf("%s: got %q want %q", k, g, wantAcked[k]))
				}
			}
			if len(bad) > 0 {
				rule := "acked-write-not-recovered"
				if len(first.Errors) > 0 {
					rule = "acked-value-unreadable"
				}
				c.Violation("C09|"+rule+"|"+ctx, fmt.Sprintf("%s: after %d acknowledged (%d called) steps: %s", wname, acked, called, strings.Join(bad[:min(5, len(bad))], "; ")), detail(map[string]any{"recovered": first.Get, "read_errors": first.Errors}))
				continue
			}
			c.Count("recoveries_checked", 1)
		case "C10":
			lo := 0
			if w.Sync {
				lo = acked
			}
			p0 := MatchPrefix(first.Get, keys, steps, lo, called, out.Ack.Errs)
			if p0 < 0 {
				// classify: value never written / partial transaction / not a prefix
				rule := "not-a-prefix"
				known := map[string]bool{"": true}
				for _, st := range steps {
					for _, kvp := range st.Writes {
						if !kvp.Del {
							known[headLen(StoredValue(kvp))] = true
						}
					}
				}
				for _, k := range keys {
					if !known[first.Get[k]] {
						rule = "value-never-written"
					}
				}
				for _, k := range keys {
					if first.Get[k] == "ERR" {
						rule = "present-key-unreadable"
					}
				}
				if rule == "present-key-unreadable" {
					c.Violation("C10|present-key-unreadable|"+ctx, fmt.Sprintf("%s: %s", wname, strings.Join(first.Errors[:min(4, len(first.Errors))], "; ")), detail(map[string]any{"recovered": first.Get, "read_errors": first.Errors}))
					continue
				}
				if rule == "not-a-prefix" {
					// prefix p plus a strict, non-empty subset of step p's writes?
					for pp := called - 1; pp >= lo && pp >= 0; pp-- {
						if pp >= len(steps) || steps[pp].Kind != "txn" || len(steps[pp].Writes) < 2 {
							continue
						}
						before := ModelAfter(steps, pp, out.Ack.Errs)
						after := ModelAfter(steps, pp+1, out.Ack.Errs)
						okAll, applied, skipped := true, 0, 0
						for _, k := range keys {
							g := first.Get[k]
							switch {
							case before[k] == after[k]:
								if g != before[k] {
									okAll = false
								}
							case g == after[k]:
								applied++
							case g == before[k]:
								skipped++
							default:
								okAll = false
							}
						}
						if okAll && applied > 0 && skipped > 0 {
							rule = "partial-transaction"
							break
						}
					}
				}
				if rule == "partial-transaction" {
					c.Violation("C10|partial-transaction", fmt.Sprintf("%s (crash at %s): some but not all writes of one transaction were recovered", wname, p.Stratum), detail(map[string]any{"recovered": first.Get}))
					continue
				}
				want := ModelAfter(steps, called, out.Ack.Errs)
				c.Violation(fmt.Sprintf("C10|%s|%s|sync=%v", rule, ctx, w.Sync), fmt.Sprintf("%s: recovered contents equal no prefix in [%d,%d] of the accepted batches: %s", wname, lo, called, diffSummary(first.Get, want, keys)), detail(map[string]any{"recovered": first.Get}))
				continue
			}
			c.Count("prefix_matched", 1)
			if p0 < called {
				c.Count("prefix_shorter_than_called", 1)
			}
			if len(first.Errors) > 0 {
				c.Violation("C10|present-key-unreadable|"+ctx, strings.Join(first.Errors, "; "), detail(nil))
				continue
			}
			// Iterator/Get agreement is C06's statement, not C10's; it is only
			// recorded here as an observation.
			if msg := iterAgrees(first); msg != "" {
				c.Count("observed_iterator_get_disagreements_after_recovery", 1)
				c.Distinct("iterator_get_disagreement_examples", msg)
			}
		case "C11":
			second := out.Verify.Second
			if second == nil {
				c.Inconclusive("verifier produced no second dump: " + out.Verify.ActionError)
				continue
			}
			for _, a := range out.Verify.Actions {
				if strings.HasSuffix(a, ":effect") {
					c.Count("maintenance."+a, 1)
				}
			}
			var changed []string
			kind := ""
			for _, k := range keys {
				a, b := first.Get[k], second.Get[k]
				if a == b {
					continue
				}
				switch {
				case a == "":
					kind = "resurrected-or-appeared"
				case b == "":
					kind = "dropped"
				case b == "ERR":
					kind = "became-unreadable"
				default:
					kind = "value-changed"
				}
				changed = append(changed, fmt.Sprintf("%s: %q -> %q", k, a, b))
			}
			if len(changed) > 0 {
				sort.Strings(changed)
				c.Violation("C11|"+kind+"|maint="+maint, fmt.Sprintf("%s: visible contents changed without client writes after %v: %s", wname, out.Verify.Actions, strings.Join(changed[:min(5, len(changed))], "; ")), detail(map[string]any{"before": first.Get, "after": second.Get, "action_error": out.Verify.ActionError}))
				continue
			}
			if strings.Join(first.Iter, ",") != strings.Join(second.Iter, ",") {
				c.Violation("C11|iteration-changed|maint="+maint, "iteration result changed without client writes", detail(map[string]any{"before": first.Iter, "after": second.Iter}))
			}
		}
	}
}

// Register registers one of the three crash checks.
func Register(o Oracle, rule, assumption string) {
	chunks := 4
	core.Register(&core.Check{
		ID:    o.ID,
		Level: "fault_enumeration",
		Rule:  rule,
		Assumptions: []string{
			"process-crash model: bytes handed to the kernel (write, mmap stores, rename, unlink) survive, user-space buffers do not; the process is really killed with SIGKILL",
			"crash ordinals are per run (background flush/compaction timing varies), so points are drawn per stratum (file operation kind x file class) from a dry run of the same workload, plus three targeted windows: the 6 operations after every value-log segment creation, the 10 operations after the first/middle/last table-file creation (table complete -> manifest edit -> WAL segment / input tables removed) and the 2 operations on either side of the first and last WAL segment removal",
			"workloads avoid the recorded same-version-tie findings (C01): plain-API keys are written once, overwrites/deletes use transactions, value-log GC is only combined with layouts that keep data out of the ingest buffer",
			assumption,
		},
		Cases: func(tier string) int { return len(Workloads(1, tier, o.SyncModes)) * chunks },
		Run: func(c *core.Case) {
			per, uni := 3, 4
			if c.Thorough() {
				per, uni = 12, 60
			}
			o.RunCase(c, chunks, per, uni)
		},
		Finish: func(a *core.Agg) {
			a.Floor("crashes_executed", 60)
			a.FloorNontrivial(20)
		},
		CaseTimeout: 0,
	})
}
