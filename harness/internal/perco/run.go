package perco

import (
	"bytes"
	"fmt"
	"math"
	"sort"
	"strings"

	NoKV "github.com/feichai0017/NoKV"
	"github.com/feichai0017/NoKV/kv"
	"github.com/feichai0017/NoKV/pb"
	"github.com/feichai0017/NoKV/percolator"
	rkv "github.com/feichai0017/NoKV/raftstore/kv"
	"github.com/feichai0017/NoKV/utils"
	"verif/harness/internal/core"
	"verif/harness/internal/dbx"
)

type runner struct {
	c    *core.Case
	prop string
	env  *dbx.Env
	cfg  dbx.Config
	keys [][]byte
	txns []*Txn
	log  []Req
	m    *model

	trace   []string
	taint   map[string]string // cf|key -> tie class
	seenSig map[string]bool
	stop    bool
	allTs   []uint64

	// context of the step after which the current sweep runs
	afterMaint bool
	afterDesc  string
	lastReq    *Req

	// C17/C18/C19 non-triviality facts measured during the case
	skipReads       int
	multiSrcReads   int
	c18Events       int
	lockMultiSource int
	kindsTrace      strings.Builder
	curLine         int
}

func kq(b []byte) string { return fmt.Sprintf("%q", b) }

func head(b []byte) string {
	if len(b) > 20 {
		return fmt.Sprintf("%q..(%d bytes)", b[:20], len(b))
	}
	return fmt.Sprintf("%q", b)
}

func (r *runner) detail(extra map[string]any) map[string]any {
	d := map[string]any{"config": r.cfg, "trace": append([]string(nil), r.trace...)}
	var ks []string
	for i, k := range r.keys {
		ks = append(ks, fmt.Sprintf("k%d=%q", i, k))
	}
	d["keys"] = ks
	var ts []string
	for _, t := range r.txns {
		var ops []string
		for _, k := range t.Keys {
			ops = append(ops, fmt.Sprintf("%s k%d", opName(t.Ops[k]), k))
		}
		ts = append(ts, fmt.Sprintf("T%d start=%d commit=%d primary=k%d ttl=%d min_commit=%d {%s} fate=%s", t.ID, t.Start, t.Commit, t.Primary, t.TTL, t.MinCommit, strings.Join(ops, ", "), t.Fate))
	}
	d["txns"] = ts
	d["model"] = r.modelState()
	d["layout"] = dbx.LayoutShape(r.env.DB)
	for k, v := range extra {
		d[k] = v
	}
	return d
}

func (r *runner) modelState() []string {
	var out []string
	for k := range r.keys {
		mk := r.m.k[k]
		s := fmt.Sprintf("k%d:", k)
		if mk.lock != nil {
			s += fmt.Sprintf(" lock{T%d ts=%d kind=%s ttl=%d min_commit=%d}", mk.lock.txn, mk.lock.ts, opName(mk.lock.kind), mk.lock.ttl, mk.lock.minCommit)
		} else {
			s += " no-lock"
		}
		ws := append([]mwrite(nil), mk.writes...)
		sort.Slice(ws, func(i, j int) bool { return ws[i].commitTs > ws[j].commitTs })
		for _, w := range ws {
			s += fmt.Sprintf(" [%s T%d start=%d commit=%d]", opName(w.kind), w.txn, w.startTs, w.commitTs)
		}
		out = append(out, s)
	}
	return out
}

// fail records a violation of property prop. Violations of a property other
// than the one the running check reports are only counted. fatal stops the
// case (the model can no longer follow the database).
func (r *runner) fail(prop, sig, what string, extra map[string]any, fatal bool) {
	// A fatal violation ends the case: model and store have diverged. Exception: a violation of a
	// sibling property that no recorded finding explains (never seen on the unchanged tree, where the
	// sibling check itself would fail) does not end it, so that this property's own rules still get
	// to judge the requests that follow (e.g. a commit acknowledged after the lock rules were broken).
	if fatal && (prop == r.prop || strings.Contains(sig, "tainted:")) {
		r.stop = true
	}
	if r.seenSig[sig] {
		return
	}
	r.seenSig[sig] = true
	r.trace = append(r.trace, "   !! "+sig)
	if prop != r.prop {
		r.c.Count("violations_of_sibling_properties_seen", 1)
		r.c.Distinct("sibling_property_signatures", sig)
		return
	}
	r.c.Violation(sig, what, r.detail(extra))
}

func (r *runner) taintOf(cf kv.ColumnFamily, k int) string {
	return r.taint[string([]byte{byte(cf)})+string(r.keys[k])]
}

// taintScan marks (cf,key) pairs for which one version is held by two table
// sources that are not both L0 flush tables: the recorded same-version tie
// findings (known_findings.json, C01) then explain a wrong lookup of that key.
func (r *runner) taintScan() {
	for _, key := range r.keys {
		for _, cf := range dbx.CFs {
			id := string([]byte{byte(cf)}) + string(key)
			if r.taint[id] != "" {
				continue
			}
			// version -> table sources holding it, with a digest of the stored content
			type held struct{ class, content string }
			byVer := map[uint64][]held{}
			for _, s := range r.env.DB.VerifKeySources(cf, key) {
				cl := r.env.SourceClass(s)
				if cl != "l0f" && cl != "l0c" && cl != "deep" {
					continue
				}
				for _, e := range s.Entries {
					byVer[e.Version] = append(byVer[e.Version], held{cl, fmt.Sprintf("%d|%d|%x|%08x", e.Meta&kv.BitDelete, e.ValueLen, e.Value, e.Sum)})
				}
			}
			for _, hs := range byVer {
				if len(hs) < 2 {
					continue
				}
				same := true
				deep, l0c := 0, 0
				for _, h := range hs {
					if h.content != hs[0].content {
						same = false
					}
					if h.class == "deep" {
						deep++
					}
					if h.class == "l0c" {
						l0c++
					}
				}
				if same {
					continue // identical duplicates (a repeated prewrite): whichever wins is right
				}
				switch {
				case deep >= 2:
					r.taint[id] = "ingest-buffer-tie"
				case l0c >= 1 && r.taint[id] == "":
					r.taint[id] = "l0-compaction-output-tie"
				}
			}
		}
	}
}

func (r *runner) describeSources(cf kv.ColumnFamily, k int) []string {
	var out []string
	for _, s := range r.env.DB.VerifKeySources(cf, r.keys[k]) {
		for _, en := range s.Entries {
			what := fmt.Sprintf("%d bytes %s", en.ValueLen, head(en.Value))
			if en.Meta&kv.BitDelete != 0 {
				what = "tombstone"
			}
			ver := fmt.Sprint(en.Version)
			if en.Version == math.MaxUint64 {
				ver = "max"
			}
			out = append(out, fmt.Sprintf("%s fid=%d ver=%s: %s", r.env.Tag(s), s.Fid, ver, what))
		}
	}
	return out
}

// shadowed reports whether the default-CF entry at exactly startTs is hidden
// from an exact-version lookup by a lower version of the key held in a source
// that the engine consults earlier (memtable before immutables before L0
// before deeper levels).
func (r *runner) shadowed(k int, startTs uint64) (bool, string) {
	src := r.env.DB.VerifKeySources(kv.CFDefault, r.keys[k])
	group := func(i int, s NoKV.VerifKeySource) int {
		switch s.Kind {
		case "mem":
			return 0
		case "imm":
			return 1 + i
		case "l0":
			return 1000
		}
		return 1000 + s.Level
	}
	hold := -1
	for i, s := range src {
		for _, e := range s.Entries {
			if e.Version == startTs && e.Meta&kv.BitDelete == 0 {
				if g := group(i, s); hold < 0 || g < hold {
					hold = g
				}
			}
		}
	}
	if hold < 0 {
		return false, "data-version-missing"
	}
	for i, s := range src {
		if group(i, s) >= hold {
			continue
		}
		for _, e := range s.Entries {
			if e.Version < startTs {
				if e.Meta&kv.BitDelete != 0 {
					return true, "tombstone"
				}
				return true, "value"
			}
		}
	}
	return false, ""
}

func (r *runner) apply(req *pb.Request) (*pb.Response, error) {
	resp, err := rkv.Apply(r.env.DB, &pb.RaftCmdRequest{Requests: []*pb.Request{req}})
	if err != nil {
		return nil, err
	}
	if resp == nil || len(resp.Responses) != 1 {
		return nil, fmt.Errorf("apply returned %d responses for one request", len(resp.GetResponses()))
	}
	return resp.Responses[0], nil
}

func kerr(e *pb.KeyError) string {
	switch {
	case e == nil:
		return "ok"
	case e.Locked != nil:
		return fmt.Sprintf("locked(key=%q lock_ts=%d)", e.Locked.Key, e.Locked.LockVersion)
	case e.WriteConflict != nil:
		return fmt.Sprintf("write-conflict(key=%q conflict_ts=%d)", e.WriteConflict.Key, e.WriteConflict.ConflictTs)
	case e.CommitTsExpired != nil:
		return fmt.Sprintf("commit-ts-expired(key=%q min_commit=%d)", e.CommitTsExpired.Key, e.CommitTsExpired.MinCommitTs)
	case e.Abort != "":
		return "abort(" + e.Abort + ")"
	case e.Retryable != "":
		return "retryable(" + e.Retryable + ")"
	}
	return "error(?)"
}

func (r *runner) engineError(prop, kind string, err string, k int) {
	t := ""
	if k >= 0 {
		for _, cf := range dbx.CFs {
			if x := r.taintOf(cf, k); x != "" {
				t = "|tainted:" + x
			}
		}
	}
	r.fail(prop, fmt.Sprintf("%s|engine-error|%s%s", prop, kind, t), fmt.Sprintf("%s reported an internal error: %s", kind, err), nil, true)
}

func (r *runner) keysOf(idx []int) [][]byte {
	var out [][]byte
	for _, k := range idx {
		out = append(out, r.keys[k])
	}
	return out
}

func (r *runner) keyIndex(b []byte) int {
	for i, k := range r.keys {
		if bytes.Equal(k, b) {
			return i
		}
	}
	return -1
}

func (r *runner) observedLock(k int) (*percolator.Lock, error) {
	return percolator.NewReader(r.env.DB).GetLock(r.keys[k])
}

// ---------------------------------------------------------------------------
// requests

func (r *runner) doPrewrite(q Req) {
	t := r.txns[q.Txn]
	var muts []*pb.Mutation
	for _, k := range q.Keys {
		muts = append(muts, &pb.Mutation{Op: t.Ops[k], Key: r.keys[k], Value: t.Vals[k]})
	}
	resp, err := r.apply(&pb.Request{CmdType: pb.CmdType_CMD_PREWRITE, Cmd: &pb.Request_Prewrite{Prewrite: &pb.PrewriteRequest{
		Mutations: muts, PrimaryLock: r.keys[t.Primary], StartVersion: t.Start, LockTtl: t.TTL, MinCommitTs: t.MinCommit}}})
	if err != nil {
		r.engineError("C19", "prewrite", err.Error(), q.Keys[0])
		return
	}
	failed := map[int]string{}
	for _, e := range resp.GetPrewrite().GetErrors() {
		switch {
		case e.GetLocked() != nil:
			failed[r.keyIndex(e.Locked.Key)] = kerr(e)
		case e.GetWriteConflict() != nil:
			failed[r.keyIndex(e.WriteConflict.Key)] = kerr(e)
		default:
			r.trace[r.curLine] += " -> " + kerr(e)
			r.engineError("C19", "prewrite", kerr(e), q.Keys[0])
			return
		}
	}
	var res []string
	for _, k := range q.Keys {
		if f, bad := failed[k]; bad {
			res = append(res, fmt.Sprintf("k%d:%s", k, f))
			continue
		}
		res = append(res, fmt.Sprintf("k%d:ok", k))
		r.c.Count("evaluations", 1)
		cur := r.m.k[k].lock
		switch {
		case cur != nil && cur.ts != t.Start:
			r.fail("C19", "C19|lock-overwritten|req=prewrite-by-other-txn", fmt.Sprintf("PREWRITE of T%d succeeded on k%d while the key carried the lock of T%d", t.ID, k, cur.txn), map[string]any{"key": kq(r.keys[k])}, true)
		case r.m.committed(k, t.Start):
			r.fail("C19", "C19|lock-reappeared|req=prewrite-after-commit", fmt.Sprintf("PREWRITE of T%d succeeded on k%d after T%d had committed that key: the removed lock is back", t.ID, k, t.ID), map[string]any{"key": kq(r.keys[k])}, true)
		case r.m.rolledBack(k, t.Start):
			r.fail("C19", "C19|lock-reappeared|req=prewrite-after-rollback", fmt.Sprintf("PREWRITE of T%d succeeded on k%d after T%d had been rolled back on that key: the removed lock is back", t.ID, k, t.ID), map[string]any{"key": kq(r.keys[k])}, true)
		case cur != nil:
			r.c.Count("prewrite_repeated_on_own_lock", 1)
		default:
			r.m.setLock(k, &mlock{txn: t.ID, ts: t.Start, primary: r.keys[t.Primary], ttl: t.TTL, kind: t.Ops[k], minCommit: t.MinCommit})
			if t.Ops[k] == pb.Mutation_Put {
				r.m.data[[2]uint64{uint64(k), t.Start}] = t.Vals[k]
			}
			r.c.Count("locks_set", 1)
		}
		if r.stop {
			break
		}
	}
	r.trace[r.curLine] += " -> " + strings.Join(res, " ")
}

// commitOne applies "txn's lock on k turns into a commit record at commitTs"
// to the model, checking the min-commit-ts rule. how: "acked" or "partial".
func (r *runner) commitOne(k int, l *mlock, commitTs uint64, via string) {
	if l.minCommit > commitTs {
		r.fail("C19", "C19|min-commit-ts|commit-below-min-accepted|via="+via, fmt.Sprintf("T%d was committed on k%d at %d although its lock carried min_commit_ts %d", l.txn, k, commitTs, l.minCommit), map[string]any{"key": kq(r.keys[k])}, true)
		return
	}
	// conflict-freedom: overlapping [start, commit] intervals of two writers of one key
	if l.kind != pb.Mutation_Lock {
		for _, w := range r.m.k[k].writes {
			if w.kind == pb.Mutation_Rollback || w.kind == pb.Mutation_Lock {
				continue
			}
			if l.ts <= w.commitTs && w.startTs <= commitTs {
				r.fail("C18", "C18|overlapping-commits|both-committed", fmt.Sprintf("T%d [%d,%d] and T%d [%d,%d] both committed a write of k%d", l.txn, l.ts, commitTs, w.txn, w.startTs, w.commitTs, k), map[string]any{"key": kq(r.keys[k])}, false)
			}
		}
	}
	r.m.commit(k, l, commitTs)
	r.c.Count("keys_committed", 1)
}

func (r *runner) anyRolledBack(t *Txn, ks []int) int {
	for _, k := range ks {
		if r.m.rolledBack(k, t.Start) {
			return k
		}
	}
	return -1
}

func (r *runner) doCommit(q Req) {
	t := r.txns[q.Txn]
	rb := r.anyRolledBack(t, q.Keys)
	if rb >= 0 {
		r.c.Count("commit_after_rollback_attempts", 1)
		r.c18Events++
	}
	resp, err := r.apply(&pb.Request{CmdType: pb.CmdType_CMD_COMMIT, Cmd: &pb.Request_Commit{Commit: &pb.CommitRequest{Keys: r.keysOf(q.Keys), StartVersion: t.Start, CommitVersion: q.CommitTs}}})
	if err != nil {
		r.engineError("C18", "commit", err.Error(), q.Keys[0])
		return
	}
	ke := resp.GetCommit().GetError()
	r.trace[r.curLine] += " -> " + kerr(ke)
	r.c.Count("evaluations", 1)
	if ke != nil && ke.GetRetryable() != "" {
		r.engineError("C18", "commit", kerr(ke), q.Keys[0])
		return
	}
	if ke != nil && ke.GetCommitTsExpired() != nil {
		r.c.Count("commits_refused_below_min_commit_ts", 1)
	}
	if ke == nil {
		// acknowledged: every key must have been committable
		for _, k := range q.Keys {
			l := r.m.k[k].lock
			switch {
			case l != nil && l.ts == t.Start:
				if rb >= 0 {
					r.fail("C18", "C18|commit-after-rollback|other-keys-committed", fmt.Sprintf("COMMIT of T%d (keys incl. rolled-back k%d) was acknowledged and committed k%d", t.ID, rb, k), nil, false)
				}
				r.commitOne(k, l, q.CommitTs, "commit")
			case r.m.committed(k, t.Start):
				r.c.Count("commit_repeated_on_committed_key", 1)
			case r.m.rolledBack(k, t.Start):
				r.fail("C18", "C18|commit-after-rollback|acked", fmt.Sprintf("COMMIT of T%d was acknowledged although T%d had been rolled back on k%d", t.ID, t.ID, k), map[string]any{"key": kq(r.keys[k])}, false)
			default:
				st := "never-prewritten"
				if l != nil {
					st = "locked-by-other-txn"
				}
				r.fail("C18", "C18|commit-acked-without-lock|key="+st, fmt.Sprintf("COMMIT of T%d was acknowledged although k%d carried no lock of T%d and no commit record", t.ID, k, t.ID), map[string]any{"key": kq(r.keys[k])}, false)
			}
			if r.stop {
				return
			}
		}
		return
	}
	// refused: keys handled before the failing key may have been committed
	// (the request is applied key by key); learn it from the lock column.
	for _, k := range q.Keys {
		l := r.m.k[k].lock
		if l == nil || l.ts != t.Start {
			continue
		}
		obs, oerr := r.observedLock(k)
		if oerr != nil {
			r.engineError("C19", "get-lock", oerr.Error(), k)
			return
		}
		if obs != nil {
			continue // still locked (a wrong lock is reported by the sweep)
		}
		r.c.Count("keys_committed_by_refused_commit", 1)
		{
			// A COMMIT the client was told has failed must not have decided part of the
			// transaction: the server validates every named key before it touches any.
			class := "other"
			switch {
			case ke.GetCommitTsExpired() != nil:
				class = "commit-ts-expired"
			case ke.GetLocked() != nil:
				class = "locked"
			case ke.GetAbort() != "":
				class = "abort"
			}
			r.fail("C18", "C18|refused-commit-applied-some-keys|error="+class, fmt.Sprintf("COMMIT of T%d was refused (%s), yet k%d lost its lock and carries the commit record: the transaction is committed on that key while the client saw a failure", t.ID, kerr(ke), k), map[string]any{"key": kq(r.keys[k])}, false)
		}
		if rb >= 0 {
			r.fail("C18", "C18|commit-after-rollback|other-keys-committed", fmt.Sprintf("COMMIT of T%d (keys incl. rolled-back k%d) was refused, yet it committed k%d", t.ID, rb, k), nil, false)
		}
		r.commitOne(k, l, q.CommitTs, "refused-commit")
		if r.stop {
			return
		}
	}
}

func (r *runner) rollbackOne(t *Txn, k int) {
	if r.m.committed(k, t.Start) {
		r.c.Count("rollback_after_commit_attempts", 1)
		r.c18Events++
		return // a rollback does not undo a commit; reads must stay the same
	}
	if !r.m.rolledBack(k, t.Start) {
		r.c.Count("keys_rolled_back", 1)
	}
	r.m.rollback(k, t.ID, t.Start)
}

func (r *runner) doRollback(q Req) {
	t := r.txns[q.Txn]
	resp, err := r.apply(&pb.Request{CmdType: pb.CmdType_CMD_BATCH_ROLLBACK, Cmd: &pb.Request_BatchRollback{BatchRollback: &pb.BatchRollbackRequest{Keys: r.keysOf(q.Keys), StartVersion: t.Start}}})
	if err != nil {
		r.engineError("C18", "batch-rollback", err.Error(), q.Keys[0])
		return
	}
	ke := resp.GetBatchRollback().GetError()
	r.trace[r.curLine] += " -> " + kerr(ke)
	if ke != nil {
		r.engineError("C18", "batch-rollback", kerr(ke), q.Keys[0])
		return
	}
	for _, k := range q.Keys {
		r.rollbackOne(t, k)
	}
}

func (r *runner) doResolve(q Req) {
	t := r.txns[q.Txn]
	resp, err := r.apply(&pb.Request{CmdType: pb.CmdType_CMD_RESOLVE_LOCK, Cmd: &pb.Request_ResolveLock{ResolveLock: &pb.ResolveLockRequest{StartVersion: t.Start, CommitVersion: q.CommitTs, Keys: r.keysOf(q.Keys)}}})
	if err != nil {
		r.engineError("C18", "resolve-lock", err.Error(), q.Keys[0])
		return
	}
	ke := resp.GetResolveLock().GetError()
	r.trace[r.curLine] += fmt.Sprintf(" -> %s resolved=%d", kerr(ke), resp.GetResolveLock().GetResolvedLocks())
	if ke != nil && ke.GetRetryable() != "" {
		r.engineError("C18", "resolve-lock", kerr(ke), q.Keys[0])
		return
	}
	if ke != nil && ke.GetCommitTsExpired() != nil {
		r.c.Count("commits_refused_below_min_commit_ts", 1)
	}
	r.c.Count("evaluations", 1)
	for _, k := range q.Keys {
		l := r.m.k[k].lock
		if l == nil || l.ts != t.Start {
			continue
		}
		if ke != nil {
			obs, oerr := r.observedLock(k)
			if oerr != nil {
				r.engineError("C19", "get-lock", oerr.Error(), k)
				return
			}
			if obs != nil {
				continue
			}
		}
		if q.CommitTs == 0 {
			r.rollbackOne(t, k)
		} else {
			r.commitOne(k, l, q.CommitTs, "resolve-lock")
		}
		if r.stop {
			return
		}
	}
}

func (r *runner) doCheck(q Req) {
	t := r.txns[q.Txn]
	k := q.Keys[0]
	resp, err := r.apply(&pb.Request{CmdType: pb.CmdType_CMD_CHECK_TXN_STATUS, Cmd: &pb.Request_CheckTxnStatus{CheckTxnStatus: &pb.CheckTxnStatusRequest{
		PrimaryKey: r.keys[k], LockTs: t.Start, CurrentTs: q.CurrentTs, CallerStartTs: q.CallerTs, RollbackIfNotExist: q.RbIfNotExist}}})
	if err != nil {
		r.engineError("C19", "check-txn-status", err.Error(), k)
		return
	}
	res := resp.GetCheckTxnStatus()
	ke := res.GetError()
	act := res.GetAction()
	r.trace[r.curLine] += fmt.Sprintf(" -> %s action=%s commit_version=%d ttl=%d", kerr(ke), strings.TrimPrefix(act.String(), "CheckTxnStatus"), res.GetCommitVersion(), res.GetLockTtl())
	if ke != nil && (ke.GetRetryable() != "" || ke.GetAbort() != "") {
		r.engineError("C19", "check-txn-status", kerr(ke), k)
		return
	}
	r.c.Count("evaluations", 1)
	l := r.m.k[k].lock
	own := l != nil && l.ts == t.Start
	switch act {
	case pb.CheckTxnStatusAction_CheckTxnStatusTTLExpireRollback:
		if !own {
			r.fail("C19", "C19|lock-reappeared|seen-by=check-txn-status", fmt.Sprintf("CHECK_TXN_STATUS rolled back an expired lock of T%d on k%d, but that key carried no lock of T%d", t.ID, k, t.ID), nil, true)
			return
		}
		if !expired(l.ts, l.ttl, q.CurrentTs) {
			ctx := "ttl-not-reached"
			if l.ttl > math.MaxUint64-l.ts {
				ctx = "lock-ts-plus-ttl-overflows"
			}
			r.fail("C19", "C19|ttl|unexpired-primary-lock-rolled-back|"+ctx, fmt.Sprintf("CHECK_TXN_STATUS with current_ts=%d rolled back T%d whose lock has ts=%d ttl=%d (expires at lock.ts+ttl > current_ts)", q.CurrentTs, t.ID, l.ts, l.ttl), nil, false)
		} else {
			r.c.Count("ttl_expiry_rollbacks_justified", 1)
		}
		r.rollbackOne(t, k)
	case pb.CheckTxnStatusAction_CheckTxnStatusLockNotExistRollback:
		switch {
		case own:
			r.fail("C19", "C19|lock-lost|seen-by=check-txn-status", fmt.Sprintf("CHECK_TXN_STATUS found no lock of T%d on k%d although the key was prewritten and neither committed nor rolled back", t.ID, k), nil, true)
			return
		case r.m.committed(k, t.Start):
			r.fail("C18", "C18|status|committed-txn-reported-rolled-back", fmt.Sprintf("CHECK_TXN_STATUS reports T%d rolled back on k%d although it committed there", t.ID, k), nil, true)
			return
		default:
			r.rollbackOne(t, k)
		}
	case pb.CheckTxnStatusAction_CheckTxnStatusMinCommitTsPushed:
		if !own {
			r.fail("C19", "C19|lock-reappeared|seen-by=check-txn-status", fmt.Sprintf("CHECK_TXN_STATUS pushed min_commit_ts of a lock of T%d on k%d, but that key carried no lock of T%d", t.ID, k, t.ID), nil, true)
			return
		}
		if q.CallerTs+1 > l.minCommit {
			l.minCommit = q.CallerTs + 1
		}
		r.c.Count("min_commit_ts_pushes", 1)
	default:
		if own && ke == nil {
			if !expired(l.ts, l.ttl, q.CurrentTs) {
				r.c.Count("unexpired_lock_left_alone", 1)
			}
		}
		if res.GetCommitVersion() != 0 {
			w := r.m.record(k, t.Start)
			switch {
			case w == nil || w.kind == pb.Mutation_Rollback:
				st := "undecided"
				if w != nil {
					st = "rolled-back"
				}
				r.fail("C18", "C18|status|"+st+"-txn-reported-committed", fmt.Sprintf("CHECK_TXN_STATUS reports T%d committed at %d on k%d, but it is %s there", t.ID, res.GetCommitVersion(), k, st), nil, false)
			case w.commitTs != res.GetCommitVersion():
				r.fail("C18", "C18|status|wrong-commit-version", fmt.Sprintf("CHECK_TXN_STATUS reports commit version %d for T%d on k%d, it committed at %d", res.GetCommitVersion(), t.ID, k, w.commitTs), nil, false)
			}
		}
	}
}

// ---------------------------------------------------------------------------
// reads

type getObs struct {
	lockTs uint64
	locked bool
	found  bool
	value  []byte
}

func (o getObs) String() string {
	switch {
	case o.locked:
		return fmt.Sprintf("locked(lock_ts=%d)", o.lockTs)
	case o.found:
		return "value " + head(o.value)
	}
	return "not-found"
}

func (r *runner) get(k int, ts uint64) (getObs, bool) {
	resp, err := r.apply(&pb.Request{CmdType: pb.CmdType_CMD_GET, Cmd: &pb.Request_Get{Get: &pb.GetRequest{Key: r.keys[k], Version: ts}}})
	if err != nil {
		r.engineError("C17", "get", err.Error(), k)
		return getObs{}, false
	}
	g := resp.GetGet()
	if e := g.GetError(); e != nil {
		if e.GetLocked() == nil {
			r.engineError("C17", "get", kerr(e), k)
			return getObs{}, false
		}
		return getObs{locked: true, lockTs: e.Locked.LockVersion}, true
	}
	if g.GetNotFound() {
		return getObs{}, true
	}
	return getObs{found: true, value: g.GetValue()}, true
}

// valueOwner decodes the "c<case>t<txn>k<key>|" head of a value.
func valueOwner(v []byte) (txn, key int) {
	txn, key = -1, -1
	i := bytes.IndexByte(v, '|')
	if i < 0 {
		return
	}
	var cs, t, k int
	if n, _ := fmt.Sscanf(string(v[:i]), "c%dt%dk%d", &cs, &t, &k); n == 3 {
		return t, k
	}
	return
}

// cause explains a wrong read of (k, ts) from what the model and the storage
// layout show; exp is the model's answer.
func (r *runner) cause(k int, ts uint64, exp readResult) string {
	// newest record of any kind at or below ts
	var top *mwrite
	for i := range r.m.k[k].writes {
		w := &r.m.k[k].writes[i]
		if w.commitTs <= ts && (top == nil || w.commitTs > top.commitTs) {
			top = w
		}
	}
	if top != nil && top.kind == pb.Mutation_Rollback {
		return "newest-record-is-rollback"
	}
	if top != nil && top.kind == pb.Mutation_Lock {
		return "newest-record-is-lock-only"
	}
	missing := ""
	if exp.found {
		sh, what := r.shadowed(k, exp.from.startTs)
		if sh {
			return "data-shadowed-by-lower-version-" + what + "-in-newer-source"
		}
		missing = what
	}
	for _, cf := range []kv.ColumnFamily{kv.CFWrite, kv.CFDefault} {
		if t := r.taintOf(cf, k); t != "" {
			return "tainted:" + t
		}
	}
	if missing != "" {
		return missing
	}
	return "unexplained"
}

func (r *runner) checkGet(k int, ts uint64, where string) bool {
	exp := r.m.read(k, ts)
	obs, ok := r.get(k, ts)
	if !ok {
		return false
	}
	r.c.Count("evaluations", 1)
	r.c.Count("gets_checked", 1)
	switch {
	case exp.locked != nil:
		r.c.Count("gets_expect_locked", 1)
	case exp.found:
		r.c.Count("gets_expect_value", 1)
	default:
		r.c.Count("gets_expect_not_found", 1)
	}
	if exp.locked == nil && exp.from != nil && (exp.skippedRollback || exp.skippedLockOnly) {
		if exp.skippedRollback {
			r.c.Count("gets_skipping_rollback_record", 1)
		}
		if exp.skippedLockOnly {
			r.c.Count("gets_skipping_lock_only_record", 1)
		}
		r.skipReads++
	}
	if exp.locked != nil || obs.locked {
		if exp.locked != nil && obs.locked && exp.locked.ts == obs.lockTs {
			return true
		}
		want := "no-lock-error"
		if exp.locked != nil {
			want = "locked"
		}
		got := "no-lock-error"
		if obs.locked {
			got = "locked"
		}
		if want == got {
			want, got = "lock-of-owner", "lock-of-other-txn"
		}
		t := "untainted"
		if x := r.taintOf(kv.CFLock, k); x != "" {
			t = "tainted:" + x
		}
		r.fail("C17", fmt.Sprintf("C17|get|lock-check|want=%s,got=%s|%s", want, got, t), fmt.Sprintf("GET k%d @%d (%s): expected %s, got %s, while Reader.GetLock agreed with the model", k, ts, where, expString(exp), obs), map[string]any{"key": kq(r.keys[k]), "lock_sources": r.describeSources(kv.CFLock, k)}, true)
		return false
	}
	if exp.found == obs.found && (!exp.found || bytes.Equal(exp.value, obs.value)) {
		return true
	}
	want := "not-found"
	if exp.found {
		want = "value"
	}
	got := "not-found"
	if obs.found {
		got = "other-value"
		if ot, okk := valueOwner(obs.value); ot >= 0 && okk == k {
			if r.m.rolledBack(k, r.txns[ot].Start) {
				r.fail("C18", "C18|rolled-back-data-visible|get", fmt.Sprintf("GET k%d @%d (%s) returned the value of T%d, which is rolled back on that key", k, ts, where, ot), map[string]any{"key": kq(r.keys[k])}, true)
				return false
			}
			if !r.m.committed(k, r.txns[ot].Start) {
				got = "uncommitted-value"
			} else if exp.from != nil && r.txns[ot].Commit < exp.from.commitTs {
				got = "older-value"
			} else {
				got = "newer-value"
			}
		} else if len(obs.value) == 0 {
			got = "empty-value"
		}
	}
	cs := r.cause(k, ts, exp)
	sig := "C17|get|" + cs
	if cs == "unexplained" || cs == "data-version-missing" {
		sig = fmt.Sprintf("C17|get|%s|want=%s,got=%s", cs, want, got)
	}
	r.fail("C17", sig, fmt.Sprintf("GET k%d @%d (%s): expected %s, got %s", k, ts, where, expString(exp), obs),
		map[string]any{"key": kq(r.keys[k]), "read_ts": ts, "write_sources": r.describeSources(kv.CFWrite, k), "default_sources": r.describeSources(kv.CFDefault, k)}, false)
	return false
}

func expString(e readResult) string {
	switch {
	case e.locked != nil:
		return fmt.Sprintf("locked(lock_ts=%d)", e.locked.ts)
	case e.found:
		return fmt.Sprintf("value %s of T%d (commit %d)", head(e.value), e.from.txn, e.from.commitTs)
	case e.from != nil:
		return fmt.Sprintf("not-found (deleted by T%d at %d)", e.from.txn, e.from.commitTs)
	}
	return "not-found (nothing committed)"
}

func (r *runner) checkScan(startKey int, includeStart bool, limit int, ts uint64, where string) bool {
	var start []byte
	if startKey >= 0 {
		start = r.keys[startKey]
	}
	resp, err := r.apply(&pb.Request{CmdType: pb.CmdType_CMD_SCAN, Cmd: &pb.Request_Scan{Scan: &pb.ScanRequest{StartKey: start, Limit: uint32(limit), Version: ts, IncludeStart: includeStart}}})
	if err != nil {
		r.engineError("C17", "scan", err.Error(), -1)
		return false
	}
	sc := resp.GetScan()
	if e := sc.GetError(); e != nil && e.GetLocked() == nil {
		r.engineError("C17", "scan", kerr(e), -1)
		return false
	}
	r.c.Count("evaluations", 1)
	r.c.Count("scans_checked", 1)
	ekvs, elk, elock := r.m.scan(start, includeStart, limit, ts)
	if elock != nil {
		r.c.Count("scans_expect_lock_error", 1)
	}
	r.c.Count("scan_pairs_expected", len(ekvs))
	var got []string
	for _, p := range sc.GetKvs() {
		got = append(got, fmt.Sprintf("k%d=%s", r.keyIndex(p.Key), head(p.Value)))
	}
	var want []string
	for _, p := range ekvs {
		want = append(want, fmt.Sprintf("k%d=%s", p.k, head(p.value)))
	}
	obsLock := sc.GetError().GetLocked()
	if obsLock != nil {
		got = append(got, fmt.Sprintf("locked(k%d lock_ts=%d)", r.keyIndex(obsLock.Key), obsLock.LockVersion))
	}
	if elock != nil {
		want = append(want, fmt.Sprintf("locked(k%d lock_ts=%d)", elk, elock.ts))
	}
	// first difference in key order between the two event sequences
	// (key/value pairs, optionally ended by a lock error)
	type ev struct {
		k     int
		value []byte
		lock  bool
		ts    uint64
	}
	var es, os []ev
	for _, p := range ekvs {
		es = append(es, ev{k: p.k, value: p.value})
	}
	if elock != nil {
		es = append(es, ev{k: elk, lock: true, ts: elock.ts})
	}
	for _, p := range sc.GetKvs() {
		os = append(os, ev{k: r.keyIndex(p.Key), value: p.Value})
	}
	if obsLock != nil {
		os = append(os, ev{k: r.keyIndex(obsLock.Key), lock: true, ts: obsLock.LockVersion})
	}
	before := func(a, b int) bool { // key a sorts before key b
		if a < 0 || b < 0 {
			return a < 0 && b >= 0
		}
		return bytes.Compare(r.keys[a], r.keys[b]) < 0
	}
	kind, dk := "", -1
	for i := 0; kind == "" && (i < len(es) || i < len(os)); i++ {
		switch {
		case i >= len(os):
			kind, dk = "missing-key", es[i].k
			if es[i].lock {
				kind = "missed-lock"
			}
		case i >= len(es):
			kind, dk = "extra-key", os[i].k
			if os[i].lock {
				kind = "spurious-lock"
			}
		case es[i].k == os[i].k && es[i].lock && os[i].lock:
			if es[i].ts != os[i].ts {
				kind, dk = "lock-of-other-txn", es[i].k
			}
		case es[i].k == os[i].k && es[i].lock:
			kind, dk = "missed-lock", es[i].k
		case es[i].k == os[i].k && os[i].lock:
			kind, dk = "spurious-lock", os[i].k
		case es[i].k == os[i].k:
			if !bytes.Equal(es[i].value, os[i].value) {
				kind, dk = "value-mismatch", es[i].k
			}
		case before(os[i].k, es[i].k):
			kind, dk = "extra-key", os[i].k
			if os[i].lock {
				kind = "spurious-lock"
			}
		default:
			kind, dk = "missing-key", es[i].k
			if es[i].lock {
				kind = "missed-lock"
			}
		}
		if (kind == "extra-key" || kind == "value-mismatch") && len(os[i].value) == 0 {
			kind += "-empty"
		}
	}
	if kind == "" {
		return true
	}
	cs := "unexplained"
	switch {
	case dk < 0:
	case kind == "missed-lock" || kind == "spurious-lock" || kind == "lock-of-other-txn":
		if t := r.taintOf(kv.CFLock, dk); t != "" {
			cs = "tainted:" + t
		} else if kind == "missed-lock" && len(r.env.DB.VerifKeySources(kv.CFWrite, r.keys[dk])) == 0 {
			cs = "locked-key-has-no-write-record"
		} else if kind == "missed-lock" {
			cs = "locked-key-has-write-records"
		}
	default:
		cs = r.cause(dk, ts, r.m.read(dk, ts))
	}
	// does a point get of the differing key agree with the model?
	getSays := "n/a"
	if dk >= 0 {
		if o, ok := r.get(dk, ts); ok {
			e := r.m.read(dk, ts)
			agree := (e.locked != nil) == o.locked && (e.locked != nil || (e.found == o.found && bytes.Equal(e.value, o.value)))
			getSays = fmt.Sprintf("GET k%d @%d returns %s (model: %s)", dk, ts, o, expString(e))
			if agree {
				r.c.Count("scan_differs_where_get_is_right", 1)
			}
		}
	}
	sig := "C17|scan|" + cs
	if cs == "unexplained" || cs == "data-version-missing" || strings.HasPrefix(cs, "locked-key-") {
		sig = fmt.Sprintf("C17|scan|%s|%s", kind, cs)
	}
	r.fail("C17", sig, fmt.Sprintf("SCAN from=k%d incl=%v limit=%d @%d (%s): expected [%s], got [%s]; %s", startKey, includeStart, limit, ts, where, strings.Join(want, " "), strings.Join(got, " "), getSays),
		map[string]any{"first_difference_key": dk, "read_ts": ts, "point_get_of_that_key": getSays}, false)
	return false
}

// sweep compares every key's lock (C19) and the reads at every timestamp of
// interest (C17) with the model.
func (r *runner) sweep(full bool) {
	r.taintScan()
	where := "after " + r.afterDesc
	for k := range r.keys {
		obs, err := r.observedLock(k)
		if err != nil {
			r.engineError("C19", "get-lock", err.Error(), k)
			return
		}
		r.c.Count("evaluations", 1)
		r.c.Count("lock_checks", 1)
		ml := r.m.k[k].lock
		if ml != nil {
			r.c.Count("lock_checks_lock_expected", 1)
		}
		nsrc := len(r.env.DB.VerifKeySources(kv.CFLock, r.keys[k]))
		if nsrc >= 2 {
			r.c.Count("lock_checks_multi_source", 1)
			if r.m.k[k].transitions >= 2 {
				r.lockMultiSource++
			}
		}
		rule := ""
		switch {
		case ml == nil && obs == nil:
		case ml != nil && obs == nil:
			rule = "lock-lost"
		case ml == nil && obs != nil:
			rule = "lock-reappeared"
		case ml.ts != obs.Ts:
			rule = "lock-of-other-txn"
		case !bytes.Equal(ml.primary, obs.Primary) || ml.kind != obs.Kind || ml.ttl != obs.TTL:
			rule = "lock-fields-differ"
		case obs.MinCommitTs < ml.minCommit:
			rule = "min-commit-ts-lowered"
		case obs.MinCommitTs > ml.minCommit:
			rule = "min-commit-ts-raised"
		}
		if rule == "" {
			continue
		}
		odesc := "no lock"
		if obs != nil {
			odesc = fmt.Sprintf("lock{ts=%d primary=%q kind=%s ttl=%d min_commit=%d}", obs.Ts, obs.Primary, opName(obs.Kind), obs.TTL, obs.MinCommitTs)
		}
		mdesc := "no lock"
		if ml != nil {
			mdesc = fmt.Sprintf("lock{T%d ts=%d kind=%s ttl=%d min_commit=%d}", ml.txn, ml.ts, opName(ml.kind), ml.ttl, ml.minCommit)
		}
		extra := map[string]any{"key": kq(r.keys[k]), "lock_sources": r.describeSources(kv.CFLock, k)}
		what := fmt.Sprintf("Reader.GetLock(k%d) %s reports %s, the history implies %s", k, where, odesc, mdesc)
		if t := r.taintOf(kv.CFLock, k); t != "" {
			r.fail("C19", "C19|lock-state-wrong|tainted:"+t, what, extra, true)
			return
		}
		if r.afterMaint {
			r.fail("C19", "C19|"+rule+"|after=maintenance|untainted", what, extra, true)
			return
		}
		ctx := "?"
		if q := r.lastReq; q != nil {
			who := "own-txn"
			owner := -1
			if ml != nil {
				owner = ml.txn
			} else if obs != nil {
				for _, t := range r.txns {
					if t.Start == obs.Ts {
						owner = t.ID
					}
				}
			}
			if owner != q.Txn {
				who = "other-txn"
			}
			ctx = q.Kind + ":" + who
		}
		if rule == "min-commit-ts-lowered" && r.lastReq != nil && r.lastReq.Kind == "prewrite" {
			r.fail("C18", "C18|repeated-request-changed-state|prewrite-lowers-pushed-min-commit-ts", what+" (a repeated PREWRITE reset the min_commit_ts that a CHECK_TXN_STATUS had pushed)", extra, false)
			ml.minCommit = obs.MinCommitTs
			continue
		}
		if rule == "lock-lost" {
			// the database dropped the lock: follow it so that the case can go on
			r.fail("C19", "C19|"+rule+"|after=req:"+ctx+"|untainted", what, extra, false)
			r.m.clearLock(k)
			continue
		}
		r.fail("C19", "C19|"+rule+"|after=req:"+ctx+"|untainted", what, extra, true)
		return
	}
	// reads
	tss := r.allTs
	if !full {
		tss = nil
		for i := 0; i < 6; i++ {
			tss = append(tss, r.allTs[r.c.Rng.Intn(len(r.allTs))])
		}
		tss = append(tss, r.allTs[len(r.allTs)-1])
	}
	for k := range r.keys {
		if len(r.env.DB.VerifKeySources(kv.CFWrite, r.keys[k])) >= 2 {
			r.multiSrcReads++
		}
		for _, ts := range tss {
			r.checkGet(k, ts, where)
			if r.stop {
				return
			}
		}
	}
	// scans: the whole range at a few timestamps plus random windows
	nk := len(r.keys)
	for i := 0; i < 3; i++ {
		ts := tss[r.c.Rng.Intn(len(tss))]
		if i == 0 {
			ts = r.allTs[len(r.allTs)-1]
		}
		r.checkScan(-1, true, nk+1, ts, where)
		if r.stop {
			return
		}
	}
	r.checkScan(r.c.Rng.Intn(nk), r.c.Rng.Intn(2) == 0, 1+r.c.Rng.Intn(nk), tss[r.c.Rng.Intn(len(tss))], where)
}

// finalDump checks, independently of the model, the write column of every key:
// no transaction has both a commit and a rollback record, and the [start,
// commit] intervals of committed puts/deletes of one key are disjoint.
func (r *runner) finalDump() {
	for k, key := range r.keys {
		type rec struct {
			commitTs uint64
			w        percolator.Write
		}
		recs := map[uint64]rec{}
		it := r.env.DB.NewInternalIterator(&utils.Options{IsAsc: true})
		if it == nil {
			continue
		}
		for it.Seek(kv.InternalKey(kv.CFWrite, key, math.MaxUint64)); it.Valid(); it.Next() {
			e := it.Item().Entry()
			cf, uk, ts := kv.SplitInternalKey(e.Key)
			if cf != kv.CFWrite || !bytes.Equal(uk, key) {
				break
			}
			if e.Meta&kv.BitDelete != 0 {
				continue
			}
			if _, dup := recs[ts]; dup {
				continue
			}
			w, err := percolator.DecodeWrite(e.Value)
			if err != nil {
				continue
			}
			recs[ts] = rec{ts, w}
		}
		_ = it.Close()
		var list []rec
		for _, x := range recs {
			list = append(list, x)
		}
		sort.Slice(list, func(i, j int) bool { return list[i].commitTs < list[j].commitTs })
		r.c.Count("write_records_dumped", len(list))
		byStart := map[uint64][]rec{}
		for _, x := range list {
			byStart[x.w.StartTs] = append(byStart[x.w.StartTs], x)
		}
		for st, xs := range byStart {
			hasRb, hasCommit := false, false
			for _, x := range xs {
				if x.w.Kind == pb.Mutation_Rollback {
					hasRb = true
				} else {
					hasCommit = true
				}
			}
			r.c.Count("evaluations", 1)
			if hasRb && hasCommit {
				r.fail("C18", "C18|outcome-not-unique|commit-and-rollback-record-on-one-key", fmt.Sprintf("k%d holds both a commit record and a rollback record of the transaction with start_ts %d", k, st), map[string]any{"key": kq(key)}, false)
			}
		}
		for i := 0; i < len(list); i++ {
			for j := i + 1; j < len(list); j++ {
				a, b := list[i], list[j]
				if a.w.Kind == pb.Mutation_Rollback || a.w.Kind == pb.Mutation_Lock || b.w.Kind == pb.Mutation_Rollback || b.w.Kind == pb.Mutation_Lock {
					continue
				}
				r.c.Count("evaluations", 1)
				r.c.Count("committed_writer_pairs_checked", 1)
				if a.w.StartTs <= b.commitTs && b.w.StartTs <= a.commitTs {
					r.fail("C18", "C18|overlapping-commits|write-column-dump", fmt.Sprintf("k%d: committed writers [%d,%d] and [%d,%d] overlap", k, a.w.StartTs, a.commitTs, b.w.StartTs, b.commitTs), map[string]any{"key": kq(key)}, false)
				}
			}
		}
	}
}

// RunCase generates and runs one history; prop selects whose violations are reported.
func RunCase(c *core.Case, prop string) {
	rng := c.Rng
	cfg := dbx.RandomConfig(rng)
	// Background compaction stays paused: the same-version tie findings recorded
	// for C01 can only be told apart from new defects when every compaction is
	// an explicit, observed step (the lock column reuses one storage version).
	cfg.Controlled = true
	cfg.MemTableSize = 1 << 20
	cfg.L0Tables = 1000
	env, err := dbx.NewEnv(cfg, c.TempDir(), c.Count)
	if err != nil {
		c.Violation(prop+"|open-failed|fresh", err.Error(), cfg)
		return
	}
	defer func() { _ = env.Close() }()
	nKeys := 3 + rng.Intn(2)
	pool := dbx.KeyPool(rng, 16)
	var keys [][]byte
	for _, k := range pool {
		if len(keys) == nKeys {
			break
		}
		if cfg.Engine == "art" && dbx.HasPrefixSibling(k, keys) {
			// ART orders internal keys by raw bytes: prefix-related user keys are
			// mis-ordered against the comparator (C07's subject; zero-suffix
			// siblings are known finding C01|wrong-read|art-zero-suffix-sibling).
			continue
		}
		keys = append(keys, k)
	}
	nKeys = len(keys)
	txns, log := Generate(rng, c.Idx, c.Thorough(), nKeys, int(cfg.ValueThreshold))
	r := &runner{c: c, prop: prop, env: env, cfg: cfg, keys: keys, txns: txns, log: log, m: newModel(keys), taint: map[string]string{}, seenSig: map[string]bool{}}
	seen := map[uint64]bool{}
	for _, t := range txns {
		for _, ts := range []uint64{t.Start - 1, t.Start, t.Commit - 1, t.Commit} {
			if !seen[ts] {
				seen[ts] = true
				r.allTs = append(r.allTs, ts)
			}
		}
	}
	r.allTs = append(r.allTs, uint64(10*(2*len(txns)+1)+50))
	sort.Slice(r.allTs, func(i, j int) bool { return r.allTs[i] < r.allTs[j] })

	replays := 0
	for i := range log {
		q := log[i]
		r.trace = append(r.trace, fmt.Sprintf("%02d %s", i, q.Describe(txns)))
		r.curLine = len(r.trace) - 1
		r.kindsTrace.WriteString(q.Kind[:2])
		if q.Txn >= 0 && q.Kind != "maint" && q.Kind != "get" && q.Kind != "scan" {
			fmt.Fprintf(&r.kindsTrace, "%d", q.Txn)
		}
		r.afterDesc = fmt.Sprintf("step %d (%s)", i, q.Describe(txns))
		switch q.Kind {
		case "maint":
			if strings.HasPrefix(q.Action, "compact:") {
				env.DB.VerifLSM().VerifWaitFlush(30e9)
				env.NoteLayout("flush")
				r.taintScan()
			}
			res := env.Action(q.Action)
			env.Trace = nil
			if res.Err != nil {
				if env.DB == nil {
					c.Violation(prop+"|reopen-failed", res.Err.Error(), r.detailNoDB())
					return
				}
				c.Count("maintenance_errors."+q.Action, 1)
				c.Distinct("maintenance_error_texts", q.Action+": "+res.Err.Error())
			}
			if res.Effect {
				r.trace[r.curLine] += " -> effect, layout " + dbx.LayoutShape(env.DB)
			} else {
				r.trace[r.curLine] += " -> no effect"
			}
			c.Distinct("layout_shapes", dbx.LayoutShape(env.DB))
			r.afterMaint = true
			r.sweep(true)
		case "get":
			r.afterMaint = false
			r.checkGet(q.Keys[0], q.ReadTs, "history request")
			continue
		case "scan":
			r.afterMaint = false
			r.checkScan(q.StartKey, q.IncludeStart, q.Limit, q.ReadTs, "history request")
			continue
		default:
			r.afterMaint = false
			r.lastReq = &log[i]
			if q.Tag == "dup" || q.Tag == "replay" {
				c.Count("repeated_requests_applied", 1)
				r.c18Events++
				if q.Tag == "replay" {
					replays++
				}
			}
			c.Count("requests."+q.Kind, 1)
			switch q.Kind {
			case "prewrite":
				r.doPrewrite(q)
			case "commit":
				r.doCommit(q)
			case "rollback":
				r.doRollback(q)
			case "resolve":
				r.doResolve(q)
			case "check":
				r.doCheck(q)
			}
			if !r.stop {
				r.sweep(false)
			}
		}
		if r.stop {
			break
		}
	}
	if replays > 0 {
		c.Count("whole_log_replays", 1)
	}
	if !r.stop {
		env.NoteLayout("flush")
		r.afterMaint = false
		r.afterDesc = "the last step"
		r.sweep(true)
	}
	if !r.stop {
		r.finalDump()
	}
	if r.stop {
		c.Count("cases_stopped_at_a_violation", 1)
	}
	for _, t := range env.DB.VerifLSM().VerifLayout().Tables {
		c.Max("deepest_level", t.Level)
	}
	for k := range keys {
		c.Count("lock_transitions", r.m.k[k].transitions)
	}
	c.Count("cases_engine_"+cfg.Engine, 1)
	for _, t := range txns {
		c.Count("txn_fate."+t.Fate, 1)
	}
	nontrivial := false
	switch prop {
	case "C17":
		nontrivial = r.skipReads > 0 || r.multiSrcReads > 0
	case "C18":
		nontrivial = r.c18Events > 0
	case "C19":
		nontrivial = r.lockMultiSource > 0
	}
	if nontrivial {
		c.Nontrivial(r.kindsTrace.String())
		c.Count("nontrivial_cases", 1)
	}
	if c.Idx < 2 {
		c.Sample(map[string]any{"config": cfg, "txns": r.detail(nil)["txns"], "steps": r.trace})
	}
}

func (r *runner) detailNoDB() map[string]any {
	return map[string]any{"config": r.cfg, "trace": r.trace}
}

// Cases is the case count per tier.
func Cases(tier string) int {
	if tier == "thorough" {
		return 2400
	}
	return 200
}

// ActionFloors requires every maintenance kind to have been executed with effect.
func ActionFloors(a *core.Agg) {
	for _, k := range []string{"action.rotate", "action.rotate-wait", "action.compact:l0", "action.reopen"} {
		a.Floor(k, 20)
	}
	a.Floor("action.compact:ingest-drain", 5)
	a.Floor("action.compact:ingest-merge", 5)
	a.Floor("action.compact:l0-to-l0", 3)
}
