// Package perco is the shared engine of C17/C18/C19: generated Percolator
// request histories applied through raftstore/kv.Apply on a real NoKV.DB with
// maintenance actions in between, judged by a reference model written from the
// property statements (not from the percolator package).
package perco

import (
	"bytes"
	"math"
	"sort"

	"github.com/feichai0017/NoKV/pb"
)

// mlock is the lock the model believes a key carries.
type mlock struct {
	txn       int
	ts        uint64
	primary   []byte
	ttl       uint64
	kind      pb.Mutation_Op
	minCommit uint64
}

// mwrite is one write record of a key: a commit record (kind put/delete/lock,
// at the commit timestamp) or a rollback record (at the start timestamp).
type mwrite struct {
	commitTs uint64
	startTs  uint64
	kind     pb.Mutation_Op
	txn      int
}

type mkey struct {
	lock        *mlock
	writes      []mwrite
	transitions int // lock set/remove transitions (C19 coverage)
}

// model is the Percolator reference state: per key a lock, write records and
// the data written at each start timestamp.
type model struct {
	keys [][]byte
	k    []*mkey
	data map[[2]uint64][]byte // (key index, start ts) -> value
}

func newModel(keys [][]byte) *model {
	m := &model{keys: keys, data: map[[2]uint64][]byte{}}
	for range keys {
		m.k = append(m.k, &mkey{})
	}
	return m
}

func (m *model) record(k int, startTs uint64) *mwrite {
	for i := range m.k[k].writes {
		if m.k[k].writes[i].startTs == startTs {
			return &m.k[k].writes[i]
		}
	}
	return nil
}

func (m *model) committed(k int, startTs uint64) bool {
	w := m.record(k, startTs)
	return w != nil && w.kind != pb.Mutation_Rollback
}

func (m *model) rolledBack(k int, startTs uint64) bool {
	w := m.record(k, startTs)
	return w != nil && w.kind == pb.Mutation_Rollback
}

func (m *model) setLock(k int, l *mlock) {
	if m.k[k].lock == nil || m.k[k].lock.ts != l.ts {
		m.k[k].transitions++
	}
	m.k[k].lock = l
}

func (m *model) clearLock(k int) {
	if m.k[k].lock != nil {
		m.k[k].transitions++
	}
	m.k[k].lock = nil
}

// commit turns the lock of txn into a commit record.
func (m *model) commit(k int, l *mlock, commitTs uint64) {
	m.k[k].writes = append(m.k[k].writes, mwrite{commitTs: commitTs, startTs: l.ts, kind: l.kind, txn: l.txn})
	m.clearLock(k)
}

// rollback records that txn (start ts) is rolled back on key k; a lock of
// that txn is removed, a lock of another txn stays.
func (m *model) rollback(k int, txn int, startTs uint64) {
	if m.record(k, startTs) == nil {
		m.k[k].writes = append(m.k[k].writes, mwrite{commitTs: startTs, startTs: startTs, kind: pb.Mutation_Rollback, txn: txn})
	}
	if l := m.k[k].lock; l != nil && l.ts == startTs {
		m.clearLock(k)
	}
}

// readResult is what a read at (key, ts) must return according to C17.
type readResult struct {
	locked *mlock
	found  bool
	value  []byte
	from   *mwrite // the commit record that decides the answer (nil: nothing committed)
	// skippedRollback / skippedLockOnly: a rollback / lock-only record at or
	// below ts lies above the deciding record and had to be skipped.
	skippedRollback bool
	skippedLockOnly bool
}

func (m *model) read(k int, ts uint64) readResult {
	var r readResult
	if l := m.k[k].lock; l != nil && l.ts <= ts {
		r.locked = l
		return r
	}
	ws := append([]mwrite(nil), m.k[k].writes...)
	sort.Slice(ws, func(i, j int) bool { return ws[i].commitTs > ws[j].commitTs })
	for i := range ws {
		w := ws[i]
		if w.commitTs > ts {
			continue
		}
		switch w.kind {
		case pb.Mutation_Rollback:
			r.skippedRollback = true
			continue
		case pb.Mutation_Lock:
			r.skippedLockOnly = true
			continue
		case pb.Mutation_Delete:
			r.from = &ws[i]
			return r
		default:
			r.from = &ws[i]
			r.found = true
			r.value = m.data[[2]uint64{uint64(k), w.startTs}]
			return r
		}
	}
	// nothing committed below: skipped records do not matter for the answer
	return r
}

// sortedKeys returns the key indices in byte order.
func (m *model) sortedKeys() []int {
	idx := make([]int, len(m.keys))
	for i := range idx {
		idx[i] = i
	}
	sort.Slice(idx, func(a, b int) bool { return bytes.Compare(m.keys[idx[a]], m.keys[idx[b]]) < 0 })
	return idx
}

type scanKV struct {
	k     int
	value []byte
}

// scan is the model of a forward scan: the gets of the keys in range, in
// order, until limit values were collected or a locked key blocks the read.
func (m *model) scan(start []byte, includeStart bool, limit int, ts uint64) (kvs []scanKV, lockedKey int, lock *mlock) {
	if limit <= 0 {
		limit = 1
	}
	lockedKey = -1
	for _, k := range m.sortedKeys() {
		if len(kvs) >= limit {
			break
		}
		if len(start) > 0 {
			c := bytes.Compare(m.keys[k], start)
			if c < 0 || (c == 0 && !includeStart) {
				continue
			}
		}
		r := m.read(k, ts)
		if r.locked != nil {
			return kvs, k, r.locked
		}
		if r.found {
			kvs = append(kvs, scanKV{k, r.value})
		}
	}
	return kvs, -1, nil
}

// expired is the statement's expiry test, current_ts >= lock.ts + ttl, in
// unbounded arithmetic.
func expired(lockTs, ttl, current uint64) bool {
	if ttl > math.MaxUint64-lockTs {
		return false // lock.ts + ttl lies beyond every representable timestamp
	}
	return current >= lockTs+ttl
}
