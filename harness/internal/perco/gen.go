package perco

import (
	"fmt"
	"math"
	"math/rand"
	"strings"

	"github.com/feichai0017/NoKV/pb"
	"verif/harness/internal/dbx"
)

// Txn is one generated transaction: fixed, unique start and commit timestamps,
// its keys, primary, mutation kinds, values and lock parameters.
type Txn struct {
	ID        int
	Start     uint64
	Commit    uint64
	Keys      []int
	Primary   int
	Ops       map[int]pb.Mutation_Op
	Vals      map[int][]byte
	TTL       uint64
	MinCommit uint64
	Fate      string
}

// Req is one step of a history: a kv.Apply request or a maintenance action.
type Req struct {
	Kind         string // prewrite commit rollback resolve check get scan maint
	Txn          int
	Keys         []int
	CommitTs     uint64 // commit / resolve (0 = rollback)
	CurrentTs    uint64
	CallerTs     uint64
	RbIfNotExist bool
	ReadTs       uint64
	StartKey     int // scan: key index, -1 = from the beginning
	Limit        int
	IncludeStart bool
	Action       string
	Tag          string // "", dup, moved, replay
}

func opName(op pb.Mutation_Op) string {
	switch op {
	case pb.Mutation_Put:
		return "put"
	case pb.Mutation_Delete:
		return "del"
	case pb.Mutation_Lock:
		return "lock"
	case pb.Mutation_Rollback:
		return "rollback"
	}
	return fmt.Sprintf("op%d", int(op))
}

// Describe renders a request for traces and replay files.
func (r Req) Describe(txns []*Txn) string {
	tag := ""
	if r.Tag != "" {
		tag = " [" + r.Tag + "]"
	}
	ks := func() string {
		var s []string
		for _, k := range r.Keys {
			s = append(s, fmt.Sprintf("k%d", k))
		}
		return strings.Join(s, ",")
	}
	switch r.Kind {
	case "maint":
		return "maint " + r.Action
	case "get":
		return fmt.Sprintf("GET k%d @%d", r.Keys[0], r.ReadTs)
	case "scan":
		return fmt.Sprintf("SCAN from=k%d incl=%v limit=%d @%d", r.StartKey, r.IncludeStart, r.Limit, r.ReadTs)
	}
	t := txns[r.Txn]
	switch r.Kind {
	case "prewrite":
		var s []string
		for _, k := range r.Keys {
			s = append(s, fmt.Sprintf("%s k%d", opName(t.Ops[k]), k))
		}
		return fmt.Sprintf("PREWRITE T%d start=%d primary=k%d ttl=%d min_commit=%d {%s}%s", t.ID, t.Start, t.Primary, t.TTL, t.MinCommit, strings.Join(s, ", "), tag)
	case "commit":
		return fmt.Sprintf("COMMIT T%d start=%d commit=%d keys=%s%s", t.ID, t.Start, r.CommitTs, ks(), tag)
	case "rollback":
		return fmt.Sprintf("BATCH_ROLLBACK T%d start=%d keys=%s%s", t.ID, t.Start, ks(), tag)
	case "resolve":
		return fmt.Sprintf("RESOLVE_LOCK T%d start=%d commit=%d keys=%s%s", t.ID, t.Start, r.CommitTs, ks(), tag)
	case "check":
		return fmt.Sprintf("CHECK_TXN_STATUS T%d primary=k%d lock_ts=%d current_ts=%d caller_start_ts=%d rollback_if_not_exist=%v%s", t.ID, r.Keys[0], t.Start, r.CurrentTs, r.CallerTs, r.RbIfNotExist, tag)
	}
	return r.Kind
}

var actionWeights = []struct {
	name string
	w    int
}{
	{"rotate", 22}, {"rotate-wait", 26}, {"compact:l0", 13}, {"compact:l0-to-l0", 4}, {"compact:ingest-drain", 10},
	{"compact:ingest-merge", 8}, {"compact:level", 5}, {"gc", 3}, {"gc-public", 2}, {"reopen", 9},
}

func pickAction(rng *rand.Rand) string {
	tot := 0
	for _, a := range actionWeights {
		tot += a.w
	}
	x := rng.Intn(tot)
	for _, a := range actionWeights {
		if x < a.w {
			return a.name
		}
		x -= a.w
	}
	return "rotate"
}

// Generate builds the transactions and the arrival-ordered request log of a case.
func Generate(rng *rand.Rand, caseIdx int, thorough bool, nKeys int, thr int) ([]*Txn, []Req) {
	nT := 3 + rng.Intn(4)
	if thorough && rng.Intn(3) == 0 {
		nT = 5 + rng.Intn(4)
	}
	// unique timestamps from a counter: an interleaving of start/commit events,
	// either fully random (many overlapping transactions) or mostly sequential
	// with a few displaced events (layers of committed values).
	var slots []int
	for i := 0; i < nT; i++ {
		slots = append(slots, i, i)
	}
	if rng.Intn(2) == 0 {
		rng.Shuffle(len(slots), func(i, j int) { slots[i], slots[j] = slots[j], slots[i] })
	} else {
		for n := rng.Intn(nT); n > 0; n-- {
			i := rng.Intn(len(slots) - 1)
			slots[i], slots[i+1] = slots[i+1], slots[i]
		}
	}
	txns := make([]*Txn, nT)
	for pos, id := range slots {
		ts := uint64(10 * (pos + 1))
		if txns[id] == nil {
			txns[id] = &Txn{ID: id, Start: ts, Ops: map[int]pb.Mutation_Op{}, Vals: map[int][]byte{}}
		} else {
			txns[id].Commit = ts
		}
	}
	sizes := []int{12, 20, thr - 1, thr + 1, 2000}
	for _, t := range txns {
		n := 1 + rng.Intn(3)
		if n > nKeys {
			n = nKeys
		}
		t.Keys = rng.Perm(nKeys)[:n]
		t.Primary = t.Keys[rng.Intn(len(t.Keys))]
		for _, k := range t.Keys {
			switch x := rng.Intn(10); {
			case x < 6:
				t.Ops[k] = pb.Mutation_Put
				t.Vals[k] = dbx.Value(fmt.Sprintf("c%dt%dk%d|", caseIdx, t.ID, k), sizes[rng.Intn(len(sizes))])
			case x < 8:
				t.Ops[k] = pb.Mutation_Delete
			default:
				t.Ops[k] = pb.Mutation_Lock
			}
		}
		switch x := rng.Intn(100); {
		case x < 15:
			t.TTL = 0
		case x < 45:
			t.TTL = 5
		case x < 75:
			t.TTL = 25
		case x < 96:
			t.TTL = 400
		default:
			t.TTL = math.MaxUint64 - 3 // lock.ts + ttl exceeds every timestamp
		}
		switch x := rng.Intn(100); {
		case x < 65:
			t.MinCommit = 0
		case x < 82:
			t.MinCommit = t.Start + 1
		case x < 92:
			t.MinCommit = t.Commit
		default:
			t.MinCommit = t.Commit + 3
		}
	}
	expiredTs := func(t *Txn) uint64 {
		if t.TTL > 1<<60 {
			return t.Start + uint64(rng.Intn(200))
		}
		if rng.Intn(2) == 0 {
			return t.Start + t.TTL // boundary: exactly expired
		}
		return t.Start + t.TTL + 1 + uint64(rng.Intn(30))
	}
	unexpiredTs := func(t *Txn) uint64 {
		if t.TTL == 0 {
			return t.Start - uint64(1+rng.Intn(5))
		}
		if rng.Intn(4) == 0 {
			// a caller whose clock is behind the lock's start timestamp (or unset):
			// the lock cannot have expired relative to it
			if rng.Intn(3) == 0 || t.Start < 6 {
				return 0
			}
			return t.Start - uint64(1+rng.Intn(5))
		}
		if t.TTL > 1<<60 {
			return t.Start + uint64(rng.Intn(500))
		}
		if rng.Intn(2) == 0 {
			return t.Start + t.TTL - 1 // boundary: one tick before expiry
		}
		return t.Start + uint64(rng.Int63n(int64(t.TTL)))
	}
	shuffled := func(ks []int) []int {
		out := append([]int(nil), ks...)
		rng.Shuffle(len(out), func(i, j int) { out[i], out[j] = out[j], out[i] })
		return out
	}
	secondaries := func(t *Txn) []int {
		var out []int
		for _, k := range t.Keys {
			if k != t.Primary {
				out = append(out, k)
			}
		}
		return out
	}
	prewrites := func(t *Txn) []Req {
		if len(t.Keys) >= 2 && rng.Intn(3) == 0 {
			ks := shuffled(t.Keys)
			cut := 1 + rng.Intn(len(ks)-1)
			return []Req{{Kind: "prewrite", Txn: t.ID, Keys: ks[:cut]}, {Kind: "prewrite", Txn: t.ID, Keys: ks[cut:]}}
		}
		return []Req{{Kind: "prewrite", Txn: t.ID, Keys: shuffled(t.Keys)}}
	}
	commits := func(t *Txn) []Req {
		sec := secondaries(t)
		if len(sec) > 0 {
			switch rng.Intn(5) {
			case 0, 1:
				return []Req{{Kind: "commit", Txn: t.ID, Keys: []int{t.Primary}, CommitTs: t.Commit}, {Kind: "commit", Txn: t.ID, Keys: shuffled(sec), CommitTs: t.Commit}}
			case 2:
				// the primary alone, then a request that names the (by then committed) primary
				// ahead of the secondaries
				return []Req{{Kind: "commit", Txn: t.ID, Keys: []int{t.Primary}, CommitTs: t.Commit}, {Kind: "commit", Txn: t.ID, Keys: append([]int{t.Primary}, shuffled(sec)...), CommitTs: t.Commit}}
			}
		}
		return []Req{{Kind: "commit", Txn: t.ID, Keys: shuffled(t.Keys), CommitTs: t.Commit}}
	}
	check := func(t *Txn, cur uint64, caller uint64, rb bool) Req {
		k := t.Primary
		if len(t.Keys) > 1 && rng.Intn(10) == 0 {
			k = secondaries(t)[0]
		}
		return Req{Kind: "check", Txn: t.ID, Keys: []int{k}, CurrentTs: cur, CallerTs: caller, RbIfNotExist: rb}
	}
	callerTs := func(t *Txn) uint64 {
		switch x := rng.Intn(10); {
		case x < 5:
			return 0
		case x < 9:
			return t.Start + 3
		default:
			return t.Commit + 2
		}
	}
	var scripts [][]Req
	for _, t := range txns {
		var s []Req
		x := rng.Intn(100)
		switch {
		case x < 6 && len(t.Keys) >= 2 && t.TTL > 1:
			// a reader pushes the primary's min_commit_ts above the commit version between
			// prewrite and commit; the commit request names the secondaries before the primary
			t.Fate = "pushed-above-commit-ts-then-commit-secondaries-first"
			s = append(s, prewrites(t)...)
			cur := t.Start + 1
			if t.TTL < 1<<60 {
				cur = t.Start + uint64(rng.Int63n(int64(t.TTL)))
			}
			s = append(s, Req{Kind: "check", Txn: t.ID, Keys: []int{t.Primary}, CurrentTs: cur, CallerTs: t.Commit + 2})
			s = append(s, Req{Kind: "commit", Txn: t.ID, Keys: append(shuffled(secondaries(t)), t.Primary), CommitTs: t.Commit})
			if rng.Intn(2) == 0 {
				s = append(s, check(t, expiredTs(t), 0, true))
				s = append(s, Req{Kind: "resolve", Txn: t.ID, Keys: shuffled(t.Keys), CommitTs: 0})
			}
		case x < 38:
			t.Fate = "commit"
			s = append(s, prewrites(t)...)
			s = append(s, commits(t)...)
		case x < 48:
			t.Fate = "rollback"
			s = append(s, prewrites(t)...)
			s = append(s, Req{Kind: "rollback", Txn: t.ID, Keys: shuffled(t.Keys)})
			if rng.Intn(2) == 0 {
				s = append(s, commits(t)...)
			}
		case x < 60:
			t.Fate = "expire-resolve-late-commit"
			s = append(s, prewrites(t)...)
			s = append(s, check(t, expiredTs(t), callerTs(t), rng.Intn(2) == 0))
			s = append(s, Req{Kind: "resolve", Txn: t.ID, Keys: shuffled(t.Keys), CommitTs: 0})
			s = append(s, commits(t)...)
		case x < 72:
			t.Fate = "primary-commit-then-resolve"
			s = append(s, prewrites(t)...)
			s = append(s, Req{Kind: "commit", Txn: t.ID, Keys: []int{t.Primary}, CommitTs: t.Commit})
			s = append(s, check(t, expiredTs(t), 0, true))
			s = append(s, Req{Kind: "resolve", Txn: t.ID, Keys: shuffled(t.Keys), CommitTs: t.Commit})
			if rng.Intn(2) == 0 {
				s = append(s, Req{Kind: "rollback", Txn: t.ID, Keys: shuffled(t.Keys)})
			}
		case x < 77:
			t.Fate = "lock-left"
			s = append(s, prewrites(t)...)
		case x < 85:
			t.Fate = "rollback-first"
			s = append(s, Req{Kind: "rollback", Txn: t.ID, Keys: shuffled(t.Keys)})
			s = append(s, prewrites(t)...)
			s = append(s, commits(t)...)
		case x < 92:
			t.Fate = "check-first"
			s = append(s, check(t, expiredTs(t), 0, rng.Intn(3) != 0))
			s = append(s, prewrites(t)...)
			s = append(s, commits(t)...)
		default:
			t.Fate = "primary-expired-then-commit"
			s = append(s, prewrites(t)...)
			s = append(s, check(t, expiredTs(t), 0, true))
			s = append(s, commits(t)...)
		}
		// an extra status check while the lock should still be alive (ttl / min-commit push)
		if rng.Intn(10) < 4 {
			pos := 1
			if len(s) > 1 {
				pos = 1 + rng.Intn(len(s)-1)
			}
			if pos > len(s) {
				pos = len(s)
			}
			extra := check(t, unexpiredTs(t), callerTs(t), false)
			s = append(s[:pos], append([]Req{extra}, s[pos:]...)...)
		}
		scripts = append(scripts, s)
	}
	// interleave the scripts, preserving each script's order
	var log []Req
	idx := make([]int, len(scripts))
	for {
		var live []int
		for i := range scripts {
			if idx[i] < len(scripts[i]) {
				live = append(live, i)
			}
		}
		if len(live) == 0 {
			break
		}
		i := live[rng.Intn(len(live))]
		if rng.Intn(10) < 6 {
			// arrival order correlated with the timestamps: the live script of
			// the transaction with the smallest start timestamp goes on
			for _, j := range live {
				if txns[j].Start < txns[i].Start {
					i = j
				}
			}
		}
		log = append(log, scripts[i][idx[i]])
		idx[i]++
	}
	// arbitrary arrival order: displaced requests
	if rng.Intn(10) < 3 && len(log) > 2 {
		for n := 1 + rng.Intn(3); n > 0; n-- {
			from := rng.Intn(len(log))
			r := log[from]
			r.Tag = "moved"
			log = append(log[:from], log[from+1:]...)
			to := rng.Intn(len(log) + 1)
			log = append(log[:to], append([]Req{r}, log[to:]...)...)
		}
	}
	// duplicates delivered later
	base := append([]Req(nil), log...)
	for _, r := range base {
		if rng.Intn(100) < 15 {
			d := r
			d.Tag = "dup"
			// position strictly after the first occurrence is not required: arrival order is arbitrary
			to := rng.Intn(len(log) + 1)
			log = append(log[:to], append([]Req{d}, log[to:]...)...)
		}
	}
	// re-application of the whole command log
	if rng.Intn(10) < 3 {
		for _, r := range base {
			d := r
			d.Tag = "replay"
			log = append(log, d)
		}
	}
	// reads and maintenance actions between any two requests
	maxTs := uint64(10 * (2*nT + 1))
	readTs := func() uint64 {
		switch x := rng.Intn(10); {
		case x < 2:
			return maxTs + 50
		case x < 3:
			return 5
		default:
			ts := uint64(10 * (1 + rng.Intn(2*nT)))
			switch rng.Intn(3) {
			case 0:
				return ts - 1
			case 1:
				return ts
			}
			return ts + 1 + uint64(rng.Intn(8))
		}
	}
	var out []Req
	// The L0->L0 planner needs four L0 tables: one case in eight builds them on
	// purpose (six flushes after consecutive requests, then the compaction).
	l0Block, l0Start, l0Flushes := rng.Intn(8) == 0, 0, 0
	if len(log) > 8 {
		l0Start = rng.Intn(len(log) - 7)
	}
	for i, r := range log {
		out = append(out, r)
		if l0Block && i >= l0Start && l0Flushes < 6 {
			out = append(out, Req{Kind: "maint", Action: "rotate-wait"})
			if l0Flushes++; l0Flushes == 6 {
				out = append(out, Req{Kind: "maint", Action: "compact:l0-to-l0"})
			}
		} else if rng.Intn(100) < 30 {
			out = append(out, Req{Kind: "maint", Action: pickAction(rng)})
		}
		if rng.Intn(100) < 22 {
			if rng.Intn(2) == 0 {
				out = append(out, Req{Kind: "get", Keys: []int{rng.Intn(nKeys)}, ReadTs: readTs()})
			} else {
				out = append(out, Req{Kind: "scan", StartKey: rng.Intn(nKeys+1) - 1, IncludeStart: rng.Intn(2) == 0, Limit: 1 + rng.Intn(nKeys+1), ReadTs: readTs()})
			}
		}
		_ = i
	}
	return txns, out
}

// RuleCommon describes the shared workload of C17/C18/C19.
const RuleCommon = "case = seeded history of 3-6 (thorough: up to 8) transactions over 3-4 keys (prefix-related, 0x00/0xFF, long) with unique start/commit timestamps from a counter (start/commit events interleaved fully at random or mostly sequentially with displaced events), " +
	"each with a fate script (commit; rollback [+late commit]; TTL-expiry check + resolve-rollback + late commit; primary commit + resolve-commit [+rollback]; lock left; rollback before prewrite; check before prewrite; primary expired then commit; min_commit_ts of the primary pushed above the commit version, then a COMMIT naming the secondaries first) " +
	"over PREWRITE put/delete/lock (split or whole), COMMIT (primary first, primary first and then primary + secondaries in one request, or all keys in any order), BATCH_ROLLBACK, RESOLVE_LOCK commit/rollback, CHECK_TXN_STATUS (current_ts at/around lock.ts+ttl, ttl in {0,5,25,400,2^64-4}, caller_start_ts pushes, rollback_if_not_exist), " +
	"scripts interleaved at random, 30% of cases with displaced requests, every request duplicated with p=0.15 at an arbitrary position, 30% of cases re-apply the whole command log, GET/SCAN requests and maintenance actions " +
	"{rotate, rotate+flush, compact l0->base, l0->l0, ingest-drain, ingest-merge, level, vlog rewrite, RunValueLogGC, close/reopen} between requests (p=0.3 per gap; one case in eight flushes after six consecutive requests and then runs the L0->L0 compaction, which needs four L0 tables), applied through raftstore/kv.Apply on a real NoKV.DB under a drawn option set " +
	"(skiplist/ART, value threshold 32/1024, 1/3 vlog buckets, background compaction paused). Reference model written from the property statements: per key a lock, write records, data by start_ts; it follows the responses where the statements leave the outcome open."

// Assumptions shared by C17/C18/C19.
var Assumptions = []string{
	"background compaction is paused (every compaction is an explicit step) so that the recorded same-version tie findings can be told apart from new defects; natural background compaction is not explored here",
	"put values are non-empty (an empty value is indistinguishable from absence in GetResponse)",
	"a COMMIT is required to fail only when the request itself names a rolled-back key (the server cannot know about keys it is not shown)",
	"CHECK_TXN_STATUS is only required not to roll back an unexpired lock; it is never required to roll back an expired one",
	"a refused multi-key RESOLVE_LOCK may have committed the keys before the failing one (key-by-key application); the model learns this from the lock column and then requires the committed value to be readable. A refused COMMIT that committed some of its keys is a C18 violation (the transaction is decided on a key while the client saw a failure); the model still follows the store afterwards",
	"ART-memtable cases avoid prefix-related user keys (ART orders versioned internal keys of prefix-related user keys differently from the comparator; subject of C07, zero-suffix siblings are known finding C01|wrong-read|art-zero-suffix-sibling)",
}
