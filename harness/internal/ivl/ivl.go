// Package ivl is interval arithmetic over byte-string keys with unbounded
// ends, used by the region reference models (C24, C26). A Range is the
// half-open interval [Start, End); an empty Start means "from -infinity", an
// empty End means "to +infinity". It is written from the meaning of a key
// range, not from NoKV's helpers.
package ivl

import (
	"bytes"
	"fmt"
	"sort"
)

// Range is [Start, End) with "" = unbounded on that side.
type Range struct {
	Start []byte
	End   []byte
}

// R builds a Range from strings.
func R(start, end string) Range { return Range{[]byte(start), []byte(end)} }

func (r Range) String() string {
	s, e := fmt.Sprintf("%q", r.Start), fmt.Sprintf("%q", r.End)
	if len(r.Start) == 0 {
		s = "-inf"
	}
	if len(r.End) == 0 {
		e = "+inf"
	}
	return "[" + s + "," + e + ")"
}

// Shape names which sides are unbounded.
func (r Range) Shape() string {
	switch {
	case len(r.Start) == 0 && len(r.End) == 0:
		return "both-unbounded"
	case len(r.Start) == 0:
		return "start-unbounded"
	case len(r.End) == 0:
		return "end-unbounded"
	}
	return "bounded"
}

// IsEmpty reports whether the range contains no key at all.
func (r Range) IsEmpty() bool {
	return len(r.End) > 0 && bytes.Compare(r.Start, r.End) >= 0
}

// Contains reports whether key lies in the range. The empty key is the
// smallest key, so it is contained only by ranges starting at -infinity.
func (r Range) Contains(key []byte) bool {
	if len(r.Start) > 0 && bytes.Compare(key, r.Start) < 0 {
		return false
	}
	if len(r.End) > 0 && bytes.Compare(key, r.End) >= 0 {
		return false
	}
	return true
}

// endLess orders end bounds ("" = +infinity).
func endLess(a, b []byte) bool {
	if len(a) == 0 {
		return false
	}
	if len(b) == 0 {
		return true
	}
	return bytes.Compare(a, b) < 0
}

func minEnd(a, b []byte) []byte {
	if endLess(a, b) {
		return a
	}
	return b
}

func maxEnd(a, b []byte) []byte {
	if endLess(a, b) {
		return b
	}
	return a
}

func maxStart(a, b []byte) []byte {
	if bytes.Compare(a, b) >= 0 {
		return a
	}
	return b
}

// Intersect returns the common part of two ranges (possibly empty).
func Intersect(a, b Range) Range {
	return Range{Start: maxStart(a.Start, b.Start), End: minEnd(a.End, b.End)}
}

// Overlap reports whether two ranges share at least one key.
func Overlap(a, b Range) bool {
	if a.IsEmpty() || b.IsEmpty() {
		return false
	}
	return !Intersect(a, b).IsEmpty()
}

// Set is a normalised union of ranges: sorted, pairwise disjoint,
// non-adjacent, no empty members.
type Set []Range

// Normalize builds the canonical Set covering exactly the union of rs.
func Normalize(rs []Range) Set {
	var in []Range
	for _, r := range rs {
		if !r.IsEmpty() {
			in = append(in, Range{append([]byte(nil), r.Start...), append([]byte(nil), r.End...)})
		}
	}
	sort.Slice(in, func(i, j int) bool { return bytes.Compare(in[i].Start, in[j].Start) < 0 })
	var out Set
	for _, r := range in {
		if n := len(out); n > 0 {
			last := &out[n-1]
			// r.Start >= last.Start; mergeable when r.Start <= last.End
			if len(last.End) == 0 || bytes.Compare(r.Start, last.End) <= 0 {
				last.End = maxEnd(last.End, r.End)
				continue
			}
		}
		out = append(out, r)
	}
	return out
}

// Minus returns s without the keys of r.
func (s Set) Minus(r Range) Set {
	if r.IsEmpty() {
		return s
	}
	var out []Range
	for _, x := range s {
		if !Overlap(x, r) {
			out = append(out, x)
			continue
		}
		// left piece [x.Start, r.Start)
		if len(r.Start) > 0 {
			out = append(out, Range{x.Start, minEnd(x.End, r.Start)})
		}
		// right piece [r.End, x.End)
		if len(r.End) > 0 {
			out = append(out, Range{maxStart(x.Start, r.End), x.End})
		}
	}
	return Normalize(out)
}

// MinusSet returns s without the keys of t.
func (s Set) MinusSet(t Set) Set {
	out := s
	for _, r := range t {
		out = out.Minus(r)
	}
	return out
}

// Equal compares two normalised sets.
func (s Set) Equal(t Set) bool {
	if len(s) != len(t) {
		return false
	}
	for i := range s {
		if !bytes.Equal(s[i].Start, t[i].Start) || !bytes.Equal(s[i].End, t[i].End) {
			return false
		}
	}
	return true
}

func (s Set) String() string {
	if len(s) == 0 {
		return "{}"
	}
	out := ""
	for i, r := range s {
		if i > 0 {
			out += " u "
		}
		out += r.String()
	}
	return out
}
