// Package redisx is the black-box driver shared by the Redis-gateway checks
// (C29, C30, C31): it launches the real nokv-redis binary on ephemeral ports,
// speaks RESP over TCP and reads the binary's expvar endpoint.
//
// Nothing here looks inside the gateway: ports are discovered through /proc,
// replies are parsed by an independent RESP reader.
package redisx

import (
	"bufio"
	"bytes"
	"errors"
	"fmt"
	"io"
	"net"
	"strconv"
	"time"
)

// Reply is one RESP2 reply.
type Reply struct {
	Kind  byte // '+' simple string, '-' error, ':' integer, '$' bulk, '*' array
	Null  bool // "$-1" / "*-1"
	Str   []byte
	Int   int64
	Elems []Reply
}

// Shape is a short description used in signatures and coverage sets.
func (r Reply) Shape() string {
	switch r.Kind {
	case '+':
		return "simple:" + string(r.Str)
	case '-':
		return "err:" + ErrClass(r.Str)
	case ':':
		return "int"
	case '$':
		if r.Null {
			return "nil"
		}
		if len(r.Str) == 0 {
			return "bulk:empty"
		}
		return "bulk"
	case '*':
		if r.Null {
			return "nilarray"
		}
		return "array"
	}
	return "?"
}

func (r Reply) String() string {
	switch r.Kind {
	case '+':
		return "+" + string(r.Str)
	case '-':
		return "-" + string(r.Str)
	case ':':
		return ":" + strconv.FormatInt(r.Int, 10)
	case '$':
		if r.Null {
			return "$nil"
		}
		return "$" + Quote(r.Str)
	case '*':
		if r.Null {
			return "*nil"
		}
		var b bytes.Buffer
		b.WriteString("*[")
		for i, e := range r.Elems {
			if i > 0 {
				b.WriteString(" ")
			}
			b.WriteString(e.String())
		}
		b.WriteString("]")
		return b.String()
	}
	return "?"
}

// Quote renders bytes for replay files (Go-quoted, long values abbreviated).
func Quote(b []byte) string {
	if len(b) > 96 {
		return fmt.Sprintf("%s...(%d bytes)", strconv.Quote(string(b[:64])), len(b))
	}
	return strconv.Quote(string(b))
}

// ErrClass maps an error reply to the classes the property statement names.
// Only the class is compared, never the message text.
func ErrClass(msg []byte) string {
	m := bytes.ToLower(msg)
	has := func(s string) bool { return bytes.Contains(m, []byte(s)) }
	switch {
	case has("wrong number of arguments"):
		return "arity"
	case has("syntax error"):
		return "syntax"
	case has("invalid expire"):
		return "invalid-expire"
	case has("would overflow"):
		return "overflow"
	case has("not an integer"):
		return "not-integer"
	case has("unknown command"):
		return "unknown-command"
	case has("hot key write throttled"):
		return "throttled"
	case has("conflict"):
		return "conflict"
	}
	return "other"
}

// Equal compares two replies by type and payload; error replies by class.
func Equal(a, b Reply) bool {
	if a.Kind != b.Kind || a.Null != b.Null {
		return false
	}
	switch a.Kind {
	case '-':
		return ErrClass(a.Str) == ErrClass(b.Str)
	case '+', '$':
		return bytes.Equal(a.Str, b.Str)
	case ':':
		return a.Int == b.Int
	case '*':
		if len(a.Elems) != len(b.Elems) {
			return false
		}
		for i := range a.Elems {
			if !Equal(a.Elems[i], b.Elems[i]) {
				return false
			}
		}
	}
	return true
}

// Constructors used by the reference models.
func Simple(s string) Reply  { return Reply{Kind: '+', Str: []byte(s)} }
func Err(class string) Reply { return Reply{Kind: '-', Str: []byte(errText[class])} }
func Int(v int64) Reply      { return Reply{Kind: ':', Int: v} }
func Nil() Reply             { return Reply{Kind: '$', Null: true} }
func Bulk(b []byte) Reply {
	return Reply{Kind: '$', Str: append([]byte{}, b...)}
}
func Array(e []Reply) Reply { return Reply{Kind: '*', Elems: e} }

// canonical texts per class (what Redis itself says), only used so that
// ErrClass(Err(c)) == c.
var errText = map[string]string{
	"arity":           "ERR wrong number of arguments for command",
	"syntax":          "ERR syntax error",
	"invalid-expire":  "ERR invalid expire time in 'set' command",
	"overflow":        "ERR increment or decrement would overflow",
	"not-integer":     "ERR value is not an integer or out of range",
	"unknown-command": "ERR unknown command",
}

var errProto = errors.New("malformed RESP reply")

func readLine(br *bufio.Reader) ([]byte, error) {
	line, err := br.ReadBytes('\n')
	if err != nil {
		return nil, err
	}
	if len(line) < 2 || line[len(line)-2] != '\r' {
		return nil, errProto
	}
	return line[:len(line)-2], nil
}

// ReadReply reads one reply.
func ReadReply(br *bufio.Reader) (Reply, error) {
	k, err := br.ReadByte()
	if err != nil {
		return Reply{}, err
	}
	line, err := readLine(br)
	if err != nil {
		return Reply{}, err
	}
	switch k {
	case '+', '-':
		return Reply{Kind: k, Str: append([]byte{}, line...)}, nil
	case ':':
		v, err := strconv.ParseInt(string(line), 10, 64)
		if err != nil {
			return Reply{}, errProto
		}
		return Reply{Kind: ':', Int: v}, nil
	case '$':
		n, err := strconv.ParseInt(string(line), 10, 64)
		if err != nil || n < -1 || n > 1<<30 {
			return Reply{}, errProto
		}
		if n == -1 {
			return Reply{Kind: '$', Null: true}, nil
		}
		buf := make([]byte, n+2)
		if _, err := io.ReadFull(br, buf); err != nil {
			return Reply{}, err
		}
		if buf[n] != '\r' || buf[n+1] != '\n' {
			return Reply{}, errProto
		}
		return Reply{Kind: '$', Str: buf[:n]}, nil
	case '*':
		n, err := strconv.ParseInt(string(line), 10, 64)
		if err != nil || n < -1 || n > 1<<24 {
			return Reply{}, errProto
		}
		if n == -1 {
			return Reply{Kind: '*', Null: true}, nil
		}
		r := Reply{Kind: '*', Elems: make([]Reply, 0, n)}
		for i := int64(0); i < n; i++ {
			e, err := ReadReply(br)
			if err != nil {
				return Reply{}, err
			}
			r.Elems = append(r.Elems, e)
		}
		return r, nil
	}
	return Reply{}, errProto
}

// Encode renders a command as a RESP array of bulk strings.
func Encode(args ...[]byte) []byte {
	var b bytes.Buffer
	b.WriteString("*" + strconv.Itoa(len(args)) + "\r\n")
	for _, a := range args {
		b.WriteString("$" + strconv.Itoa(len(a)) + "\r\n")
		b.Write(a)
		b.WriteString("\r\n")
	}
	return b.Bytes()
}

// Conn is one client connection.
type Conn struct {
	C       net.Conn
	BR      *bufio.Reader
	Timeout time.Duration // watchdog per reply; firing is reported as ErrWatchdog
}

// ErrWatchdog marks a reply that did not arrive within the generous watchdog.
var ErrWatchdog = errors.New("reply watchdog fired")

// Dial connects with a watchdog of the given duration per reply.
func Dial(addr string, watchdog time.Duration) (*Conn, error) {
	c, err := net.DialTimeout("tcp", addr, 10*time.Second)
	if err != nil {
		return nil, err
	}
	if tc, ok := c.(*net.TCPConn); ok {
		_ = tc.SetNoDelay(true)
	}
	return &Conn{C: c, BR: bufio.NewReaderSize(c, 64<<10), Timeout: watchdog}, nil
}

// Close closes the connection.
func (c *Conn) Close() { _ = c.C.Close() }

// Write sends raw bytes.
func (c *Conn) Write(raw []byte) error {
	_ = c.C.SetWriteDeadline(time.Now().Add(c.Timeout))
	_, err := c.C.Write(raw)
	return err
}

// Read reads one reply.
func (c *Conn) Read() (Reply, error) {
	_ = c.C.SetReadDeadline(time.Now().Add(c.Timeout))
	r, err := ReadReply(c.BR)
	if err != nil {
		var ne net.Error
		if errors.As(err, &ne) && ne.Timeout() {
			return r, ErrWatchdog
		}
	}
	return r, err
}

// Do sends one command and reads its reply.
func (c *Conn) Do(args ...[]byte) (Reply, error) {
	if err := c.Write(Encode(args...)); err != nil {
		return Reply{}, err
	}
	return c.Read()
}

// DoS is Do with string arguments.
func (c *Conn) DoS(args ...string) (Reply, error) {
	bs := make([][]byte, len(args))
	for i, a := range args {
		bs[i] = []byte(a)
	}
	return c.Do(bs...)
}

// ExpectClosed reports whether the peer closes the connection (EOF / reset)
// within the watchdog; extra bytes before the close are returned.
func (c *Conn) ExpectClosed() (closed bool, extra []byte, err error) {
	_ = c.C.SetReadDeadline(time.Now().Add(c.Timeout))
	buf := make([]byte, 4096)
	for {
		n, rerr := c.BR.Read(buf)
		extra = append(extra, buf[:n]...)
		if rerr != nil {
			var ne net.Error
			if errors.As(rerr, &ne) && ne.Timeout() {
				return false, extra, ErrWatchdog
			}
			return true, extra, nil
		}
		if len(extra) > 1<<20 {
			return false, extra, nil
		}
	}
}
