package redisx

import (
	"bufio"
	"bytes"
	"encoding/json"
	"errors"
	"fmt"
	"io"
	"net"
	"net/http"
	"os"
	"os/exec"
	"path/filepath"
	"strconv"
	"strings"
	"sync"
	"syscall"
	"time"
	"unsafe"
)

// BinDir is where ./check puts the real binaries.
func BinDir() string {
	if v := os.Getenv("VERIF_BIN_DIR"); v != "" {
		return v
	}
	root := os.Getenv("VERIF_ROOT")
	if root == "" {
		root = "/verif"
	}
	return filepath.Join(root, "bin")
}

// Opts configures one gateway process.
type Opts struct {
	Metrics bool // --metrics-addr on an ephemeral port
	// ASHeadroom > 0: after start-up the process' RLIMIT_AS is set to its
	// current virtual size plus this many bytes ("ulimit -v"), so that a huge
	// reservation fails fast instead of succeeding lazily.
	ASHeadroom uint64
	ExtraArgs  []string // e.g. --raft-config ...
	NoWorkdir  bool     // raft mode: no --workdir
}

// Server is a running nokv-redis process.
type Server struct {
	Cmd         *exec.Cmd
	Addr        string // RESP address
	MetricsAddr string // expvar address ("" without Opts.Metrics)
	LogPath     string

	mu      sync.Mutex
	exited  chan struct{}
	waitErr error
}

// Start launches nokv-redis with the embedded backend on dir (or the extra
// arguments) and returns once its listeners answer.
func Start(dir string, o Opts) (*Server, error) {
	bin := filepath.Join(BinDir(), "nokv-redis")
	if _, err := os.Stat(bin); err != nil {
		return nil, fmt.Errorf("binary missing: %v", err)
	}
	if err := os.MkdirAll(dir, 0o755); err != nil {
		return nil, err
	}
	args := []string{"--addr", "127.0.0.1:0"}
	if !o.NoWorkdir {
		args = append(args, "--workdir", filepath.Join(dir, "db"))
	}
	if o.Metrics {
		args = append(args, "--metrics-addr", "127.0.0.1:0")
	}
	args = append(args, o.ExtraArgs...)
	logPath := filepath.Join(dir, "gateway.log")
	lf, err := os.Create(logPath)
	if err != nil {
		return nil, err
	}
	cmd := exec.Command(bin, args...)
	cmd.Dir = dir
	cmd.Stdout = lf
	cmd.Stderr = lf
	cmd.SysProcAttr = &syscall.SysProcAttr{Pdeathsig: syscall.SIGKILL}
	if err := cmd.Start(); err != nil {
		lf.Close()
		return nil, err
	}
	lf.Close()
	s := &Server{Cmd: cmd, LogPath: logPath, exited: make(chan struct{})}
	go func() {
		err := cmd.Wait()
		s.mu.Lock()
		s.waitErr = err
		s.mu.Unlock()
		close(s.exited)
	}()
	want := 1
	if o.Metrics {
		want = 2
	}
	deadline := time.Now().Add(60 * time.Second)
	for {
		if !s.Alive() {
			return nil, fmt.Errorf("gateway exited during start-up: %v\n%s", s.WaitErr(), s.LogTail(2000))
		}
		ports := listeningPorts(cmd.Process.Pid)
		if len(ports) >= want {
			ok := true
			s.Addr, s.MetricsAddr = "", ""
			for _, p := range ports {
				addr := "127.0.0.1:" + strconv.Itoa(p)
				switch probe(addr) {
				case "resp":
					s.Addr = addr
				case "http":
					s.MetricsAddr = addr
				default:
					ok = false
				}
			}
			if ok && s.Addr != "" && (!o.Metrics || s.MetricsAddr != "") {
				break
			}
		}
		if time.Now().After(deadline) {
			s.Kill()
			return nil, fmt.Errorf("gateway listeners did not come up\n%s", s.LogTail(2000))
		}
		time.Sleep(20 * time.Millisecond)
	}
	if o.ASHeadroom > 0 {
		if vm := vmSize(cmd.Process.Pid); vm > 0 {
			lim := [2]uint64{vm + o.ASHeadroom, vm + o.ASHeadroom}
			const rlimitAS = 9
			_, _, e := syscall.RawSyscall6(syscall.SYS_PRLIMIT64, uintptr(cmd.Process.Pid), rlimitAS, uintptr(unsafe.Pointer(&lim)), 0, 0, 0)
			if e != 0 {
				s.Kill()
				return nil, fmt.Errorf("prlimit: %v", e)
			}
		}
	}
	return s, nil
}

func vmSize(pid int) uint64 {
	b, err := os.ReadFile(fmt.Sprintf("/proc/%d/status", pid))
	if err != nil {
		return 0
	}
	for _, l := range strings.Split(string(b), "\n") {
		if strings.HasPrefix(l, "VmSize:") {
			f := strings.Fields(l)
			if len(f) >= 2 {
				kb, _ := strconv.ParseUint(f[1], 10, 64)
				return kb << 10
			}
		}
	}
	return 0
}

// listeningPorts returns the TCP ports on which the process itself listens
// (socket inodes of /proc/pid/fd matched against /proc/pid/net/tcp).
func listeningPorts(pid int) []int {
	fdDir := fmt.Sprintf("/proc/%d/fd", pid)
	ents, err := os.ReadDir(fdDir)
	if err != nil {
		return nil
	}
	inodes := map[string]bool{}
	for _, e := range ents {
		l, err := os.Readlink(filepath.Join(fdDir, e.Name()))
		if err == nil && strings.HasPrefix(l, "socket:[") {
			inodes[strings.TrimSuffix(strings.TrimPrefix(l, "socket:["), "]")] = true
		}
	}
	var ports []int
	for _, f := range []string{"tcp", "tcp6"} {
		b, err := os.ReadFile(fmt.Sprintf("/proc/%d/net/%s", pid, f))
		if err != nil {
			continue
		}
		for _, line := range strings.Split(string(b), "\n")[1:] {
			fs := strings.Fields(line)
			if len(fs) < 10 || fs[3] != "0A" || !inodes[fs[9]] {
				continue
			}
			i := strings.LastIndex(fs[1], ":")
			p, err := strconv.ParseInt(fs[1][i+1:], 16, 32)
			if err == nil {
				ports = append(ports, int(p))
			}
		}
	}
	return ports
}

// probe tells a RESP listener from an HTTP one.
func probe(addr string) string {
	c, err := net.DialTimeout("tcp", addr, 2*time.Second)
	if err != nil {
		return ""
	}
	defer c.Close()
	_ = c.SetDeadline(time.Now().Add(5 * time.Second))
	if _, err := c.Write([]byte("PING\r\n")); err != nil {
		return ""
	}
	buf := make([]byte, 16)
	n, _ := io.ReadAtLeast(c, buf, 5)
	switch {
	case bytes.HasPrefix(buf[:n], []byte("+PONG")):
		return "resp"
	case bytes.HasPrefix(buf[:n], []byte("HTTP/")):
		return "http"
	}
	return ""
}

// Alive reports whether the process is still running.
func (s *Server) Alive() bool {
	select {
	case <-s.exited:
		return false
	default:
		return true
	}
}

// WaitExit waits up to d for the process to exit.
func (s *Server) WaitExit(d time.Duration) bool {
	select {
	case <-s.exited:
		return true
	case <-time.After(d):
		return false
	}
}

// WaitErr is the exit status once the process has exited.
func (s *Server) WaitErr() error {
	s.mu.Lock()
	defer s.mu.Unlock()
	return s.waitErr
}

// Kill terminates the process immediately.
func (s *Server) Kill() {
	if s.Alive() {
		_ = s.Cmd.Process.Kill()
		<-s.exited
	}
}

// Stop asks for a clean shutdown (SIGTERM) and kills after a grace period.
func (s *Server) Stop() {
	if !s.Alive() {
		return
	}
	_ = s.Cmd.Process.Signal(syscall.SIGTERM)
	if !s.WaitExit(15 * time.Second) {
		s.Kill()
	}
}

// LogTail returns the head and tail of the gateway's combined output.
func (s *Server) LogTail(max int) string {
	b, err := os.ReadFile(s.LogPath)
	if err != nil {
		return ""
	}
	if len(b) > max {
		return string(b[:max/2]) + "\n...\n" + string(b[len(b)-max/2:])
	}
	return string(b)
}

// DeathClass summarises why the process died from its output
// ("panic: ..." / "fatal error: ..." first line, digits stripped).
func (s *Server) DeathClass() string {
	b, _ := os.ReadFile(s.LogPath)
	sc := bufio.NewScanner(bytes.NewReader(b))
	sc.Buffer(make([]byte, 1<<20), 16<<20)
	for sc.Scan() {
		l := strings.TrimSpace(sc.Text())
		if strings.HasPrefix(l, "panic:") || strings.HasPrefix(l, "fatal error:") {
			switch {
			case strings.Contains(l, "makeslice"):
				return "panic-makeslice-out-of-range"
			case strings.Contains(l, "out of memory") || strings.Contains(l, "cannot allocate memory"):
				return "fatal-out-of-memory"
			}
			l = strings.Map(func(r rune) rune {
				if r >= '0' && r <= '9' {
					return -1
				}
				return r
			}, l)
			if i := strings.Index(l, "/"); i > 0 {
				l = l[:i]
			}
			if len(l) > 60 {
				l = l[:60]
			}
			return strings.TrimSpace(l)
		}
	}
	return "exit-without-panic-line"
}

// MemStats is the part of expvar's "memstats" the allocation monitor uses.
type MemStats struct {
	TotalAlloc uint64
	Sys        uint64
	HeapAlloc  uint64
	Mallocs    uint64
}

var httpc = &http.Client{Timeout: 30 * time.Second}

// ReadMemStats fetches /debug/vars and extracts memstats.
func (s *Server) ReadMemStats() (MemStats, error) {
	if s.MetricsAddr == "" {
		return MemStats{}, errors.New("metrics endpoint not enabled")
	}
	resp, err := httpc.Get("http://" + s.MetricsAddr + "/debug/vars")
	if err != nil {
		return MemStats{}, err
	}
	defer resp.Body.Close()
	var v struct {
		Memstats MemStats `json:"memstats"`
	}
	if err := json.NewDecoder(resp.Body).Decode(&v); err != nil {
		return MemStats{}, err
	}
	if v.Memstats.Sys == 0 {
		return MemStats{}, errors.New("memstats missing from /debug/vars")
	}
	return v.Memstats, nil
}
