// Package dbx holds the shared pieces of the sequential differential engine
// (E-seq): option sets, guarded open/close, maintenance actions and the key /
// value pools used by the checks.
package dbx

import (
	"errors"
	"fmt"
	"math/rand"
	"strings"
	"sync"
	"time"

	NoKV "github.com/feichai0017/NoKV"
	"github.com/feichai0017/NoKV/kv"
	"github.com/feichai0017/NoKV/utils"
)

// Config is one drawn option set.
type Config struct {
	Engine          string `json:"engine"`
	ValueThreshold  int64  `json:"value_threshold"`
	Buckets         int    `json:"buckets"`
	VlogFileSize    int    `json:"vlog_file_size"`
	HotRing         bool   `json:"hot_ring"`
	ManifestRewrite int64  `json:"manifest_rewrite"`
	Controlled      bool   `json:"controlled"` // background compaction paused (H3)
	MemTableSize    int64  `json:"memtable_size"`
	DetectConflicts bool   `json:"detect_conflicts"`
	SyncWrites      bool   `json:"sync_writes"`
	L0Tables        int    `json:"l0_tables"`
}

// RandomConfig draws a configuration.
func RandomConfig(rng *rand.Rand) Config {
	c := Config{
		Engine:          []string{"skiplist", "art"}[rng.Intn(2)],
		ValueThreshold:  []int64{32, 1024}[rng.Intn(2)],
		Buckets:         []int{1, 3}[rng.Intn(2)],
		VlogFileSize:    []int{16 << 10, 1 << 20}[rng.Intn(2)],
		HotRing:         rng.Intn(3) == 0,
		ManifestRewrite: []int64{512, 64 << 20}[rng.Intn(2)],
		Controlled:      rng.Intn(4) != 0,
		MemTableSize:    1 << 20,
		L0Tables:        1000,
	}
	if !c.Controlled {
		c.MemTableSize = 8 << 10
		c.L0Tables = 2
	}
	return c
}

// Options builds NoKV options for a directory.
func (c Config) Options(dir string) *NoKV.Options {
	o := NoKV.NewDefaultOptions()
	o.WorkDir = dir
	o.MemTableSize = c.MemTableSize
	o.MemTableEngine = NoKV.MemTableEngine(c.Engine)
	o.SSTableMaxSz = 1 << 20
	o.ValueThreshold = c.ValueThreshold
	o.ValueLogFileSize = c.VlogFileSize
	o.ValueLogBucketCount = c.Buckets
	o.ValueLogHotBucketCount = 0
	if c.Buckets > 1 && c.HotRing {
		// hot/cold value-log routing: a key moves from a cold bucket to the hot
		// bucket after its third write, so overwrites cross buckets within a case
		o.ValueLogHotBucketCount = 1
		o.ValueLogHotKeyThreshold = 3
	}
	o.HotRingEnabled = c.HotRing
	o.WriteHotKeyLimit = 0
	o.ManifestRewriteThreshold = c.ManifestRewrite
	o.NumLevelZeroTables = c.L0Tables
	o.NumCompactors = 2
	o.ValueLogGCInterval = 0
	o.EnableWALWatchdog = false
	o.DetectConflicts = c.DetectConflicts
	o.SyncWrites = c.SyncWrites
	o.WriteBatchWait = 0
	o.BlockCacheSize = 64
	o.BloomCacheSize = 64
	return o
}

var openMu sync.Mutex

// Open opens a DB, converting the engine's panic-on-failure into an error.
func Open(o *NoKV.Options) (db *NoKV.DB, err error) {
	defer func() {
		if r := recover(); r != nil {
			err = fmt.Errorf("open panicked: %v", r)
			db = nil
		}
	}()
	db = NoKV.Open(o)
	return db, nil
}

// OpenCfg opens with a Config and applies the controlled-compaction switch.
func OpenCfg(c Config, dir string) (*NoKV.DB, error) {
	db, err := Open(c.Options(dir))
	if err != nil {
		return nil, err
	}
	if c.Controlled {
		db.VerifLSM().VerifSetCompactionPaused(true)
	}
	return db, nil
}

// Actions that E-seq can place between client operations.
var Actions = []string{"rotate", "rotate-wait", "compact:l0", "compact:l0-to-l0", "compact:ingest-drain", "compact:ingest-merge", "compact:level", "gc", "gc-public", "reopen"}

// ActionResult says what an action did.
type ActionResult struct {
	Effect bool
	Err    error
	Note   string
}

func layoutKey(db *NoKV.DB) string {
	l := db.VerifLSM().VerifLayout()
	var sb strings.Builder
	fmt.Fprintf(&sb, "imm%d|", l.Immutables)
	for _, t := range l.Tables {
		fmt.Fprintf(&sb, "%d:%d:%v,", t.Level, t.Fid, t.Ingest)
	}
	return sb.String()
}

// LayoutShape summarises the tree as "L0:n L6i:n L6:n" (tables per level).
func LayoutShape(db *NoKV.DB) string {
	l := db.VerifLSM().VerifLayout()
	cnt := map[string]int{}
	for _, t := range l.Tables {
		k := fmt.Sprintf("L%d", t.Level)
		if t.Ingest {
			k += "i"
		}
		cnt[k]++
	}
	var parts []string
	for lvl := 0; lvl < 8; lvl++ {
		for _, suf := range []string{"", "i"} {
			k := fmt.Sprintf("L%d%s", lvl, suf)
			if n := cnt[k]; n > 0 {
				parts = append(parts, fmt.Sprintf("%s:%d", k, n))
			}
		}
	}
	if l.Immutables > 0 {
		parts = append(parts, fmt.Sprintf("imm:%d", l.Immutables))
	}
	return strings.Join(parts, " ")
}

// DoAction runs one maintenance action (everything but "reopen", which the
// caller performs because it replaces the handle).
func DoAction(db *NoKV.DB, action string) ActionResult {
	l := db.VerifLSM()
	before := layoutKey(db)
	res := ActionResult{}
	switch {
	case action == "rotate":
		l.Rotate()
		res.Effect = true
	case action == "rotate-wait":
		l.Rotate()
		if !l.VerifWaitFlush(30 * time.Second) {
			res.Err = errors.New("flush did not finish within 30s")
		}
		res.Effect = true
	case strings.HasPrefix(action, "compact:"):
		kind := strings.TrimPrefix(action, "compact:")
		if !l.VerifWaitFlush(30 * time.Second) {
			res.Err = errors.New("flush did not finish within 30s")
			return res
		}
		lay := l.VerifLayout()
		level := 0
		switch kind {
		case "l0-to-l0":
			l.VerifBackdateL0(time.Minute)
		case "ingest-drain", "ingest-merge":
			level = -1
			for _, t := range lay.Tables {
				if t.Ingest {
					level = t.Level
					break
				}
			}
			if level < 0 {
				res.Note = "no ingest tables"
				return res
			}
		case "level":
			level = -1
			for _, t := range lay.Tables {
				if !t.Ingest && t.Level > 0 {
					if level < 0 || t.Level < level {
						level = t.Level
					}
				}
			}
			if level < 0 {
				res.Note = "no level tables"
				return res
			}
		}
		err := l.VerifCompact(kind, level)
		if err != nil && !errors.Is(err, utils.ErrFillTables) {
			res.Err = err
		}
		res.Effect = layoutKey(db) != before
	case action == "gc":
		for _, f := range db.VerifVlogFiles() {
			if f.Active {
				continue
			}
			if err := db.VerifRewriteVlog(f.Bucket, f.Fid); err != nil && !errors.Is(err, utils.ErrNoRewrite) {
				res.Err = err
				return res
			}
			res.Effect = true
		}
	case action == "gc-public":
		err := db.RunValueLogGC(0.01)
		if err == nil {
			res.Effect = true
		} else if !errors.Is(err, utils.ErrNoRewrite) && !errors.Is(err, utils.ErrRejected) {
			res.Err = err
		}
	default:
		res.Err = fmt.Errorf("unknown action %q", action)
	}
	return res
}

// KeyPool returns a pool of user keys that always contains byte-prefix pairs,
// 0x00/0xFF keys and one long key.
func KeyPool(rng *rand.Rand, n int) [][]byte {
	base := [][]byte{
		[]byte("a"), []byte("a\x00"), []byte("ab"), []byte("a\xff"), []byte("b"),
		[]byte("\x00"), []byte("\xff\xff"), []byte("k\x00\x01"), []byte("key-07"), []byte("key-070"),
		[]byte(strings.Repeat("L", 180)), []byte("zz"), []byte("\xffCF"), []byte("m\xffm"), []byte("q"), []byte("qq"),
	}
	rng.Shuffle(len(base), func(i, j int) { base[i], base[j] = base[j], base[i] })
	if n > len(base) {
		n = len(base)
	}
	return base[:n]
}

// CFs are the three column families.
var CFs = []kv.ColumnFamily{kv.CFDefault, kv.CFLock, kv.CFWrite}

// Value builds a value of the given size embedding a unique id.
func Value(id string, size int) []byte {
	if size <= 0 {
		return []byte{}
	}
	b := make([]byte, size)
	for i := range b {
		b[i] = id[i%len(id)]
	}
	copy(b, id)
	return b
}

// ValueSizes returns the sizes around a threshold.
func ValueSizes(thr int64) []int {
	t := int(thr)
	return []int{1, 5, t - 1, t, t + 1, 4 << 10, 40 << 10}
}

// ---------------------------------------------------------------------------
// Env: one real database plus the bookkeeping shared by the E-seq checks.

// OpRec is one line of a case trace (kept for replay files and samples).
type OpRec struct {
	Op     string `json:"op"`
	CF     string `json:"cf,omitempty"`
	Key    string `json:"key,omitempty"`
	Ver    uint64 `json:"ver,omitempty"`
	Size   int    `json:"size,omitempty"`
	Result string `json:"result,omitempty"`
}

// Env wraps a DB under test.
type Env struct {
	Cfg   Config
	Dir   string
	DB    *NoKV.DB
	Prov  map[uint64]string // table fid -> how it was created ("flush", "c-<kind>", "bg")
	Trace []OpRec
	Count func(name string, n int)
}

// NewEnv opens a fresh database.
func NewEnv(cfg Config, dir string, count func(string, int)) (*Env, error) {
	db, err := OpenCfg(cfg, dir)
	if err != nil {
		return nil, err
	}
	if count == nil {
		count = func(string, int) {}
	}
	return &Env{Cfg: cfg, Dir: dir, DB: db, Prov: map[uint64]string{}, Count: count}, nil
}

// Close closes the database if open.
func (e *Env) Close() error {
	if e.DB == nil {
		return nil
	}
	err := e.DB.Close()
	e.DB = nil
	return err
}

// NoteLayout tags table file ids not seen before.
func (e *Env) NoteLayout(tag string) {
	if e.DB == nil {
		return
	}
	if !e.Cfg.Controlled {
		tag = "bg"
	}
	for _, t := range e.DB.VerifLSM().VerifLayout().Tables {
		if _, ok := e.Prov[t.Fid]; !ok {
			e.Prov[t.Fid] = tag
		}
	}
}

// Action runs a maintenance action (including "reopen") and records it.
func (e *Env) Action(action string) ActionResult {
	if e.DB != nil && strings.HasPrefix(action, "compact:") {
		e.DB.VerifLSM().VerifWaitFlush(30 * time.Second)
	}
	e.NoteLayout("flush")
	rec := OpRec{Op: action}
	var res ActionResult
	if action == "reopen" {
		if err := e.DB.Close(); err != nil {
			e.DB = nil
			res.Err = fmt.Errorf("close: %w", err)
		} else {
			db, err := OpenCfg(e.Cfg, e.Dir)
			if err != nil {
				e.DB = nil
				res.Err = fmt.Errorf("reopen: %w", err)
			} else {
				e.DB = db
				res.Effect = true
			}
		}
	} else {
		res = DoAction(e.DB, action)
	}
	switch {
	case res.Err != nil:
		rec.Result = "error: " + res.Err.Error()
	case res.Effect:
		rec.Result = "effect"
		e.Count("action."+action, 1)
	default:
		rec.Result = "no-effect " + res.Note
	}
	e.Trace = append(e.Trace, rec)
	tag := "flush"
	if strings.HasPrefix(action, "compact:") {
		tag = "c-" + strings.TrimPrefix(action, "compact:")
	}
	e.NoteLayout(tag)
	return res
}

// Tag renders a source as "kind:provenance" (memtables have no provenance).
func (e *Env) Tag(s NoKV.VerifKeySource) string {
	switch s.Kind {
	case "mem", "imm":
		return s.Kind
	}
	p := e.Prov[s.Fid]
	if p == "" {
		p = "?"
	}
	return s.Kind + ":" + p
}

// Summary renders sources as "mem+l0:flushx2+ingest:flush".
func (e *Env) Summary(src []NoKV.VerifKeySource) string {
	cnt := map[string]int{}
	var order []string
	for _, s := range src {
		k := e.Tag(s)
		if cnt[k] == 0 {
			order = append(order, k)
		}
		cnt[k]++
	}
	var parts []string
	for _, k := range order {
		if cnt[k] > 1 {
			parts = append(parts, k+"x2")
		} else {
			parts = append(parts, k)
		}
	}
	return strings.Join(parts, "+")
}

// HasPrefixSibling reports whether key has a byte-prefix-related sibling in keys.
func HasPrefixSibling(key []byte, keys [][]byte) bool {
	for _, o := range keys {
		if len(o) == len(key) {
			continue
		}
		a, b := key, o
		if len(a) > len(b) {
			a, b = b, a
		}
		if string(b[:len(a)]) == string(a) {
			return true
		}
	}
	return false
}

// HasZeroSuffixSibling reports whether keys contains another key that equals
// key plus trailing 0x00 bytes, or of which key is such an extension.
func HasZeroSuffixSibling(key []byte, keys [][]byte) bool {
	for _, o := range keys {
		if len(o) == len(key) {
			continue
		}
		a, b := key, o
		if len(a) > len(b) {
			a, b = b, a
		}
		if string(b[:len(a)]) != string(a) {
			continue
		}
		zero := true
		for _, x := range b[len(a):] {
			if x != 0 {
				zero = false
			}
		}
		if zero {
			return true
		}
	}
	return false
}

// SourceClass reduces a tagged source to the class used in violation
// signatures: mem, imm, l0f (L0 table produced by a flush), l0c (L0 table
// produced by a compaction), deep (ingest buffer or level >= 1).
func (e *Env) SourceClass(s NoKV.VerifKeySource) string {
	switch s.Kind {
	case "mem", "imm":
		return s.Kind
	case "l0":
		if strings.HasPrefix(e.Prov[s.Fid], "c-") {
			return "l0c"
		}
		return "l0f"
	}
	return "deep"
}
