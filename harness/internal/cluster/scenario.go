package cluster

import (
	"fmt"
	myraft "github.com/feichai0017/NoKV/raft"
	"math"
	"math/rand"
	"os"
	"sort"
	"strings"
	"sync"
	"sync/atomic"
	"time"

	"github.com/feichai0017/NoKV/pb"
	"verif/harness/internal/dbx"
)

// Op is one client call with its call/return events (logical clock).
type Op struct {
	ID       int    `json:"id"`
	Client   int    `json:"client"`
	Kind     string `json:"kind"` // write | read
	Region   uint64 `json:"region"`
	Key      string `json:"key"`
	Marker   string `json:"marker,omitempty"` // writes: the unique value
	Store    int    `json:"store"`            // store index the call was addressed to
	Inc      int    `json:"incarnation"`
	Isolated bool   `json:"target_isolated,omitempty"` // every link of the target store was cut when the call started
	Call     int64  `json:"call"`
	Ret      int64  `json:"ret"`
	Outcome  string `json:"outcome"` // ok | failed | not_leader | epoch | error | down | locked | anomalous
	Value    string `json:"value,omitempty"`
	Absent   bool   `json:"absent,omitempty"`
	ErrText  string `json:"err,omitempty"`
	// RequestID the store stamped into the header of the client's request.
	RequestID uint64              `json:"request_id,omitempty"`
	Resp      *pb.RaftCmdResponse `json:"-"`
}

// FaultEvent is one executed step of the fault script.
type FaultEvent struct {
	AtOps  int64  `json:"at_ops"`
	Action string `json:"action"`
	Note   string `json:"note,omitempty"`
}

// Step is one planned step of the fault script.
type Step struct {
	AfterOps int     `json:"after_ops"` // fires when this many client ops have completed (or on stall)
	Action   string  `json:"action"`
	Region   int     `json:"region,omitempty"` // index into the region list
	Store    int     `json:"store,omitempty"`
	Drop     float64 `json:"drop,omitempty"`
	Dup      float64 `json:"dup,omitempty"`
	Delay    int     `json:"delay,omitempty"`
}

// Plan is a whole generated scenario.
type Plan struct {
	Regions      int    `json:"regions"`
	Clients      int    `json:"clients"`
	OpsPerClient int    `json:"ops_per_client"`
	KeysPerReg   int    `json:"keys_per_region"`
	WritePct     int    `json:"write_pct"`
	StrayPct     int    `json:"stray_pct"` // calls addressed to a random store instead of the believed leader
	SplitLeaders bool   `json:"split_leaders"`
	Engine       string `json:"engine"`
	Flavor       string `json:"flavor,omitempty"`
	MinAnswered  int    `json:"min_answered_proposals"` // clients keep going (calm network, bounded) until this many proposals were answered
	Steps        []Step `json:"steps"`
}

// Trace is everything observed in one scenario run.
type Trace struct {
	Plan      Plan                     `json:"plan"`
	Ops       []Op                     `json:"-"`
	Seqs      map[SeqKey][]*AppliedRec `json:"-"`
	Faults    []FaultEvent             `json:"faults"`
	CaughtUp  bool                     `json:"caught_up"`
	Leaders   map[uint64][]int         `json:"leaders"` // per region: sequence of distinct observed leaders
	Net       NetStats                 `json:"net"`
	Cluster   *Cluster                 `json:"-"`
	StartErr  string                   `json:"start_err,omitempty"`
	Restarts  int                      `json:"restarts"`
	WallMs    int64                    `json:"wall_ms"`
	StallHits int                      `json:"stall_hits"`
	Splits    int                      `json:"splits,omitempty"` // split commands proposed
	// Probes: outcome quadruples (write at old leader / read at new leader / write at new
	// leader / read at cut-off old leader) of the executed stale-read probes.
	Probes []string `json:"probes,omitempty"`
	// ProbeBacklogs: probes whose read at the fresh leader was issued while that store had
	// applied fewer write commands than the cut-off leader had.
	ProbeBacklogs int `json:"probe_backlogs,omitempty"`
	// ProbeReadsServedBehind: probe reads answered OK by the fresh leader while it had applied
	// fewer write commands than the cut-off leader had when it was cut off.
	ProbeReadsServedBehind int `json:"probe_reads_served_behind,omitempty"`
}

// FlavorOf assigns the targeted "dup-transfer" pattern to every fifth case.
func FlavorOf(caseIdx int) string {
	if caseIdx%5 == 4 {
		return "dup-transfer"
	}
	if caseIdx%5 == 2 {
		return "stale-leader-read"
	}
	if caseIdx%10 == 3 {
		return "split-under-lag"
	}
	return ""
}

// GenPlan draws a scenario from the PRNG.
func GenPlan(rng *rand.Rand, thorough bool, flavor string) Plan {
	p := Plan{Regions: 1 + rng.Intn(2), Clients: 6, KeysPerReg: 2, WritePct: 55 + rng.Intn(30), StrayPct: 15 + rng.Intn(25), Engine: []string{"skiplist", "art"}[rng.Intn(2)]}
	p.OpsPerClient = 22 + rng.Intn(8)
	p.MinAnswered = 30
	if thorough {
		p.OpsPerClient = 30 + rng.Intn(30)
	}
	p.SplitLeaders = p.Regions == 2 && rng.Intn(4) != 0
	total := p.Clients * p.OpsPerClient
	if flavor == "dup-transfer" {
		// targeted pattern: every message may be duplicated while leadership
		// is handed back and forth under load (a leader that steps down between
		// accepting a proposal and handing it to raft forwards it over the
		// duplicating network).
		p.Flavor = flavor
		p.StrayPct = 5
		p.WritePct = 90
		p.Steps = append(p.Steps, Step{AfterOps: 1, Action: "net-faults", Dup: 0.5, Delay: 2})
		for at := 3 + rng.Intn(4); at < total-4; at += 3 + rng.Intn(6) {
			p.Steps = append(p.Steps, Step{AfterOps: at, Action: "transfer-leader", Region: rng.Intn(p.Regions), Store: rng.Intn(3)})
		}
		return p
	}
	if flavor == "split-under-lag" {
		// targeted pattern: a follower is cut off, writes go on, the region is split through its
		// raft log (epoch change), more writes, then the follower is healed and catches up with
		// writes and the split in one go. No restarts: a restarted store is re-created from the
		// harness's static region table.
		p.Flavor = flavor
		p.StrayPct = 10
		p.WritePct = 80
		at := 4 + rng.Intn(6)
		p.Steps = append(p.Steps, Step{AfterOps: at, Action: "isolate-follower", Region: 0})
		at += 4 + rng.Intn(6)
		p.Steps = append(p.Steps, Step{AfterOps: at, Action: "split", Region: 0})
		at += 4 + rng.Intn(8)
		p.Steps = append(p.Steps, Step{AfterOps: at, Action: "heal"})
		if p.Regions == 2 {
			at += 10 + rng.Intn(10)
			p.Steps = append(p.Steps, Step{AfterOps: at, Action: "isolate-follower", Region: 1})
			at += 4 + rng.Intn(6)
			p.Steps = append(p.Steps, Step{AfterOps: at, Action: "split", Region: 1})
			at += 4 + rng.Intn(8)
			p.Steps = append(p.Steps, Step{AfterOps: at, Action: "heal"})
		}
		for at += 10; at < total-6; at += 12 + rng.Intn(12) {
			p.Steps = append(p.Steps, Step{AfterOps: at, Action: "transfer-leader", Region: rng.Intn(p.Regions), Store: rng.Intn(3)})
		}
		return p
	}
	if flavor == "stale-leader-read" {
		// targeted pattern: the leader is isolated again and again while half of
		// all calls go to a random store, so the isolated ex-leader keeps receiving
		// reads while the majority side elects a new leader and acknowledges
		// writes; leadership also moves by transfer so that freshly elected
		// leaders serve reads while they still apply their backlog.
		p.Flavor = flavor
		p.StrayPct = 55
		p.WritePct = 50
		at := 3 + rng.Intn(4)
		for at < total-6 {
			// two partitions in three carry the probe (see the "stale-read-probe" action)
			act := "stale-read-probe"
			if rng.Intn(3) == 0 {
				act = "partition-leader"
			}
			p.Steps = append(p.Steps, Step{AfterOps: at, Action: act, Region: rng.Intn(p.Regions), Store: rng.Intn(p.KeysPerReg)})
			at += 10 + rng.Intn(10)
			p.Steps = append(p.Steps, Step{AfterOps: at, Action: "heal"})
			at += 3 + rng.Intn(5)
			if rng.Intn(2) == 0 {
				p.Steps = append(p.Steps, Step{AfterOps: at, Action: "transfer-leader", Region: rng.Intn(p.Regions), Store: rng.Intn(3)})
				at += 3 + rng.Intn(5)
			}
		}
		return p
	}
	// fault script: the first fault comes early (while the first leader's
	// first proposals are still in flight), then a fault every 8..30 ops.
	at := 2 + rng.Intn(18)
	partitioned := false
	for at < total-6 {
		s := Step{AfterOps: at, Region: rng.Intn(p.Regions), Store: rng.Intn(3)}
		switch r := rng.Intn(100); {
		case partitioned && r < 55:
			s.Action = "heal"
			partitioned = false
		case r < 30:
			s.Action = "partition-leader"
			partitioned = true
		case r < 50:
			s.Action = "transfer-leader"
		case r < 62:
			s.Action = "restart"
		case r < 72:
			s.Action = "isolate-store"
			partitioned = true
		case r < 80:
			s.Action = "cut-oneway"
			partitioned = true
		case r < 92:
			s.Action = "net-faults"
			s.Drop = []float64{0, 0.05, 0.15, 0.3}[rng.Intn(4)]
			s.Dup = []float64{0, 0.1, 0.3}[rng.Intn(3)]
			s.Delay = []int{0, 2, 6, 15}[rng.Intn(4)]
		default:
			s.Action = "net-calm"
		}
		p.Steps = append(p.Steps, s)
		at += 6 + rng.Intn(26)
	}
	return p
}

// RegionSpecs returns the region layout of a plan.
func (p Plan) RegionSpecs() []RegionSpec {
	if p.Regions == 1 {
		return []RegionSpec{{ID: 1}}
	}
	return []RegionSpec{{ID: 1, End: []byte("m")}, {ID: 2, Start: []byte("m")}}
}

func keyOf(region uint64, i int) string {
	if region == 1 {
		return fmt.Sprintf("a-key-%d", i)
	}
	return fmt.Sprintf("z-key-%d", i)
}

// WriteRequest builds the harness write command: PREWRITE + COMMIT of one key
// with a unique value (the marker).
func WriteRequest(region uint64, key, marker string, startTs uint64) *pb.RaftCmdRequest {
	return &pb.RaftCmdRequest{
		Header: &pb.CmdHeader{RegionId: region, RegionEpoch: Epoch()},
		Requests: []*pb.Request{
			{CmdType: pb.CmdType_CMD_PREWRITE, Cmd: &pb.Request_Prewrite{Prewrite: &pb.PrewriteRequest{
				Mutations:   []*pb.Mutation{{Op: pb.Mutation_Put, Key: []byte(key), Value: []byte(marker)}},
				PrimaryLock: []byte(key), StartVersion: startTs, LockTtl: 3000}}},
			{CmdType: pb.CmdType_CMD_COMMIT, Cmd: &pb.Request_Commit{Commit: &pb.CommitRequest{
				Keys: [][]byte{[]byte(key)}, StartVersion: startTs, CommitVersion: startTs + 1}}},
		},
	}
}

// ReadRequest builds the harness read command (GET of the newest version).
func ReadRequest(region uint64, key string) *pb.RaftCmdRequest {
	return &pb.RaftCmdRequest{
		Header:   &pb.CmdHeader{RegionId: region, RegionEpoch: Epoch()},
		Requests: []*pb.Request{{CmdType: pb.CmdType_CMD_GET, Cmd: &pb.Request_Get{Get: &pb.GetRequest{Key: []byte(key), Version: math.MaxUint64}}}},
	}
}

// classifyEnvelope handles the outcomes common to reads and proposals.
func classifyEnvelope(r CallResult) (string, string, bool) {
	switch {
	case r.Down:
		return "down", "", true
	case r.Err != nil:
		return "error", r.Err.Error(), true
	case r.Resp == nil:
		return "anomalous", "nil response and nil error", true
	case r.Resp.GetRegionError() != nil:
		if r.Resp.GetRegionError().GetNotLeader() != nil {
			return "not_leader", "", true
		}
		if r.Resp.GetRegionError().GetEpochNotMatch() != nil {
			return "epoch", "", true
		}
		return "anomalous", "region error without kind", true
	}
	return "", "", false
}

// classifyWrite turns a ProposeCommand result into an outcome.
func classifyWrite(r CallResult) (string, string) {
	if o, e, done := classifyEnvelope(r); done {
		return o, e
	}
	rs := r.Resp.GetResponses()
	if len(rs) != 2 || rs[0].GetPrewrite() == nil || rs[1].GetCommit() == nil {
		return "anomalous", fmt.Sprintf("write response shape: %d responses", len(rs))
	}
	if len(rs[0].GetPrewrite().GetErrors()) > 0 {
		return "failed", fmt.Sprint(rs[0].GetPrewrite().GetErrors()[0])
	}
	if rs[1].GetCommit().GetError() != nil {
		return "failed", "commit: " + fmt.Sprint(rs[1].GetCommit().GetError())
	}
	return "ok", ""
}

// classifyRead turns a ReadCommand result into an outcome (+ value / absent).
func classifyRead(r CallResult) (outcome, errText, value string, absent bool) {
	if o, e, done := classifyEnvelope(r); done {
		return o, e, "", false
	}
	rs := r.Resp.GetResponses()
	if len(rs) != 1 || rs[0].GetGet() == nil {
		return "anomalous", fmt.Sprintf("read response shape: %d responses", len(rs)), "", false
	}
	g := rs[0].GetGet()
	switch {
	case g.GetError() != nil:
		return "locked", fmt.Sprint(g.GetError()), "", false
	case g.GetNotFound():
		return "ok", "", "", true
	}
	return "ok", "", string(g.GetValue()), false
}

// Run executes a plan and returns the trace. The cluster stays open (the
// caller closes Trace.Cluster) so response pointers can be resolved.
func Run(plan Plan, dir string, rng *rand.Rand, caughtUpWatchdog time.Duration) *Trace {
	start := time.Now()
	tr := &Trace{Plan: plan, Leaders: map[uint64][]int{}}
	netRng := rand.New(rand.NewSource(rng.Int63()))
	cfg := dbx.Config{Engine: plan.Engine, ValueThreshold: 1024, Buckets: 1, VlogFileSize: 1 << 20, ManifestRewrite: 64 << 20, Controlled: true, MemTableSize: 4 << 20, L0Tables: 1000}
	opts := Options{Dir: dir, Stores: 3, Regions: plan.RegionSpecs(), Rng: netRng, CommandTimeout: 2 * time.Second, DB: cfg}
	if plan.Flavor == "stale-leader-read" {
		// committed entries are handed to the apply loop one per Ready, so a fresh leader drains
		// its backlog over several Readys
		opts.MaxSizePerMsg = 64
	}
	cl, err := New(opts)
	if err != nil {
		tr.StartErr = err.Error()
		return tr
	}
	tr.Cluster = cl
	regions := plan.RegionSpecs()
	dbg := func(what string) {
		if os.Getenv("CLUSTER_DEBUG") != "" {
			fmt.Fprintf(os.Stderr, "[cluster %6dms] %s\n", time.Since(start).Milliseconds(), what)
		}
	}
	dbg("started")

	// wait for first leaders (steering only)
	waitLeader := func(region uint64, d time.Duration) (int, bool) {
		dl := time.Now().Add(d)
		for time.Now().Before(dl) {
			if l, _, ok := cl.Leader(region); ok {
				return l, true
			}
			time.Sleep(2 * time.Millisecond)
		}
		return 0, false
	}
	for _, r := range regions {
		waitLeader(r.ID, 5*time.Second)
	}
	if plan.SplitLeaders && len(regions) == 2 {
		// make the two regions be led by different stores (the per-store
		// proposal counters then run side by side)
		for try := 0; try < 20; try++ {
			l1, _, ok1 := cl.Leader(1)
			l2, _, ok2 := cl.Leader(2)
			if ok1 && ok2 && l1 != l2 {
				break
			}
			if ok1 && ok2 {
				_ = cl.TransferLeader(2, (l1+1)%3)
			}
			time.Sleep(30 * time.Millisecond)
		}
	}

	var tsCounter atomic.Uint64
	tsCounter.Store(5)
	var done, answered atomic.Int64
	var opsMu sync.Mutex
	var leadersMu sync.Mutex
	noteLeader := func() {
		leadersMu.Lock()
		for _, r := range regions {
			if l, _, ok := cl.Leader(r.ID); ok {
				ls := tr.Leaders[r.ID]
				if len(ls) == 0 || ls[len(ls)-1] != l {
					tr.Leaders[r.ID] = append(ls, l)
				}
			}
		}
		leadersMu.Unlock()
	}
	noteLeader()
	dbg("leaders elected")

	var wg sync.WaitGroup
	for ci := 0; ci < plan.Clients; ci++ {
		crng := rand.New(rand.NewSource(rng.Int63()))
		wg.Add(1)
		go func(ci int, crng *rand.Rand) {
			defer wg.Done()
			belief := map[uint64]int{}
			epoch := map[uint64]*pb.RegionEpoch{} // what this client believes the region epochs are
			for _, r := range regions {
				epoch[r.ID] = Epoch()
			}
			for _, r := range regions {
				if l, _, ok := cl.Leader(r.ID); ok {
					belief[r.ID] = l
				} else {
					belief[r.ID] = crng.Intn(3)
				}
			}
			for n := 0; n < plan.OpsPerClient || (answered.Load() < int64(plan.MinAnswered) && n < 2*plan.OpsPerClient); n++ {
				reg := regions[crng.Intn(len(regions))].ID
				key := keyOf(reg, crng.Intn(plan.KeysPerReg))
				target := belief[reg]
				if crng.Intn(100) < plan.StrayPct {
					target = crng.Intn(3)
				}
				op := Op{Client: ci, Region: reg, Key: key, Store: target, Isolated: cl.Isolated(target)}
				var res CallResult
				if crng.Intn(100) < plan.WritePct {
					op.Kind = "write"
					op.Marker = fmt.Sprintf("m-c%d-n%d", ci, n)
					ts := tsCounter.Add(2)
					req := WriteRequest(reg, key, op.Marker, ts)
					req.Header.RegionEpoch = epoch[reg]
					op.Call = cl.Now()
					res = cl.Propose(target, req)
					op.Ret = cl.Now()
					op.Outcome, op.ErrText = classifyWrite(res)
					op.RequestID = req.GetHeader().GetRequestId()
					if op.Outcome == "ok" || op.Outcome == "failed" {
						op.Resp = res.Resp
						answered.Add(1)
					}
				} else {
					op.Kind = "read"
					req := ReadRequest(reg, key)
					req.Header.RegionEpoch = epoch[reg]
					op.Call = cl.Now()
					res = cl.Read(target, req)
					op.Ret = cl.Now()
					op.Outcome, op.ErrText, op.Value, op.Absent = classifyRead(res)
				}
				if op.Outcome == "epoch" {
					// like a real client: take the current epoch from the error
					en := res.Resp.GetRegionError().GetEpochNotMatch()
					if ce := en.GetCurrentEpoch(); ce != nil {
						epoch[reg] = &pb.RegionEpoch{Version: ce.GetVersion(), ConfVer: ce.GetConfVer()}
					}
					for _, m := range en.GetRegions() {
						if m.GetId() == reg {
							epoch[reg] = &pb.RegionEpoch{Version: m.GetEpochVersion(), ConfVer: m.GetEpochConfVersion()}
						}
					}
				}
				op.Inc = res.Incarnation
				// follow hints like a real client
				switch op.Outcome {
				case "not_leader":
					if l := res.Resp.GetRegionError().GetNotLeader().GetLeader(); l != nil && l.GetStoreId() >= 1 && l.GetStoreId() <= 3 {
						belief[reg] = int(l.GetStoreId()) - 1
					} else {
						belief[reg] = crng.Intn(3)
					}
				case "error", "down":
					belief[reg] = crng.Intn(3)
				case "ok", "failed":
					belief[reg] = target
				}
				opsMu.Lock()
				op.ID = len(tr.Ops)
				tr.Ops = append(tr.Ops, op)
				opsMu.Unlock()
				done.Add(1)
			}
		}(ci, crng)
	}

	// fault controller
	ctlDone := make(chan struct{})
	clientsDone := make(chan struct{})
	go func() {
		defer close(ctlDone)
		frng := rand.New(rand.NewSource(rng.Int63()))
		_ = frng
		probeN := 0
		for _, s := range plan.Steps {
			stallAt := time.Now().Add(4 * time.Second)
			stalled := false
			for done.Load() < int64(s.AfterOps) {
				select {
				case <-clientsDone:
					return
				default:
				}
				if time.Now().After(stallAt) {
					stalled = true
					break
				}
				noteLeader()
				time.Sleep(time.Millisecond)
			}
			if stalled {
				tr.StallHits++
				cl.Heal() // scheduling only: keep the workload moving
			}
			ev := FaultEvent{AtOps: done.Load(), Action: s.Action}
			reg := regions[s.Region%len(regions)].ID
			switch s.Action {
			case "partition-leader":
				if l, _, ok := cl.Leader(reg); ok {
					cl.Isolate(l)
					ev.Note = fmt.Sprintf("region %d leader store %d isolated", reg, l)
				} else {
					ev.Note = "no leader"
				}
			case "stale-read-probe":
				// A probing client of its own: write at the leader and cut the leader off
				// the moment the write is acknowledged (the followers hold the entry but
				// have not been told it is committed); as soon as another store claims
				// leadership read the key there (a fresh leader still draining its
				// backlog), write through it, and read at the cut-off old leader (which
				// may not have noticed yet). Every call is an ordinary history operation.
				l, _, ok := cl.Leader(reg)
				if !ok {
					ev.Note = "no leader"
					break
				}
				key := keyOf(reg, s.Store%plan.KeysPerReg)
				probeN++
				pc := plan.Clients // client id of the probe
				write := func(store int, tag string) Op {
					op := Op{Client: pc, Kind: "write", Region: reg, Key: key, Store: store, Isolated: cl.Isolated(store), Marker: fmt.Sprintf("m-probe%d-%s", probeN, tag)}
					req := WriteRequest(reg, key, op.Marker, tsCounter.Add(2))
					op.Call = cl.Now()
					res := cl.Propose(store, req)
					op.Ret = cl.Now()
					op.Outcome, op.ErrText = classifyWrite(res)
					op.RequestID = req.GetHeader().GetRequestId()
					op.Inc = res.Incarnation
					if op.Outcome == "ok" || op.Outcome == "failed" {
						op.Resp = res.Resp
						answered.Add(1)
					}
					return op
				}
				read := func(store int) Op {
					op := Op{Client: pc, Kind: "read", Region: reg, Key: key, Store: store, Isolated: cl.Isolated(store)}
					req := ReadRequest(reg, key)
					op.Call = cl.Now()
					res := cl.Read(store, req)
					op.Ret = cl.Now()
					op.Outcome, op.ErrText, op.Value, op.Absent = classifyRead(res)
					op.Inc = res.Incarnation
					return op
				}
				var probeOps []Op
				// the other stores apply slowly while the leader acknowledges a burst of
				// writes: whoever is elected next starts with committed, unapplied entries
				// (one of them only: a fresh leader with a slow state machine gets its quorum
				// acknowledgements from the quick store while its own backlog is still draining)
				slow := 0
				for i := range cl.Nodes {
					if i != l {
						if (probeN+slow)%2 == 0 {
							cl.SetApplyDelay(i, 25*time.Millisecond)
						}
						slow++
					}
				}
				cl.SetAsyncDelivery(true)
				// the burst is proposed concurrently (clients of their own), so the leader
				// replicates it in one or two appends and the followers hold several entries
				// they have not been told are committed when the leader is cut off
				burst := make([]Op, 4)
				var bwg sync.WaitGroup
				for bi := range burst {
					bwg.Add(1)
					go func(bi int) {
						defer bwg.Done()
						op := write(l, fmt.Sprintf("old-%c", 'a'+bi))
						op.Client = pc + 1 + bi
						burst[bi] = op
					}(bi)
				}
				bwg.Wait()
				w0 := burst[0]
				for _, op := range burst {
					if op.Outcome == "ok" {
						w0 = op
					}
				}
				cl.Isolate(l)
				// slow links among the remaining stores: the fresh leader's first entry takes a
				// few rounds to commit, so the read below is queued behind it inside raft
				cl.SetFaults(0, 0, 8)
				probeOps = append(probeOps, burst...)
				nl := -1
				for dl := time.Now().Add(3 * time.Second); nl < 0 && time.Now().Before(dl); {
					for i := range cl.Nodes {
						if i == l {
							continue
						}
						if st, ok := cl.Status(i, reg); ok && st.RaftState == myraft.StateLeader {
							nl = i
						}
					}
					if nl < 0 {
						time.Sleep(200 * time.Microsecond)
					}
				}
				if nl >= 0 {
					// how far behind the old leader is the fresh one when the read is issued?
					backlog := cl.AppliedOn(l, reg) - cl.AppliedOn(nl, reg)
					if backlog > 0 {
						tr.ProbeBacklogs++
					}
					atCut := cl.AppliedOn(l, reg)
					st0, _ := cl.Status(nl, reg)
					t0 := time.Now()
					r1 := read(nl)
					st1, _ := cl.Status(nl, reg)
					dbg(fmt.Sprintf("probe read at %d: before commit=%d applied=%d term=%d; after %v commit=%d applied=%d; store applied %d vs cut %d", nl, st0.Commit, st0.Applied, st0.Term, time.Since(t0), st1.Commit, st1.Applied, cl.AppliedOn(nl, reg), atCut))
					if r1.Outcome == "ok" && cl.AppliedOn(nl, reg) < atCut {
						// the read was answered while the fresh leader's state machine was still
						// behind what the old leader had acknowledged (legal only for other keys)
						tr.ProbeReadsServedBehind++
					}
					cl.SetAsyncDelivery(false)
					cl.SetFaults(0, 0, 0)
					for i := range cl.Nodes {
						cl.SetApplyDelay(i, 0)
					}
					w1 := write(nl, "new")
					r2 := read(l)
					probeOps = append(probeOps, r1, w1, r2)
					ev.Note = fmt.Sprintf("region %d key %s: old leader %d (write %s %s), new leader %d (backlog %d when the read was issued): read %s %q, write %s; read at old leader %s %q", reg, key, l, w0.Marker, w0.Outcome, nl, backlog, r1.Outcome, r1.Value, w1.Outcome, r2.Outcome, r2.Value)
					tr.Probes = append(tr.Probes, fmt.Sprintf("%s/%s/%s/%s", w0.Outcome, r1.Outcome, w1.Outcome, r2.Outcome))
				} else {
					ev.Note = fmt.Sprintf("region %d: store %d isolated, no new leader within the watchdog", reg, l)
				}
				cl.SetAsyncDelivery(false)
				cl.SetFaults(0, 0, 0)
				for i := range cl.Nodes {
					cl.SetApplyDelay(i, 0)
				}
				opsMu.Lock()
				for _, op := range probeOps {
					op.ID = len(tr.Ops)
					tr.Ops = append(tr.Ops, op)
				}
				opsMu.Unlock()
			case "isolate-follower":
				if l, _, ok := cl.Leader(reg); ok {
					f := (l + 1 + int(done.Load())%2) % 3
					cl.Isolate(f)
					ev.Note = fmt.Sprintf("region %d: follower store %d isolated (leader %d)", reg, f, l)
				} else {
					ev.Note = "no leader"
				}
			case "split":
				splitKey := []byte("k")
				if reg == 2 {
					splitKey = []byte("zzz")
				}
				err := cl.Split(reg, reg+10, splitKey)
				tr.Splits++
				ev.Note = fmt.Sprintf("region %d split at %q into %d and %d: err=%v", reg, splitKey, reg, reg+10, err)
			case "isolate-store":
				cl.Isolate(s.Store)
				ev.Note = fmt.Sprintf("store %d", s.Store)
			case "cut-oneway":
				cl.Cut(s.Store, (s.Store+1)%3)
				ev.Note = fmt.Sprintf("%d->%d", s.Store, (s.Store+1)%3)
			case "heal":
				cl.Heal()
			case "transfer-leader":
				if l, _, ok := cl.Leader(reg); ok {
					to := (l + 1 + s.Store%2) % 3
					err := cl.TransferLeader(reg, to)
					ev.Note = fmt.Sprintf("region %d: %d->%d err=%v", reg, l, to, err)
				}
			case "restart":
				err := cl.Restart(s.Store)
				tr.Restarts++
				ev.Note = fmt.Sprintf("store %d err=%v", s.Store, err)
				if err != nil {
					ev.Note += " (RESTART FAILED)"
				}
			case "net-faults":
				cl.SetFaults(s.Drop, s.Dup, s.Delay)
				ev.Note = fmt.Sprintf("drop=%.2f dup=%.2f delay<=%d", s.Drop, s.Dup, s.Delay)
			case "net-calm":
				cl.SetFaults(0, 0, 0)
			}
			tr.Faults = append(tr.Faults, ev)
			dbg(fmt.Sprintf("fault %s %s at %d ops", ev.Action, ev.Note, ev.AtOps))
			noteLeader()
		}
		calmed := false
		for {
			select {
			case <-clientsDone:
				return
			default:
			}
			if !calmed && done.Load() >= int64(plan.Clients*plan.OpsPerClient) {
				// planned calls are over; any extra calls (made only to reach
				// the answered-proposal floor) run on a calm, healed network
				cl.Heal()
				cl.SetFaults(0, 0, 0)
				calmed = true
			}
			noteLeader()
			time.Sleep(2 * time.Millisecond)
		}
	}()
	wg.Wait()
	close(clientsDone)
	<-ctlDone

	dbg("clients done")
	// quiesce: heal, calm network, everything up
	cl.Heal()
	cl.SetFaults(0, 0, 0)
	for i := range cl.Nodes {
		if _, ok := cl.Status(i, regions[0].ID); !ok {
			_ = cl.Start(i)
		}
	}
	tr.CaughtUp = cl.WaitCaughtUp(caughtUpWatchdog)
	dbg(fmt.Sprintf("caught up=%v", tr.CaughtUp))
	noteLeader()
	tr.Seqs = cl.Sequences()
	tr.Net = cl.NetStats()
	sort.Slice(tr.Ops, func(i, j int) bool { return tr.Ops[i].Call < tr.Ops[j].Call })
	for i := range tr.Ops {
		tr.Ops[i].ID = i
	}
	tr.WallMs = time.Since(start).Milliseconds()
	return tr
}

// Fingerprint summarises what a run exercised (for distinct_nontrivial).
func (t *Trace) Fingerprint() string {
	var sb strings.Builder
	var regs []uint64
	for r := range t.Leaders {
		regs = append(regs, r)
	}
	sort.Slice(regs, func(i, j int) bool { return regs[i] < regs[j] })
	for _, r := range regs {
		fmt.Fprintf(&sb, "r%d:%v;", r, t.Leaders[r])
	}
	for _, f := range t.Faults {
		sb.WriteString(f.Action + ",")
	}
	return sb.String()
}
