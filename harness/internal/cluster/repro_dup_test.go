package cluster

import (
	"math/rand"
	"testing"
	"time"

	"verif/harness/internal/dbx"
)

// Forwarded proposal + duplicating network => command applied twice everywhere.
func TestReproForwardedProposalDuplicated(t *testing.T) {
	cfg := dbx.Config{Engine: "skiplist", ValueThreshold: 1024, Buckets: 1, VlogFileSize: 1 << 20, ManifestRewrite: 64 << 20, Controlled: true, MemTableSize: 4 << 20, L0Tables: 1000}
	cl, err := New(Options{Dir: t.TempDir(), Stores: 3, Regions: []RegionSpec{{ID: 1}}, Rng: rand.New(rand.NewSource(1)), DB: cfg})
	if err != nil {
		t.Fatal(err)
	}
	defer cl.Close()
	var leader int
	for i := 0; i < 2000; i++ {
		if l, _, ok := cl.Leader(1); ok {
			leader = l
			break
		}
		time.Sleep(2 * time.Millisecond)
	}
	follower := (leader + 1) % 3
	cl.SetFaults(0, 1.0, 0) // every message is delivered twice
	req := WriteRequest(1, "a-key-0", "marker-1", 10)
	req.Header.RequestId = 777
	req.Header.PeerId = PeerID(1, follower)
	if err := cl.SendCommandRaw(follower, 1, req); err != nil {
		t.Fatal(err)
	}
	time.Sleep(300 * time.Millisecond)
	cl.SetFaults(0, 0, 0)
	cl.WaitCaughtUp(5 * time.Second)
	for k, seq := range cl.Sequences() {
		var ms []string
		for _, r := range seq {
			ms = append(ms, r.Marker)
		}
		t.Logf("%s applied %v", k, ms)
	}
}
