package cluster

import (
	"fmt"
	"strings"
)

// Counter is the part of core.Case the shared coverage counters need.
type Counter interface {
	Count(name string, n int)
	Max(name string, v int)
}

// Observe records the coverage counters shared by C22 and C23.
func Observe(c Counter, tr *Trace) {
	c.Count("cluster_runs", 1)
	c.Count("client_ops", len(tr.Ops))
	c.Count("restarts", tr.Restarts)
	c.Count("stall_fallbacks", tr.StallHits)
	c.Count("net.sent", int(tr.Net.Sent))
	c.Count("net.delivered", int(tr.Net.Delivered))
	c.Count("net.dropped_random", int(tr.Net.DroppedRandom))
	c.Count("net.dropped_partition", int(tr.Net.DroppedPartition))
	c.Count("net.dropped_down", int(tr.Net.DroppedDown))
	c.Count("net.duplicated", int(tr.Net.Duplicated))
	c.Count("net.delayed", int(tr.Net.Delayed))
	c.Count("net.reordered", int(tr.Net.Reordered))
	for _, f := range tr.Faults {
		c.Count("fault."+f.Action, 1)
	}
	changes := 0
	for _, ls := range tr.Leaders {
		changes += len(ls) - 1
	}
	c.Count("leader_changes_observed", changes)
	c.Max("leader_changes_in_one_run", changes)
	total := 0
	for k, s := range tr.Seqs {
		total += len(s)
		if k.Incarnation > 1 {
			c.Count("commands_replayed_or_applied_after_restart", len(s))
		}
	}
	c.Count("command_applications_recorded", total)
	for _, op := range tr.Ops {
		if op.Outcome == "error" {
			txt := strings.Map(func(r rune) rune {
				if r >= '0' && r <= '9' {
					return -1
				}
				return r
			}, op.ErrText)
			if len(txt) > 60 {
				txt = txt[:60]
			}
			c.Count("error_text."+op.Kind+": "+txt, 1)
		}
	}
	c.Count("runs_regions_"+fmt.Sprint(tr.Plan.Regions), 1)
	c.Max("run_wall_ms", int(tr.WallMs))
}
